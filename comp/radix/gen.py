"""Script generator for rcu_radixtree (C09, radix part of C16).
Ops:  f k (find) | o k v (find_or_insert) | i k v (insert) | e k (find + erase + caller destroys) | it (iterate)
Aimed at the case splits of the proofs: key pairs that first differ at each of the 16 nibble positions
(position 0 = most significant included), dense runs inside one leaf, 0 and 2^64-1, arrival orders that
force a split above / at / below the current root, erase + re-insert (slot reuse), iteration over leaves
emptied by erase."""
import itertools

M64 = (1 << 64) - 1

def nib_shift(pos):           # pos 0 = most significant nibble
    return 60 - 4 * pos

def differ_at(rng, base, pos):
    """a key equal to base on nibbles < pos, different at pos, random below"""
    sh = nib_shift(pos)
    nb = (base >> sh) & 0xF
    other = rng.choice([x for x in range(16) if x != nb])
    hi = base & ~((1 << (sh + 4)) - 1) & M64
    lo = rng.getrandbits(sh) if sh and rng.random() < 0.5 else base & ((1 << sh) - 1)
    return hi | (other << sh) | lo

def universe(rng, family=None):
    family = family or rng.choice(["pairs", "dense", "extremes", "chain", "random", "mixed", "topnibble"])
    base = rng.choice([0, M64, rng.getrandbits(64), rng.getrandbits(64) & 0xFFFF, rng.getrandbits(64) | (0xF << 60)])
    ks = [base]
    if family in ("pairs", "mixed"):
        for pos in rng.sample(range(16), rng.randint(2, 16)):
            ks.append(differ_at(rng, rng.choice(ks), pos))
    if family in ("dense", "mixed"):
        b = rng.choice(ks) & ~0xF & M64
        ks += [b | i for i in rng.sample(range(16), rng.randint(3, 16))]
        if rng.random() < 0.5:
            b2 = differ_at(rng, b, 14) & ~0xF & M64          # sibling leaf
            ks += [b2 | i for i in rng.sample(range(16), rng.randint(1, 6))]
    if family in ("extremes", "mixed"):
        ks += [0, M64, 1, M64 - 1, 1 << 63, (1 << 63) - 1, 0xF, 0x10, 1 << 60, (1 << 60) - 1, 0xF << 60]
    if family == "chain":
        # a, then keys that split at strictly decreasing or increasing depth: above / below the root
        order = list(range(16)); rng.shuffle(order)
        a = base
        for pos in order[:rng.randint(3, 16)]:
            ks.append(differ_at(rng, a, pos))
    if family == "topnibble":
        for nb in rng.sample(range(16), rng.randint(2, 16)):
            ks.append((base & ((1 << 60) - 1)) | (nb << 60))
        ks.append(differ_at(rng, base, 0)); ks.append(differ_at(rng, base, 1))
    if family == "random":
        ks += [rng.getrandbits(64) for _ in range(rng.randint(4, 40))]
    out = []
    for k in ks:
        if k not in out:
            out.append(k & M64)
    return family, out

def gen_case(rng, n_ops, family=None, bad_end=None):
    fam, uni = universe(rng, family)
    lines = []
    present = set()
    phase = rng.choice(["grow", "mixed", "churn"])
    for _ in range(n_ops):
        if phase == "grow":
            w = [0.35, 0.3, 0.05, 0.2, 0.1]
        elif phase == "churn":
            w = [0.2, 0.2, 0.35, 0.15, 0.1]
        else:
            w = [0.25, 0.2, 0.2, 0.25, 0.1]
        o = rng.choices(["o", "i", "e", "f", "it"], w)[0]
        if o == "o":
            k = rng.choice(uni)
            present.add(k); lines.append("o %#x %d" % (k, rng.randrange(1, 1000)))
        elif o == "i":
            cand = [k for k in uni if k not in present]
            if not cand:
                continue
            k = rng.choice(cand)
            present.add(k); lines.append("i %#x %d" % (k, rng.randrange(1, 1000)))
        elif o == "e":
            if not present:
                continue
            k = rng.choice(sorted(present))
            present.discard(k); lines.append("e %#x" % k)
        elif o == "f":
            r = rng.random()
            if r < 0.5 and present:
                k = rng.choice(sorted(present))
            elif r < 0.8:
                k = rng.choice(uni)
            elif r < 0.9:
                k = differ_at(rng, rng.choice(uni), rng.randrange(16))
            else:
                k = rng.getrandbits(64)
            lines.append("f %#x" % k)
        else:
            lines.append("it")
        if rng.random() < 0.03:
            phase = rng.choice(["grow", "mixed", "churn"])
    lines.append("it")
    bad_end = rng.random() < 0.06 if bad_end is None else bad_end
    if bad_end:   # documented precondition violated: both sides must stop in FRG_ASSERT
        if present and rng.random() < 0.5:
            lines.append("i %#x 7" % rng.choice(sorted(present)))
        else:
            absent = [k for k in uni if k not in present] or [differ_at(rng, uni[0], 15)]
            absent = [k for k in absent if k not in present]
            if absent:
                lines.append("e %#x" % rng.choice(absent))
    return fam, lines

ASSERT_SHAPES = ["erase_empty", "erase_null_link", "erase_leaf_other_prefix_shared_nibble", "erase_rootleaf_other_prefix_shared_nibble",
                 "erase_leaf_other_prefix_no_shared_nibble", "erase_inner_other_prefix", "erase_right_leaf_bit_clear",
                 "erase_erased_key", "insert_present"]

def set_nibble(k, pos, nb):
    sh = nib_shift(pos)
    return (k & ~(0xF << sh) & M64) | (nb << sh)

def gen_assert_case(rng, shape=None):
    """assertion-path stream: a valid history, then ONE call that violates a documented precondition (erase of an absent
    key of a chosen shape, insert of a present key).  Real code and model must both stop in the assertion; the harness then
    re-checks that nothing changed (oracle kind assert-path-damage)."""
    shape = shape or rng.choice(ASSERT_SHAPES)
    a = rng.choice([rng.getrandbits(64), rng.getrandbits(64) & 0xFFFFFF, 0, M64, rng.getrandbits(64) | (0xF << 60)])
    lines, present = [], []
    def ins(k):
        if k not in present:
            present.append(k); lines.append(rng.choice(["i", "o"]) + " %#x %d" % (k, rng.randrange(1, 1000)))
    if shape == "erase_empty":
        if rng.random() < 0.5:           # emptied rather than never used: nodes exist, all bits clear
            ins(a); lines.append("e %#x" % a); present.remove(a)
            bad = rng.choice([a, differ_at(rng, a, rng.randrange(16))])
        else:
            bad = a
        lines.append("e %#x" % bad)
        return shape, lines
    p = rng.randrange(0, 14)             # a and b first differ at nibble p: a's leaf hangs below an inner node of depth p
    b = differ_at(rng, a, p)
    if shape == "erase_rootleaf_other_prefix_shared_nibble":
        ins(a)
        for i in rng.sample(range(16), rng.randint(0, 4)):
            ins(set_nibble(a, 15, i))
        q = rng.randrange(0, 15)
        bad = a ^ (rng.randrange(1, 16) << nib_shift(q))
    else:
        first, second = (a, b) if rng.random() < 0.5 else (b, a)
        ins(first); ins(second)
        for i in rng.sample(range(16), rng.randint(0, 3)):
            ins(set_nibble(a, 15, i))
        if rng.random() < 0.4:
            ins(differ_at(rng, b, rng.randrange(p + 1, 16)))
        if shape == "erase_null_link":
            free = [x for x in range(16) if all(((k >> nib_shift(p)) & 0xF) != x for k in present)]
            bad = set_nibble(a, p, rng.choice(free)) if free else differ_at(rng, a, p)
        elif shape == "erase_leaf_other_prefix_shared_nibble":
            q = rng.randrange(p + 1, 15)
            bad = a ^ (rng.randrange(1, 16) << nib_shift(q))          # same low nibble as the present key a
        elif shape == "erase_leaf_other_prefix_no_shared_nibble":
            q = rng.randrange(p + 1, 15)
            freeb = [x for x in range(16) if set_nibble(a, 15, x) not in present]
            bad = set_nibble(a ^ (rng.randrange(1, 16) << nib_shift(q)), 15, rng.choice(freeb) if freeb else (a & 0xF))
        elif shape == "erase_inner_other_prefix":
            if p == 0:
                p2 = rng.randrange(1, 14); c = differ_at(rng, a, p2); ins(c)   # inner node of depth p2 below the root
                q = rng.randrange(1, p2 + 1) if p2 > 1 else 1
                bad = set_nibble(a, rng.randrange(1, p2), (((a >> nib_shift(1)) & 0xF) + 1) % 16) if p2 > 1 else differ_at(rng, a, 15)
            else:
                q = rng.randrange(0, p)
                bad = a ^ (rng.randrange(1, 16) << nib_shift(q))
        elif shape == "erase_right_leaf_bit_clear":
            freeb = [x for x in range(16) if set_nibble(a, 15, x) not in present]
            bad = set_nibble(a, 15, rng.choice(freeb)) if freeb else differ_at(rng, a, 14)
        elif shape == "erase_erased_key":
            bad = rng.choice(present); lines.append("e %#x" % bad); present.remove(bad)
        else:
            bad = None
    if rng.random() < 0.5:
        lines.append("it")
    if shape == "insert_present":
        lines.append("i %#x 7" % rng.choice(present))
    else:
        if bad in present:               # the construction collided with a present key: fall back to a plain absent neighbour
            bad = next(k for k in (differ_at(rng, a, 15) for _ in range(64)) if k not in present)
        lines.append("e %#x" % bad)
    return shape, lines

def corpus():
    """minimised past failures first"""
    c = []
    # D03: pfx_of(k, 0) shifts by 64.  Two keys differing in the top nibble; the older one becomes unfindable.
    c.append(("corpus-d03-a", ["i 0x5 1", "i 0x1000000000000005 2", "f 0x5", "f 0x1000000000000005", "it"]))
    c.append(("corpus-d03-b", ["o 0x5 1", "o 0x1000000000000005 2", "o 0x2000000000000005 3", "f 0x5", "it"]))
    c.append(("corpus-d03-c", ["i 0xffffffffffffffff 1", "i 0 2", "f 0", "f 0xffffffffffffffff", "it", "e 0", "it"]))
    # one pair per first-differing nibble position
    for pos in range(16):
        a = 0x123456789abcdef0
        b = a ^ (0x5 << nib_shift(pos))
        c.append(("corpus-pos%d" % pos, ["i %#x 1" % a, "i %#x 2" % b, "f %#x" % a, "f %#x" % b, "it", "e %#x" % a, "it",
                                         "i %#x 3" % a, "it"]))
    # assertion paths (a seeded change moved erase's prefix assertion into the inner-node branch: a leaf's prefix was then
    # never compared and "e 0x15" below silently cleared key 0x5's bit)
    c.append(("corpus-assert-rootleaf-shared-nibble", ["i 0x5 1", "it", "e 0x15"]))
    c.append(("corpus-assert-leaf-shared-nibble", ["i 0x1000000000000005 1", "i 0x2000000000000005 2", "e 0x1000000000000105"]))
    c.append(("corpus-assert-leaf-no-shared-nibble", ["i 0x1000000000000005 1", "i 0x2000000000000005 2", "e 0x1000000000000106"]))
    c.append(("corpus-assert-inner-prefix", ["i 0x1200000000000005 1", "i 0x1300000000000005 2", "e 0x2200000000000005"]))
    c.append(("corpus-assert-null-link", ["i 0x1000000000000005 1", "i 0x2000000000000005 2", "e 0x3000000000000005"]))
    c.append(("corpus-assert-empty", ["e 0x5"]))
    c.append(("corpus-assert-bit-clear", ["i 0x5 1", "e 0x6"]))
    c.append(("corpus-assert-erased", ["i 0x5 1", "e 0x5", "e 0x5"]))
    c.append(("corpus-assert-insert-present", ["i 0x5 1", "o 0x15 2", "i 0x5 3"]))
    return c

def exhaustive_small(max_len=3):
    """all op sequences up to max_len over a 6-key universe hitting depth 0, depth 14/15 and the extremes"""
    keys = [0, 1, 0x10, 1 << 60, M64, M64 - 0xF]
    ops = []
    for k in keys:
        ops += ["o %#x 1" % k, "e %#x" % k]
    out = []
    n = 0
    for L in range(1, max_len + 1):
        for seq in itertools.product(ops, repeat=L):
            present = set(); ok = True; lines = []
            for o in seq:
                k = int(o.split()[1], 16)
                if o[0] == "e":
                    if k not in present:
                        ok = False; break
                    present.discard(k)
                else:
                    present.add(k)
                lines.append(o)
            if ok:
                out.append(("x%d" % n, lines + ["it"] + ["f %#x" % k for k in keys])); n += 1
    return out
