(* driver for the extracted radix-tree model: same scripts and canonical lines as comp/radix/harness.cpp.
   Ops:  f k | o k v | i k v | e k | it      (keys/values decimal or 0x hex)
   Lines per op: result line, "e ..." lifetime/allocation events of the op, "r <root>", then one
   "n ..." line for every node whose printed form changed since the previous op (both sides start
   from the empty tree, so printing the changed lines is as tight as printing the whole graph).
   At the end of the case: the complete graph, then the destructor's events. *)
let esz = n_of_i64 1L and lsz = n_of_i64 2L
let so = function None -> "-" | Some i -> string_of_int (int_of_nat i)
let show_node id nd = match nd with
  | Link (p, d, par, ls) ->
    Printf.sprintf "n %d L %s %s %s %s" id (string_of_n p) (string_of_n d) (so par) (String.concat " " (List.map so ls))
  | Entry (p, d, par, m, sl) ->
    let sls = List.concat (List.mapi (fun i s -> match s with None -> [] | Some v -> [Printf.sprintf "%d=%s" i (string_of_n v)]) sl) in
    Printf.sprintf "n %d E %s %s %s %s [%s]" id (string_of_n p) (string_of_n d) (so par) (string_of_n m) (String.concat " " sls)
let show_ev e =
  let kind sz = if i64_of_n sz = 1L then "entry" else if i64_of_n sz = 2L then "link" else "?" in
  match e with
  | EAlloc (b, sz) -> Printf.sprintf "e alloc %d %s" (int_of_nat b) (kind sz)
  | EDealloc (b, sz) -> Printf.sprintf "e dealloc %d %s" (int_of_nat b) (kind sz)
  | EFree b -> Printf.sprintf "e free %d" (int_of_nat b)
  | EConstruct (b, i) -> Printf.sprintf "e construct %d %d" (int_of_nat b) (int_of_nat i)
  | EDestroy (b, i) -> Printf.sprintf "e destroy %d %d" (int_of_nat b) (int_of_nat i)
  | EUse (b, i) -> Printf.sprintf "e use %d %d" (int_of_nat b) (int_of_nat i)
let show_addr (n, i) = Printf.sprintf "%d %s" (int_of_nat n) (string_of_n i)
let show_stop = function
  | AssertStop _ -> "assert"
  | UB UShift -> "ub shift"
  | UB _ -> "ub other"
  | OutOfFuel -> "outoffuel"
  | Ok _ -> "ok"

let body lines =
  let s = ref st0 in
  let shown : (int, string) Hashtbl.t = Hashtbl.create 64 in
  let nev = ref 0 in
  let print_events st =
    let l = List.rev st.rlog in
    List.iteri (fun i e -> if i >= !nev then print_endline (show_ev e)) l;
    nev := List.length l in
  let dump st full =
    print_endline ("r " ^ so st.root);
    List.iteri (fun id nd ->
      let t = show_node id nd in
      if full || (try Hashtbl.find shown id <> t with Not_found -> true) then begin
        print_endline t; Hashtbl.replace shown id t end) st.nodes in
  let stopped = ref false in
  List.iter (fun l ->
    if not !stopped then begin
    let o = match words l with
      | ["f"; k] -> Some (OFind (n_of_string k))
      | ["o"; k; v] -> Some (OFoi (n_of_string k, n_of_string v))
      | ["i"; k; v] -> Some (OInsert (n_of_string k, n_of_string v))
      | ["e"; k] -> Some (OErase (n_of_string k))
      | ["it"] -> Some OIter
      | _ -> None in
    match o with
    | None -> ()
    | Some o ->
      (match step_op esz lsz !s o with
       | Ok (s', r) ->
         s := s';
         print_endline (match r with
           | RPtr None -> "p none"
           | RPtr (Some a) -> "p " ^ show_addr a
           | RFoi (a, b) -> "o " ^ show_addr a ^ (if b then " 1" else " 0")
           | RUnit -> "u"
           | RSeq l -> "s" ^ String.concat "" (List.map (fun a -> " " ^ show_addr a) l));
         print_events s'; dump s' false
       | x -> print_endline (show_stop x); stopped := true)
    end) lines;
  if not !stopped then begin
    print_endline "final"; dump !s true;
    match destructor esz lsz !s with
    | Ok s' -> print_endline "d"; print_events s'
    | x -> print_endline ("d " ^ show_stop x)
  end

let () = run_cases body
