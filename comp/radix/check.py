"""radix component: builds model driver + harness, generates cases, runs legs C and O into the given Check.
Used by checks/c09.py (functional kinds) and checks/c16_radix.py / the coordinator's c16.py (lifetime kinds)."""
import os, sys
import vlib
from comp.radix import gen

RULE = ("seeded op scripts (find / find_or_insert / insert / erase+reclaim / iterate) over key universes built from: pairs first "
        "differing at each of the 16 nibble positions (position 0 included), dense runs in one leaf and a sibling leaf, 0 / 2^64-1 / "
        "2^63 / 2^60 boundaries, chains of splits above and below the root, random keys; after every op the whole node graph "
        "(prefix, depth, parent, 16 links, mask, constructed slots) by allocation order, every returned pointer as (node#, idx), "
        "and the lifetime/allocation events are compared with the model; plus an assertion-path stream (one erase of an absent key "
        "of each shape -- empty tree, null link, leaf with another prefix with/without a shared low nibble, inner node with another "
        "prefix, right leaf with the bit clear, already erased key -- or insert of a present key per script: both sides must stop in "
        "the assertion and nothing may have changed); non-trivial = distinct script with at least one prefix "
        "split (link node allocated) and at least one erase")
TRUSTED = ["extraction: ExtrOcamlBasic only; OCaml 4.13.1; comp/radix/driver.ml",
           "correspondence harness comp/radix/harness.cpp (g++ -fsanitize=address,undefined, -fno-access-control)",
           "oracle: std::map<uint64_t, value*>, std::map<uint64_t, Bag> for the constructor form (value-ctor), UBSan/ASan, "
           "lifetime/allocation registries in lib/vharness.hpp",
           "translator/gen_radix.py (clang JSON AST -> Gen/RadixOrders.v); translator/gen_cxxleaf.py + CxxLeaf/Tie_radix.v for pfx_of/idx_of",
           "modelled, not verified: value-initialisation of fresh nodes (all fields zero); memory orders are carried by the "
           "micro-steps and tied to the source by Gen/RadixOrders.v but have no sequential meaning (C10)"]
ASSUMPTIONS = ["single writer, no concurrent readers (C10 covers readers)",
               "insert only of absent keys, erase only of present keys (the code asserts both; scripts violating it must stop in FRG_ASSERT)",
               "erase protocol: the caller destroys the erased value (pointer kept from find) before the key is inserted again",
               "the value stored for a key is a function of the constructor arguments only, not of the insertion case (the model's "
               "MConstruct carries the value abstractly in all three cases); checked on the real code by the harness's second "
               "instantiation rcu_radixtree<Bag> (initializer_list constructor, two-argument insert/find_or_insert) against a "
               "std::map<uint64_t, Bag> built with T{args...}, the form the header uses in all three cases (oracle kind value-ctor)"]

def nontrivial(cid, lines, ri):
    if any(l.startswith("e alloc") and l.endswith("link") for l in ri["lines"]) and any(l.startswith("e ") for l in lines):
        return "|".join(lines)
    return None

def regen(c):
    """source-derived facts: memory orders/positions of the atomic accesses (translator/gen_radix.py -> Gen/RadixOrders.v)"""
    rc, o, e = vlib.sh([sys.executable, os.path.join(vlib.ROOT, "translator", "gen_radix.py")], timeout=600)
    ok, detail = rc == 0, (o + e)[-400:]
    if ok:
        ok, log = vlib.coq_make(["Gen/RadixOrders.vo"])
        if not ok:
            detail = log[-600:]
    c.gen_obligation("Gen/RadixOrders.v (memory orders and positions of the atomic accesses of find / find_or_insert / erase "
                     "= those of the model's micro-step programs)", ok, "" if ok else detail)

def run(c):
    regen(c)
    okm, mlog = vlib.coq_make(["Radix/RadixExtract.vo"])
    okd, drv, dlog = vlib.ocaml_build("radix_m", ["radix_model"], os.path.join(vlib.ROOT, "comp/radix/driver.ml"))
    okh, har, hlog = vlib.cxx_build("radix_h", os.path.join(vlib.ROOT, "comp/radix/harness.cpp"))
    if not (okm and okd):
        c.broken.append("radix model extraction/driver build failed: " + (mlog[-600:] if not okm else dlog[-600:]))
    if not okh:
        c.broken.append("radix harness does not compile against the repo: " + hlog[-1500:])
        return False
    if c.replay:
        cases = vlib.read_replay(c.replay)
    else:
        cases = gen.corpus()
        n = 500 if c.tier == "quick" else 5000
        for i in range(n):
            fam, ls = gen.gen_case(c.rng, c.rng.choice([6, 15, 40, 100, 250]))
            c.count("radix_family_" + fam)
            cases.append(("g%d" % i, ls))
        na = 250 if c.tier == "quick" else 2500          # assertion-path stream: one precondition-violating call per script
        for i in range(na):
            shape, ls = gen.gen_assert_case(c.rng, gen.ASSERT_SHAPES[i % len(gen.ASSERT_SHAPES)])
            c.count("radix_assert_path_" + shape)
            cases.append(("a%d" % i, ls))
        if c.tier == "thorough":
            cases += gen.exhaustive_small(3)
    for _, ls in cases:
        c.count("radix_ops", len(ls))
        for l in ls:
            c.count("radix_op_" + l.split()[0])
    impl = vlib.run_cases(har, cases)
    model = vlib.run_cases(drv, cases) if okd else {}
    for cid, ls in cases:
        ri = impl.get(cid)
        if ri:
            c.count("radix_link_nodes", sum(1 for l in ri["lines"] if l.startswith("e alloc") and l.endswith("link")))
            c.count("radix_entry_nodes", sum(1 for l in ri["lines"] if l.startswith("e alloc") and l.endswith("entry")))
            c.count("radix_assert_stops", sum(1 for l in ri["lines"] if l == "assert"))
            for l in ri["lines"]:
                if l.startswith("n ") and " L " in l:
                    c.count("radix_split_depth_%s" % l.split()[4])
    c.compare(cases, impl, model, nontrivial)
    return True
