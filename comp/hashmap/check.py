"""hash_map component: builds model driver + harness, generates cases, runs legs C and O into the given Check.
Used by checks/c14.py (functional kinds) and checks/c16.py (lifetime/allocation kinds)."""
import os
import vlib
from comp.hashmap import gen

def crossed_rehash(cid, lines, ri):
    n_ins = sum(1 for l in lines if l[0] in "ix")
    if n_ins <= 10:
        return None
    return ("|".join(lines))   # distinct script that crossed at least one rehash

RULE = ("seeded op scripts (insert/operator[]=/get+find/remove/iterate/size) over 5 hash functions returning 64-bit values "
        "(identity, constant, mod 3, frg::hash<uint64_t>, k>>28; the first and last exceed 2^32) and key spaces 8..2^40 plus 2^32, 2^63, 2^64-1, biased to "
        "cross rehash thresholds; non-trivial = distinct script with more than 10 insertions (>= 1 rehash beyond the first)")
TRUSTED = ["extraction: ExtrOcamlBasic only; OCaml 4.13.1; comp/hashmap/driver.ml (hash functions re-implemented in OCaml)",
           "correspondence harness comp/hashmap/harness.cpp (g++ -fsanitize=address,undefined, -fno-access-control)",
           "oracle: std::unordered_map, lifetime/allocation registries in lib/vharness.hpp",
           "modelled, not verified: chain pointers as lists, placement new/destroy (checked by the registries)"]

def run(c):
    """legs C and O for hash_map; returns False if the harness could not be built."""
    okm, _ = vlib.coq_make(["HashMap/HashMapExtract.vo"])
    okd, drv, dlog = vlib.ocaml_build("hashmap_m", ["hashmap_model"], os.path.join(vlib.ROOT, "comp/hashmap/driver.ml"))
    okh, har, hlog = vlib.cxx_build("hashmap_h", os.path.join(vlib.ROOT, "comp/hashmap/harness.cpp"))
    if not (okm and okd):
        c.broken.append("hashmap model extraction/driver build failed: " + dlog[-500:])
    if not okh:
        c.broken.append("hashmap harness does not compile against /repo: " + hlog[-1500:])
        return False
    if c.replay:
        cases = vlib.read_replay(c.replay)
    else:
        cases = gen.corpus()
        n = 600 if c.tier == "quick" else 6000
        for i in range(n):
            cases.append(("g%d" % i, gen.gen_case(c.rng, c.rng.choice([12, 30, 60, 150, 400]))))
        if c.tier == "thorough":
            cases += gen.exhaustive_small(4)
    for _, ls in cases:
        c.count("hashmap_ops", len(ls)); c.count("hashmap_hash_kind_" + ls[0].split()[-1])
    # the model is parametric in sizeof(chain *) and sizeof(chain); measure them on the real code
    rc, so, _ = vlib.sh([har, "--sizes"], timeout=60)
    sizes = so.split()
    if rc != 0 or len(sizes) != 2:
        c.broken.append("hashmap harness --sizes failed")
        return False
    c.extra["hashmap_sizeof_chain_ptr"], c.extra["hashmap_sizeof_chain"] = int(sizes[0]), int(sizes[1])
    impl = vlib.run_cases(har, cases)
    model = vlib.run_cases(drv, cases, args=sizes) if okd else {}
    if not c.pid.startswith("C16"):
        # allocator/lifetime event lines ("e ...", "dtor") are the C16 tie; other properties compare the results only
        for res in (impl, model):
            for r in res.values():
                r["lines"] = [l for l in r["lines"] if not (l == "e" or l.startswith("e ") or l == "dtor")]
    else:
        for r in impl.values():
            for l in r["lines"]:
                if l.startswith("e "):
                    c.count("hashmap_events", len(l.split()) - 1)
    c.compare(cases, impl, model, crossed_rehash)
    return True
