"""hash_map component: builds model driver + harness, generates cases, runs legs C and O into the given Check.
Used by checks/c14.py (functional kinds) and checks/c16.py (lifetime/allocation kinds)."""
import os
import random
import vlib
from comp.hashmap import gen

def crossed_rehash(cid, lines, ri):
    n_ins = sum(1 for l in lines if l[0] in "ix")
    if n_ins <= 10:
        return None
    return ("|".join(lines))   # distinct script that crossed at least one rehash

RULE = ("seeded op scripts (insert/operator[]=/get+find/remove/iterate/size) over 5 hash functions returning 64-bit values "
        "(identity, constant, mod 3, frg::hash<uint64_t>, k>>28; the first and last exceed 2^32) selected by the STATE of the hasher "
        "object, which the script re-seeds after the map copied it (op reseed) or which is a temporary (15 % of the cases), plus the "
        "instantiation hash_map<int64_t, V, frg::hash<int64_t>> with mostly negative keys that fit 32/16/8 bits, every get() repeated "
        "with the key as long, int, short, signed char where it fits (all must return the node get(Key) returns), and the instantiation "
        "hash_map<Base2*, V, frg::hash<Base2*>> over a pool of Derived : Base1, Base2 objects at a fixed address, every get() repeated with a "
        "Derived* (and pointers to const where the hasher accepts them); every successful get and every iteration is repeated through "
        "find() const / const_iterator::operator++ / end() const and compared with the mutable walk; "
        "key spaces 8..2^40 plus 2^32, 2^63, 2^64-1, biased to "
        "cross rehash thresholds; non-trivial = distinct script with more than 10 insertions (>= 1 rehash beyond the first). "
        "POINTER-LEVEL model (coq/HashMap/HashMapPtr.v, proved to refine the chain-level model): the same scripts; compared with the "
        "real code after EVERY op: the result line, the raw object (_table block id, _capacity, _size, per bucket the chain of "
        "(node block id, key, value) read through -fno-access-control) and, under C16, the allocator/lifetime event line; plus RAW "
        "scripts (real code vs. pointer-level model only): the same ops and the private rehash() called directly at any load, so "
        "that it also runs where the new capacity is not a multiple of the old one and old buckets merge; raw non-trivial = "
        "distinct raw script with >= 1 direct rehash() of >= 3 entries to a capacity that is not a multiple of the old")
TRUSTED = ["extraction: ExtrOcamlBasic only; OCaml 4.13.1; comp/hashmap/driver.ml (hash functions re-implemented in OCaml)",
           "correspondence harness comp/hashmap/harness.cpp (g++ -fsanitize=address,undefined, -fno-access-control)",
           "oracle: std::unordered_map, lifetime/allocation registries in lib/vharness.hpp",
           "comp/hashmap/driver_ptr.ml (pointer-level model driver; re-tabulates the model's node heap over the allocated ids after every op)",
           "transliteration of hash_map.hpp into coq/HashMap/HashMapPtr.v (assignment by assignment, by hand): tied to the source by the "
           "comparison of the raw table (block ids, keys, values, chain order of every bucket) after every op; the refinement pointer-level "
           "-> chain-level model is PROVED (Properties_C14_ptr.v), no longer trusted",
           "modelled, not verified: placement new/destroy (checked by the registries)"]

def _keep(pid):
    """which lines of a run take part in the comparison under property pid"""
    if pid.startswith("C16"):
        return lambda l: True
    # allocator/lifetime event lines ("e ...", "dtor") are the C16 tie; other properties compare the results only
    return lambda l: not (l == "e" or l.startswith("e ") or l == "dtor")

def run_ptr(c, drvp, cases, impl, impl_full, sizes):
    """POINTER-LEVEL model (coq/HashMap/HashMapPtr.v): the same cases (implementation results reused); compared are the
    result lines, (under C16) the event lines, and the raw table line after every op."""
    pm = vlib.run_cases(drvp, cases, args=sizes)
    keep = _keep(c.pid)
    for cid, lines in cases:
        ri, rm = impl.get(cid), pm.get(cid)
        if ri is None or ri.get("crash"):
            continue                       # already reported by the chain-level comparison
        if rm is None:
            c.mismatch(cid, lines, "pointer-level model produced no output"); continue
        if rm.get("crash"):
            c.mismatch(cid, lines, "pointer-level model driver crashed: " + rm["crash"][-300:]); continue
        a = [l for l in impl_full.get(cid, []) if keep(l)]
        b = [l for l in rm["lines"] if keep(l)]
        c.count("hashmap_ptr_lines_compared", len(a))
        c.count("hashmap_ptr_table_dumps_compared", sum(1 for l in a if l.startswith("t ")))
        d = vlib.first_diff(a, b)
        if d:
            c.mismatch(cid, lines, "pointer-level model: line %d: impl=%r model=%r" % d)

def _is_raw(lines):
    return "rh" in lines

def raw_stats(c, lines, ri):
    """counters for a raw script, taken from the REAL object's table dumps: direct rehash() calls by kind of capacity change;
    returns the nontrivial key (a script with >= 1 rehash() of >= 3 entries whose new capacity is not a multiple of the old)"""
    ops = [l for l in lines if not (l.startswith("hash ") or l.startswith("reseed "))]
    dumps = [l.split() for l in ri["lines"] if l.startswith("t ")]
    hard = False
    for k, op in enumerate(ops):
        if op != "rh" or k >= len(dumps) or k == 0:
            continue
        old, new, size = int(dumps[k - 1][2]), int(dumps[k][2]), int(dumps[k][3])
        if old == 0:
            kind = "from_null"
        elif new == old:
            kind = "same_capacity"
        elif new % old == 0:
            kind = "multiple"
        else:
            kind = "shrink_nonmultiple" if new < old else "grow_nonmultiple"
        c.count("hashmap_raw_rehash_" + kind)
        if kind.endswith("nonmultiple") and size >= 3:
            hard = True
    return "|".join(lines) if hard else None

def run(c):
    """legs C and O for hash_map; returns False if the harness could not be built."""
    okm, _ = vlib.coq_make(["HashMap/HashMapExtract.vo"])
    okd, drv, dlog = vlib.ocaml_build("hashmap_m", ["hashmap_model"], os.path.join(vlib.ROOT, "comp/hashmap/driver.ml"))
    okp, drvp, plog = vlib.ocaml_build("hashmap_p", ["hashmap_model"], os.path.join(vlib.ROOT, "comp/hashmap/driver_ptr.ml"))
    if okm and not okp:
        c.broken.append("hashmap pointer-level model driver build failed: " + plog[-500:])
    okh, har, hlog = vlib.cxx_build("hashmap_h", os.path.join(vlib.ROOT, "comp/hashmap/harness.cpp"))
    if not (okm and okd):
        c.broken.append("hashmap model extraction/driver build failed: " + dlog[-500:])
    if not okh:
        c.broken.append("hashmap harness does not compile against /repo: " + hlog[-1500:])
        return False
    raw = []
    if c.replay:
        allc = vlib.read_replay(c.replay)
        cases = [x for x in allc if not _is_raw(x[1])]
        raw = [x for x in allc if _is_raw(x[1])]
    else:
        cases = gen.corpus()
        n = 600 if c.tier == "quick" else 6000
        for i in range(n):
            cases.append(("g%d" % i, gen.gen_case(c.rng, c.rng.choice([12, 30, 60, 150, 400]))))
        if c.tier == "thorough":
            cases += gen.exhaustive_small(4)
        # raw scripts for the pointer-level model (direct calls of the private rehash()): own generator stream, so that the
        # cases above do not depend on them
        rrng = random.Random(c.seed * 7919 + 14)
        raw = gen.raw_corpus()
        for i in range(250 if c.tier == "quick" else 2500):
            raw.append(("w%d" % i, gen.gen_raw_case(rrng, rrng.choice([12, 30, 60, 150]))))
        raw += gen.raw_exhaustive(3 if c.tier == "quick" else 4)
    for _, ls in raw:
        c.count("hashmap_raw_ops", len(ls))
    for _, ls in cases:
        c.count("hashmap_ops", len(ls)); c.count("hashmap_hash_kind_" + ls[0].split()[1])
        c.count("hashmap_hasher_temporary", 1 if ls[0].endswith(" tmp") else 0)
        c.count("hashmap_reseed_ops", sum(1 for l in ls if l.startswith("reseed ")))
    # the model is parametric in sizeof(chain *) and sizeof(chain); measure them on the real code
    rc, so, _ = vlib.sh([har, "--sizes"], timeout=60)
    sizes = so.split()
    if rc != 0 or len(sizes) != 2:
        c.broken.append("hashmap harness --sizes failed")
        return False
    c.extra["hashmap_sizeof_chain_ptr"], c.extra["hashmap_sizeof_chain"] = int(sizes[0]), int(sizes[1])
    impl = vlib.run_cases(har, cases)
    model = vlib.run_cases(drv, cases, args=sizes) if okd else {}
    # raw table lines ("t ...") are the tie of the POINTER-LEVEL model only; the chain-level comparison drops them
    impl_full = {cid: list(r["lines"]) for cid, r in impl.items()}
    for r in impl.values():
        r["lines"] = [l for l in r["lines"] if not l.startswith("t ")]
    if not c.pid.startswith("C16"):
        # allocator/lifetime event lines ("e ...", "dtor") are the C16 tie; other properties compare the results only
        for res in (impl, model):
            for r in res.values():
                r["lines"] = [l for l in r["lines"] if not (l == "e" or l.startswith("e ") or l == "dtor")]
    else:
        for r in impl.values():
            for l in r["lines"]:
                if l.startswith("e "):
                    c.count("hashmap_events", len(l.split()) - 1)
    c.compare(cases, impl, model, crossed_rehash)
    if okp:
        run_ptr(c, drvp, cases, impl, impl_full, sizes)
        if raw:
            # raw scripts: real code vs. pointer-level model only (+ the oracles of the harness, which stay valid: rehash()
            # changes neither the association nor what the map owns)
            impl_raw = vlib.run_cases(har, raw)
            pm_raw = vlib.run_cases(drvp, raw, args=sizes)
            keep = _keep(c.pid)
            for res in (impl_raw, pm_raw):
                for r in res.values():
                    r["lines"] = [l for l in r["lines"] if keep(l)]
            for r in impl_raw.values():
                c.count("hashmap_ptr_table_dumps_compared", sum(1 for l in r["lines"] if l.startswith("t ")))
            c.compare(raw, impl_raw, pm_raw, lambda cid, lines, ri: raw_stats(c, lines, ri))
    return True
