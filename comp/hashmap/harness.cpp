// Harness for frg::hash_map: runs op scripts on the real code, prints canonical result lines
// (compared with the extracted Gallina model) and evaluates the properties with std::unordered_map
// (C14) plus lifetime/allocation registries (C16) -- oracles independent of the model.
//
// Output per op: the result line, then an event line "e ..." listing, in order, what the allocator
// and the element type observed during that op:
//   A<id>:<n>  allocate(n) returned block <id> (ids = allocation sequence numbers 1,2,.. per case)
//   F<id>:<n>  deallocate(block <id>, n)        R<id>  free(block <id>)
//   C<id> / D<id> / U<id>   a Value object inside block <id> was constructed / destroyed /
//                           read, moved from or assigned (objects outside allocator blocks, i.e.
//                           temporaries and locals, are not listed; the lib registries still check them)
// Then the raw table line (read through -fno-access-control, compared with the POINTER-LEVEL model HashMapPtr.v):
//   t <block id of _table, 0 = nullptr> <_capacity> <_size> <bucket>=<block id>:<key>:<value>,<block id>:<key>:<value> ...
// (non-empty buckets only, every chain head to tail; the chain-level comparison drops these lines).
// After the last op the map goes out of scope: line "dtor", then the destructor's event line.
// Raw scripts (compared with the pointer-level model only) additionally use the op "rh": the private rehash() is
// called directly, so that it also runs at loads where the new capacity is not a multiple of the old one.
// The hasher: line 1 is "hash <kind> [tmp]".  Kinds 0..4: frg::hash_map<uint64_t, HV, Hasher, LogAlloc> with the STATEFUL
// hasher below, constructed from an lvalue Hasher object that belongs to the harness and outlives the map; the op
// "reseed <kind>" CHANGES that object afterwards (the map must keep using the copy it made at construction -- the model's
// hash is fixed at construction, both model drivers ignore the line).  With "tmp" the map is constructed from a temporary
// Hasher (dead after the constructor call).  Kind 5: frg::hash_map<int64_t, HV, frg::hash<int64_t>, LogAlloc> -- signed keys
// (scripts carry them as their 64-bit two's complement pattern) and the library's own hasher; get() is called with the
// key as int64_t, long and, where the value fits, int and short: the hash must be a function of the key VALUE, whatever
// C++ type the templated get<KeyCompatible>() is handed (the model's hash is a function N -> N of the key value).
// Kind 6: frg::hash_map<Base2 *, HV, frg::hash<Base2 *>, LogAlloc> over a pool of `Derived : Base1, Base2` objects (Base2 is a
// NON-FIRST base: the subobject sits at offset 8) mapped at a FIXED address, so that the pointer hash is a function of the
// script's key (= pool index i): hash = POOL_BASE + i * sizeof(Derived) + 8 (the drivers compute the same).  get() is called with
// the key as Base2 * and as Derived * (and as const Base2 * / const Derived * if frg::hash<Base2 *> accepts them): a pointer that
// compares equal to the key must be hashed like the key, i.e. AFTER conversion to Key.
// Const view: every successful "g" also runs find() const and ++ on the const_iterator up to end() const and compares the walk with
// the mutable iterator's walk from find(); every "it" repeats the iteration through the const_iterator (oracle kind refmap).
// `harness --sizes` prints sizeof(chain *) and sizeof(chain) (parameters of the model).
#include <unordered_map>
#include <algorithm>
#include <type_traits>
#include <sys/mman.h>
#include "vharness.hpp"
#include <frg/hash_map.hpp>

struct Hasher {
	// returns a 64-bit value on purpose: hash_map reduces it with (unsigned int) in every bucket
	// computation, the model with "mod 2^32" -- kinds 0 and 4 produce values above 2^32
	// STATEFUL on purpose (the state selects the function): a map must copy its hasher at construction
	int kind = 0;   // 0 identity, 1 constant, 2 mod3, 3 frg::hash<uint64_t>, 4 high bits (k >> 28)
	uint64_t operator()(uint64_t k) const {
		switch(kind) {
		case 0: return k;
		case 1: return 7;
		case 2: return k % 3;
		case 3: return frg::hash<uint64_t>{}(k);
		default: return k >> 28;
		}
	}
};

// ---- event log (component-local counters; lib/vharness.hpp registries stay the oracle)
struct Blk { int id; size_t n; };
static std::map<uintptr_t, Blk> g_blk;          // live blocks by address
static std::set<const void *> g_inblock;         // live Value objects that sit inside a block
static int g_next_id = 0;
static bool g_log_on = true;
static std::string g_ev;
static long g_op_allocs, g_op_frees, g_op_cons, g_op_des;

static void evf(const char *fmt, ...) {
	if(!g_log_on) return;
	char buf[64];
	va_list ap; va_start(ap, fmt); vsnprintf(buf, sizeof buf, fmt, ap); va_end(ap);
	g_ev += buf;
}
static int block_of(const void *p) {
	auto a = (uintptr_t)p;
	auto it = g_blk.upper_bound(a);
	if(it == g_blk.begin()) return 0;
	--it;
	return (a < it->first + (it->second.n ? it->second.n : 1)) ? it->second.id : 0;
}

struct LogAlloc {
	void *allocate(size_t n) {
		void *p = vh::g_alloc.allocate(n);
		int id = ++g_next_id;
		g_blk[(uintptr_t)p] = Blk{id, n};
		g_op_allocs++;
		evf(" A%d:%zu", id, n);
		return p;
	}
	void deallocate(void *p, size_t n) {
		if(p) {
			auto it = g_blk.find((uintptr_t)p);
			evf(" F%d:%zu", it == g_blk.end() ? 0 : it->second.id, n);
			if(it != g_blk.end()) g_blk.erase(it);
			g_op_frees++;
		}
		vh::g_alloc.deallocate(p, n);
	}
	void free(void *p) {
		if(p) {
			auto it = g_blk.find((uintptr_t)p);
			evf(" R%d", it == g_blk.end() ? 0 : it->second.id);
			if(it != g_blk.end()) g_blk.erase(it);
			g_op_frees++;
		}
		vh::g_alloc.free(p);
	}
};

struct HV : vh::TV {   // tracked value that also reports in-block events
	static void ev(char c, const void *p) {
		int b = block_of(p);
		if(!b) return;
		if(c == 'C') { g_inblock.insert(p); g_op_cons++; }
		if(c == 'D') { g_inblock.erase(p); g_op_des++; }
		evf(" %c%d", c, b);
	}
	HV() : TV() { ev('C', this); }
	HV(uint64_t x) : TV(x) { ev('C', this); }
	HV(const HV &o) : TV(o) { ev('U', &o); ev('C', this); }
	HV(HV &&o) : TV(std::move(o)) { ev('U', &o); ev('C', this); }
	HV &operator=(const HV &o) { ev('U', this); ev('U', &o); TV::operator=(o); return *this; }
	HV &operator=(HV &&o) { ev('U', this); ev('U', &o); TV::operator=(std::move(o)); return *this; }
	~HV() { ev('D', this); }
	uint64_t get() const { ev('U', this); return TV::get(); }
};

using Map = frg::hash_map<uint64_t, HV, Hasher, LogAlloc>;
using SMap = frg::hash_map<int64_t, HV, frg::hash<int64_t>, LogAlloc>;     // signed keys, the library's own hasher
static_assert(sizeof(Map::chain) < 10 * sizeof(Map::chain *), "a node block is smaller than the smallest table");
struct Base1 { uint64_t a = 1; };
struct Base2 { uint64_t b = 2; };
struct Derived : Base1, Base2 { uint64_t c = 3; };
using PMap = frg::hash_map<Base2 *, HV, frg::hash<Base2 *>, LogAlloc>;     // pointer keys into a pool of Derived objects
static constexpr uintptr_t POOL_BASE = 0x20000000;   // comp/hashmap/driver*.ml: hash kind 6 = POOL_BASE + 24 * i + 8
static constexpr size_t POOL_N = 4096;
static_assert(sizeof(Derived) == 24, "drivers assume sizeof(Derived) == 24");
static Derived *g_pool = nullptr;
static void pool_init() {
	if(g_pool) return;
	void *p = mmap((void *)POOL_BASE, POOL_N * sizeof(Derived), PROT_READ | PROT_WRITE, MAP_PRIVATE | MAP_ANONYMOUS | MAP_FIXED_NOREPLACE, -1, 0);
	if(p != (void *)POOL_BASE) { fprintf(stderr, "cannot map the object pool at its fixed address\n"); abort(); }
	g_pool = (Derived *)p;
	for(size_t i = 0; i < POOL_N; i++) new(&g_pool[i]) Derived{};
	Base2 *b = &g_pool[0];
	if((uintptr_t)b != POOL_BASE + 8) { fprintf(stderr, "Base2 subobject is not at offset 8\n"); abort(); }
}
// script key <-> map key
template<class K> struct KeyConv { static K to(uint64_t k) { return static_cast<K>(k); } };
template<> struct KeyConv<Base2 *> { static Base2 *to(uint64_t k) { return &g_pool[k % POOL_N]; } };
static uint64_t key_u64(uint64_t k) { return k; }
static uint64_t key_u64(int64_t k) { return (uint64_t)k; }
static uint64_t key_u64(Base2 *p) { return (uint64_t)(static_cast<Derived *>(p) - g_pool); }
static_assert(sizeof(PMap::chain) == sizeof(Map::chain), "--sizes holds for the pointer-keyed instantiation");
static_assert(sizeof(SMap::chain) == sizeof(Map::chain) && sizeof(SMap::chain *) == sizeof(Map::chain *), "--sizes holds for both instantiations");

// what the map must own after every op, counted on the registries (not on the model)
template<class Map>
static void balance(Map &m, const char *after) {
	size_t want_blocks = m.size() + (m._capacity ? 1 : 0);
	size_t want_bytes = m.size() * sizeof(typename Map::chain) + m._capacity * sizeof(typename Map::chain *);
	size_t bytes = 0; for(auto &b : vh::g_alloc.blocks) bytes += b.second;
	if(vh::g_alloc.blocks.size() != want_blocks || bytes != want_bytes)
		vh::oracle(vh::g_alloc.blocks.size() > want_blocks ? "leak-block" : "lifetime",
			"after %s: %zu blocks / %zu bytes allocated, size()=%zu capacity=%zu need %zu blocks / %zu bytes",
			after, vh::g_alloc.blocks.size(), bytes, m.size(), (size_t)m._capacity, want_blocks, want_bytes);
	if(g_inblock.size() != m.size())
		vh::oracle(g_inblock.size() > m.size() ? "leak-object" : "lifetime",
			"after %s: %zu live values inside node blocks, size()=%zu", after, g_inblock.size(), m.size());
	if(vh::g_life.live.size() != g_inblock.size())
		vh::oracle("leak-object", "after %s: %zu live values in total but %zu inside node blocks (a temporary outlived the call)",
			after, vh::g_life.live.size(), g_inblock.size());
}

// the raw pointer structure: _table, _capacity, _size and every chain (no lifetime/allocator events are produced)
template<class Map>
static void dump_table(Map &m) {
	printf("t %d %zu %zu", block_of(m._table), (size_t)m._capacity, (size_t)m._size);
	size_t limit = m._size + 8;
	for(size_t b = 0; b < m._capacity; b++) {
		typename Map::chain *item = m._table[b];
		if(!item) continue;
		printf(" %zu=", b);
		size_t steps = 0;
		for(; item; item = item->next, steps++) {
			if(steps) printf(",");
			if(steps > limit) { printf("CYCLE"); break; }
			printf("%d:%llu:%llu", block_of(item), (unsigned long long)key_u64(item->entry.template get<0>()),
				(unsigned long long)item->entry.template get<1>().v);
		}
	}
	printf("\n");
}

// get() is a template over the argument type: call it with the key as Key and as every other integer type the value
// fits in; all calls must return the same node (the hash of a key must not depend on the C++ type it is passed as)
template<class T, class M>
static void get_as(M &m, T k, HV *want, const char *ty, unsigned long long shown) {
	HV *q = m.get(k);
	if(q != want) vh::oracle("refmap", "get((%s)%llu) returns %s but get(Key) returns %s", ty, shown, q ? "a value" : "nullptr", want ? "a value" : "nullptr");
}
static HV *get_all(Map &m, uint64_t k) {
	HV *p = m.get(k);
	get_as(m, (unsigned long)k, p, "unsigned long", k);
	if(k <= 0x7fffffffULL) { get_as(m, (int)k, p, "int", k); get_as(m, (unsigned int)k, p, "unsigned", k); }
	if(k <= 0x7fffULL) get_as(m, (short)k, p, "short", k);
	return p;
}
static HV *get_all(SMap &m, int64_t k) {
	HV *p = m.get(k);
	get_as(m, (long)k, p, "long", (uint64_t)k);
	if(k >= INT32_MIN && k <= INT32_MAX) get_as(m, (int)k, p, "int", (uint64_t)k);
	if(k >= INT16_MIN && k <= INT16_MAX) get_as(m, (short)k, p, "short", (uint64_t)k);
	if(k >= INT8_MIN && k <= INT8_MAX) get_as(m, (signed char)k, p, "signed char", (uint64_t)k);
	return p;
}

template<class PM>
static HV *get_all_ptr(PM &m, Base2 *k) {
	HV *p = m.get(k);
	Derived *d = static_cast<Derived *>(k);
	unsigned long long i = key_u64(k);
	get_as(m, d, p, "Derived *", i);
	// pointers to const: only if the hasher accepts them at all (frg::hash<T *>::operator()(T *) does not)
	if constexpr(requires(std::remove_cvref_t<decltype(m._hasher)> hh, const Base2 *cb) { hh(cb); }) {
		get_as(m, (const Base2 *)k, p, "const Base2 *", i);
		get_as(m, (const Derived *)d, p, "const Derived *", i);
	}
	return p;
}

static HV *get_all(PMap &m, Base2 *k) { return get_all_ptr(m, k); }

// const view: walk from find() const with const_iterator::operator++ to end() const; must be the mutable iterator's walk
template<class K, class M>
static void const_walk(M &m, K key, size_t bound, const char *what) {
	const M &cm = m;
	std::vector<std::pair<uint64_t, uint64_t>> a, b;
	for(auto it = m.find(key); it != m.end(); ++it) {
		a.push_back({key_u64(it->template get<0>()), it->template get<1>().v});
		if(a.size() > bound) break;
	}
	for(auto cit = cm.find(key); !(cit == cm.end()); ++cit) {
		b.push_back({key_u64(cit->template get<0>()), cit->template get<1>().v});
		if(b.size() > bound) { vh::oracle("refmap", "%s: const_iterator walk from find() const does not reach end() within size()+8 steps", what); return; }
	}
	if(a != b) vh::oracle("refmap", "%s: const_iterator walk from find() const yields %zu entries, the mutable iterator %zu (or contents differ)", what, b.size(), a.size());
}

// every const-qualified member through a `const hash_map &` (find() const, end() const, size() const, the
// const_iterator's operator bool/==/->), on whatever state the map is in -- never populated (_capacity == 0, _table == nullptr),
// populated, emptied again. `want` is what the non-const get(Key) returned. hash_map has no begin() const / get() const /
// empty() const; this is all of its const interface.
template<class K, class M>
static void const_view(M &m, K key, const HV *want, unsigned long long shown, const char *what) {
	const M &cm = m;
	if(cm.size() != m._size) vh::oracle("refmap", "%s: size() const = %zu, _size = %zu", what, cm.size(), (size_t)m._size);
	auto cend = cm.end();
	if(bool(cend)) vh::oracle("refmap", "%s: end() const converts to true", what);
	if(!(cend == cm.end())) vh::oracle("refmap", "%s: end() const is not equal to itself", what);
	auto cit = cm.find(key);
	bool hit = !(cit == cend);
	if(hit != bool(cit)) vh::oracle("refmap", "%s: find(%llu) const: comparison with end() says %s, operator bool says %s", what, shown, hit ? "present" : "absent", bool(cit) ? "present" : "absent");
	if(hit != (want != nullptr)) vh::oracle("refmap", "%s: find(%llu) const says %s, get() says %s", what, shown, hit ? "present" : "absent", want ? "present" : "absent");
	else if(hit && &cit->template get<1>() != want) vh::oracle("refmap", "%s: find(%llu) const points at a different node than get()", what, shown);
	else if(hit && !(key_u64(cit->template get<0>()) == key_u64(key))) vh::oracle("refmap", "%s: find(%llu) const returned another key", what, shown);
}

// the script on one map; caller_hasher is the harness's own Hasher object ("reseed" changes it)
template<class K, class M>
static void run_ops(M &m, const vh::Lines &ls, size_t start, Hasher &caller_hasher, std::unordered_map<uint64_t, uint64_t> &ref) {
		for(size_t i = start; i < ls.size(); i++) {
			auto t = vh::split(ls[i]);
			const std::string &o = t[0];
			g_ev.clear(); g_op_allocs = g_op_frees = g_op_cons = g_op_des = 0;
			size_t size_before = m.size();
			if(o == "reseed") {
				// the CALLER's hasher object changes state; the map owns a copy made at construction and must not notice
				caller_hasher.kind = atoi(t[1].c_str());
				continue;
			} else if(o == "i") {
				uint64_t k = vh::u64(t[1]), v = vh::u64(t[2]);
				m.insert(KeyConv<K>::to(k), HV{v});
				if(!ref.count(k)) ref[k] = v;   // inserting a present key is outside the property
				printf("u\n");
			} else if(o == "x") {
				uint64_t k = vh::u64(t[1]), v = vh::u64(t[2]);
				HV &r = m[KeyConv<K>::to(k)];
				bool had = ref.count(k);
				uint64_t old = r.get();
				if(had) { printf("v %llu\n", (unsigned long long)old);
					if(old != ref[k]) vh::oracle("refmap", "operator[](%llu) found %llu, reference %llu", (unsigned long long)k, (unsigned long long)old, (unsigned long long)ref[k]); }
				else { printf("v none\n");
					if(old != 0) vh::oracle("refmap", "operator[] created a non-default value"); }
				r = HV{v};
				ref[k] = v;
			} else if(o == "g") {
				uint64_t k = vh::u64(t[1]);
				HV *p = get_all(m, KeyConv<K>::to(k));
				auto it = m.find(KeyConv<K>::to(k));
				if((p != nullptr) != bool(it)) vh::oracle("refmap", "get and find disagree on key %llu", (unsigned long long)k);
				const_view(m, KeyConv<K>::to(k), p, (unsigned long long)k, ls[i].c_str());
				if(p) const_walk(m, KeyConv<K>::to(k), ref.size() + 8, ls[i].c_str());
				uint64_t val = p ? p->get() : 0;
				if(p) printf("v %llu\n", (unsigned long long)val); else printf("v none\n");
				auto rit = ref.find(k);
				if((rit != ref.end()) != (p != nullptr)) vh::oracle("refmap", "key %llu: map says %s, reference says %s", (unsigned long long)k, p ? "present" : "absent", rit != ref.end() ? "present" : "absent");
				else if(p && val != rit->second) vh::oracle("refmap", "key %llu: wrong value", (unsigned long long)k);
			} else if(o == "r") {
				uint64_t k = vh::u64(t[1]);
				auto r = m.remove(KeyConv<K>::to(k));
				if(r) printf("v %llu\n", (unsigned long long)r->get()); else printf("v none\n");
				auto rit = ref.find(k);
				if((rit != ref.end()) != bool(r)) vh::oracle("refmap", "remove(%llu) %s but reference %s", (unsigned long long)k, r ? "returned a value" : "returned nothing", rit != ref.end() ? "has it" : "does not");
				else if(r && r->get() != rit->second) vh::oracle("refmap", "remove(%llu) returned a wrong value", (unsigned long long)k);
				if(rit != ref.end()) ref.erase(rit);
				const_view(m, KeyConv<K>::to(k), (const HV *)m.get(KeyConv<K>::to(k)), (unsigned long long)k, ls[i].c_str());
			} else if(o == "it") {
				printf("l");
				std::vector<std::pair<uint64_t, uint64_t>> seen;
				size_t n = 0;
				for(auto it = m.begin(); it != m.end(); ++it) {
					uint64_t k = key_u64(it->template get<0>()), v = it->template get<1>().get();
					printf(" %llu:%llu", (unsigned long long)k, (unsigned long long)v);
					seen.push_back({k, v});
					if(++n > ref.size() + 8) { vh::oracle("refmap", "iteration does not terminate within size()+8 steps"); break; }
				}
				printf("\n");
				std::vector<std::pair<uint64_t, uint64_t>> want(ref.begin(), ref.end());
				std::sort(seen.begin(), seen.end()); std::sort(want.begin(), want.end());
				if(seen != want) vh::oracle("refmap", "iteration yields %zu entries, reference has %zu (or contents differ)", seen.size(), want.size());
				if(m.size()) { auto first = m.begin(); const_walk(m, (K)first->template get<0>(), ref.size() + 8, "it"); }
			} else if(o == "rh") {
				// raw scripts only (pointer-level model): the private rehash() called directly, at any load
				m.rehash();
				printf("u\n");
			} else if(o == "sz") {
				printf("v %zu\n", m.size());
				if(m.size() != ref.size()) vh::oracle("refmap", "size() = %zu, reference %zu", m.size(), ref.size());
				if(m.empty() != ref.empty()) vh::oracle("refmap", "empty() disagrees with the reference");
				{ const M &cm = m; if(cm.size() != ref.size()) vh::oracle("refmap", "size() const = %zu, reference %zu", cm.size(), ref.size());
				  if(!(cm.end() == cm.end()) || bool(cm.end())) vh::oracle("refmap", "end() const is not a proper end iterator"); }
			} else continue;
			printf("e%s\n", g_ev.c_str());
			dump_table(m);
			// per-op counters against what the op did to size(): one node per new entry, one per removed entry
			long dsize = (long)m.size() - (long)size_before;
			if(g_op_cons - g_op_des != dsize)
				vh::oracle("lifetime", "%s: %ld constructs / %ld destroys inside node blocks but size() changed by %ld", ls[i].c_str(), g_op_cons, g_op_des, dsize);
			balance(m, ls[i].c_str());
		}
		// every reference key must still be found at the end (cheap full sweep; not part of the event log)
		g_log_on = false;
		for(auto &kv : ref) {
			HV *p = m.get(KeyConv<K>::to(kv.first));
			if(!p) { vh::oracle("refmap", "final sweep: present key %llu not found", (unsigned long long)kv.first); break; }
			if(p->get() != kv.second) { vh::oracle("refmap", "final sweep: key %llu wrong value", (unsigned long long)kv.first); break; }
		}
		if(m.size() != ref.size()) vh::oracle("refmap", "final size() = %zu, reference %zu", m.size(), ref.size());
		g_log_on = true; g_ev.clear();
}

// ---- initializer_list constructor (no op script reaches it; seeded change C14-r9-1 pre-sized the table there and left
// half of the buckets uninitialised).  After the script's own map is gone, a second map is built with
// hash_map(hasher, {entries...}, allocator) from up to 6 of the script's reference entries (plus fixed ones, so that the
// probe also runs for scripts that insert nothing) through an allocator that hands out JUNK-FILLED blocks, and compared with
// std::unordered_map: size, every present key, absent keys in every residue class, iteration, remove of everything, and the
// block/lifetime registries after its destructor (oracle kinds refmap / leak-block / leak-object; no model involved).
struct JunkAlloc {
	void *allocate(size_t n) { void *p = vh::g_alloc.allocate(n); memset(p, 0xA5, n); return p; }
	void deallocate(void *p, size_t n) { vh::g_alloc.deallocate(p, n); }
	void free(void *p) { vh::g_alloc.free(p); }
};
using JMap = frg::hash_map<uint64_t, HV, Hasher, JunkAlloc>;
static void ilist_check(JMap &m, std::unordered_map<uint64_t, uint64_t> &r, const char *what) {
	if(m.size() != r.size()) vh::oracle("refmap", "%s: size() = %zu, reference %zu", what, m.size(), r.size());
	for(auto &kv : r) {
		HV *p = m.get(kv.first);
		if(!p) { vh::oracle("refmap", "%s: present key %llu not found", what, (unsigned long long)kv.first); return; }
		if(p->get() != kv.second) { vh::oracle("refmap", "%s: key %llu wrong value", what, (unsigned long long)kv.first); return; }
	}
	for(uint64_t a = 1000003; a < 1000003 + 64; a++)      // absent keys: all buckets of any capacity <= 64 are visited
		if(!r.count(a) && (m.get(a) || bool(m.find(a)))) { vh::oracle("refmap", "%s: absent key %llu reported present", what, (unsigned long long)a); return; }
	size_t n = 0;
	for(auto it = m.begin(); it != m.end(); ++it) {
		if(++n > r.size() + 8) { vh::oracle("refmap", "%s: iteration does not terminate within size()+8 steps", what); return; }
		auto f = r.find(it->template get<0>());
		if(f == r.end() || f->second != it->template get<1>().get()) { vh::oracle("refmap", "%s: iteration yields an entry the reference does not have", what); return; }
	}
	if(n != r.size()) vh::oracle("refmap", "%s: iteration yields %zu entries, reference has %zu", what, n, r.size());
}
template<size_t... I>
static void ilist_run(const std::vector<std::pair<uint64_t, uint64_t>> &e, int kind, std::index_sequence<I...>) {
	std::unordered_map<uint64_t, uint64_t> r;
	for(size_t i = 0; i < sizeof...(I); i++) r[e[i].first] = e[i].second;
	{
		Hasher h; h.kind = kind <= 4 ? kind : 3;
		using E = JMap::entry_type;
		JMap m{h, {E{e[I].first, HV{e[I].second}}...}, JunkAlloc{}};
		ilist_check(m, r, "initializer_list map");
		// grow it past a rehash, then take everything out again
		for(uint64_t k = 0; k < 9; k++) { uint64_t key = 500000 + 13 * k; if(!r.count(key)) { m.insert(key, HV{k}); r[key] = k; } }
		ilist_check(m, r, "initializer_list map after 9 inserts");
		while(!r.empty()) {
			auto kv = *r.begin();
			auto got = m.remove(kv.first);
			if(!got || got->get() != kv.second) { vh::oracle("refmap", "initializer_list map: remove(%llu) returned %s", (unsigned long long)kv.first, got ? "a wrong value" : "nothing"); break; }
			r.erase(r.begin());
			if(r.size() == 4) ilist_check(m, r, "initializer_list map while emptying");
		}
		if(r.empty() && m.size() != 0) vh::oracle("refmap", "initializer_list map: size() = %zu after removing every key", m.size());
	}
	vh::g_life.check_empty("hash_map(initializer_list)");
	vh::g_alloc.check_empty("hash_map(initializer_list)");
}
static void ilist_probe(const std::unordered_map<uint64_t, uint64_t> &ref, int kind) {
	bool was = g_log_on; g_log_on = false;
	std::vector<std::pair<uint64_t, uint64_t>> e;
	for(auto &kv : ref) { if(e.size() >= 6) break; e.push_back(kv); }
	size_t want = 1 + ref.size() % 6;                      // 1..6 entries, varies with the script
	for(uint64_t k = 1; e.size() < want; k++) if(!ref.count(k * 7919)) e.push_back({k * 7919, k});
	ilist_run(e, kind, std::make_index_sequence<0>{});     // the empty list
	switch(want) {
	case 1: ilist_run(e, kind, std::make_index_sequence<1>{}); break;
	case 2: ilist_run(e, kind, std::make_index_sequence<2>{}); break;
	case 3: ilist_run(e, kind, std::make_index_sequence<3>{}); break;
	case 4: ilist_run(e, kind, std::make_index_sequence<4>{}); break;
	case 5: ilist_run(e, kind, std::make_index_sequence<5>{}); break;
	default: ilist_run(e, kind, std::make_index_sequence<6>{}); break;
	}
	g_log_on = was;
}

static void body(const vh::Lines &ls) {
	Hasher h;                       // the harness's hasher object: outlives every map, changed by "reseed"
	bool temporary = false;
	size_t start = 0;
	if(!ls.empty()) {
		auto t = vh::split(ls[0]);
		if(t.size() >= 2 && t[0] == "hash") { h.kind = atoi(t[1].c_str()); start = 1; temporary = t.size() >= 3 && t[2] == "tmp"; }
	}
	g_blk.clear(); g_inblock.clear(); g_next_id = 0; g_log_on = true; g_ev.clear();
	std::unordered_map<uint64_t, uint64_t> ref;
	if(h.kind == 6) {
		pool_init();
		frg::hash<Base2 *> hp;
		PMap m{hp};
		run_ops<Base2 *>(m, ls, start, h, ref);
	} else if(h.kind == 5) {
		frg::hash<int64_t> hs;
		SMap m{hs};
		run_ops<int64_t>(m, ls, start, h, ref);
	} else if(temporary) {
		Map m{Hasher{h.kind}};      // the hasher argument dies at the end of this declaration
		run_ops<uint64_t>(m, ls, start, h, ref);
	} else {
		Map m{h};
		run_ops<uint64_t>(m, ls, start, h, ref);
	}
	printf("dtor\ne%s\n", g_ev.c_str());
	vh::g_life.check_empty("hash_map");
	vh::g_alloc.check_empty("hash_map");
	ilist_probe(ref, h.kind);
}

int main(int argc, char **argv) {
	if(argc > 1 && !strcmp(argv[1], "--sizes")) {
		printf("%zu %zu\n", sizeof(Map::chain *), sizeof(Map::chain));
		return 0;
	}
	return vh::run(body);
}
