// Harness for frg::hash_map: runs op scripts on the real code, prints canonical result lines
// (compared with the extracted Gallina model) and evaluates the property with std::unordered_map
// plus lifetime/allocation registries (oracle, independent of the model).
#include <unordered_map>
#include <algorithm>
#include "vharness.hpp"
#include <frg/hash_map.hpp>

struct Hasher {
	int kind = 0;   // 0 identity, 1 constant, 2 mod3, 3 frg::hash<uint64_t>, 4 high bits (k >> 28)
	unsigned int operator()(uint64_t k) const {
		switch(kind) {
		case 0: return (unsigned int)k;
		case 1: return 7;
		case 2: return (unsigned int)(k % 3);
		case 3: return frg::hash<uint64_t>{}(k);
		default: return (unsigned int)(k >> 28);
		}
	}
};

using Map = frg::hash_map<uint64_t, vh::TV, Hasher, vh::TrackAlloc>;

static void body(const vh::Lines &ls) {
	Hasher h;
	size_t start = 0;
	if(!ls.empty()) {
		auto t = vh::split(ls[0]);
		if(t.size() == 2 && t[0] == "hash") { h.kind = atoi(t[1].c_str()); start = 1; }
	}
	std::unordered_map<uint64_t, uint64_t> ref;
	{
		Map m{h};
		for(size_t i = start; i < ls.size(); i++) {
			auto t = vh::split(ls[i]);
			const std::string &o = t[0];
			if(o == "i") {
				uint64_t k = vh::u64(t[1]), v = vh::u64(t[2]);
				m.insert(k, vh::TV{v});
				if(!ref.count(k)) ref[k] = v;   // inserting a present key is outside the property
				printf("u\n");
			} else if(o == "x") {
				uint64_t k = vh::u64(t[1]), v = vh::u64(t[2]);
				vh::TV &r = m[k];
				bool had = ref.count(k);
				uint64_t old = r.get();
				if(had) { printf("v %llu\n", (unsigned long long)old);
					if(old != ref[k]) vh::oracle("refmap", "operator[](%llu) found %llu, reference %llu", (unsigned long long)k, (unsigned long long)old, (unsigned long long)ref[k]); }
				else { printf("v none\n");
					if(old != 0) vh::oracle("refmap", "operator[] created a non-default value"); }
				r = vh::TV{v};
				ref[k] = v;
			} else if(o == "g") {
				uint64_t k = vh::u64(t[1]);
				vh::TV *p = m.get(k);
				auto it = m.find(k);
				if((p != nullptr) != bool(it)) vh::oracle("refmap", "get and find disagree on key %llu", (unsigned long long)k);
				if(p) printf("v %llu\n", (unsigned long long)p->get()); else printf("v none\n");
				auto rit = ref.find(k);
				if((rit != ref.end()) != (p != nullptr)) vh::oracle("refmap", "key %llu: map says %s, reference says %s", (unsigned long long)k, p ? "present" : "absent", rit != ref.end() ? "present" : "absent");
				else if(p && p->get() != rit->second) vh::oracle("refmap", "key %llu: wrong value", (unsigned long long)k);
			} else if(o == "r") {
				uint64_t k = vh::u64(t[1]);
				auto r = m.remove(k);
				if(r) printf("v %llu\n", (unsigned long long)r->get()); else printf("v none\n");
				auto rit = ref.find(k);
				if((rit != ref.end()) != bool(r)) vh::oracle("refmap", "remove(%llu) %s but reference %s", (unsigned long long)k, r ? "returned a value" : "returned nothing", rit != ref.end() ? "has it" : "does not");
				else if(r && r->get() != rit->second) vh::oracle("refmap", "remove(%llu) returned a wrong value", (unsigned long long)k);
				if(rit != ref.end()) ref.erase(rit);
			} else if(o == "it") {
				printf("l");
				std::vector<std::pair<uint64_t, uint64_t>> seen;
				size_t n = 0;
				for(auto it = m.begin(); it != m.end(); ++it) {
					uint64_t k = it->template get<0>(), v = it->template get<1>().get();
					printf(" %llu:%llu", (unsigned long long)k, (unsigned long long)v);
					seen.push_back({k, v});
					if(++n > ref.size() + 8) { vh::oracle("refmap", "iteration does not terminate within size()+8 steps"); break; }
				}
				printf("\n");
				std::vector<std::pair<uint64_t, uint64_t>> want(ref.begin(), ref.end());
				std::sort(seen.begin(), seen.end()); std::sort(want.begin(), want.end());
				if(seen != want) vh::oracle("refmap", "iteration yields %zu entries, reference has %zu (or contents differ)", seen.size(), want.size());
			} else if(o == "sz") {
				printf("v %zu\n", m.size());
				if(m.size() != ref.size()) vh::oracle("refmap", "size() = %zu, reference %zu", m.size(), ref.size());
				if(m.empty() != ref.empty()) vh::oracle("refmap", "empty() disagrees with the reference");
			}
		}
		// every reference key must still be found at the end (cheap full sweep)
		for(auto &kv : ref) {
			vh::TV *p = m.get(kv.first);
			if(!p) { vh::oracle("refmap", "final sweep: present key %llu not found", (unsigned long long)kv.first); break; }
			if(p->get() != kv.second) { vh::oracle("refmap", "final sweep: key %llu wrong value", (unsigned long long)kv.first); break; }
		}
		if(m.size() != ref.size()) vh::oracle("refmap", "final size() = %zu, reference %zu", m.size(), ref.size());
	}
	vh::g_life.check_empty("hash_map");
	vh::g_alloc.check_empty("hash_map");
}

int main() { return vh::run(body); }
