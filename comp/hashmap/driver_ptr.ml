(* driver for the extracted POINTER-LEVEL hash_map model (coq/HashMap/HashMapPtr.v): same scripts as
   comp/hashmap/harness.cpp / comp/hashmap/driver.ml.
   argv: [sizeof(chain * )] [sizeof(chain)] as measured on the real code by `harness --sizes`.
   Per op: the result line, the event line "e ..." (allocator / lifetime events of that op) and the raw table line
     t <block id of _table, 0 = nullptr> <_capacity> <_size> <bucket>=<block id>:<key>:<value>,<block id>:<key>:<value> ...
   (non-empty buckets only, every chain head to tail) -- the same three lines the harness prints from the real object.
   After the last op: "dtor" and the destructor's event line.  Raw scripts additionally use "rh" (p_rehash called directly).
   "assert" / "nullderef" / "ub" / "fuel" end the case (the refinement theorem excludes all four on every script).
   Fuel of every call: fuel_for s = _capacity + 2 * _size + 11 (HashMapPtr.v).
   The model's node heap is a function nat -> pnode option built from point updates; after every op the driver
   re-tabulates it over the ids below p_next (an extensionally equal function: no id >= p_next was ever allocated). *)
(* line 1 is "hash <kind> [tmp]"; the hash is FIXED at construction: "reseed <kind>" lines (the caller's hasher object changes
   state after the map copied it) and the "tmp" flag are ignored; kind 5 (signed keys, frg::hash<int64_t>, keys as two's
   complement patterns) is the same function of the key value as kind 3 -- see comp/hashmap/driver.ml *)
let m32 = 0xFFFFFFFFL
let hash_of kind : n -> n = fun k ->
  let x = i64_of_n k in
  n_of_i64 (match kind with
    | 0 -> x
    | 1 -> 7L
    | 2 -> Int64.unsigned_rem x 3L
    | 3 | 5 -> Int64.logand (Int64.logxor x (Int64.shift_right_logical x 32)) m32
    | 6 -> Int64.add 0x20000008L (Int64.mul x 24L)     (* address of the Base2 subobject of pool object x (harness.cpp) *)
    | _ -> Int64.shift_right_logical x 28)

let psz = n_of_string (if Array.length Sys.argv > 1 then Sys.argv.(1) else "8")
let nsz = n_of_string (if Array.length Sys.argv > 2 then Sys.argv.(2) else "32")

let show_opt = function None -> "v none" | Some v -> "v " ^ string_of_n v

let show_ev = function
  | EAlloc (b, n) -> Printf.sprintf " A%d:%s" (int_of_nat b) (string_of_n n)
  | EDealloc (b, n) -> Printf.sprintf " F%d:%s" (int_of_nat b) (string_of_n n)
  | EFree b -> Printf.sprintf " R%d" (int_of_nat b)
  | EConstruct (b, _) -> Printf.sprintf " C%d" (int_of_nat b)
  | EDestroy (b, _) -> Printf.sprintf " D%d" (int_of_nat b)
  | EUse (b, _) -> Printf.sprintf " U%d" (int_of_nat b)
let show_evs es = "e" ^ String.concat "" (List.map show_ev es) ^ "\n"

let tabulate (s : pstate) : pstate =
  let n = int_of_nat s.p_next in
  let arr = Array.make (n + 1) None in
  let rec fill i x = if i < n then (arr.(i) <- s.p_nodes x; fill (i + 1) (S x)) in
  fill 0 O;
  { s with p_nodes = (fun x -> let i = int_of_nat x in if i < n then arr.(i) else s.p_nodes x) }

let table_line (s : pstate) =
  let b = Buffer.create 256 in
  Buffer.add_string b (Printf.sprintf "t %d %d %d" (int_of_nat s.p_tid) (int_of_nat s.p_cap) (int_of_nat s.p_size));
  let limit = int_of_nat s.p_size + 8 in
  List.iteri (fun i hd ->
    match hd with
    | None -> ()
    | Some _ ->
      Buffer.add_string b (Printf.sprintf " %d=" i);
      let rec go p steps first =
        match p with
        | None -> ()
        | Some x ->
          if not first then Buffer.add_char b ',';
          if steps > limit then Buffer.add_string b "CYCLE"
          else (match s.p_nodes x with
            | None -> Buffer.add_string b (Printf.sprintf "%d:DANGLING" (int_of_nat x))
            | Some nd ->
              Buffer.add_string b (Printf.sprintf "%d:%s:%s" (int_of_nat x) (string_of_n nd.n_key) (string_of_n nd.n_val));
              go nd.n_next (steps + 1) false) in
      go hd 0 true) s.p_table;
  Buffer.add_char b '\n';
  Buffer.contents b

let body lines =
  let kind, ops = match lines with
    | l :: r when (match words l with "hash" :: _ :: _ -> true | _ -> false) ->
      (int_of_string (List.nth (words l) 1), r)
    | _ -> (0, lines) in
  let hash = hash_of kind in
  let s = ref (tabulate p_init) in
  let stop what = print_string (what ^ "\n"); raise Exit in
  (try
    List.iter (fun l ->
      let o = match words l with
        | ["i"; k; v] -> Some (Insert (n_of_string k, n_of_string v))
        | ["x"; k; v] -> Some (IndexSet (n_of_string k, n_of_string v))
        | ["g"; k] -> Some (Get (n_of_string k))
        | ["r"; k] -> Some (Remove (n_of_string k))
        | ["it"] -> Some Iterate
        | ["sz"] -> Some Size
        | _ -> None in
      match o with
      | None ->
        (* raw scripts: "rh" = the private rehash() called directly *)
        if words l = ["rh"] then
          (match p_rehash hash psz (fuel_for !s) !s with
           | POk (s', evs) ->
             s := tabulate s';
             print_string "u\n"; print_string (show_evs evs); print_string (table_line !s)
           | PAssertStop -> stop "assert"
           | PNullDeref -> stop "nullderef"
           | PUB -> stop "ub"
           | POutOfFuel -> stop "fuel")
      | Some o ->
        (match p_step hash psz nsz (fuel_for !s) !s o with
         | POk ((s', out), evs) ->
           s := tabulate s';
           print_string (match out with
             | OUnit -> "u"
             | OVal v -> show_opt v
             | OBool b -> if b then "b 1" else "b 0"
             | OList l -> "l" ^ String.concat "" (List.map (fun (k, v) -> " " ^ string_of_n k ^ ":" ^ string_of_n v) l)
             | OAssert -> "assert");
           print_string "\n";
           print_string (show_evs evs);
           print_string (table_line !s)
         | PAssertStop -> stop "assert"
         | PNullDeref -> stop "nullderef"
         | PUB -> stop "ub"
         | POutOfFuel -> stop "fuel")) ops;
    print_string "dtor\n";
    (match p_destroy psz nsz (fuel_for !s) !s with
     | POk (_, evs) -> print_string (show_evs evs)
     | PAssertStop -> stop "assert"
     | PNullDeref -> stop "nullderef"
     | PUB -> stop "ub"
     | POutOfFuel -> stop "fuel")
  with Exit -> ())

let () = run_cases body
