"""Script generator for hash_map (C14, C16). Aimed at: every rehash threshold (10, 20, 40, ...),
operator[] exactly at size == capacity, colliding hashes, drain-and-refill, remove by chain role."""
import random

M64 = (1 << 64) - 1
POOL_N = 4096      # comp/hashmap/harness.cpp

def signed_key(rng, keyspace):
    """a key for the signed-key instantiation (hash kind 5), as its 64-bit two's complement pattern; mostly NEGATIVE values
    that fit 32 (16, 8) bits -- where a hash that depends on the C++ type of get()'s argument shows"""
    r = rng.random()
    if r < 0.45:
        v = -rng.randrange(1, min(max(keyspace, 2), 1 << 31) + 1)
    elif r < 0.6:
        v = -rng.randrange(1, 1 << rng.choice([7, 15, 31]))
    elif r < 0.8:
        v = rng.randrange(min(keyspace, 1 << 31))
    elif r < 0.9:
        v = rng.choice([-1, 1]) * rng.randrange(1 << 31, 1 << 62)
    else:
        v = rng.choice([-1, -128, -129, -32768, -32769, -(1 << 31), -(1 << 31) - 1, (1 << 31) - 1, 1 << 31, -(1 << 63), (1 << 63) - 1, 0])
    return v & M64

def gen_case(rng, n_ops, kind=None, keyspace=None):
    kind = rng.choice([0, 0, 1, 2, 3, 4, 5, 5, 6, 6]) if kind is None else kind
    keyspace = keyspace or rng.choice([8, 24, 50, 200, 1 << 20, 1 << 40])
    if kind == 6:
        # pointer keys: the script key is the index of an object in the harness's pool of 4096 `Derived : Base1, Base2`
        keyspace = min(keyspace, rng.choice([50, 200, POOL_N]))
    # the hasher object the map is constructed from: a temporary ("tmp"), or the harness's own lvalue whose state the script
    # changes later ("reseed k": the map must keep using the copy it made); kind 5 uses the stateless frg::hash<int64_t>
    temporary = kind < 5 and rng.random() < 0.15
    reseed_p = 0.0 if (kind >= 5 or temporary) else rng.choice([0.0, 0.02, 0.05])
    lines = ["hash %d%s" % (kind, " tmp" if temporary else "")]
    present = []
    def draw():
        if kind == 5:
            return signed_key(rng, keyspace)
        return rng.randrange(keyspace)
    def newkey():
        for _ in range(50):
            if kind >= 5:
                k = draw()
            else:
                k = rng.randrange(keyspace) if rng.random() < 0.9 else rng.choice([0, 2**32 - 1, 2**32, 2**64 - 1, 2**63])
            if k not in present:
                return k
        return None
    phase = rng.choice(["mixed", "grow", "grow_idx", "churn"])
    for _ in range(n_ops):
        r = rng.random()
        if phase == "grow":
            w = [0.7, 0.05, 0.1, 0.05, 0.05, 0.05]
        elif phase == "grow_idx":
            w = [0.1, 0.65, 0.1, 0.05, 0.05, 0.05]
        elif phase == "churn":
            w = [0.25, 0.15, 0.15, 0.35, 0.05, 0.05]
        else:
            w = [0.3, 0.25, 0.15, 0.2, 0.05, 0.05]
        o = rng.choices(["i", "x", "g", "r", "it", "sz"], w)[0]
        if o == "i":
            k = newkey()
            if k is None:
                continue
            present.append(k); lines.append("i %d %d" % (k, rng.randrange(1, 1000)))
        elif o == "x":
            if present and rng.random() < 0.3:
                k = rng.choice(present)
            else:
                k = newkey()
                if k is None:
                    continue
                present.append(k)
            lines.append("x %d %d" % (k, rng.randrange(1, 1000)))
        elif o == "g":
            k = rng.choice(present) if present and rng.random() < 0.6 else draw()
            lines.append("g %d" % k)
        elif o == "r":
            if present and rng.random() < 0.8:
                k = rng.choice(present); present.remove(k)
            else:
                k = draw()
                if k in present:
                    present.remove(k)
            lines.append("r %d" % k)
        else:
            lines.append(o)
        if rng.random() < 0.02:
            phase = rng.choice(["mixed", "grow", "grow_idx", "churn"])
        if reseed_p and present and rng.random() < reseed_p:
            lines.append("reseed %d" % rng.choice([k for k in range(5) if k != kind]))
    if present and kind < 5:
        # every present key is looked up once more at the end (after all reseeds)
        lines += ["g %d" % k for k in rng.sample(present, min(len(present), 6))]
    lines += ["sz", "it"]
    return lines

def corpus():
    """Minimised past failures; run first."""
    cs = []
    # D10: operator[] linking into the bucket computed before rehash()
    cs.append(("corpus-d10-index-at-capacity", ["hash 0"] + ["x %d %d" % (i, i + 1) for i in range(21)] + ["g 20", "sz", "it"]))
    cs.append(("corpus-d10-insert-then-index", ["hash 0"] + ["i %d %d" % (i, i + 1) for i in range(10)] + ["x 10 5", "g 10", "sz", "it"]))
    cs.append(("corpus-const-hash", ["hash 1"] + ["i %d %d" % (i, i) for i in range(12)] + ["r 0", "r 11", "r 5", "it", "sz"]))
    cs.append(("corpus-drain-refill", ["hash 3"] + ["i %d 1" % i for i in range(11)] + ["r %d" % i for i in range(11)] + ["it", "x 4 4", "it", "sz"]))
    # seeded change r6-1 (frg::hash<T *> takes const void *: a Derived * is hashed without the derived-to-base adjustment):
    # pointer-keyed map over a non-first base, get() through Derived *, across the growth thresholds 10, 20, 40
    cs.append(("corpus-pointer-keys-derived-get", ["hash 6"] + sum((["i %d %d" % (k, k + 1), "g %d" % k] for k in range(0, 45)), []) +
               ["g 100", "r 7", "g 7", "x 7 70", "g 7", "it", "sz"]))
    cs.append(("corpus-empty", ["hash 0", "g 1", "r 1", "it", "sz"]))
    # seeded change r8-2 (find() const lost its `if(!_size) return end()` guard: hash % 0 on a map that never had a table):
    # the const interface (find/end/size through const hash_map &, taken by every g / r / sz) on a never-populated map for
    # every hash kind / instantiation, then populated, then emptied again, then refilled
    for kind in (0, 1, 2, 3, 4, 5, 6):
        cs.append(("corpus-const-view-fresh-h%d" % kind, ["hash %d" % kind, "sz", "g 0", "g 42", "r 42", "g 42", "it",
                   "x 42 1", "g 0", "g 42", "sz", "r 42", "g 42", "g 0", "sz", "it",
                   "i 7 70", "g 7", "g 42", "r 7", "g 7", "sz"]))
    cs.append(("corpus-const-view-fill-drain", ["hash 0", "g 3"] + ["i %d %d" % (k, k + 1) for k in range(25)] + ["g %d" % k for k in range(25)] +
               ["g 99"] + ["r %d" % k for k in range(25)] + ["g %d" % k for k in range(25)] + ["sz", "it", "g 99"]))
    # seeded change r4-2 (_hasher became a reference to the caller's object): the caller re-seeds its hasher after filling the map
    cs.append(("corpus-reseed-caller-hasher", ["hash 0"] + ["i %d %d" % (k, k + 1) for k in range(15)] + ["reseed 1"] +
               ["g %d" % k for k in range(15)] + ["r 3", "x 4 44", "x 99 9", "reseed 3", "i 200 1", "g 200", "g 99", "it", "sz"]))
    # ... or passes a temporary hasher (dangling afterwards)
    cs.append(("corpus-temporary-hasher", ["hash 3 tmp"] + ["i %d %d" % (k * 7919, k + 1) for k in range(12)] +
               ["g %d" % (k * 7919) for k in range(12)] + ["r 7919", "x 5 5", "it", "sz"]))
    # seeded change r4-3 (frg::hash<int64_t> gained an int overload that is wrong for negative values): signed keys that fit
    # 32/16/8 bits, looked up through the templated get() with int / short / signed char / long / int64_t arguments
    sk = [(-7), (-1), (-128), (-129), (-40000), (-(1 << 31)), (-(1 << 31) - 1), 5, (1 << 40), (-(1 << 40)), (-300)]
    cs.append(("corpus-signed-negative-get", ["hash 5"] + ["i %d %d" % (k & M64, i + 1) for i, k in enumerate(sk)] +
               ["g %d" % (k & M64) for k in sk] + ["g %d" % ((-8) & M64), "r %d" % ((-7) & M64), "g %d" % ((-7) & M64),
                "x %d 9" % ((-9) & M64), "g %d" % ((-9) & M64), "it", "sz"]))
    return cs

def exhaustive_small(maxlen):
    """All op sequences up to maxlen over keys {0,1,10} with hash mod3 (thorough tier)."""
    import itertools
    alphabet = []
    for k in (0, 1, 10):
        alphabet += ["x %d 5" % k, "r %d" % k, "g %d" % k]
    out = []
    for n in range(1, maxlen + 1):
        for seq in itertools.product(alphabet, repeat=n):
            out.append(("ex-%d-%d" % (n, len(out)), ["hash 2"] + list(seq) + ["sz", "it"]))
    return out

# ---- raw scripts: compared with the POINTER-LEVEL model only (the chain-level model has no such op).
# "rh" calls the private rehash() directly, so that rehash also runs at loads where the new capacity max(10, 2*size) is
# NOT a multiple of the old one: several old buckets then merge into one new bucket and the order in which rehash walks
# the old table (and each chain) becomes visible in the chain order of the new table.

def gen_raw_case(rng, n_ops):
    kind = rng.choice([0, 0, 2, 3, 4])
    base = gen_case(rng, n_ops, kind=kind, keyspace=rng.choice([24, 50, 200, 1 << 20]))
    lines = [base[0]]
    p = rng.choice([0.04, 0.1, 0.25])
    for l in base[1:]:
        lines.append(l)
        if rng.random() < p:
            lines.append("rh")
            if rng.random() < 0.15:
                lines.append("rh")          # twice in a row: same capacity, every chain reversed
    return lines

def raw_corpus():
    cs = []
    # identity hash, capacity 20 -> 14: keys 0, 28, 14 sit in old buckets 0, 8, 14 and all move to new bucket 0
    cs.append(("raw-shrink-merge", ["hash 0"] + ["i %d %d" % (k, k + 1) for k in (0, 14, 28, 1, 15, 29, 2, 16, 30, 3, 17)] +
               ["r 3", "r 17", "r 30", "r 2", "rh", "it", "g 28", "r 14", "rh", "it", "sz"]))
    cs.append(("raw-empty", ["hash 0", "rh", "rh", "it", "x 5 5", "rh", "r 5", "rh", "x 6 6", "it", "sz"]))
    cs.append(("raw-grow-early", ["hash 2"] + ["i %d 1" % k for k in range(7)] + ["rh", "it"] + ["i %d 2" % k for k in range(7, 15)] +
               ["rh", "it", "r 0", "r 3", "r 6", "rh", "it", "sz"]))
    cs.append(("raw-const-reverse", ["hash 1"] + ["i %d 1" % k for k in range(6)] + ["rh", "it", "rh", "it", "r 0", "r 5", "rh", "it", "sz"]))
    cs.append(("raw-high-bits", ["hash 4"] + ["i %d 1" % (k << 28) for k in (1, 15, 29, 43, 2, 16, 30)] + ["r %d" % (2 << 28), "rh", "it", "sz"]))
    return cs

def raw_exhaustive(maxlen):
    """All op sequences up to maxlen over keys {0, 14, 28, 5} (identity hash; 0, 14, 28 collide for capacity 14 but
    not for 10 or 20) with insert-by-operator[], remove and the direct rehash()."""
    import itertools
    alphabet = ["rh"]
    for k in (0, 14, 28, 5):
        alphabet += ["x %d 5" % k, "r %d" % k]
    prefix = ["hash 0"] + ["i %d 1" % k for k in (1, 2, 3, 4)]      # size 4: rehash() gives capacity 10, with 2 more 12, 14
    out = []
    for n in range(1, maxlen + 1):
        for seq in itertools.product(alphabet, repeat=n):
            if "rh" not in seq:
                continue
            out.append(("rx-%d-%d" % (n, len(out)), prefix + list(seq) + ["sz", "it"]))
    return out
