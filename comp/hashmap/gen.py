"""Script generator for hash_map (C14, C16). Aimed at: every rehash threshold (10, 20, 40, ...),
operator[] exactly at size == capacity, colliding hashes, drain-and-refill, remove by chain role."""
import random

def gen_case(rng, n_ops, kind=None, keyspace=None):
    kind = rng.choice([0, 0, 1, 2, 3, 4]) if kind is None else kind
    keyspace = keyspace or rng.choice([8, 24, 50, 200, 1 << 20, 1 << 40])
    lines = ["hash %d" % kind]
    present = []
    def newkey():
        for _ in range(50):
            k = rng.randrange(keyspace) if rng.random() < 0.9 else rng.choice([0, 2**32 - 1, 2**32, 2**64 - 1, 2**63])
            if k not in present:
                return k
        return None
    phase = rng.choice(["mixed", "grow", "grow_idx", "churn"])
    for _ in range(n_ops):
        r = rng.random()
        if phase == "grow":
            w = [0.7, 0.05, 0.1, 0.05, 0.05, 0.05]
        elif phase == "grow_idx":
            w = [0.1, 0.65, 0.1, 0.05, 0.05, 0.05]
        elif phase == "churn":
            w = [0.25, 0.15, 0.15, 0.35, 0.05, 0.05]
        else:
            w = [0.3, 0.25, 0.15, 0.2, 0.05, 0.05]
        o = rng.choices(["i", "x", "g", "r", "it", "sz"], w)[0]
        if o == "i":
            k = newkey()
            if k is None:
                continue
            present.append(k); lines.append("i %d %d" % (k, rng.randrange(1, 1000)))
        elif o == "x":
            if present and rng.random() < 0.3:
                k = rng.choice(present)
            else:
                k = newkey()
                if k is None:
                    continue
                present.append(k)
            lines.append("x %d %d" % (k, rng.randrange(1, 1000)))
        elif o == "g":
            k = rng.choice(present) if present and rng.random() < 0.6 else rng.randrange(keyspace)
            lines.append("g %d" % k)
        elif o == "r":
            if present and rng.random() < 0.8:
                k = rng.choice(present); present.remove(k)
            else:
                k = rng.randrange(keyspace)
                if k in present:
                    present.remove(k)
            lines.append("r %d" % k)
        else:
            lines.append(o)
        if rng.random() < 0.02:
            phase = rng.choice(["mixed", "grow", "grow_idx", "churn"])
    lines += ["sz", "it"]
    return lines

def corpus():
    """Minimised past failures; run first."""
    cs = []
    # D10: operator[] linking into the bucket computed before rehash()
    cs.append(("corpus-d10-index-at-capacity", ["hash 0"] + ["x %d %d" % (i, i + 1) for i in range(21)] + ["g 20", "sz", "it"]))
    cs.append(("corpus-d10-insert-then-index", ["hash 0"] + ["i %d %d" % (i, i + 1) for i in range(10)] + ["x 10 5", "g 10", "sz", "it"]))
    cs.append(("corpus-const-hash", ["hash 1"] + ["i %d %d" % (i, i) for i in range(12)] + ["r 0", "r 11", "r 5", "it", "sz"]))
    cs.append(("corpus-drain-refill", ["hash 3"] + ["i %d 1" % i for i in range(11)] + ["r %d" % i for i in range(11)] + ["it", "x 4 4", "it", "sz"]))
    cs.append(("corpus-empty", ["hash 0", "g 1", "r 1", "it", "sz"]))
    return cs

def exhaustive_small(maxlen):
    """All op sequences up to maxlen over keys {0,1,10} with hash mod3 (thorough tier)."""
    import itertools
    alphabet = []
    for k in (0, 1, 10):
        alphabet += ["x %d 5" % k, "r %d" % k, "g %d" % k]
    out = []
    for n in range(1, maxlen + 1):
        for seq in itertools.product(alphabet, repeat=n):
            out.append(("ex-%d-%d" % (n, len(out)), ["hash 2"] + list(seq) + ["sz", "it"]))
    return out
