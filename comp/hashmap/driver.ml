(* driver for the extracted hash_map model: same scripts as comp/hashmap/harness.cpp.
   argv: [sizeof(chain * )] [sizeof(chain)] as measured on the real code by `harness --sizes`
   (the model and its theorems are parametric in both). Per op: the result line, then the event
   line "e ..." (allocator / lifetime events of that op); after the last op the destructor's. *)
(* the hash functions of the harness's Hasher, NOT reduced to 32 bits: the model does that itself.
   Line 1 is "hash <kind> [tmp]"; the hash is FIXED here, at construction: the harness's "reseed <kind>" lines (the caller's
   hasher object changes state after the map copied it) and the "tmp" flag (map constructed from a temporary hasher) are
   ignored.  Kind 5 = the signed-key instantiation with frg::hash<int64_t>: keys arrive as their 64-bit two's complement
   pattern x, and (unsigned)(v ^ (v >> 32)) of the sign-extended value is low32(x) xor high32(x), the same function of the key
   value as kind 3 -- whatever C++ integer type the harness passes the key as. *)
let m32 = 0xFFFFFFFFL
let hash_of kind : n -> n = fun k ->
  let x = i64_of_n k in
  n_of_i64 (match kind with
    | 0 -> x
    | 1 -> 7L
    | 2 -> Int64.unsigned_rem x 3L
    | 3 | 5 -> Int64.logand (Int64.logxor x (Int64.shift_right_logical x 32)) m32
    | 6 -> Int64.add 0x20000008L (Int64.mul x 24L)     (* address of the Base2 subobject of pool object x (harness.cpp) *)
    | _ -> Int64.shift_right_logical x 28)

let psz = n_of_string (if Array.length Sys.argv > 1 then Sys.argv.(1) else "8")
let nsz = n_of_string (if Array.length Sys.argv > 2 then Sys.argv.(2) else "32")

let show_opt = function None -> "v none" | Some v -> "v " ^ string_of_n v

let show_ev = function
  | EAlloc (b, n) -> Printf.sprintf " A%d:%s" (int_of_nat b) (string_of_n n)
  | EDealloc (b, n) -> Printf.sprintf " F%d:%s" (int_of_nat b) (string_of_n n)
  | EFree b -> Printf.sprintf " R%d" (int_of_nat b)
  | EConstruct (b, _) -> Printf.sprintf " C%d" (int_of_nat b)
  | EDestroy (b, _) -> Printf.sprintf " D%d" (int_of_nat b)
  | EUse (b, _) -> Printf.sprintf " U%d" (int_of_nat b)
let show_evs es = "e" ^ String.concat "" (List.map show_ev es) ^ "\n"

let body lines =
  let kind, ops = match lines with
    | l :: r when (match words l with "hash" :: _ :: _ -> true | _ -> false) ->
      (int_of_string (List.nth (words l) 1), r)
    | _ -> (0, lines) in
  let hash = hash_of kind in
  let s = ref empty_lhm in
  List.iter (fun l ->
    let o = match words l with
      | ["i"; k; v] -> Some (Insert (n_of_string k, n_of_string v))
      | ["x"; k; v] -> Some (IndexSet (n_of_string k, n_of_string v))
      | ["g"; k] -> Some (Get (n_of_string k))
      | ["r"; k] -> Some (Remove (n_of_string k))
      | ["it"] -> Some Iterate
      | ["sz"] -> Some Size
      | _ -> None in
    match o with
    | None -> ()
    | Some o ->
      let ((s', out), evs) = lstep hash psz nsz !s o in
      s := s';
      print_string (match out with
        | OUnit -> "u"
        | OVal v -> show_opt v
        | OBool b -> if b then "b 1" else "b 0"
        | OList l -> "l" ^ String.concat "" (List.map (fun (k, v) -> " " ^ string_of_n k ^ ":" ^ string_of_n v) l)
        | OAssert -> "assert");
      print_string "\n";
      print_string (show_evs evs)) ops;
  print_string "dtor\n";
  print_string (show_evs (destructor_evs psz nsz !s))

let () = run_cases body
