(* driver for the extracted hash_map model: same scripts as comp/hashmap/harness.cpp *)
let m32 = 0xFFFFFFFFL
let hash_of kind : n -> n = fun k ->
  let x = i64_of_n k in
  n_of_i64 (match kind with
    | 0 -> Int64.logand x m32
    | 1 -> 7L
    | 2 -> Int64.unsigned_rem x 3L
    | 3 -> Int64.logand (Int64.logxor x (Int64.shift_right_logical x 32)) m32
    | _ -> Int64.logand (Int64.shift_right_logical x 28) m32)

let show_opt = function None -> "v none" | Some v -> "v " ^ string_of_n v

let body lines =
  let kind, ops = match lines with
    | l :: r when (match words l with ["hash"; _] -> true | _ -> false) ->
      (int_of_string (List.nth (words l) 1), r)
    | _ -> (0, lines) in
  let hash = hash_of kind in
  let m = ref empty_hm in
  List.iter (fun l ->
    let o = match words l with
      | ["i"; k; v] -> Some (Insert (n_of_string k, n_of_string v))
      | ["x"; k; v] -> Some (IndexSet (n_of_string k, n_of_string v))
      | ["g"; k] -> Some (Get (n_of_string k))
      | ["r"; k] -> Some (Remove (n_of_string k))
      | ["it"] -> Some Iterate
      | ["sz"] -> Some Size
      | _ -> None in
    match o with
    | None -> ()
    | Some o ->
      let (m', out) = step hash !m o in
      m := m';
      print_string (match out with
        | OUnit -> "u"
        | OVal v -> show_opt v
        | OBool b -> if b then "b 1" else "b 0"
        | OList l -> "l" ^ String.concat "" (List.map (fun (k, v) -> " " ^ string_of_n k ^ ":" ^ string_of_n v) l)
        | OAssert -> "assert");
      print_string "\n") ops

let () = run_cases body
