// Lock-step harness for C10 (frg::rcu_radixtree, single thread): runs the WRITER scripts on the real tree and, after
// every complete operation (the only micro-step boundaries a harness can observe), prints
//   * the atomic cells and node headers that changed (root, prefix, depth, 16 links / mask per node, by allocation
//     order) -- compared with the LAST MESSAGE per location of the model's write log (comp/radixconc/driver.ml), and
//   * find(k) for every key of the script -- compared with the model's READER (one load per step, release/acquire
//     memory) under the latest-message choice.
// Independent oracle (no model): std::map reference for every find; no value destructor runs inside a library call.
// Ops:  i k v (insert) | o k v (find_or_insert) | e k (p = find; erase; caller destroys)
#include <map>
#include <algorithm>
#include "vharness.hpp"
#include <frg/rcu_radixtree.hpp>

namespace {

struct NodeRec { void *base; size_t size; };
std::vector<NodeRec> g_nodes;                        // index = allocation order = node id
std::map<const void *, int> g_node_id;

struct RAlloc {
	vh::TrackAlloc inner;
	void *allocate(size_t n) {
		void *p = inner.allocate(n);
		g_node_id[p] = (int)g_nodes.size();
		g_nodes.push_back({p, n});
		return p;
	}
	void deallocate(void *p, size_t n) { inner.deallocate(p, n); }
	void free(void *p) { inner.free(p); }
};

// the library must never end the lifetime of a value inside find / find_or_insert / insert / erase: erase only clears
// the mask bit, the CALLER destroys the value after its grace period (a value destroyed while its key is still
// published is what a concurrent find would return)
bool g_in_lib = false;
int g_lib_dtors = 0;
struct RV : vh::TV {
	RV(uint64_t x) : vh::TV(x) {}
	RV(const RV &) = delete;
	~RV() { if(g_in_lib) g_lib_dtors++; }
};
struct InLib { InLib() { g_in_lib = true; g_lib_dtors = 0; } ~InLib() { g_in_lib = false; } };

using Tree = frg::rcu_radixtree<RV, RAlloc>;
using Node = Tree::node;
using LinkNode = Tree::link_node;
using EntryNode = Tree::entry_node;

std::string ids(const void *p) {
	if(!p) return "-";
	auto it = g_node_id.find(p);
	return it == g_node_id.end() ? "?" : std::to_string(it->second);
}

bool locate(const void *v, int &node, int &idx) {
	for(size_t i = 0; i < g_nodes.size(); i++) {
		auto &r = g_nodes[i];
		if(r.size != sizeof(EntryNode)) continue;
		auto e = static_cast<EntryNode *>(r.base);
		auto lo = reinterpret_cast<const char *>(&e->entries[0]);
		auto hi = reinterpret_cast<const char *>(&e->entries[16]);
		auto c = reinterpret_cast<const char *>(v);
		if(c >= lo && c < hi) {
			if((c - lo) % sizeof(e->entries[0])) return false;
			node = (int)i; idx = (int)((c - lo) / sizeof(e->entries[0]));
			return true;
		}
	}
	return false;
}
std::string addr(const void *v) {
	int n, i;
	if(!v) return "none";
	if(!locate(v, n, i)) return "? ?";
	return std::to_string(n) + " " + std::to_string(i);
}

std::map<int, std::string> g_shown;
std::string g_root_shown;
void dump(Tree &t) {
	std::string r = "r " + ids(t._root.load());
	if(r != g_root_shown) { printf("%s\n", r.c_str()); g_root_shown = r; }
	for(size_t id = 0; id < g_nodes.size(); id++) {
		auto &rec = g_nodes[id];
		std::ostringstream os;
		auto n = static_cast<Node *>(rec.base);
		if(rec.size == sizeof(LinkNode)) {
			auto l = static_cast<LinkNode *>(n);
			os << "n " << id << " L " << n->prefix << " " << n->depth;
			for(int i = 0; i < 16; i++) os << " " << ids(l->links[i].load());
		} else {
			auto e = static_cast<EntryNode *>(n);
			os << "n " << id << " E " << n->prefix << " " << n->depth << " " << e->mask.load();
		}
		std::string s = os.str();
		auto it = g_shown.find((int)id);
		if(it == g_shown.end() || it->second != s) { printf("%s\n", s.c_str()); g_shown[(int)id] = s; }
	}
}

struct Ref { RV *p; uint64_t v; };

void body(const vh::Lines &ls) {
	g_nodes.clear(); g_node_id.clear(); g_shown.clear(); g_root_shown = "r -";
	std::map<uint64_t, Ref> ref;
	std::vector<uint64_t> probes;
	for(auto &line : ls) {
		auto w = vh::split(line);
		if(w.size() < 2) continue;
		uint64_t k = vh::u64(w[1]);
		if(probes.size() < 24 && std::find(probes.begin(), probes.end(), k) == probes.end()) probes.push_back(k);
	}
	{
		Tree t;
		size_t opno = 0;
		for(auto &line : ls) {
			auto w = vh::split(line);
			if(w.size() < 2) continue;
			const std::string &o = w[0];
			uint64_t k = vh::u64(w[1]);
			opno++;
			bool expect_assert = false;
			try {
				auto it = ref.find(k);
				if(o == "i") {
					expect_assert = it != ref.end();
					uint64_t v = vh::u64(w[2]);
					RV *p; { InLib il; p = t.insert(k, v); }
					ref[k] = Ref{p, v};
				} else if(o == "o") {
					uint64_t v = vh::u64(w[2]);
					RV *p; { InLib il; p = t.find_or_insert(k, v).template get<0>(); }
					if(it == ref.end()) ref[k] = Ref{p, v};
				} else if(o == "e") {
					expect_assert = it == ref.end();
					RV *p;
					{ InLib il; p = t.find(k); t.erase(k); }
					if(g_lib_dtors) vh::oracle("destroyed-while-published", "op %zu: erase(%#llx) ran %d value destructor(s): the value is dead "
						"while a concurrent find can still obtain it (erase must only clear the mask bit)", opno, (unsigned long long)k, g_lib_dtors);
					if(p) p->~RV();          // the caller's part of the protocol, after the grace period
					if(it != ref.end()) ref.erase(it);
				} else continue;
				if(o != "e" && g_lib_dtors) vh::oracle("destroyed-while-published", "op %zu '%s' ran %d value destructor(s)", opno, line.c_str(), g_lib_dtors);
			} catch(vh::AssertStop &a) {
				g_in_lib = false;
				printf("assert\n");
				if(!expect_assert) vh::oracle("unexpected-assert", "op %zu '%s': %s", opno, line.c_str(), a.where.c_str());
				break;
			}
			printf("ok\n");
			dump(t);
			std::vector<uint64_t> ks = probes;
			if(std::find(ks.begin(), ks.end(), k) == ks.end()) ks.push_back(k);
			for(uint64_t q : ks) {
				RV *p = t.find(q);
				printf("f %llu %s\n", (unsigned long long)q, addr(p).c_str());
				auto it = ref.find(q);
				if(it == ref.end() ? p != nullptr : p != it->second.p)
					vh::oracle("seq-find", "after op %zu: find(%#llx) = %s, reference %s", opno, (unsigned long long)q,
						addr(p).c_str(), it == ref.end() ? "absent" : addr(it->second.p).c_str());
				else if(p && p->get() != it->second.v)
					vh::oracle("seq-find", "after op %zu: find(%#llx): wrong value", opno, (unsigned long long)q);
			}
		}
	}
}

} // namespace

int main() { return vh::run(body); }
