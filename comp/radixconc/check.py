"""radixconc component (C10: rcu_radixtree with one writer and lock-free readers): regenerates the source-derived
orders/skeleton (translator/gen_radixconc.py -> coq/Gen/RadixConcOrders.v), builds the extracted model driver, the
lock-step harness (ASan/UBSan) and the stress harness (TSan), runs legs C and O into the given Check.
Used by checks/c10.py."""
import os, re, sys, threading
import vlib
from comp.radixconc import gen

HERE = os.path.dirname(os.path.abspath(__file__))
RULE = ("(lock-step) seeded writer histories (insert / find_or_insert / erase over key universes built from pairs first differing "
        "at each of the 16 nibble positions, dense leaves, 0 / 2^64-1 boundaries, chains of splits above and below the root): "
        "after every complete operation the changed atomic cells and node headers of the real tree are compared with the last "
        "message per location of the model's write log, and find(k) for every key of the script with the model reader (one load "
        "per step over the release/acquire memory, latest-message choice); (stress) TSan runs with 1 writer + 1-7 readers over "
        "scripts with stable (present-throughout, announced by a release counter) and churn keys; non-trivial = distinct "
        "lock-step script with at least one prefix split and one erase, plus distinct (family, readers) stress configurations "
        "that completed with overlapping finds; values have a destructor that writes a DEAD pattern and are destroyed only by the "
        "caller protocol find -> erase -> grace period -> destroy; lock-step: no value destructor may run inside a library call")
TRUSTED = ["extraction: ExtrOcamlBasic only; OCaml 4.13.1; comp/radixconc/driver.ml",
           "lock-step harness comp/radixconc/harness.cpp (g++ -fsanitize=address,undefined, -fno-access-control); stress harness "
           "comp/radixconc/stress.cpp (g++ -fsanitize=thread)",
           "ThreadSanitizer's happens-before detector (it honours C++ memory orders); x86-64 hardware does not reorder stores, so a "
           "weakened publish order is exhibited by TSan / the generated obligation, not by a lost key",
           "translator/gen_radixconc.py (clang 14 JSON AST -> coq/Gen/RadixConcOrders.v: memory order per access site, kinds and "
           "program order of the writer's writes per case)",
           "the memory model coq/RadixConc/RAView.v: single-writer view-based release/acquire semantics (per-location coherence, "
           "acquire of a release message joins the writer's view, a non-atomic access not covered by the view is a race); "
           "no release sequences / fences / RMWs are needed by this code",
           "the sequential model coq/Radix/RadixModel.v (tied to the source by C09) provides the writer's micro-step programs",
           "modelled, not verified: value-initialisation of fresh nodes (non-atomic writes of zeros)"]
ASSUMPTIONS = ["exactly one writer thread (insert / find_or_insert / erase); any number of threads calling find",
               "writer histories respect the documented preconditions (keys are uint64_t, insert only absent keys, erase only present keys)",
               "readers start after the constructor returned (initial view covers the store of _root{nullptr})",
               "reuse of a slot (re-insert of an erased key) while a reader still uses the pointer it obtained earlier is excluded by "
               "the caller's grace period (qs.hpp); destruction of erased values is the caller's",
               "iterators are not used concurrently with the writer (documented as unsupported in the header)"]


def regen(c=None):
    rc, o, e = vlib.sh([sys.executable, os.path.join(vlib.ROOT, "translator", "gen_radixconc.py")], timeout=600)
    ok, detail = rc == 0, (o + e)[-500:]
    if ok:
        ok, log = vlib.coq_make(["Gen/RadixConcOrders.vo"])
        if not ok:
            m = re.search(r"Lemma (\w+)|Error[^\n]*\n[^\n]*", log)
            detail = log[-700:]
    if c is not None:
        c.gen_obligation("Gen/RadixConcOrders.v (orders_sufficient actual = true; the orders embedded in the sequential model are the "
                         "source's; kinds and program order of the writer's writes per case = the model's micro-step programs; "
                         "erase / find_or_insert / find contain no destructor call)", ok,
                         "" if ok else detail)
    return ok


def classify_crash(text):
    if "ThreadSanitizer: data race" in text:
        return "race"
    if "ThreadSanitizer" in text:
        return "race"
    if "timeout after" in text:
        return "hang"
    return "crash"


def crash_message(text):
    m = re.search(r"SUMMARY: ThreadSanitizer: ([^\n]*)", text)
    if m:
        return "ThreadSanitizer: " + re.sub(r"/[^ ]*/include/frg/", "frg/", m.group(1))[:300]
    return vlib._crash_summary(text)


def nontrivial(cid, lines, ri):
    if any(l.startswith("n ") and " L " in l for l in ri["lines"]) and any(l.startswith("e ") for l in lines):
        return "|".join(lines)
    return None


def run(c):
    regen(c)
    res = {}

    def b_model():
        okm, mlog = vlib.coq_make(["RadixConc/ConcExtract.vo"])
        if not okm:
            res["m"] = (False, None, mlog[-1200:])
            return
        res["m"] = vlib.ocaml_build("radixconc_m", ["radixconc_model"], os.path.join(HERE, "driver.ml"))

    def b_lock():
        res["h"] = vlib.cxx_build("radixconc_h", os.path.join(HERE, "harness.cpp"))

    def b_stress():
        res["t"] = vlib.cxx_build("radixconc_t", os.path.join(HERE, "stress.cpp"), san="tsan")
    ths = [threading.Thread(target=f) for f in (b_model, b_lock, b_stress)]
    [t.start() for t in ths]
    [t.join() for t in ths]
    okd, drv, dlog = res["m"]
    okh, har, hlog = res["h"]
    okt, tsan, tlog = res["t"]
    if not okd:
        c.broken.append("radixconc model extraction/driver build failed: " + str(dlog)[-800:])
    if not (okh and okt):
        c.broken.append("radixconc harness does not compile against the repo: " + (hlog if not okh else tlog)[-1500:])
        return False

    if c.replay:
        cases = vlib.read_replay(c.replay)
        lock = [(i, l) for i, l in cases if not (l and l[0].startswith("stress"))]
        stress = [(i, l) for i, l in cases if l and l[0].startswith("stress")]
    else:
        lock = gen.lock_corpus()
        nl, ns = (260, 40) if c.tier == "quick" else (2500, 400)
        for i in range(nl):
            fam, ls = gen.lock_case(c.rng, c.rng.choice([6, 12, 25, 50, 90]))
            c.count("radixconc_lock_family_" + fam)
            lock.append(("l%d" % i, ls))
        stress = gen.stress_corpus()
        for i in range(ns):
            nr = c.rng.randint(1, 7)
            fam, ls = gen.stress_case(c.rng, nr, c.rng.choice([60, 150, 300]))
            c.count("radixconc_stress_family_" + fam)
            stress.append(("s%d" % i, ls))

    # ---- lock-step leg (C + O)
    for _, ls in lock:
        c.count("radixconc_lock_ops", len(ls))
        for l in ls:
            c.count("radixconc_lock_op_" + l.split()[0])
    impl = vlib.run_cases(har, lock) if lock else {}
    model = vlib.run_cases(drv, lock) if (okd and lock) else {}
    for cid, ls in lock:
        ri = impl.get(cid)
        if ri:
            c.count("radixconc_lock_finds", sum(1 for l in ri["lines"] if l.startswith("f ")))
            c.count("radixconc_lock_finds_hit", sum(1 for l in ri["lines"] if l.startswith("f ") and not l.endswith("none")))
            c.count("radixconc_lock_link_nodes", sum(1 for l in ri["lines"] if l.startswith("n ") and " L " in l))
            c.count("radixconc_lock_assert_stops", sum(1 for l in ri["lines"] if l == "assert"))
    c.compare(lock, impl, model, nontrivial)

    # ---- stress leg (O): TSan, a few shards only (each case already runs 2-8 threads)
    r_st = vlib.run_cases(tsan, stress, shards=min(4, max(1, len(stress))), timeout=900) if stress else {}
    crashed = sum(1 for r in r_st.values() if r.get("crash"))
    for cid, ls in stress:
        c.add_case(cid, ls)
        hdr = ls[0].split()
        c.count("radixconc_stress_cases"); c.count("radixconc_stress_readers_" + hdr[1])
        c.count("radixconc_stress_ops", len(ls) - 1)
        r = r_st.get(cid)
        if r is None:
            if crashed:      # vlib stops a shard after MAX_CRASHES_PER_SHARD crashing cases; the crashes are the finding
                c.count("radixconc_stress_not_run_after_crashes")
            else:
                c.mismatch(cid, ls, "stress harness produced no output")
            continue
        if r.get("crash"):
            c.oracle(classify_crash(r["crash"]), crash_message(r["crash"]), cid, ls)
        for o in r["oracle"]:
            k, _, m = o.partition(" ")
            c.oracle(k, m, cid, ls)
        for l in r["lines"]:
            w = l.split()
            if w and w[0] == "st" and w[-1] == "done":
                c.count("radixconc_stress_completed")
                if w[-3] == "1":
                    c.nontrivial.add(("stress", hdr[1], len(ls) // 50))
    return True
