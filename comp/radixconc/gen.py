"""Script generators for C10 (radixconc).
lock-step scripts (single thread):  i k v | o k v | e k     -- writer histories; after every op both sides print the
    changed cells and find(k) for every key of the script (model reader under the latest-message choice).
stress scripts (TSan, 1 writer + 1-7 readers):  header "stress <nreaders>", then S k v (stable key: stays present) |
    i k v | o k v | e k (churn keys).
Both are aimed at the case split of find_or_insert: first node (case 1 at the root), new leaf under an existing inner node
(case 1 below), prefix split at the root / below it (case 2; key pairs first differing at each of the 16 nibble
positions), insertion into an existing leaf (case 3), erase and re-insert of the same slot."""
from comp.radix import gen as rgen

M64 = rgen.M64

def lock_case(rng, n_ops, family=None):
    fam, uni = rgen.universe(rng, family)
    lines, present = [], set()
    for _ in range(n_ops):
        o = rng.choices(["i", "o", "e"], [0.45, 0.25, 0.3])[0]
        if o == "i":
            cand = [k for k in uni if k not in present]
            if not cand:
                continue
            k = rng.choice(cand); present.add(k); lines.append("i %#x %d" % (k, rng.randrange(1, 1000)))
        elif o == "o":
            k = rng.choice(uni); present.add(k); lines.append("o %#x %d" % (k, rng.randrange(1, 1000)))
        else:
            if not present:
                continue
            k = rng.choice(sorted(present)); present.discard(k); lines.append("e %#x" % k)
    if rng.random() < 0.05:      # documented precondition violated: both sides stop in FRG_ASSERT
        if present and rng.random() < 0.5:
            lines.append("i %#x 7" % rng.choice(sorted(present)))
        else:
            absent = [k for k in uni if k not in present]
            if absent:
                lines.append("e %#x" % rng.choice(absent))
    return fam, lines

def lock_corpus():
    c = []
    a = 0x123456789abcdef0
    for pos in range(16):     # one pair per first-differing nibble position: split at depth pos (0 = at the root)
        b = a ^ (0x5 << rgen.nib_shift(pos))
        c.append(("lock-pos%d" % pos, ["i %#x 1" % a, "i %#x 2" % b, "o %#x 9" % a, "e %#x" % a, "i %#x 3" % a, "e %#x" % b]))
    # the example history of Properties_C10.v
    c.append(("lock-example", ["i 5 1", "i 0x1000000000000005 2", "i 21 3", "i 6 4", "e 5"]))
    # split above an existing inner node, then below it, then a dense leaf
    c.append(("lock-chain", ["i 0xAB00000000000000 1", "i 0xAB00000000000100 2", "i 0xAB00000000010000 3", "i 0xCD00000000000000 4",
                             "i 0xAB00000000000101 5", "i 0xAB00000000000102 6", "e 0xAB00000000000100", "i 0xAB00000000000100 7"]))
    return c

def stress_case(rng, nreaders, n_ops, family=None):
    fam, uni = rgen.universe(rng, family)
    # more keys around the universe so that leaves fill up (case 3) and split at many depths (case 2)
    extra = []
    for k in uni[:6]:
        extra += [(k & ~0xF & M64) | i for i in rng.sample(range(16), 4)]
        extra.append(rgen.differ_at(rng, k, rng.randrange(16)))
    uni = list(dict.fromkeys(uni + extra))
    rng.shuffle(uni)
    n_stable = max(2, len(uni) // 2)
    stable, churn = uni[:n_stable], uni[n_stable:] or [rgen.differ_at(rng, uni[0], 15)]
    lines = ["stress %d" % nreaders]
    todo = list(stable)
    present = set()
    # a few stable keys first (readers start with present-throughout keys), the rest interleaved with churn
    for k in todo[:2]:
        lines.append("S %#x %d" % (k, rng.randrange(1, 1 << 30)))
    todo = todo[2:]
    for _ in range(n_ops):
        r = rng.random()
        if todo and r < 0.3:
            lines.append("S %#x %d" % (todo.pop(), rng.randrange(1, 1 << 30)))
        elif r < 0.65:
            k = rng.choice(churn)
            lines.append("%s %#x %d" % (rng.choice("io"), k, rng.randrange(1, 1 << 30))); present.add(k)
        else:
            if present:
                k = rng.choice(sorted(present)); present.discard(k); lines.append("e %#x" % k)
    for k in todo:
        lines.append("S %#x %d" % (k, rng.randrange(1, 1 << 30)))
    return fam, lines

def stress_corpus():
    c = []
    a = 0x123456789abcdef0
    # splits at the root and at every depth while readers look up the displaced key
    for pos in (0, 1, 7, 14, 15):
        b = a ^ (0x5 << rgen.nib_shift(pos))
        ls = ["stress 3", "S %#x 11" % a]
        for rep in range(12):
            ls += ["i %#x %d" % (b, rep + 1), "e %#x" % b]
        ls.append("S %#x 12" % (a ^ 0x1))
        c.append(("stress-pos%d" % pos, ls))
    return c
