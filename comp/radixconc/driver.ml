(* driver for the extracted C10 model: same scripts and canonical lines as comp/radixconc/harness.cpp.
   The writer is the sequential composition of the micro-step programs; every operation appends its messages
   (op_msgs, with the orders the model was written against: RadixConc/ConcSkel.c09_orders; the generated
   obligation actual_embedded ties them to the source) to the write log.  After every operation:
     - "r <root>" / "n <id> ..." lines are computed FROM THE LOG (last message per location) for the nodes the
       operation wrote to, and printed when they changed;
     - "f <k> <result>" is the model READER (find, one load per step over the release/acquire memory) run to
       completion under the latest-message choice. *)
let esz = n_of_i64 1L and lsz = n_of_i64 2L
let so = function None -> "-" | Some i -> string_of_int (int_of_nat i)
let sv = function Some (VPtr p) -> so p | Some (VNum x) -> string_of_n x | Some (VSlot _) -> "slot" | None -> "?"
let idx = List.map (fun i -> n_of_i64 (Int64.of_int i)) [0;1;2;3;4;5;6;7;8;9;10;11;12;13;14;15]

let node_line lg c =
  let id = int_of_nat c in
  match lastval lg (LMask c) with
  | Some (VNum m) ->
    Printf.sprintf "n %d E %s %s %s" id (sv (lastval lg (LPrefix c))) (sv (lastval lg (LDepth c))) (string_of_n m)
  | _ ->
    Printf.sprintf "n %d L %s %s %s" id (sv (lastval lg (LPrefix c))) (sv (lastval lg (LDepth c)))
      (String.concat " " (List.map (fun i -> sv (lastval lg (LLink (c, i)))) idx))

let show_res r =
  match r.r_pc with
  | PStuck _ -> "UB"
  | _ -> (match r.r_done with
          | f :: _ -> (match f.f_res with None -> "none" | Some (n, i) -> Printf.sprintf "%d %s" (int_of_nat n) (string_of_n i))
          | [] -> "unfinished")

let body lines =
  let parse l = match words l with
    | ["i"; k; v] -> Some (WInsert (n_of_string k, n_of_string v), n_of_string k)
    | ["o"; k; v] -> Some (WFoi (n_of_string k, n_of_string v), n_of_string k)
    | ["e"; k] -> Some (WErase (n_of_string k), n_of_string k)
    | _ -> None in
  let ops = List.filter_map parse lines in
  let probes = List.fold_left (fun acc (_, k) ->
      if List.length acc < 24 && not (List.exists (fun q -> i64_of_n q = i64_of_n k) acc) then acc @ [k] else acc) [] ops in
  let s = ref st0 and lg = ref log0 in
  let shown : (int, string) Hashtbl.t = Hashtbl.create 64 in
  let root_shown = ref "r -" in
  let stopped = ref false in
  List.iter (fun (w, k) ->
    if not !stopped then begin
      if not (wop_okb !s w) then begin print_endline "assert"; stopped := true end
      else begin
        let ms = op_msgs c09_orders esz lsz !s w in
        lg := !lg @ ms;
        s := op_next esz lsz !s w;
        print_endline "ok";
        let r = "r " ^ sv (lastval !lg LRoot) in
        if r <> !root_shown then begin print_endline r; root_shown := r end;
        let touched = List.sort_uniq compare (List.filter_map (fun m ->
            match m.mloc with
            | LLink (c, _) | LMask c | LPrefix c | LDepth c -> Some (int_of_nat c)
            | _ -> None) ms) in
        List.iter (fun id ->
          let t = node_line !lg (nat_of_int id) in
          if (try Hashtbl.find shown id <> t with Not_found -> true) then begin
            print_endline t; Hashtbl.replace shown id t end) touched;
        let ks = if List.exists (fun q -> i64_of_n q = i64_of_n k) probes then probes else probes @ [k] in
        List.iter (fun q ->
          print_endline (Printf.sprintf "f %s %s" (string_of_n q) (show_res (find_sc c09_orders !lg q)))) ks
      end
    end) ops

let () = run_cases body
