#!/bin/sh
# Self-test for C10: hand-made mutations of rcu_radixtree.hpp in a scratch worktree; reports which leg catches which
# (generated obligation / proof leg, lock-step correspondence, TSan race, lost-key / torn oracle).
# usage: comp/radixconc/selftest.sh [name-filter]
set -u
W=/tmp/radixconc_mut
FILTER="${1:-}"
git -C /repo worktree remove --force $W 2>/dev/null
git -C /repo worktree add --detach $W HEAD >/dev/null 2>&1 || exit 2
F=$W/include/frg/rcu_radixtree.hpp
mut() { # name, python expression transforming s
  case "$1" in *"$FILTER"*) ;; *) return;; esac
  git -C $W checkout -q -- include/frg/rcu_radixtree.hpp
  python3 - "$F" "$2" <<'PY'
import sys
p, code = sys.argv[1], sys.argv[2]
s = open(p).read()
t = eval(code)
assert t != s, "mutation did not apply"
open(p, "w").write(t)
PY
  [ $? -eq 0 ] || { echo "[$1] MUTATION DID NOT APPLY"; return; }
  out=$(cd /verif && VERIF_REPO=$W VERIF_SEED=${VERIF_SEED:-20260927} timeout 1800 bin/check C10 2>&1 | grep -v WARNING | tail -4)
  ev=$(python3 -c "
import json
e=json.load(open('/verif/build/scratch-evidence/C10.json')); c=e['coverage']
print('exit-violations=%d oracle_fail=%d corr_mismatch=%d broken=%s' % (e['violations'], c['oracle_failures'], c['correspondence_mismatches'], [b[:90] for b in c['broken']]))")
  rp=$(echo "$out" | sed -n 's/.*replay=\([^ ]*\).*/\1/p' | head -1)
  why=""
  [ -n "$rp" ] && why=$(sed -n '2,3p' "$rp" | tr '\n' ' ' | cut -c1-260)
  echo "[$1] $(echo "$out" | grep -c VIOLATION) VIOLATION line(s); $ev"
  echo "      $(echo "$out" | grep VIOLATION | head -2 | tr '\n' ' ')"
  echo "      $why"
}
mut c1_root_publish_relaxed 's.replace("\t\t\t\t\t_root.store(n, std::memory_order_release);", "\t\t\t\t\t_root.store(n, std::memory_order_relaxed);")'
mut c1_link_publish_relaxed 's.replace("cp->links[idx_of(k, p->depth)].store(n, std::memory_order_release);", "cp->links[idx_of(k, p->depth)].store(n, std::memory_order_relaxed);")'
mut c2_link_publish_relaxed 's.replace("cp->links[idx_of(k, p->depth)].store(r, std::memory_order_release);", "cp->links[idx_of(k, p->depth)].store(r, std::memory_order_relaxed);")'
mut c3_mask_publish_relaxed 's.replace("cs->mask.store(mask | (uint16_t(1) << idx), std::memory_order_release);", "cs->mask.store(mask | (uint16_t(1) << idx), std::memory_order_relaxed);")'
mut find_root_load_relaxed 's.replace("auto n = _root.load(std::memory_order_acquire);", "auto n = _root.load(std::memory_order_relaxed);", 1)'
mut find_link_load_relaxed 's.replace("n = cn->links[idx].load(std::memory_order_acquire);", "n = cn->links[idx].load(std::memory_order_relaxed);")'
mut find_mask_load_relaxed 's.replace("auto mask = cn->mask.load(std::memory_order_acquire);", "auto mask = cn->mask.load(std::memory_order_relaxed);", 1)'
mut c1_depth_initialised_after_publish 's.replace("\t\t\t\tn->depth = ll;\n\t\t\t\tn->parent = p;\n\t\t\t\tn->mask.store(uint16_t(1) << idx_of(k, ll), std::memory_order_relaxed);\n\n\t\t\t\tauto entry = new (n->entries[idx_of(k, ll)].buffer) T{std::forward<Args>(args)...};\n\n\t\t\t\tif(p) {\n\t\t\t\t\tauto cp = static_cast<link_node *>(p);\n\t\t\t\t\tcp->links[idx_of(k, p->depth)].store(n, std::memory_order_release);\n\t\t\t\t}else{\n\t\t\t\t\t_root.store(n, std::memory_order_release);\n\t\t\t\t}\n", "\t\t\t\tn->parent = p;\n\t\t\t\tn->mask.store(uint16_t(1) << idx_of(k, ll), std::memory_order_relaxed);\n\n\t\t\t\tauto entry = new (n->entries[idx_of(k, ll)].buffer) T{std::forward<Args>(args)...};\n\n\t\t\t\tif(p) {\n\t\t\t\t\tauto cp = static_cast<link_node *>(p);\n\t\t\t\t\tcp->links[idx_of(k, p->depth)].store(n, std::memory_order_release);\n\t\t\t\t}else{\n\t\t\t\t\t_root.store(n, std::memory_order_release);\n\t\t\t\t}\n\t\t\t\tn->depth = ll;\n", 1)'
mut c2_publish_before_linking_old_child 's.replace("\t\t\t\tr->links[idx_of(s->prefix, d)].store(s, std::memory_order_relaxed);\n", "", 1).replace("\t\t\t\t\t_root.store(r, std::memory_order_release);\n\t\t\t\t}\n", "\t\t\t\t\t_root.store(r, std::memory_order_release);\n\t\t\t\t}\n\t\t\t\tr->links[idx_of(s->prefix, d)].store(s, std::memory_order_relaxed);\n", 1)'
mut c3_mask_set_before_construct 's.replace("\t\t\t\tauto entry = new (cs->entries[idx].buffer) T{std::forward<Args>(args)...};\n\n\t\t\t\tcs->mask.store(mask | (uint16_t(1) << idx), std::memory_order_release);\n", "\t\t\t\tcs->mask.store(mask | (uint16_t(1) << idx), std::memory_order_release);\n\t\t\t\tauto entry = new (cs->entries[idx].buffer) T{std::forward<Args>(args)...};\n")'
mut erase_clears_mask_then_sets 's.replace("\t\t\t\tcn->mask.store(mask & ~(uint16_t(1) << idx), std::memory_order_release);", "\t\t\t\tcn->mask.store(0, std::memory_order_release);\n\t\t\t\tcn->mask.store(mask & ~(uint16_t(1) << idx), std::memory_order_release);")'
mut erase_destroys_before_unpublish 's.replace("\t\t\t\tcn->mask.store(mask & ~(uint16_t(1) << idx), std::memory_order_release);", "\t\t\t\tauto p = std::launder(reinterpret_cast<T *>(cn->entries[idx].buffer));\n\t\t\t\tp->~T();\n\t\t\t\tcn->mask.store(mask & ~(uint16_t(1) << idx), std::memory_order_release);")'
mut erase_mask_relaxed 's.replace("cn->mask.store(mask & ~(uint16_t(1) << idx), std::memory_order_release);", "cn->mask.store(mask & ~(uint16_t(1) << idx), std::memory_order_relaxed);")'
git -C /repo worktree remove --force $W
# the scratch runs regenerated coq/Gen/RadixConcOrders.v from the mutated source: restore it from /repo
(cd /verif && python3 translator/gen_radixconc.py >/dev/null)
