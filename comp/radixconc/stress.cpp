// Failing-schedule search for C10 (built with -fsanitize=thread): ONE writer thread runs a script that covers all
// three insertion cases of rcu_radixtree::find_or_insert (first node, splits at and below the root, insertion into an
// existing leaf) and erases; 1-7 reader threads call find() on keys that are present-throughout and on other keys.
// Values carry a self-check pattern written by the constructor.
// Oracle (no model):
//   lost-key   a key the writer announced as inserted (release store of a counter that the reader acquired before the
//              call) and never erases is not found
//   torn       a found value does not carry the pattern of exactly the requested key
//   dead-value a found value carries the DEAD pattern its destructor writes: the library (or a wrong protocol) ended its
//              lifetime while it was still published
//   race       ThreadSanitizer report (the process exits with status 97; comp/radixconc/check.py classifies it)
// Header line:  stress <nreaders>
// Script lines: S k v  insert a key that stays present until the end ("stable")
//               i k v  insert a churn key        e k  erase a churn key        o k v  find_or_insert
// Erased values are destroyed only by the caller protocol  p = find(k); erase(k); [grace period]; p->~T()  and
// a churn key is re-inserted into its old slot only after a grace period (every reader has finished the call it was
// in): that is the caller's obligation for reusing a slot (qs.hpp in real uses), not the tree's.
#include <atomic>
#include <thread>
#include <mutex>
#include <set>
#include <map>
#include "vharness.hpp"
#include <frg/rcu_radixtree.hpp>

namespace {

constexpr uint64_t DEAD = 0xDEADDEADDEADDEADull;
struct Val {
	uint64_t key, a, b, c;
	Val(uint64_t k, uint64_t v) : key(k), a(v), b(~v), c(v * 0x9E3779B97F4A7C15ull ^ k) {}
	// non-trivial destructor: plain stores of a DEAD pattern, so that a value destroyed while a reader can still obtain
	// it is a TSan race and/or fails the pattern check ("dead-value")
	// (the compiler barrier keeps the stores: GCC's lifetime-DSE would otherwise drop stores made by a destructor)
	~Val() { key = DEAD; a = DEAD; b = DEAD; c = DEAD; asm volatile("" : : "r"(this) : "memory"); }
	bool ok_for(uint64_t k) const { return key == k && b == ~a && c == (a * 0x9E3779B97F4A7C15ull ^ k); }
	bool dead() const { return key == DEAD || a == DEAD || b == DEAD || c == DEAD; }
};
struct MAlloc {
	void *allocate(size_t n) { return ::malloc(n); }
	void deallocate(void *p, size_t) { ::free(p); }
	void free(void *p) { ::free(p); }
};
using Tree = frg::rcu_radixtree<Val, MAlloc>;

struct Op { char kind; uint64_t k, v; };

constexpr int MAXR = 8;
std::atomic<size_t> g_stable_count;
std::atomic<bool> g_done;
std::atomic<uint64_t> g_rc[MAXR];
std::atomic<bool> g_rdone[MAXR];
std::mutex g_fail_mu;
std::vector<std::pair<std::string, std::string>> g_fail;
std::atomic<long> g_finds, g_found;

void fail(const char *kind, const char *fmt, unsigned long long a, unsigned long long b) {
	char buf[256]; snprintf(buf, sizeof buf, fmt, a, b);
	std::lock_guard<std::mutex> g(g_fail_mu);
	if(g_fail.size() < 8) g_fail.push_back({kind, buf});
}

void check(const Val *p, uint64_t k) {
	if(p->ok_for(k)) return;
	if(p->dead()) fail("dead-value", "find(%#llx) returned a value whose destructor has already run (pattern %#llx)", k, p->key);
	else fail("torn", "find(%#llx): value pattern does not belong to the key (value key %#llx)", k, p->key);
}

void reader(Tree *t, int id, int nreaders, const std::vector<uint64_t> *stable, const std::vector<uint64_t> *other, uint64_t seed) {
	uint64_t x = seed * 0x9E3779B97F4A7C15ull + id + 1;
	auto rnd = [&]() { x ^= x << 13; x ^= x >> 7; x ^= x << 17; return x; };
	long finds = 0, found = 0;
	while(true) {
		bool last = g_done.load(std::memory_order_acquire);
		size_t n = g_stable_count.load(std::memory_order_acquire);
		if(n) {
			// sweep a few announced stable keys
			for(int r = 0; r < 4; r++) {
				size_t i = rnd() % n;
				uint64_t k = (*stable)[i];
				Val *p = t->find(k);
				finds++;
				if(!p) fail("lost-key", "find(%#llx) = null although the key is present throughout (stable key #%llu)", k, i);
				else { found++; check(p, k); }
			}
		}
		if(!other->empty()) {
			uint64_t k = (*other)[rnd() % other->size()];
			if((rnd() & 7) == 0) k ^= uint64_t(1) << (4 * (rnd() % 16));
			Val *p = t->find(k);
			finds++;
			if(p) { found++; check(p, k); }
		}
		g_rc[id].fetch_add(1, std::memory_order_release);
		if(last) break;
	}
	g_finds += finds; g_found += found;
	g_rdone[id].store(true, std::memory_order_release);
}

void grace(int nreaders) {
	uint64_t snap[MAXR];
	for(int i = 0; i < nreaders; i++) snap[i] = g_rc[i].load(std::memory_order_acquire);
	for(int i = 0; i < nreaders; i++)
		while(g_rc[i].load(std::memory_order_acquire) < snap[i] + 2 && !g_rdone[i].load(std::memory_order_acquire))
			std::this_thread::yield();
}

void body(const vh::Lines &ls) {
	if(ls.empty()) return;
	auto h = vh::split(ls[0]);
	int nreaders = h.size() > 1 ? (int)vh::u64(h[1]) : 2;
	if(nreaders < 1) nreaders = 1;
	if(nreaders > 7) nreaders = 7;
	std::vector<Op> ops;
	std::vector<uint64_t> stable, other;
	for(size_t i = 1; i < ls.size(); i++) {
		auto w = vh::split(ls[i]);
		if(w.size() < 2) continue;
		Op o{w[0][0], vh::u64(w[1]), w.size() > 2 ? vh::u64(w[2]) : 0};
		ops.push_back(o);
		if(o.kind == 'S') stable.push_back(o.k);
		else if(std::find(other.begin(), other.end(), o.k) == other.end()) other.push_back(o.k);
	}
	g_stable_count = 0; g_done = false; g_finds = 0; g_found = 0; g_fail.clear();
	for(int i = 0; i < MAXR; i++) { g_rc[i] = 0; g_rdone[i] = false; }
	long inserted = 0, erased = 0;
	{
		Tree t;
		std::vector<std::thread> th;
		for(int i = 0; i < nreaders; i++) th.emplace_back(reader, &t, i, nreaders, &stable, &other, 12345 + ls.size());
		std::set<uint64_t> present, reused;
		std::map<uint64_t, Val *> pending;        // erased, not yet destroyed: the caller's part of the erase protocol
		size_t sc = 0;
		int asserts = 0;
		auto total = [&]() { uint64_t s = 0; for(int i = 0; i < nreaders; i++) s += g_rc[i].load(std::memory_order_relaxed); return s; };
		// start when every reader runs; then pace the writer so that reader calls keep overlapping its operations
		for(int i = 0; i < nreaders; i++) while(g_rc[i].load(std::memory_order_relaxed) == 0) std::this_thread::yield();
		size_t opno = 0;
		for(auto &o : ops) {
			if(++opno % 3 == 0) { uint64_t t0 = total(); for(int spin = 0; spin < 2000 && total() == t0; spin++) std::this_thread::yield(); }
			try {
				if(o.kind == 'S') {
					t.insert(o.k, o.k, o.v); inserted++;
					g_stable_count.store(++sc, std::memory_order_release);
				} else if(o.kind == 'i' || o.kind == 'o') {
					if(present.count(o.k)) { if(o.kind == 'o') t.find_or_insert(o.k, o.k, o.v); continue; }
					if(reused.count(o.k)) {
						grace(nreaders);                   // every reader has left the call in which it could have obtained the pointer
						auto pd = pending.find(o.k);
						if(pd != pending.end()) { pd->second->~Val(); pending.erase(pd); }
					}
					if(o.kind == 'i') t.insert(o.k, o.k, o.v); else t.find_or_insert(o.k, o.k, o.v);
					present.insert(o.k); inserted++;
				} else if(o.kind == 'e') {
					if(!present.count(o.k)) continue;
					Val *p = t.find(o.k);               // documented protocol: p = find(k); erase(k); [grace period]; p->~T()
					t.erase(o.k); present.erase(o.k); reused.insert(o.k); erased++;
					if(p) pending[o.k] = p;
				}
			} catch(vh::AssertStop &a) { asserts++; break; }
		}
		g_done.store(true, std::memory_order_release);
		for(auto &x : th) x.join();
		for(auto &pd : pending) pd.second->~Val();     // all readers joined: the grace period of every erased value is over
		if(asserts) vh::oracle("unexpected-assert", "FRG_ASSERT fired in the writer of a valid script");
		// the destructor runs with all readers joined
	}
	for(auto &f : g_fail) vh::oracle(f.first.c_str(), "%s", f.second.c_str());
	printf("st readers %d ops %zu inserted %ld erased %ld finds %ld found %ld done\n", nreaders, ops.size(), inserted, erased,
		g_finds.load() > 0 ? 1L : 0L, g_found.load() > 0 ? 1L : 0L);
}

} // namespace

int main() { return vh::run(body); }
