"""qs component (C11): regenerates the source-derived facts, builds model driver + harnesses (ASan/UBSan and TSan),
generates cases, runs legs C and O into the given Check."""
import os, re, subprocess, sys
import vlib
from comp.qs import gen

RULE = ("lock-step scripts over 1-4 agents / 1-6 nodes (online/offline/quiescent_state/await_barrier/run/quiescent_barrier, "
        "each agent on its own thread, one API call at a time; in half of the scripts callbacks keep their node object for a later "
        "registration of the same object or re-register their own node once from inside run()), 8% with one call violating a precondition, 70% ending in drain "
        "rounds + expect_drained; concurrent stress scripts (2-3 agents; readers/writers) under ASan and TSan; thorough adds all "
        "valid call sequences of 1 agent x <=9, 2 agents x <=7, 3 agents x <=6 calls, an exhaustive exploration of all interleavings of the fine-grained model on 60 small script sets and a randomised vector-clock check of the C11_hb statement. non-trivial = distinct lock-step script in "
        "which a callback ran and some agent held a deferred period")
TRUSTED = ["extraction: ExtrOcamlBasic only; OCaml 4.13.1; comp/qs/driver.ml",
           "translator/gen_qs.py (clang 14 JSON AST of qs.hpp -> coq/Gen/QsOrders.v: atomic accesses with memory orders, guard scopes, "
           "lock_guard bodies, order of pop_front/callback in run())",
           "correspondence harness comp/qs/harness.cpp (g++ -fsanitize=address,undefined and -fsanitize=thread, -fno-access-control)",
           "oracle: harness-side bookkeeping of who was online at registration / has entered quiescent_state()/offline() since; counting "
           "mutex; callbacks free their node (ASan) or keep / re-arm it (a node without outstanding registration must be detached: list hook "
           "next/previous null, in_list false, target 0); TSan happens-before on reclaimed objects; watchdog",
           "SC interleaving semantics of the fine-grained model (stale values of relaxed loads are not modelled; DESIGN section 7); "
           "vector-clock happens-before as in DESIGN 3.6"]
ASSUMPTIONS = ["the mutex type M is a correct mutex (lock blocks while held; unlock releases)",
               "a qs_node is used by one agent only and is not re-registered before its callback started (documented precondition)",
               "callbacks do not call back into the domain, except to register their own node again (await_barrier(node))",
               "qs_counter does not reach 2^64 and fewer than 2^32 agents are online"]

FACTS = ["gen_guard_locks_then_unlocks", "gen_sites_ok", "gen_skeleton_ok", "gen_numagents_guarded", "gen_pop_first",
         "gen_orders_sufficient"]


_regen_done = [False]


def regen(c):
    """translator -> coq/Gen/QsOrders.v (once per process)"""
    if _regen_done[0]:
        return True
    _regen_done[0] = True
    p = subprocess.run([sys.executable, os.path.join(vlib.ROOT, "translator", "gen_qs.py")], capture_output=True, text=True,
                       env=dict(os.environ, VERIF_REPO=vlib.REPO), timeout=300)
    c.gen_obligation("translator/gen_qs.py recognises qs.hpp", p.returncode == 0, p.stderr[-300:])
    return p.returncode == 0


def interesting(cid, lines, ri):
    if "stress" in lines[0]:
        return None
    cb = any(re.search(r"\| c \d", l) for l in ri["lines"])
    df = any(re.search(r"\| \d+ 1 \[", l) for l in ri["lines"])
    return "|".join(lines) if (cb and df) else None


def make_cases(c):
    if c.replay:
        return vlib.read_replay(c.replay)
    cases = gen.corpus()
    quick = c.tier == "quick"
    for i in range(1500 if quick else 12000):
        cases.append(("g%d" % i, gen.gen_case(c.rng, c.rng.choice([6, 12, 25, 50, 90]))))
    for i in range(24 if quick else 120):
        cases.append(("s%d" % i, gen.gen_stress(c.rng)))
    if quick:
        cases += gen.exhaustive(1, 5) + gen.exhaustive(2, 4)
    else:
        cases += gen.exhaustive(1, 9) + gen.exhaustive(2, 7) + gen.exhaustive(3, 6)
    return cases


def run(c):
    """legs C and O for qs; returns False if a harness could not be built."""
    regen(c)
    okm, mlog = vlib.coq_make(["Qs/QsExtract.vo"])
    okd, drv, dlog = vlib.ocaml_build("qs_m", ["qs_model"], os.path.join(vlib.ROOT, "comp/qs/driver.ml"))
    src = os.path.join(vlib.ROOT, "comp/qs/harness.cpp")
    okh, har, hlog = vlib.cxx_build("qs_h", src, san="asan", extra=["-pthread"])
    okt, hart, tlog = vlib.cxx_build("qs_ht", src, san="tsan")
    if not (okm and okd):
        c.broken.append("qs model extraction/driver build failed: " + (mlog[-800:] if not okm else dlog[-800:]))
    if not okh or not okt:
        c.broken.append("qs harness does not compile against the repository: " + (hlog if not okh else tlog)[-1500:])
        return False
    # source-derived obligations, evaluated by the extracted model (the same booleans are lemmas in Qs/QsGenOk.v,
    # on which the theorems depend)
    if okd:
        rc, out, err = vlib.sh([drv, "facts"], timeout=60)
        facts = dict(l.split() for l in out.strip().split("\n") if len(l.split()) == 2)
        for f in FACTS:
            c.gen_obligation(f, facts.get(f) == "true", "(source-derived fact evaluates to %s)" % facts.get(f))
    cases = make_cases(c)
    stress = [(cid, ls) for cid, ls in cases if "stress" in ls[0]]
    # shorter sanitizer reports, so that their first line survives vlib's 6000-character tail
    env = {"ASAN_OPTIONS": vlib.SAN_ENV["ASAN_OPTIONS"] + ":print_legend=0:malloc_context_size=3:stack_trace_format='#%n %s:%l'",
           "TSAN_OPTIONS": vlib.SAN_ENV["TSAN_OPTIONS"] + ":stack_trace_format='#%n %s:%l'"}
    # phase 1: corpus + a sample; phase 2 (the bulk) only if phase 1 found nothing -- on a tree where calls hang, every
    # hanging case costs a watchdog period
    first = [x for x in cases if x[0].startswith("corpus")] + [x for x in cases if not x[0].startswith("corpus")][:250]
    rest = [x for x in cases if x not in first]
    for batch in (first, rest):
        if not batch:
            continue
        for cid, ls in batch:
            kind = "stress" if "stress" in ls[0] else "lockstep"
            c.count("qs_cases_" + kind)
            c.count("qs_agents_%s" % ls[0].split()[1])
            c.count("qs_ops", len(ls) - 1)
            for l in ls[1:]:
                w = l.split()
                c.count("qs_op_" + w[0])
                if w[0] == "ab" and len(w) > 3:
                    c.count("qs_op_ab_" + w[3])
            if cid.startswith("x"):
                c.count("qs_cases_exhaustive")
        impl = vlib.run_cases(har, batch, timeout=900, env=env)
        model = vlib.run_cases(drv, batch) if okd else {}
        for cid, ls in batch:
            ri = impl.get(cid)
            if ri and "stress" not in ls[0]:
                if any(l.startswith("assert") for l in ri["lines"]):
                    c.count("qs_cases_ending_in_assert")
                if any(re.search(r"\| c \d", l) for l in ri["lines"]):
                    c.count("qs_cases_with_callback")
                if any(re.search(r"\| \d+ 1 \[", l) for l in ri["lines"]):
                    c.count("qs_cases_with_deferred_period")
                if any(len(l.split()) > 3 for l in ls[1:]):
                    cbs = {}
                    for l in ri["lines"]:
                        m = re.search(r"\| c((?: \d+@\d+)*) \|", l)
                        for x in (m.group(1).split() if m else []):
                            cbs[x.split("@")[0]] = cbs.get(x.split("@")[0], 0) + 1
                    if any(v > 1 for v in cbs.values()):
                        c.count("qs_cases_same_node_object_called_back_again")
        c.compare(batch, impl, model, interesting)
        known = vlib.known_findings(c.pid)
        new_fail = [f for f in c.oracle_fail if not any(k["rx"].search(f[0] + " " + f[1]) for k in known)]
        if new_fail or c.mismatches:
            if batch is first and rest:
                c.notes.append("phase 1 (corpus + 250 cases) already failed; the remaining %d cases were not run." % len(rest))
            break
    # model-only cases: exhaustive exploration of the fine-grained model (statements + invariants in every state) and
    # the randomised vector-clock check of the C11_hb statement
    if okd and not c.replay:
        mcases = gen.model_cases(c.rng, c.tier == "quick")
        mres = vlib.run_cases(drv, mcases, timeout=1200)
        for cid, ls in mcases:
            r = mres.get(cid) or {"lines": [], "crash": "no output"}
            if r.get("crash"):
                c.broken.append("model case %s crashed: %s" % (cid, str(r["crash"])[-200:]))
            for l in r["lines"]:
                w = l.split()
                if l.startswith("explored"):
                    c.count("qs_fg_states_explored", int(w[1])); c.count("qs_fg_script_sets_explored")
                elif l.startswith("hb schedules"):
                    c.count("qs_hb_schedules", int(w[2])); c.count("qs_hb_callbacks_checked", int(w[4]))
                elif l.startswith("!FG"):
                    c.broken.append("fine-grained model exploration (%s: %s): %s" % (cid, "; ".join(ls[1:]), l[4:]))
                elif l.startswith("!HB"):
                    c.broken.append("vector-clock model, statement of C11_hb (%s: %s): %s" % (cid, "; ".join(ls[1:]), l[4:]))
    # the same stress cases under TSan
    tcases = [("tsan-" + cid, ls) for cid, ls in stress]
    if tcases:
        timpl = vlib.run_cases(hart, tcases, shards=min(4, len(tcases)), timeout=900, env=env)
        tmodel = vlib.run_cases(drv, tcases) if okd else {}
        c.count("qs_cases_stress_tsan", len(tcases))
        c.compare(tcases, timpl, tmodel, None)
    return True
