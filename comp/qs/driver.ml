(* driver for the extracted qs model: same scripts and canonical lines as comp/qs/harness.cpp (lock-step mode).
   Stress cases ("cfg K N stress") are oracle-only on the implementation: the model prints the fixed line. *)
let rec range a b = if a >= b then [] else a :: range (a + 1) b

let show_state k nn (s : wstate) (evs : wev list) =
  let b = Buffer.create 128 in
  let d = s.wd in
  Buffer.add_string b (Printf.sprintf "d %s %s %s %s" (string_of_n d.ctr) (string_of_n d.desired)
                         (string_of_n d.nagents) (string_of_n d.toack));
  List.iter (fun t ->
      let a = s.wa (nat_of_int t) in
      Buffer.add_string b (Printf.sprintf " | %s %d [%s]" (string_of_n a.acked) (if a.deferred then 1 else 0)
                             (String.concat "," (List.map (fun n -> string_of_int (int_of_nat n)) a.pending))))
    (range 0 k);
  Buffer.add_string b " | t";
  List.iter (fun n -> Buffer.add_string b (" " ^ string_of_n (s.wtarget (nat_of_int n)))) (range 0 nn);
  Buffer.add_string b " | m ";
  List.iter (function WMx MLock -> Buffer.add_char b 'L' | WMx MUnlock -> Buffer.add_char b 'U' | _ -> ()) evs;
  Buffer.add_string b " | c";
  List.iter (function WCb (n, t) -> Buffer.add_string b (Printf.sprintf " %d@%d" (int_of_nat n) (int_of_nat t)) | _ -> ()) evs;
  Buffer.add_string b " | w";
  List.iter (fun n ->
      Buffer.add_char b ' ';
      List.iter (fun t -> Buffer.add_char b (if s.wwait (nat_of_int n) (nat_of_int t) then '1' else '0')) (range 0 k))
    (range 0 nn);
  Buffer.add_char b '\n';
  Buffer.contents b

let body lines =
  match lines with
  | [] -> ()
  | hd :: ops ->
    (match words hd with
     | "cfg" :: k :: nn :: rest ->
       let k = min 8 (max 1 (int_of_string k)) and nn = min 16 (max 1 (int_of_string nn)) in
       if rest = ["stress"] then print_string "stress done\n"
       else begin
         let s = ref w0 in
         (try
            List.iter (fun l ->
                let c = match words l with
                  | ["on"; t] -> Some (int_of_string t, COnline)
                  | ["off"; t] -> Some (int_of_string t, COffline)
                  | ["qs"; t] -> Some (int_of_string t, CQsCall)
                  | ["ab"; t; n] -> if int_of_string n < 0 || int_of_string n >= nn then None
                    else Some (int_of_string t, CAwait (nat_of_int (int_of_string n)))
                  | ["run"; t] -> Some (int_of_string t, CRun)
                  | ["qb"; t] -> Some (int_of_string t, CQBarrier)
                  | _ -> None in
                match c with
                | Some (t, c) when t >= 0 && t < k ->
                  (match gen_w_step (nat_of_int t) c !s with
                   | Ok (s', evs) -> s := s'; print_string (show_state k nn s' evs)
                   | AssertStop l -> print_string ("assert " ^ string_of_n l ^ "\n"); raise Exit
                   | Blocked -> print_string "deadlock\n"; raise Exit
                   | UB _ -> print_string "ub-unlock\n"; raise Exit
                   | OutOfFuel -> print_string "out-of-fuel\n"; raise Exit)
                | _ -> ()) ops
          with Exit -> ())
       end
     | _ -> ())

let () =
  if Array.length Sys.argv > 1 && Sys.argv.(1) = "facts" then begin
    (* source-derived obligations (Gen/QsOrders.v), evaluated *)
    List.iter (fun (n, b) -> Printf.printf "%s %b\n" n b)
      [ "gen_guard_locks_then_unlocks", gen_guard_ok; "gen_sites_ok", gen_sites_ok; "gen_skeleton_ok", gen_skeleton_ok;
        "gen_numagents_guarded", gen_numagents_guarded; "gen_pop_first", gen_pop_first;
        "gen_orders_sufficient", gen_orders_sufficient ]
  end else run_cases body
