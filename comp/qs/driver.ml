(* driver for the extracted qs model: same scripts and canonical lines as comp/qs/harness.cpp (lock-step mode).
   Stress cases ("cfg K N stress") are oracle-only on the implementation: the model prints the fixed line. *)
let rec range a b = if a >= b then [] else a :: range (a + 1) b

let show_state k nn (s : wstate) (evs : wev list) =
  let b = Buffer.create 128 in
  let d = s.wd in
  Buffer.add_string b (Printf.sprintf "d %s %s %s %s" (string_of_n d.ctr) (string_of_n d.desired)
                         (string_of_n d.nagents) (string_of_n d.toack));
  List.iter (fun t ->
      let a = s.wa (nat_of_int t) in
      Buffer.add_string b (Printf.sprintf " | %s %d [%s]" (string_of_n a.acked) (if a.deferred then 1 else 0)
                             (String.concat "," (List.map (fun n -> string_of_int (int_of_nat n)) a.pending))))
    (range 0 k);
  Buffer.add_string b " | t";
  List.iter (fun n -> Buffer.add_string b (" " ^ string_of_n (s.wtarget (nat_of_int n)))) (range 0 nn);
  Buffer.add_string b " | m ";
  List.iter (function WMx MLock -> Buffer.add_char b 'L' | WMx MUnlock -> Buffer.add_char b 'U' | _ -> ()) evs;
  Buffer.add_string b " | c";
  List.iter (function WCb (n, t) -> Buffer.add_string b (Printf.sprintf " %d@%d" (int_of_nat n) (int_of_nat t)) | _ -> ()) evs;
  Buffer.add_string b " | w";
  List.iter (fun n ->
      Buffer.add_char b ' ';
      List.iter (fun t -> Buffer.add_char b (if s.wwait (nat_of_int n) (nat_of_int t) then '1' else '0')) (range 0 k))
    (range 0 nn);
  Buffer.add_char b '\n';
  Buffer.contents b


(* ---- fine-grained model, run sequentially: one call of thread t to completion ---- *)
let fg_call (f : fstate) (t : int) (c : call) : fstate option =
  let tn = nat_of_int t in
  let th = f.fth tn in
  if th.tpc <> PIdle then None else begin
    let f = { f with fth = (fun x -> if x = tn then { th with tscript = [c] } else f.fth x) } in
    let cur = ref f and fuel = ref 400 in
    let fin () = !cur.fstop <> None || ((!cur.fth tn).tpc = PIdle && (!cur.fth tn).tscript = []) in
    while not (fin ()) && !fuel > 0 do
      let ((f', _), _) = gen_f_step tn !cur in cur := f'; decr fuel
    done;
    Some !cur
  end

let fg_agrees k nn (s : wstate) (f : fstate) : bool =
  f.fstop = None && f.fmx = None && s.wd = f.fd &&
  List.for_all (fun t -> let tn = nat_of_int t in
                 let a = s.wa tn and b = (f.fth tn).tag in
                 a.acked = b.acked && a.deferred = b.deferred && a.pending = b.pending) (range 0 k) &&
  List.for_all (fun n -> let nn' = nat_of_int n in
                 s.wtarget nn' = f.ftarget nn' &&
                 List.for_all (fun t -> s.wwait nn' (nat_of_int t) = f.fwait nn' (nat_of_int t)) (range 0 k)) (range 0 nn)

(* ---- exhaustive exploration of the fine-grained model: every interleaving of the per-thread scripts ----
   (test of the statements and of the invariants used in the proofs; input = a lock-step case whose op lines are
   regrouped per thread; output = "explored <n states>" and "!FG <violated statement>" lines) *)
let pc_str = function
  | PIdle -> "I" | POn0 -> "On0" | POn1 -> "On1" | POn2 c -> "On2." ^ string_of_n c | POn3 c -> "On3." ^ string_of_n c
  | POn4 c -> "On4." ^ string_of_n c | POn5 c -> "On5." ^ string_of_n c
  | POff0 -> "Off0" | POff1 -> "Off1" | POff2 c -> "Off2." ^ string_of_n c | POff3 c -> "Off3." ^ string_of_n c
  | POff4 c -> "Off4." ^ string_of_n c | POff5 -> "Off5"
  | PQd1 -> "Qd1" | PQd2 -> "Qd2" | PQd3 -> "Qd3" | PQd4 -> "Qd4" | PQd5 -> "Qd5" | PQd6 -> "Qd6"
  | PQ1 -> "Q1" | PQ2 c -> "Q2." ^ string_of_n c | PQ3 c -> "Q3." ^ string_of_n c | PQ4 c -> "Q4." ^ string_of_n c
  | PQ5 c -> "Q5." ^ string_of_n c | PQ6 c -> "Q6." ^ string_of_n c | PQ7 -> "Q7"
  | PAb1 n -> "Ab1." ^ string_of_int (int_of_nat n) | PAb2 (n, tg) -> "Ab2." ^ string_of_int (int_of_nat n) ^ "." ^ string_of_n tg
  | PAb3 (n, tg, c) -> "Ab3." ^ string_of_int (int_of_nat n) ^ "." ^ string_of_n tg ^ "." ^ string_of_n c
  | PRun1 -> "R1" | PRun2 c -> "R2." ^ string_of_n c
  | PQb1 -> "Qb1" | PQb2 tg -> "Qb2." ^ string_of_n tg | PQb3 (tg, c) -> "Qb3." ^ string_of_n tg ^ "." ^ string_of_n c
  | PQb4 tg -> "Qb4." ^ string_of_n tg

let key k nn (f : fstate) (aut : int option array) : string =
  let b = Buffer.create 256 in
  let d = f.fd in
  Buffer.add_string b (Printf.sprintf "%s %s %s %s m%s s%s" (string_of_n d.ctr) (string_of_n d.desired) (string_of_n d.nagents)
    (string_of_n d.toack) (match f.fmx with None -> "-" | Some t -> string_of_int (int_of_nat t))
    (match f.fstop with None -> "-" | Some (StopAssert (_, l)) -> "a" ^ string_of_n l | Some (StopUB _) -> "ub"));
  for t = 0 to k - 1 do
    let th = f.fth (nat_of_int t) in
    Buffer.add_string b (Printf.sprintf "|%s %d %s %s %b [%s]" (pc_str th.tpc) (List.length th.tscript)
      (match th.tret with None -> "-" | Some x -> string_of_n x) (string_of_n th.tag.acked) th.tag.deferred
      (String.concat "," (List.map (fun n -> string_of_int (int_of_nat n)) th.tag.pending)));
    Buffer.add_char b ' ';
    for x = 0 to k - 1 do Buffer.add_char b (if f.fqbw (nat_of_int t) (nat_of_int x) then '1' else '0') done
  done;
  for n = 0 to nn - 1 do
    let n' = nat_of_int n in
    Buffer.add_string b (Printf.sprintf "|%s %s %s %s " (string_of_n (f.ftarget n')) (string_of_n (f.fwtg n'))
      (match f.fowner n' with None -> "-" | Some t -> string_of_int (int_of_nat t))
      (match aut.(n) with None -> "-" | Some t -> string_of_int t));
    for x = 0 to k - 1 do Buffer.add_char b (if f.fwait n' (nat_of_int x) then '1' else '0') done
  done;
  Buffer.contents b

(* the invariants used in Qs/QsFgProofs.v, as executable checks *)
let fg_invariants k nn (f : fstate) : string list =
  let errs = ref [] in
  let err s = errs := s :: !errs in
  let d = f.fd in
  let n_ x = i64_of_n x in
  let ctr = n_ d.ctr and toack = n_ d.toack and nag = n_ d.nagents in
  let th t = f.fth (nat_of_int t) in
  let ts = range 0 k in
  let member t = match (th t).tpc with
    | POn2 _ | POn3 _ | POn4 _ | POn5 _ -> true
    | POff2 _ | POff3 _ | POff4 _ | POff5 -> false
    | _ -> (th t).tag.acked <> N0 in
  let eacked t = let a = n_ (th t).tag.acked in match (th t).tpc with
    | POn2 c | POn3 c | POn4 c | POn5 c -> n_ c
    | PQ3 _ | PQ4 _ | PQ5 _ | PQ6 _ | PQ7 -> Int64.add a 1L
    | _ -> a in
  let special0 t = match (th t).tpc with POn4 _ | POff4 _ | PQd5 | PQ6 _ -> true | _ -> false in
  let vctr = if List.exists special0 ts then Int64.add ctr 1L else ctr in
  let needs t = match (th t).tpc with
    | POff2 _ -> true
    | _ -> member t && Int64.add (eacked t) 1L = vctr in
  let special t = match (th t).tpc with POn4 _ | POff4 _ | PQd5 | PQ6 _ -> true | _ -> false in
  let holds t = match (th t).tpc with
    | POn1 | POn2 _ | POn3 _ | POn4 _ | POn5 _ | POff1 | POff2 _ | POff3 _ | POff4 _ | POff5
    | PQd4 | PQd5 | PQd6 | PQ5 _ | PQ6 _ | PQ7 -> true | _ -> false in
  let restarter t = (th t).tag.deferred || (match (th t).tpc with
    | PQ3 _ | PQ4 _ | PQ5 _ | PQ6 _ | POff3 _ | POff4 _ | POn2 _ | POn3 _ | POn4 _ -> true | _ -> false) in
  let count p = Int64.of_int (List.length (List.filter p ts)) in
  if f.fstop = None then begin
    if ctr < 1L then err "ctr>=1";
    (* mutex holder *)
    List.iter (fun t -> if holds t <> (f.fmx = Some (nat_of_int t)) then err (Printf.sprintf "holder %d" t)) ts;
    if nag <> count member then err "J3";
    if toack <> count needs then err "J2v";
    if List.length (List.filter special ts) > 1 then err "two special";
    List.iter (fun x ->
        if member x && not (eacked x = vctr || Int64.add (eacked x) 1L = vctr) then err (Printf.sprintf "J1v %d" x);
        let a = n_ (th x).tag.acked in
        (match (th x).tpc with
         | PQ2 c | PQ3 c | PQ4 c | PQ5 c | PQ6 c -> if n_ c <> ctr || Int64.add a 1L <> n_ c then err "L-Q"
         | POff2 c | POff3 c | POff4 c -> if n_ c <> ctr || Int64.add a 1L <> n_ c then err "L-Off"
         | POn2 c | POn3 c | POn4 c -> if n_ c <> ctr || nag <> 1L then err "L-On"
         | PRun2 c -> if n_ c > ctr then err "L-Run"
         | PQd1 | PQd2 | PQd3 | PQd4 | PQd5 -> if not (th x).tag.deferred then err "L-Qd"
         | PQ1 | PQ7 | PQd6 -> if (th x).tag.deferred then err "L-Q-notdef"
         | _ -> ());
        if (th x).tag.deferred then begin
          if not (member x) then err "J4-member";
          if a <> ctr then err "J4-acked"
        end;
        if restarter x && not (special x) && toack <> 0L then err (Printf.sprintf "R2 %d" x))
      ts;
    if List.length (List.filter restarter ts) > 1 then err "R1";
    (* the invariants of Qs/QsFgLive.v *)
    if toack = 0L && List.exists member ts && not (List.exists restarter ts) then err "J5";
    let des = n_ d.desired in
    for n = 0 to nn - 1 do if n_ (f.ftarget (nat_of_int n)) > des then err "L-des" done;
    List.iter (fun t ->
        let tht = th t in
        (match tht.tpc with PQb4 tg -> if n_ tg > des then err "L-qb4" | _ -> ());
        (match tht.tret with Some tg -> if n_ tg > des then err "L-ret" | None -> ());
        (match tht.tpc with PAb3 (_, tg, c) | PQb3 (tg, c) -> if n_ c > des || n_ c >= n_ tg then err "L-cas" | _ -> ());
        let rec sorted = function a :: (b :: _ as r) -> n_ (f.ftarget a) <= n_ (f.ftarget b) && sorted r | _ -> true in
        if not (sorted tht.tag.pending) then err "L-sorted";
        List.iter (fun m -> if n_ (f.ftarget m) > Int64.add ctr 2L then err "L-bound") tht.tag.pending;
        (match tht.tpc with
         | PAb2 (_, tg) | PAb3 (_, tg, _) -> List.iter (fun m -> if n_ (f.ftarget m) > n_ tg then err "L-ab") tht.tag.pending
         | _ -> ()))
      ts;
    (* K *)
    for n = 0 to nn - 1 do
      let n' = nat_of_int n in
      List.iter (fun x ->
          if f.fwait n' (nat_of_int x) then begin
            let a = n_ (th x).tag.acked in
            if a = 0L || in_quiescent (th x).tpc || Int64.add a 2L > n_ (f.fwtg n') then err (Printf.sprintf "K n%d x%d" n x)
          end) ts;
      if f.ftarget n' <> N0 then begin
        match f.fowner n' with
        | None -> err "M-owner"
        | Some t ->
          let tht = f.fth t in
          if not (List.mem n' tht.tag.pending) then err "M-pending";
          if not (f.fwtg n' = f.ftarget n' || (match tht.tpc with PAb2 (m, _) | PAb3 (m, _, _) -> m = n' | _ -> false)) then err "M-wtg"
      end
    done;
    List.iter (fun t ->
        let tg = match (th t).tpc with PQb2 tg | PQb3 (tg, _) | PQb4 tg -> Some tg | _ -> (th t).tret in
        (match tg with
         | Some tg -> List.iter (fun x -> if f.fqbw (nat_of_int t) (nat_of_int x) then begin
               let a = n_ (th x).tag.acked in
               if a = 0L || in_quiescent (th x).tpc || Int64.add a 2L > n_ tg then err (Printf.sprintf "Kq t%d x%d" t x) end) ts
         | None -> ());
        (match (th t).tpc with PAb2 (n, tg) | PAb3 (n, tg, _) -> if f.fwtg n <> tg then err "L-Ab" | _ -> ()))
      ts
  end;
  !errs

let explore k nn (scripts : (int * call) list) allowed_stops max_states =
  let script_of t = List.filter_map (fun (x, c) -> if x = t then Some c else None) scripts in
  let f0 = f0 (fun t -> script_of (int_of_nat t)) in
  let seen = Hashtbl.create 4096 in
  let viol = Hashtbl.create 16 in
  let report s = if not (Hashtbl.mem viol s) then Hashtbl.add viol s () in
  let stack = ref [ (f0, Array.make nn None) ] in
  Hashtbl.add seen (key k nn f0 (Array.make nn None)) ();
  let count = ref 1 in
  while !stack <> [] && !count < max_states do
    (match !stack with
     | [] -> ()
     | (f, aut) :: rest ->
       stack := rest;
       List.iter (fun e -> report ("invariant " ^ e)) (fg_invariants k nn f);
       let kf = key k nn f aut in
       let any_enabled = ref false in
       for t = 0 to k - 1 do
         let tn = nat_of_int t in
         let ((f', evs), _) = gen_f_step tn f in
         let aut' = Array.copy aut in
         List.iter (fun e -> match e with
             | WReg (n, t') -> let n = int_of_nat n in
               if aut'.(n) <> None then report "node registered while registered"; aut'.(n) <- Some (int_of_nat t')
             | WCb (n, t') ->
               let ni = int_of_nat n in
               if int_of_nat t' <> t then report "callback event attributed to another thread";
               (match (f.fth tn).tpc with PRun2 _ -> () | _ -> report "callback outside run()");
               if aut'.(ni) <> Some t then report "callback not (or not any more) registered by this agent";
               aut'.(ni) <- None;
               for x = 0 to k - 1 do if f.fwait n (nat_of_int x) then report "grace period: callback while waiting set non-empty" done
             | WNode n -> if aut'.(int_of_nat n) = None then report "node touched while not registered (after its callback started)"
             | WQbRet t' ->
               for x = 0 to k - 1 do if f'.fqbw t' (nat_of_int x) then report "quiescent_barrier returned while its waiting set is non-empty" done
             | WMx _ -> ()) evs;
         (match f'.fstop with
          | Some (StopAssert (_, l)) -> if not (List.mem (Int64.to_int (i64_of_n l)) allowed_stops) then report ("assertion stop at line " ^ string_of_n l)
          | Some (StopUB _) -> report "unlock of a mutex not held"
          | None -> ());
         let k' = key k nn f' aut' in
         if k' <> kf then begin
           any_enabled := true;
           if not (Hashtbl.mem seen k') then begin Hashtbl.add seen k' (); incr count; stack := (f', aut') :: !stack end
         end
       done;
       if not !any_enabled && f.fstop = None then begin
         let unfinished = List.exists (fun t -> let th = f.fth (nat_of_int t) in th.tpc <> PIdle || th.tscript <> []) (range 0 k) in
         if unfinished then report "deadlock: calls in flight but no thread can take a step"
       end)
  done;
  Printf.printf "explored %d states%s\n" !count (if !count >= max_states then " (state limit reached)" else "");
  Hashtbl.iter (fun s () -> print_string ("!FG " ^ s ^ "\n")) viol

(* ---- happens-before (vector clocks driven by the memory orders of the current source): random schedules of the
   fine-grained model; at every callback of node n by thread t (and at every return of quiescent_barrier): for every
   agent X that left the waiting set at its local time k, t's clock knows X at least up to k ---- *)
let hbcheck k nn (scripts : (int * call) list) nsched seed =
  let script_of t = List.filter_map (fun (x, c) -> if x = t then Some c else None) scripts in
  let rng = Random.State.make [| seed |] in
  let total = List.length scripts in
  let viol = ref 0 and cbs = ref 0 and stops = ref 0 in
  for _ = 1 to nsched do
    let h = ref (h0 (fun t -> script_of (int_of_nat t))) in
    (try
       for _ = 1 to 60 * (total + 1) do
         let t = Random.State.int rng k in
         let pre = !h in
         let (h', evs) = gen_h_step (nat_of_int t) pre in
         List.iter (function
             | WCb (n, t') ->
               incr cbs;
               for x = 0 to k - 1 do
                 match pre.hleft n (nat_of_int x) with
                 | Some kx -> if int_of_nat kx > int_of_nat (h'.hk.vc t' (nat_of_int x)) then incr viol
                 | None -> ()
               done
             | WQbRet b ->
               incr cbs;
               for x = 0 to k - 1 do
                 match pre.hleftq b (nat_of_int x) with
                 | Some kx -> if int_of_nat kx > int_of_nat (h'.hk.vc b (nat_of_int x)) then incr viol
                 | None -> ()
               done
             | _ -> ()) evs;
         h := h';
         if h'.hf.fstop <> None then (incr stops; raise Exit)
       done
     with Exit -> ())
  done;
  Printf.printf "hb schedules %d callbacks %d\n" nsched !cbs;
  if !viol > 0 then Printf.printf "!HB %d callback(s) not ordered after an agent's accesses before its quiescent state\n" !viol

let body lines =
  match lines with
  | [] -> ()
  | hd :: ops ->
    (match words hd with
     | "cfg" :: k :: nn :: rest ->
       let k = min 8 (max 1 (int_of_string k)) and nn = min 16 (max 1 (int_of_string nn)) in
       if rest = ["stress"] then print_string "stress done\n"
       else if (match rest with "hb" :: _ -> true | _ -> false) then begin
         let parse l = match words l with
           | ["on"; t] -> Some (int_of_string t, COnline) | ["off"; t] -> Some (int_of_string t, COffline)
           | ["qs"; t] -> Some (int_of_string t, CQsCall) | ["run"; t] -> Some (int_of_string t, CRun)
           | ["qb"; t] -> Some (int_of_string t, CQBarrier)
           | ["ab"; t; n] -> Some (int_of_string t, CAwait (nat_of_int (int_of_string n))) | _ -> None in
         let ns = (match rest with [_; a] -> int_of_string a | _ -> 2000) in
         hbcheck k nn (List.filter_map parse ops) ns 12345
       end
       else if rest = ["explore"] then begin
         let parse l = match words l with
           | ["on"; t] -> Some (int_of_string t, COnline) | ["off"; t] -> Some (int_of_string t, COffline)
           | ["qs"; t] -> Some (int_of_string t, CQsCall) | ["run"; t] -> Some (int_of_string t, CRun)
           | ["qb"; t] -> Some (int_of_string t, CQBarrier)
           | ["ab"; t; n] -> Some (int_of_string t, CAwait (nat_of_int (int_of_string n))) | _ -> None in
         explore k nn (List.filter_map parse ops) [127] 400000
       end
       else begin
         let s = ref w0 in
         let fs = ref (f0 (fun _ -> [])) in
         (* "ab t n rearm": the callback of n re-registers n once, from inside run() *)
         let rearm = Array.make nn false in
         (try
            List.iter (fun l ->
                let c = match words l with
                  | ["on"; t] -> Some (int_of_string t, COnline)
                  | ["off"; t] -> Some (int_of_string t, COffline)
                  | ["qs"; t] -> Some (int_of_string t, CQsCall)
                  | "ab" :: t :: n :: _ -> if int_of_string n < 0 || int_of_string n >= nn then None
                    else Some (int_of_string t, CAwait (nat_of_int (int_of_string n)))
                  | ["run"; t] -> Some (int_of_string t, CRun)
                  | ["qb"; t] -> Some (int_of_string t, CQBarrier)
                  | _ -> None in
                match c with
                | Some (t, c) when t >= 0 && t < k ->
                  let flag n = let i = int_of_nat n in i < nn && rearm.(i) in
                  let res = if c = CRun then gen_w_run_rearm (nat_of_int t) flag !s else gen_w_step (nat_of_int t) c !s in
                  (* the nodes re-armed by this run(), in the order of their callbacks *)
                  let rearmed = match res with
                    | Ok (_, evs) when c = CRun ->
                      List.filter_map (function WCb (n, _) when flag n -> Some n | _ -> None) evs
                    | _ -> [] in
                  let fr = List.fold_left (fun f c' -> match f with Some f -> fg_call f t c' | None -> None)
                      (Some !fs) (c :: List.map (fun n -> CAwait n) rearmed) in
                  (match fr with Some f' -> fs := f' | None -> ());
                  (match res with
                   | Ok (s', evs) -> s := s';
                     List.iter (fun n -> rearm.(int_of_nat n) <- false) rearmed;
                     (match c, words l with
                      | CAwait n, [_; _; _; "rearm"] -> rearm.(int_of_nat n) <- true
                      | CAwait n, _ -> rearm.(int_of_nat n) <- false
                      | _ -> ());
                     (match fr with
                      | Some f' when fg_agrees k nn s' f' -> ()
                      | Some f' when c = CQBarrier && f'.fstop = None && (f'.fth (nat_of_int t)).tpc <> PIdle -> ()
                      | _ -> print_string "!MODEL fine-grained model run sequentially disagrees with the whole-operation model\n");
                     print_string (show_state k nn s' evs)
                   | AssertStop l ->
                     (match fr with
                      | Some f' when (match f'.fstop with Some (StopAssert (_, l')) -> l' = l | _ -> false) -> ()
                      | _ -> print_string "!MODEL fine-grained model does not stop in the same assertion\n");
                     print_string ("assert " ^ string_of_n l ^ "\n"); raise Exit
                   | Blocked -> print_string "deadlock\n"; raise Exit
                   | UB _ -> print_string "ub-unlock\n"; raise Exit
                   | OutOfFuel -> print_string "out-of-fuel\n"; raise Exit)
                | _ -> ()) ops
          with Exit -> ())
       end
     | _ -> ())

let () =
  if Array.length Sys.argv > 1 && Sys.argv.(1) = "facts" then begin
    (* source-derived obligations (Gen/QsOrders.v), evaluated *)
    List.iter (fun (n, b) -> Printf.printf "%s %b\n" n b)
      [ "gen_guard_locks_then_unlocks", gen_guard_ok; "gen_sites_ok", gen_sites_ok; "gen_skeleton_ok", gen_skeleton_ok;
        "gen_numagents_guarded", gen_numagents_guarded; "gen_pop_first", gen_pop_first;
        "gen_orders_sufficient", gen_orders_sufficient ]
  end else run_cases body
