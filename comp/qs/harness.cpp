// Harness for frg::qs_domain / frg::qs_agent (property C11).
//
// Two modes, selected by the first line of a case ("cfg <agents> <nodes> [stress]"):
//
//  lock-step   every agent runs on its own thread; the main thread hands it ONE API call at a time and waits
//              for the call to return (watchdog).  After every call one canonical line is printed: the four domain
//              fields, every agent's acked/deferred/pending list, every node's target, the mutex call log of the
//              call, the callbacks it invoked and the harness-side "still has to pass a quiescent state" sets.
//              The extracted Coq model (comp/qs/driver.ml) prints the same lines.
//  stress      the agents run their op sequences concurrently (real mutex).  Nothing schedule dependent is
//              printed; the oracle is: readers that are online only see live objects (payload check; ASan in the
//              asan build; TSan in the tsan build: a callback that reclaims an object must happen-after every read
//              of it made before the reader's quiescent state), every call returns, every registered callback runs.
//
// Oracle (independent of the model), lock-step mode: callbacks at most once per registration, only inside run() of the
// registering agent, and only when every agent that was online at registration has since entered quiescent_state()
// or offline() (bookkeeping below); the callback frees its node, so a later touch of the node is an ASan report;
// counting mutex: re-lock by the holder (self-deadlock), unlock of a free mutex, mutex still held after a call;
// a call that respects the documented preconditions must not stop in FRG_ASSERT; watchdog for calls that never return.
// Node reuse ("ab t n keep": the callback keeps the node object, a later "ab" of the slot registers the SAME object again;
// "ab t n rearm": the callback re-registers its own node once, from inside run()): when a callback starts, and whenever a
// call has returned, a node with no outstanding registration must be fully detached -- list hook next/previous null,
// in_list false, target 0 (oracle kind node-hook-dirty): the library keeps no link into a node that belongs to the user.
#include <atomic>
#include <chrono>
#include <condition_variable>
#include <cstddef>
#include <mutex>
#include <thread>
#include <unistd.h>
#include "vharness.hpp"
#include <frg/qs.hpp>

static const uint64_t MAGIC = 0x600dc0de600dc0deull, DEAD = 0xdeaddeaddeaddeadull;
static const int MAXA = 8, MAXN = 16;

// ---- mutex types -------------------------------------------------------------------------------------------
struct Ctx;
static Ctx *g;

struct StepMutex {            // lock-step mode: only one thread runs library code at any time
	bool held = false;
	int holder = -1;
	std::string log;          // calls made during the current API call
	bool relock = false, bad_unlock = false;
	void lock();
	void unlock();
};

struct RealMutex {            // stress mode
	std::mutex m;
	std::atomic<int> holder{-1};
	void lock();
	void unlock();
};

static thread_local int tl_tid = -1;
static thread_local int tl_op = 0;      // the API call the current thread is inside
enum { OP_NONE, OP_ON, OP_OFF, OP_QS, OP_AB, OP_RUN, OP_QB };
static const char *op_name(int o) {
	static const char *n[] = {"(none)", "online", "offline", "quiescent_state", "await_barrier", "run", "quiescent_barrier"};
	return n[o];
}

enum { M_FREE, M_KEEP, M_REARM };    // what the callback does with the node
struct Obj {
	frg::qs_node node;
	int id;
	uint64_t payload;
	int mode = M_FREE;
};
static Obj *obj_of(frg::qs_node *n) { return reinterpret_cast<Obj *>(reinterpret_cast<char *>(n) - offsetof(Obj, node)); }

template<typename M> struct World {
	frg::qs_domain<M> dom;
	alignas(frg::qs_agent<M>) unsigned char storage[MAXA][sizeof(frg::qs_agent<M>)];
	bool made[MAXA] = {};
	frg::qs_agent<M> *agent(int t) { return reinterpret_cast<frg::qs_agent<M> *>(storage[t]); }
	// An agent object whose first use is not online(): same fields as after construction + offline()
	// (the only constructor goes online).
	void make_offline(int t) {
		memset(storage[t], 0, sizeof storage[t]);
		agent(t)->_dom = &dom;
		made[t] = true;
	}
	void make_online(int t) {     // the real constructor: qs_agent(dom) { online(); }
		made[t] = true;           // (set first: the constructor may stop in an assertion)
		new(storage[t]) frg::qs_agent<M>(&dom);
	}
};

struct Ctx {
	int K = 1, N = 1;
	bool stress = false;
	World<StepMutex> *ws = nullptr;
	World<RealMutex> *wr = nullptr;
	// objects: objs[n] = the current object of slot n (published, or registered and waiting for its callback)
	Obj *objs[MAXN] = {};
	std::atomic<Obj *> pub[MAXN];
	// harness-side bookkeeping (lock-step mode)
	bool h_online[MAXA] = {};
	bool h_registered[MAXN] = {};
	std::atomic<bool> dirty_reported{false};
	int h_owner[MAXN];
	std::set<int> need[MAXN];
	std::string cb_log;
	// stress mode
	std::atomic<int> finished{0};
	std::atomic<long> registered{0}, fired{0}, progress{0};
};

static Obj *fresh(int id) {
	Obj *o = new Obj;
	o->id = id; o->payload = MAGIC;
	return o;
}

// A node with no outstanding registration belongs to the user: nothing of the pending list may be left in it.
static void check_detached(frg::qs_node *n, int id, const char *when) {
	auto &h = n->_queue_node;
	if((h.next || h.previous || h.in_list || n->_target_qs_counter) && !g->dirty_reported.exchange(true)) {
		vh::oracle("node-hook-dirty", "node %d %s but is not detached from the pending list: hook next %s, previous %s, in_list %d, target %llu "
				"(the library keeps links into a node that belongs to the user again; registering it again stops in push_back)",
				id, when, h.next ? "non-null" : "null", h.previous ? "non-null" : "null", h.in_list ? 1 : 0,
				(unsigned long long)n->_target_qs_counter);
	}
}

void StepMutex::lock() {
	log += 'L';
	if(held) {
		// Only one thread is running: nobody can ever release it.
		if(!relock)
			vh::oracle("deadlock", "%s() of agent %d calls lock() on the domain mutex while %s holds it (the call can never return)",
					op_name(tl_op), tl_tid, holder == tl_tid ? "the same agent" : "a suspended agent");
		relock = true;
		return;
	}
	held = true; holder = tl_tid;
}
void StepMutex::unlock() {
	log += 'U';
	if(!held) {
		if(!bad_unlock)
			vh::oracle("mutex-imbalance", "%s() of agent %d calls unlock() on a mutex that is not held", op_name(tl_op), tl_tid);
		bad_unlock = true;
		return;
	}
	held = false; holder = -1;
}
void RealMutex::lock() {
	if(holder.load(std::memory_order_relaxed) == tl_tid) {
		vh::oracle("deadlock", "%s() of agent %d calls lock() on the domain mutex while holding it", op_name(tl_op), tl_tid);
		fflush(stdout); _exit(95);
	}
	m.lock();
	holder.store(tl_tid, std::memory_order_relaxed);
}
void RealMutex::unlock() {
	if(holder.load(std::memory_order_relaxed) != tl_tid) {
		vh::oracle("mutex-imbalance", "%s() of agent %d calls unlock() on a mutex it does not hold", op_name(tl_op), tl_tid);
		fflush(stdout); _exit(95);
	}
	holder.store(-1, std::memory_order_relaxed);
	m.unlock();
}

// ---- the callback ------------------------------------------------------------------------------------------
static void on_gp(frg::qs_node *n) {
	Obj *o = obj_of(n);
	int id = o->id;
	if(g->stress) {
		if(tl_op != OP_RUN || tl_tid != id % g->K)
			vh::oracle("callback-context", "callback of node %d invoked in %s() of agent %d (owner: agent %d)", id, op_name(tl_op), tl_tid, id % g->K);
		if(o->payload != MAGIC)
			vh::oracle("callback-twice", "callback of node %d invoked on an object that was already reclaimed", id);
		check_detached(n, id, "is being called back");
		o->payload = DEAD;                 // plain write: must happen-after every reader's access
		delete o;
		g->fired++;
		g->pub[id].store(fresh(id), std::memory_order_release);
		return;
	}
	if(tl_op != OP_RUN)
		vh::oracle("callback-context", "callback of node %d invoked inside %s() of agent %d, not inside run()", id, op_name(tl_op), tl_tid);
	else if(tl_tid != g->h_owner[id])
		vh::oracle("callback-owner", "callback of node %d (registered by agent %d) invoked by run() of agent %d", id, g->h_owner[id], tl_tid);
	if(!g->h_registered[id])
		vh::oracle("callback-twice", "callback of node %d invoked although no registration is outstanding", id);
	g->h_registered[id] = false;
	if(!g->need[id].empty())
		vh::oracle("grace-period", "callback of node %d invoked although agent %d (online when it was registered) has not entered quiescent_state()/offline() since",
				id, *g->need[id].begin());
	char b[32]; snprintf(b, sizeof b, " %d@%d", id, tl_tid); g->cb_log += b;
	check_detached(n, id, "is being called back");
	if(o->mode == M_KEEP)
		return;                    // the user keeps the object and may register it again later
	if(o->mode == M_REARM) {
		// the callback re-arms its own node (once): a new registration, made from inside run()
		o->mode = M_KEEP;
		g->need[id].clear();
		for(int x = 0; x < g->K; x++) if(g->h_online[x]) g->need[id].insert(x);
		g->h_owner[id] = tl_tid; g->h_registered[id] = true;
		g->ws->agent(tl_tid)->await_barrier(n);
		return;
	}
	// The node belongs to the user from now on: reclaim it.  Any later access by the library is a use-after-free.
	o->payload = DEAD;
	delete o;
	g->objs[id] = fresh(id);
	g->pub[id].store(g->objs[id], std::memory_order_release);
}

// ---- lock-step workers -------------------------------------------------------------------------------------
struct Worker {
	std::thread th;
	std::mutex m;
	std::condition_variable cv;
	std::function<void()> job;
	bool has_job = false, done = false, quit = false;
	bool asserted = false;
	std::string amsg;
	void loop(int t) {
		tl_tid = t;
		std::unique_lock<std::mutex> lk(m);
		for(;;) {
			cv.wait(lk, [&] { return has_job || quit; });
			if(quit) return;
			has_job = false;
			lk.unlock();
			try { job(); }
			catch(vh::AssertStop &a) { asserted = true; amsg = a.where; }
			lk.lock();
			tl_op = OP_NONE;
			done = true;
			cv.notify_all();
		}
	}
};

static int assert_line(const std::string &m) {      // ".../qs.hpp:127: Assertion ..."
	size_t p = m.find(".hpp:");
	return p == std::string::npos ? 0 : atoi(m.c_str() + p + 5);
}

static void lockstep(const vh::Lines &ls) {
	Ctx &c = *g;
	World<StepMutex> w;
	c.ws = &w;
	for(int n = 0; n < c.N; n++) { c.objs[n] = fresh(n); c.pub[n].store(c.objs[n]); c.h_owner[n] = -1; }
	std::vector<Worker *> wk;
	for(int t = 0; t < c.K; t++) {
		Worker *x = new Worker;
		x->th = std::thread([x, t] { x->loop(t); });
		wk.push_back(x);
	}
	auto shutdown = [&] {
		for(auto x : wk) {
			{ std::lock_guard<std::mutex> lk(x->m); x->quit = true; }
			x->cv.notify_all(); x->th.join(); delete x;
		}
		for(int n = 0; n < c.N; n++) delete c.objs[n];
	};
	auto print_state = [&] {
		printf("d %llu %llu %u %u", (unsigned long long)w.dom._qs_counter.load(), (unsigned long long)w.dom._desired_qs_counter.load(),
				w.dom._num_agents, w.dom._agents_to_ack.load());
		for(int t = 0; t < c.K; t++) {
			printf(" |");
			if(!w.made[t]) { printf(" 0 0 []"); continue; }
			auto a = w.agent(t);
			printf(" %llu %d [", (unsigned long long)a->_acked_qs_counter, a->_qs_deferred ? 1 : 0);
			int cnt = 0;
			for(frg::qs_node *p = a->_pending._front; p; p = p->_queue_node.next) {
				printf("%s%d", cnt ? "," : "", obj_of(p)->id);
				if(++cnt > 64) { vh::oracle("pending-list", "pending list of agent %d does not end", t); break; }
			}
			printf("]");
		}
		printf(" | t");
		for(int n = 0; n < c.N; n++) printf(" %llu", (unsigned long long)c.objs[n]->node._target_qs_counter);
		printf(" | m %s | c%s | w", w.dom._mutex.log.c_str(), c.cb_log.c_str());
		for(int n = 0; n < c.N; n++) {
			printf(" ");
			for(int t = 0; t < c.K; t++) putchar(c.need[n].count(t) ? '1' : '0');
		}
		printf("\n");
	};

	for(size_t i = 1; i < ls.size(); i++) {
		auto tk = vh::split(ls[i]);
		const std::string &o = tk[0];
		if(o == "rd") continue;
		if(o == "expect_drained") {
			for(int n = 0; n < c.N; n++)
				if(c.h_registered[n])
					vh::oracle("lost-grace-period", "node %d (registered by agent %d) was never called back although every online agent "
							"kept passing quiescent states and its owner kept calling run()", n, c.h_owner[n]);
			continue;
		}
		int t = atoi(tk[1].c_str());
		if(t < 0 || t >= c.K) continue;
		int n = tk.size() > 2 ? atoi(tk[2].c_str()) : 0;
		bool valid = true;     // does the call respect the documented preconditions (harness's own bookkeeping)?
		bool first = !w.made[t];
		int op = OP_NONE;
		std::function<void()> job;
		w.dom._mutex.log.clear(); c.cb_log.clear();
		if(o == "on") {
			op = OP_ON; valid = !c.h_online[t];
			if(first) job = [&w, t] { tl_op = OP_ON; w.make_online(t); };
			else job = [&w, t] { tl_op = OP_ON; w.agent(t)->online(); };
		} else {
			if(first) w.make_offline(t);
			auto a = w.agent(t);
			if(o == "off") {
				op = OP_OFF; valid = c.h_online[t];
				if(valid) for(int m = 0; m < c.N; m++) c.need[m].erase(t);      // entering offline()
				job = [a] { tl_op = OP_OFF; a->offline(); };
			} else if(o == "qs") {
				op = OP_QS; valid = c.h_online[t];
				if(valid) for(int m = 0; m < c.N; m++) c.need[m].erase(t);      // entering quiescent_state()
				job = [a] { tl_op = OP_QS; a->quiescent_state(); };
			} else if(o == "ab") {
				op = OP_AB;
				if(n < 0 || n >= c.N) continue;
				valid = !c.h_registered[n];
				Obj *ob = c.objs[n];
				if(valid) {
					ob->mode = tk.size() > 3 && tk[3] == "rearm" ? M_REARM : tk.size() > 3 && tk[3] == "keep" ? M_KEEP : M_FREE;
					c.pub[n].store(nullptr);            // unpublish, then register
					ob->node.on_grace_period = on_gp;
					c.need[n].clear();
					for(int x = 0; x < c.K; x++) if(c.h_online[x]) c.need[n].insert(x);
					c.h_owner[n] = t; c.h_registered[n] = true;
				}
				job = [a, ob] { tl_op = OP_AB; a->await_barrier(&ob->node); };
			} else if(o == "run") {
				op = OP_RUN;
				job = [a] { tl_op = OP_RUN; a->run(); };
			} else if(o == "qb") {
				op = OP_QB; valid = c.h_online[t];
				if(valid) for(int m = 0; m < c.N; m++) c.need[m].erase(t);      // it calls quiescent_state() at least once
				job = [a] { tl_op = OP_QB; a->quiescent_barrier(); };
			} else continue;
		}
		Worker *x = wk[t];
		{
			std::unique_lock<std::mutex> lk(x->m);
			x->job = job; x->has_job = true; x->done = false; x->asserted = false;
			x->cv.notify_all();
			if(!x->cv.wait_for(lk, std::chrono::seconds(20), [&] { return x->done; })) {
				vh::oracle("deadlock", "%s() of agent %d did not return within 20 s (all other agents are suspended)", op_name(op), t);
				fflush(stdout); _exit(96);
			}
		}
		if(w.dom._mutex.relock) { printf("deadlock\n"); break; }
		if(w.dom._mutex.bad_unlock) { printf("ub-unlock\n"); break; }
		if(x->asserted) {
			if(valid)
				vh::oracle("unexpected-assert", "%s() of agent %d respects the documented preconditions but stopped in: %s",
						op_name(op), t, x->amsg.c_str());
			printf("assert %d\n", assert_line(x->amsg));
			break;
		}
		if(w.dom._mutex.held)
			vh::oracle("mutex-imbalance", "the domain mutex is still held after %s() of agent %d returned", op_name(op), t);
		if(op == OP_ON) c.h_online[t] = true;
		if(op == OP_OFF) c.h_online[t] = false;
		for(int m = 0; m < c.N; m++)
			if(!c.h_registered[m]) check_detached(&c.objs[m]->node, m, "has no outstanding registration");
		print_state();
	}
	shutdown();
}

// ---- stress mode -------------------------------------------------------------------------------------------
static void stress(const vh::Lines &ls) {
	Ctx &c = *g;
	World<RealMutex> *w = new World<RealMutex>;     // heap: TSan/ASan see it as one allocation
	c.wr = w;
	for(int n = 0; n < c.N; n++) { c.objs[n] = nullptr; c.pub[n].store(fresh(n)); }
	std::vector<std::vector<std::vector<std::string>>> script(c.K);
	for(size_t i = 1; i < ls.size(); i++) {
		auto tk = vh::split(ls[i]);
		if(tk.size() < 2) continue;
		int t = atoi(tk[1].c_str());
		if(t >= 0 && t < c.K) script[t].push_back(tk);
	}
	std::atomic<int> ready{0};
	std::atomic<bool> go{false}, giveup{false};
	std::atomic<int> pending_total{0};
	auto body = [&](int t) {
		tl_tid = t;
		bool online = false, made = false;
		uint64_t seen = 0;
		auto ag = [&] { return w->agent(t); };
		auto do_on = [&] {
			tl_op = OP_ON;
			if(!made) { w->make_online(t); made = true; } else ag()->online();
			online = true; tl_op = OP_NONE;
		};
		auto need_obj = [&] { if(!made) { w->make_offline(t); made = true; } };
		ready++;
		while(!go.load()) std::this_thread::yield();
		try {
			for(auto &tk : script[t]) {
				c.progress++;
				const std::string &o = tk[0];
				int n = tk.size() > 2 ? atoi(tk[2].c_str()) : 0;
				if(o == "on") { if(!online) do_on(); }
				else if(o == "off") {
					// D07: offline() of an agent that holds a deferred period stops in an assertion; the user cannot
					// see _qs_deferred, the harness can.
					if(online && !ag()->_qs_deferred) { tl_op = OP_OFF; ag()->offline(); online = false; tl_op = OP_NONE; }
				} else if(o == "qs") { if(online) { tl_op = OP_QS; ag()->quiescent_state(); tl_op = OP_NONE; } }
				else if(o == "rd") {
					if(online)
						for(int m = 0; m < c.N; m++) {
							Obj *p = c.pub[m].load(std::memory_order_acquire);
							if(p) {
								uint64_t v = p->payload;       // plain read inside the read-side critical section
								if(v != MAGIC) vh::oracle("use-after-reclaim", "agent %d (online, not quiescent) read a reclaimed object of slot %d", t, m);
								seen += v;
							}
						}
				} else if(o == "ab") {
					if(n % c.K == t && n < c.N) {
						need_obj();
						Obj *p = c.pub[n].exchange(nullptr);
						if(p) {
							p->node.on_grace_period = on_gp;
							c.registered++; pending_total++;
							tl_op = OP_AB; ag()->await_barrier(&p->node); tl_op = OP_NONE;
						}
					}
				} else if(o == "run") {
					need_obj();
					long f0 = c.fired.load();
					tl_op = OP_RUN; ag()->run(); tl_op = OP_NONE;
					(void)f0;
				} else if(o == "qr") {
					if(online && n % c.K == t && n < c.N) {
						Obj *p = c.pub[n].exchange(nullptr);
						if(p) {
							tl_op = OP_QB; ag()->quiescent_barrier(); tl_op = OP_NONE;
							p->payload = DEAD;         // grace period over: plain write, then reclaim
							delete p;
							c.pub[n].store(fresh(n), std::memory_order_release);
						}
					}
				}
			}
			// drain: keep passing quiescent states and calling run() until every registered callback has run
			need_obj();
			if(!online) do_on();
			c.finished++;
			// the clock for "lost grace period" runs only while ALL agents are draining and no callback completes
			auto t0 = std::chrono::steady_clock::now();
			long fired0 = c.fired.load();
			while(!(c.finished.load() == c.K && c.fired.load() == c.registered.load())) {
				tl_op = OP_QS; ag()->quiescent_state();
				tl_op = OP_RUN; ag()->run(); tl_op = OP_NONE;
				c.progress++;
				if(giveup.load()) break;
				if(c.finished.load() < c.K || c.fired.load() != fired0) { t0 = std::chrono::steady_clock::now(); fired0 = c.fired.load(); }
				if(std::chrono::steady_clock::now() - t0 > std::chrono::seconds(8)) {
					if(!giveup.exchange(true))
						vh::oracle("lost-grace-period", "%ld of %ld registered callbacks not invoked after 8 s of all agents passing quiescent states and calling run()",
								c.registered.load() - c.fired.load(), c.registered.load());
					break;
				}
				std::this_thread::yield();
			}
		} catch(vh::AssertStop &a) {
			vh::oracle("unexpected-assert", "%s() of agent %d stopped in: %s", op_name(tl_op), t, a.where.c_str());
			fflush(stdout); _exit(94);
		}
		if(seen == 1) printf(" ");     // keep the reads alive
	};
	std::vector<std::thread> th;
	for(int t = 0; t < c.K; t++) th.emplace_back(body, t);
	while(ready.load() < c.K) std::this_thread::yield();
	go.store(true);
	// watchdog for calls that never return
	std::atomic<bool> alldone{false};
	std::thread dog([&] {
		// no API call completed for 20 s = some call never returns
		long last = -1; int idle = 0;
		while(!alldone.load()) {
			std::this_thread::sleep_for(std::chrono::milliseconds(100));
			long p = c.progress.load();
			if(p != last) { last = p; idle = 0; } else if(++idle > 200) {
				vh::oracle("deadlock", "stress run: no API call returned for 20 s (a call never returns)");
				fflush(stdout); _exit(96);
			}
		}
	});
	for(auto &x : th) x.join();
	alldone.store(true); dog.join();
	for(int n = 0; n < c.N; n++) delete c.pub[n].load();
	delete w;
	printf("stress done\n");
}

static void body(const vh::Lines &ls) {
	if(ls.empty()) return;
	auto t = vh::split(ls[0]);
	if(t.size() < 3 || t[0] != "cfg") return;
	Ctx c;
	g = &c;
	c.K = std::min(MAXA, std::max(1, atoi(t[1].c_str())));
	c.N = std::min(MAXN, std::max(1, atoi(t[2].c_str())));
	c.stress = t.size() > 3 && t[3] == "stress";
	if(c.stress) stress(ls); else lockstep(ls);
	g = nullptr;
}

int main() { return vh::run(body); }
