"""Script generator for the qs component (C11).

Case format: first line "cfg <agents K> <nodes N> [stress]", then one API call per line:
  on t | off t | qs t | ab t n | run t | qb t          (lock-step and stress)
  ab t n keep | ab t n rearm                           (lock-step: the callback keeps the node object for a later "ab" of the slot /
                                                        re-registers its own node once from inside run(); plain "ab": it frees it)
  rd t | qr t n                                        (stress only: read published objects / unpublish+quiescent_barrier+reclaim)
  expect_drained                                       (lock-step: every registered callback must have run by now)

The small simulator below is used ONLY to steer generation (which calls are valid now, when quiescent_barrier
terminates single-threaded, how many rounds drain the barriers); expected outputs come from the extracted Coq model.
Aimed at: agents joining/leaving while a barrier is pending, several barriers pending, deferred periods
(last acker with desired <= ctr) and their restart, run() with partially reached targets, the D07 shape."""
import itertools, random


class Sim:
    def __init__(self, K, N):
        self.K, self.N = K, N
        self.ctr, self.des, self.na, self.ta = 1, 0, 0, 0
        self.acked = [0] * K
        self.defr = [False] * K
        self.pend = [[] for _ in range(K)]
        self.tg = [0] * N
        self.rearm = [False] * N
        self.dead = False

    def copy(self):
        s = Sim.__new__(Sim)
        s.K, s.N, s.ctr, s.des, s.na, s.ta = self.K, self.N, self.ctr, self.des, self.na, self.ta
        s.acked = list(self.acked); s.defr = list(self.defr); s.pend = [list(p) for p in self.pend]
        s.tg = list(self.tg); s.rearm = list(self.rearm); s.dead = self.dead
        return s

    def online(self):
        return [t for t in range(self.K) if self.acked[t]]

    def qs(self, t):
        if not self.acked[t]:
            return "assert"
        if self.defr[t]:
            if self.acked[t] != self.ctr:
                return "assert"
            if self.des > self.acked[t]:
                self.ta = self.na; self.ctr = self.acked[t] + 1; self.defr[t] = False
        else:
            c = self.ctr
            if self.acked[t] != c:
                if self.acked[t] + 1 != c:
                    return "assert"
                old = self.ta
                self.ta = (old - 1) % 2**32
                if old == 1:
                    if self.des > c:
                        self.ta = self.na; self.ctr = c + 1
                    else:
                        self.defr[t] = True
                self.acked[t] += 1
        return "ok"

    def step(self, op):
        """returns 'ok' | 'assert' | 'hang'"""
        o, t = op[0], op[1]
        if o == "on":
            if self.acked[t]:
                return "assert"
            self.na += 1
            c = self.ctr
            if self.na == 1:
                if self.ta:
                    return "assert"
                self.ta = 1; self.ctr = c + 1
            self.acked[t] = c
        elif o == "off":
            if not self.acked[t] or self.defr[t]:
                return "assert"
            self.na -= 1
            c = self.ctr
            if self.acked[t] != c:
                if self.acked[t] + 1 != c:
                    return "assert"
                old = self.ta
                self.ta = (old - 1) % 2**32
                if old == 1:
                    self.ta = self.na; self.ctr = c + 1
            self.acked[t] = 0
        elif o == "qs":
            return self.qs(t)
        elif o == "ab":
            n = op[2]
            target = self.ctr + 2
            self.des = max(self.des, target)
            if self.tg[n]:
                return "assert"
            self.tg[n] = target
            self.pend[t].append(n)
            self.rearm[n] = len(op) > 3 and op[3] == "rearm"
        elif o == "run":
            while self.pend[t] and self.ctr >= self.tg[self.pend[t][0]]:
                n = self.pend[t].pop(0)
                self.tg[n] = 0
                if self.rearm[n]:          # the callback registers the node again: target ctr + 2, not reached by this run()
                    self.rearm[n] = False
                    self.des = max(self.des, self.ctr + 2)
                    self.tg[n] = self.ctr + 2
                    self.pend[t].append(n)
        elif o == "qb":
            target = self.ctr + 2
            self.des = max(self.des, target)
            for _ in range(8):
                if self.ctr >= target:
                    return "ok"
                if self.qs(t) == "assert":
                    return "assert"
            return "ok" if self.ctr >= target else "hang"
        return "ok"


def fmt(op):
    return " ".join(str(x) for x in op)


def valid_ops(s, allow_d07=False):
    """calls that respect the documented preconditions in state s (and terminate when run alone)"""
    out = []
    for t in range(s.K):
        if s.acked[t]:
            out.append(("qs", t))
            if allow_d07 or not s.defr[t]:
                out.append(("off", t))
            if s.online() == [t]:
                out.append(("qb", t))
        else:
            out.append(("on", t))
        out.append(("run", t))
        for n in range(s.N):
            if n % s.K == t and not s.tg[n]:
                out.append(("ab", t, n))
    return out


def drain(s, lines):
    """rounds of 'every online agent passes a quiescent state, every owner calls run()' until nothing is pending"""
    if not any(s.tg):
        return
    if not s.online():
        lines.append("on 0"); s.step(("on", 0))
    for _ in range(14):
        if not any(s.tg):
            break
        for t in s.online():
            lines.append("qs %d" % t); s.step(("qs", t))
        for t in range(s.K):
            if s.pend[t]:
                lines.append("run %d" % t); s.step(("run", t))
    if not any(s.tg):
        lines.append("expect_drained")


def gen_case(rng, n_ops, K=None, N=None):
    K = K or rng.choice([1, 2, 2, 3, 3, 3, 4])
    N = N or rng.choice([1, 2, 3, 4, 6])
    s = Sim(K, N)
    lines = ["cfg %d %d" % (K, N)]
    style = rng.choice(["mixed", "churn", "barriers", "steady", "defer"])
    w = {"mixed": dict(on=3, off=2, qs=6, ab=3, run=3, qb=1),
         "churn": dict(on=5, off=5, qs=4, ab=2, run=2, qb=1),
         "barriers": dict(on=2, off=1, qs=6, ab=6, run=5, qb=1),
         "steady": dict(on=6, off=0.3, qs=8, ab=3, run=3, qb=0.5),
         "defer": dict(on=3, off=1, qs=10, ab=1.5, run=2, qb=0.5)}[style]
    bad_at = rng.randrange(n_ops) if rng.random() < 0.08 else -1     # one call violating a precondition
    reuse = rng.random() < 0.5          # callbacks keep / re-arm their nodes (node objects are registered again)
    for i in range(n_ops):
        if i == bad_at:
            t = rng.randrange(K)
            cands = ([("on", t)] if s.acked[t] else [("off", t), ("qs", t), ("qb", t)]) + \
                    [("ab", t, n) for n in range(N) if s.tg[n]]
            op = rng.choice(cands)
        else:
            ops = valid_ops(s, allow_d07=rng.random() < 0.02)
            op = rng.choices(ops, [w[o[0]] for o in ops])[0]
        if op[0] == "ab" and reuse:
            m = rng.random()
            if m < 0.4:
                op = op + ("keep",)
            elif m < 0.7:
                op = op + ("rearm",)
        lines.append(fmt(op))
        r = s.step(op)
        if r != "ok":
            return lines
    if rng.random() < 0.7:
        drain(s, lines)
    return lines


def gen_stress(rng, K=None, N=None, n_ops=None):
    K = K or rng.choice([2, 2, 3, 3])
    N = N or rng.choice([2, 3, 4, 6])
    n_ops = n_ops or rng.choice([60, 150, 400])
    lines = ["cfg %d %d stress" % (K, N)]
    per = []
    for t in range(K):
        seq = [("on", t)]
        role = rng.choice(["reader", "writer", "mixed"])
        w = {"reader": dict(on=1, off=1, qs=8, rd=8, ab=1, run=2, qr=0.3),
             "writer": dict(on=1, off=0.5, qs=6, rd=3, ab=5, run=5, qr=1),
             "mixed": dict(on=2, off=2, qs=6, rd=5, ab=3, run=3, qr=0.7)}[role]
        names = list(w)
        mine = [n for n in range(N) if n % K == t]
        for _ in range(n_ops):
            o = rng.choices(names, [w[x] for x in names])[0]
            if o in ("ab", "qr"):
                if not mine:
                    continue
                seq.append((o, t, rng.choice(mine)))
            else:
                seq.append((o, t))
        per.append(seq)
    # interleave textually (the threads run their own subsequences concurrently anyway)
    for ops in itertools.zip_longest(*per):
        for op in ops:
            if op:
                lines.append(fmt(op))
    return lines


def corpus():
    """minimised past failures first"""
    return [
        # D04 (fixed by the locks component): first online() self-deadlocks (lock_guard::unlock() re-locks)
        ("corpus-d04", ["cfg 1 1", "on 0"]),
        # D05: run() touched the node after the callback started (callback frees the node)
        ("corpus-d05", ["cfg 1 1", "on 0", "ab 0 0", "qs 0", "qs 0", "run 0"]),
        # D07 (known): offline() of the agent that holds a deferred period
        ("corpus-d07", ["cfg 1 1", "on 0", "qs 0", "off 0"]),
        # D06: two agents, reader's plain read must happen-before the reclaiming callback / barrier return
        ("corpus-d06-cb", ["cfg 3 3 stress", "on 1", "on 2"] + ["rd 1", "qs 1", "rd 2", "qs 2", "ab 0 0", "run 0", "run 0", "run 0"] * 150),
        ("corpus-d06-qb", ["cfg 3 3 stress"] + ["on 0", "on 1", "on 2"] + ["rd 1", "qs 1", "rd 2", "qs 2", "qr 0 0", "rd 0"] * 150),
        # D06b: offline() as the last acker published the period without acquiring the other agents' acks
        ("corpus-d06b", ["cfg 3 3 stress", "on 1", "on 2"] + ["rd 1", "qs 1", "rd 2", "qs 2", "off 2", "on 2", "ab 0 0", "run 0", "run 0"] * 250),
        # deferred period restarted by the deferring agent; second agent joins while a barrier is pending
        ("corpus-deferred-restart", ["cfg 2 2", "on 0", "qs 0", "ab 0 0", "on 1", "qs 0", "qs 1", "qs 0", "qs 1", "qs 0", "run 0", "expect_drained"]),
        # agent leaves as last acker while a barrier is pending
        ("corpus-offline-last-acker", ["cfg 2 2", "on 0", "on 1", "ab 1 1", "qs 0", "off 1", "qs 0", "on 1", "qs 0", "qs 1", "run 1", "expect_drained"]),
        ("corpus-two-barriers", ["cfg 2 4", "on 0", "on 1", "ab 0 0", "qs 0", "qs 1", "ab 0 2", "ab 1 1", "qs 1", "qs 0", "run 0", "qs 0", "qs 1", "run 0", "run 1", "qs 0", "qs 1", "run 0", "run 1", "expect_drained"]),
        ("corpus-qb-alone", ["cfg 2 1", "on 0", "qb 0", "qs 0", "qb 0", "on 1", "off 0", "qb 1"]),
        ("corpus-double-register", ["cfg 1 1", "on 0", "ab 0 0", "ab 0 0"]),
        # seeded list.hpp change (erase() leaves the erased element's next link): a node popped while another barrier is queued
        # behind it keeps a link into the pending list; the callback re-arms it / the node object is registered again later
        ("corpus-rearm", ["cfg 1 2", "on 0", "ab 0 0 rearm", "ab 0 1", "qs 0", "qs 0", "qs 0", "run 0", "qs 0", "qs 0", "qs 0", "run 0", "expect_drained"]),
        ("corpus-reuse", ["cfg 1 2", "on 0", "ab 0 0 keep", "ab 0 1 keep", "qs 0", "qs 0", "qs 0", "run 0", "ab 0 0 keep", "qs 0", "qs 0", "qs 0",
                          "run 0", "expect_drained"]),
        ("corpus-rearm-2agents", ["cfg 2 4", "on 0", "on 1", "ab 0 0 rearm", "ab 0 2 rearm", "ab 1 1 keep", "qs 0", "qs 1", "qs 0", "qs 1", "qs 0", "qs 1",
                                  "run 0", "run 1", "ab 1 1", "off 1", "qs 0", "qs 0", "qs 0", "run 0", "on 1", "qs 0", "qs 1", "qs 0", "qs 1", "run 1",
                                  "expect_drained"]),
    ]


def exhaustive(K, depth, N=None, allow_d07=True):
    """all call sequences of length <= depth over K agents that respect the preconditions (every proper prefix of a
    leaf is compared line by line too), agents appearing in canonical order; sequences stop at the first call that
    stops (D07) -- only maximal sequences are emitted."""
    N = N or K
    out = []

    def rec(s, ops, used):
        if len(ops) == depth:
            out.append(ops); return
        any_child = False
        for op in valid_ops(s, allow_d07=allow_d07):
            t = op[1]
            if t > used:          # canonical: agent t+1 does nothing before agent t did something
                continue
            if op[0] == "run" and not s.pend[t]:
                continue          # no-op
            s2 = s.copy()
            r = s2.step(op)
            any_child = True
            if r != "ok":
                out.append(ops + [op])
            else:
                rec(s2, ops + [op], max(used, t + 1) if t == used else used)
        if not any_child:
            out.append(ops)

    rec(Sim(K, N), [], 0)
    return [("x%d-%d" % (K, i), ["cfg %d %d" % (K, N)] + [fmt(o) for o in ops]) for i, ops in enumerate(out)]


def _thread_script(rng, t, K, L, nodes_per_thread=3):
    """a per-thread script that respects the static preconditions (online/offline alternate, own fresh nodes)"""
    on, out, used = False, [], 0
    nodes = [t + K * i for i in range(nodes_per_thread)]
    for _ in range(L):
        opts = []
        if on:
            opts += ["qs"] * 4 + ["off", "qb"]
        else:
            opts += ["on"] * 3
        if used < nodes_per_thread:
            opts += ["ab"] * 2
        opts += ["run"] * 2
        o = rng.choice(opts)
        if o == "on":
            on = True; out.append("on %d" % t)
        elif o == "off":
            on = False; out.append("off %d" % t)
        elif o == "ab":
            out.append("ab %d %d" % (t, nodes[used])); used += 1
        else:
            out.append("%s %d" % (o, t))
    return out


def model_cases(rng, quick):
    """cases for the extracted model only: exhaustive exploration of all interleavings of the fine-grained model
    (every invariant and theorem statement is checked in every state) and the randomised vector-clock check of C11_hb"""
    cases = []
    for i in range(6 if quick else 60):
        K = rng.choice([2, 2, 3])
        L = rng.choice([3, 4]) if K == 2 else rng.choice([2, 3])
        if not quick and K == 2:
            L += rng.randrange(2)
        ls = ["cfg %d %d explore" % (K, 3 * K)]
        for t in range(K):
            ls += _thread_script(rng, t, K, L + rng.randrange(2))
        cases.append(("fg%d" % i, ls))
    fixed = [
        ["on 1", "qs 1", "qs 1", "qs 1", "on 2", "qs 2", "qs 2", "off 2", "ab 0 0", "run 0", "run 0", "run 0"],
        ["on 1", "qs 1", "qs 1", "qs 1", "qs 1", "on 2", "qs 2", "off 2", "on 2", "off 2", "ab 0 0", "run 0", "run 0", "run 0"],
        ["on 0", "qs 0", "ab 0 0", "qs 0", "qs 0", "qs 0", "run 0", "on 1", "qs 1", "qs 1", "qs 1", "off 1"],
    ]
    n = 3000 if quick else 20000
    for i, f in enumerate(fixed):
        cases.append(("hb%d" % i, ["cfg 3 3 hb %d" % n] + f))
    for i in range(2 if quick else 16):
        K = 3
        ls = ["cfg %d %d hb %d" % (K, 3 * K, n)]
        for t in range(K):
            ls += _thread_script(rng, t, K, 5 + rng.randrange(3))
        cases.append(("hbr%d" % i, ls))
    return cases

