// Element-type category "has an initializer_list constructor" (std::vector<int> and a user-defined Bag) for every
// holder that forwards constructor arguments: manual_box::initialize / construct_with, optional::emplace and
// optional's converting constructor, variant::emplace, expected's constructors (expected(T) / copy / move / assignment;
// it forwards no argument pack).  T(a, b) and T{a, b} select different constructors for these types, so the held
// value is compared with what the std:: counterpart holds (std::optional::emplace, std::variant::emplace, T(a, b)).
// Outside what the Gallina model expresses (its element is a number): correspondence/oracle-only; both sides print "il ok".
// Included by harness.cpp.
#pragma once
#include <initializer_list>

struct Bag {
	std::vector<int> v; int how;
	Bag() : how(0) {}
	Bag(int n) : v((size_t)n, 0), how(1) {}
	Bag(int n, int x) : v((size_t)n, x), how(2) {}
	Bag(int n, int x, int y) : v((size_t)n, x + y), how(4) {}
	Bag(std::initializer_list<int> l) : v(l), how(3) {}
	bool operator==(const Bag &o) const { return v == o.v && how == o.how; }
};
static std::string il_show(const std::vector<int> &v) { std::string s = "{"; for(size_t i = 0; i < v.size(); i++) { if(i) s += ','; s += std::to_string(v[i]); } return s + "}"; }
static std::string il_show(const Bag &b) { return il_show(b.v) + "/ctor" + std::to_string(b.how); }

template<typename T>
static void il_expect(const char *what, const T &got, const T &want) {
	if(!(got == want))
		vh::oracle("initlist", "%s holds %s, the std:: counterpart holds %s", what, il_show(got).c_str(), il_show(want).c_str());
}

template<typename T>
static void il_two(int a, int b, const char *tn) {
	std::string w;
	auto nm = [&](const char *h) { w = std::string(h) + "<" + tn + ">(" + std::to_string(a) + ", " + std::to_string(b) + ")"; return w.c_str(); };
	std::optional<T> ref; ref.emplace(a, b);                      // what std::optional<T>::emplace(a, b) holds = T(a, b)
	{ frg::manual_box<T> m; m.initialize(a, b); il_expect(nm("manual_box::initialize"), *m, *ref); m.destruct(); }
	{ frg::manual_box<T> m; m.construct_with([&] { return T(a, b); }); il_expect(nm("manual_box::construct_with"), *m, *ref); m.destruct(); }
	{ frg::optional<T> o; o.emplace(a, b); il_expect(nm("optional::emplace"), *o, *ref);
	  o.emplace(a, b); il_expect(nm("optional::emplace (engaged)"), *o, *ref);
	  frg::optional<T> c{o}; il_expect(nm("optional copy after emplace"), *c, *ref); }
	{ frg::variant<int, T> v; v.template emplace<T>(a, b);
	  std::variant<int, T> sv; sv.template emplace<T>(a, b);
	  il_expect(nm("variant::emplace"), v.template get<T>(), std::get<T>(sv));
	  v.template emplace<T>(a, b); il_expect(nm("variant::emplace (non-empty)"), v.template get<T>(), std::get<T>(sv));
	  frg::variant<int, T> c{v}; il_expect(nm("variant copy after emplace"), c.template get<T>(), std::get<T>(sv)); }
	{ frg::expected<Err, T> e{T(a, b)}; il_expect(nm("expected(T)"), e.value(), *ref);
	  frg::expected<Err, T> c{e}; il_expect(nm("expected copy"), c.value(), *ref);
	  frg::expected<Err, T> m{std::move(c)}; il_expect(nm("expected move"), m.value(), *ref);
	  frg::expected<Err, T> d{Err(3)}; d = std::move(m); il_expect(nm("expected move assignment"), d.value(), *ref);
#ifdef HOLDERS_EXPECTED_COPY_ASSIGN
	  frg::expected<Err, T> f{Err(2)}; f = e; il_expect(nm("expected copy assignment"), f.value(), *ref);
#endif
	}
}

template<typename T>
static void il_one(int a, const char *tn) {
	std::string w;
	auto nm = [&](const char *h) { w = std::string(h) + "<" + tn + ">(" + std::to_string(a) + ")"; return w.c_str(); };
	std::optional<T> ref(a);                                      // std::optional<T>(a) holds T(a)
	std::optional<T> ref2; ref2.emplace(a);
	il_expect("std::optional<T>(a) vs emplace(a)", *ref, *ref2);
	{ frg::optional<T> o(a); il_expect(nm("optional(U&&)"), *o, *ref); }
	{ frg::optional<T> o; o.emplace(a); il_expect(nm("optional::emplace"), *o, *ref); }
	{ frg::manual_box<T> m; m.initialize(a); il_expect(nm("manual_box::initialize"), *m, *ref); m.destruct(); }
	{ frg::variant<int, T> v; v.template emplace<T>(a); il_expect(nm("variant::emplace"), v.template get<T>(), *ref); }
}

static void il_case(const vh::Lines &ls) {
	for(size_t n = 1; n < ls.size(); n++) {
		auto t = vh::split(ls[n]);
		if(t.empty()) continue;
		if(t[0] == "fwd" && t.size() == 3) {
			int a = ai(t[1]), b = ai(t[2]);
			il_two<std::vector<int>>(a, b, "std::vector<int>");
			il_two<Bag>(a, b, "Bag");
			{ std::optional<Bag> ref; ref.emplace(a, b, 1);        // three arguments
			  frg::manual_box<Bag> m; m.initialize(a, b, 1); il_expect("manual_box::initialize<Bag>(a, b, 1)", *m, *ref); m.destruct();
			  frg::optional<Bag> o; o.emplace(a, b, 1); il_expect("optional::emplace<Bag>(a, b, 1)", *o, *ref);
			  frg::variant<int, Bag> v; v.emplace<Bag>(a, b, 1); il_expect("variant::emplace<Bag>(a, b, 1)", v.get<Bag>(), *ref); }
			printf("il ok\n");
		} else if(t[0] == "one" && t.size() == 2) {
			il_one<std::vector<int>>(ai(t[1]), "std::vector<int>");
			il_one<Bag>(ai(t[1]), "Bag");
			printf("il ok\n");
		} else printf("badop\n");
	}
}
