// frg::tuple: static checks on the result types + run-time checks of order, values and reference
// identity over trivial, move-only, copy-only and reference element types (C17, correspondence-only
// clause), element construction/destruction order (C16).  Included by harness.cpp.
#pragma once

namespace tup_static {
	using T2 = frg::tuple<int, long>;
	static_assert(std::tuple_size<T2>::value == 2);
	static_assert(std::is_same_v<std::tuple_element<0, T2>::type, int>);
	static_assert(std::is_same_v<std::tuple_element<1, T2>::type, long>);
	static_assert(std::is_same_v<decltype(std::declval<T2 &>().get<0>()), int &>);
	static_assert(std::is_same_v<decltype(std::declval<T2 &>().get<1>()), long &>);
	static_assert(std::is_same_v<decltype(std::declval<const T2 &>().get<1>()), const long &>);
	static_assert(std::is_same_v<decltype(frg::make_tuple(1, 2l, 'c')), frg::tuple<int, long, char>>);
	static_assert(std::is_same_v<decltype(frg::tuple_cat(std::declval<T2>(), std::declval<frg::tuple<char>>())), frg::tuple<int, long, char>>);
	static_assert(std::is_same_v<decltype(frg::tuple_cat(std::declval<T2 &>(), std::declval<T2 &>(), std::declval<frg::tuple<char>>())), frg::tuple<int, long, int, long, char>>);
	static_assert(std::is_same_v<decltype(frg::tuple_cat()), frg::tuple<>>);
	static_assert(std::is_same_v<decltype(frg::tuple_cat(std::declval<T2>())), T2>);
	using TR = frg::tuple<int &, const long &>;
	static_assert(std::is_same_v<decltype(std::declval<TR &>().get<0>()), int &>);
	static_assert(std::is_same_v<decltype(std::declval<TR &>().get<1>()), const long &>);
	static_assert(std::is_same_v<decltype(frg::apply([](int, long) { return 'x'; }, std::declval<const T2 &>())), char>);
	static_assert(std::is_same_v<decltype(frg::apply([](int, long) { return 1.0; }, std::declval<T2>())), double>);
	using TM = frg::tuple<El<KM, 0>, El<KM, 1>>;
	static_assert(std::is_same_v<decltype(frg::tuple_cat(std::declval<TM>(), std::declval<TM>())), frg::tuple<El<KM, 0>, El<KM, 1>, El<KM, 0>, El<KM, 1>>>);
}

static std::string show_tup(std::initializer_list<const vh::TV *> l) {
	std::string s = "[";
	bool first = true;
	for(auto p : l) { if(!first) s += ' '; first = false; s += show_tv(*p); }
	return s + "]";
}

// Converting construction tuple<T...>(const tuple<U...>&) / (tuple<U...>&&) in the four category combinations
// (values<-values, values<-refs, refs<-values with an LVALUE source, refs<-refs), copy and move.  Oracle = std::tuple
// doing the same: values, and whether element i of the result IS element i of the source (reference identity:
// a tuple of references built from a tuple of values must alias the source, not a temporary).
// tuple.hpp defines no assignment operators (only the implicit same-type ones), so there is no converting assignment.
#include <string>
static int tuple_conversion_checks() {
	int n = 0;
	auto same = [&](const char *what, bool frg_alias, bool std_alias) {
		n++;
		if(frg_alias != std_alias)
			vh::oracle("tuple", "converting construction %s: element %s the source element, std::tuple's %s", what,
				frg_alias ? "aliases" : "does not alias", std_alias ? "does" : "does not");
	};
	auto val = [&](const char *what, bool ok) { n++; if(!ok) vh::oracle("tuple", "converting construction %s: wrong element value or order", what); };
	{	// values <- values (copy and move): int -> long, const char * -> std::string
		frg::tuple<int, const char *> src{7, "seven"}; std::tuple<int, const char *> ssrc{7, "seven"};
		frg::tuple<long, std::string> a{std::as_const(src)}; std::tuple<long, std::string> sa{std::as_const(ssrc)};
		val("values<-values (copy)", a.get<0>() == std::get<0>(sa) && a.get<1>() == std::get<1>(sa) && a.get<0>() == 7 && a.get<1>() == "seven");
		same("values<-values (copy) [0]", (const void *)&a.get<0>() == (const void *)&src.get<0>(), (const void *)&std::get<0>(sa) == (const void *)&std::get<0>(ssrc));
		frg::tuple<std::string, int> msrc{std::string(40, 'x'), 3}; std::tuple<std::string, int> smsrc{std::string(40, 'x'), 3};
		frg::tuple<std::string, long> b{std::move(msrc)}; std::tuple<std::string, long> sb{std::move(smsrc)};
		val("values<-values (move)", b.get<0>() == std::get<0>(sb) && b.get<1>() == std::get<1>(sb) && b.get<0>() == std::string(40, 'x'));
		val("values<-values (move) leaves the source moved-from like std::tuple", msrc.get<0>().empty() == std::get<0>(smsrc).empty());
		frg::tuple<std::string, int> csrc{std::string(40, 'y'), 4};
		frg::tuple<std::string, long> c{std::as_const(csrc)};
		val("values<-values (copy) keeps the source", csrc.get<0>() == std::string(40, 'y') && c.get<0>() == csrc.get<0>());
	}
	{	// values <- refs
		int x = 5; std::string s(30, 'r');
		frg::tuple<int &, std::string &> src{x, s}; std::tuple<int &, std::string &> ssrc{x, s};
		frg::tuple<long, std::string> a{std::as_const(src)}; std::tuple<long, std::string> sa{std::as_const(ssrc)};
		val("values<-refs (copy)", a.get<0>() == 5 && a.get<1>() == s && std::get<1>(sa) == s);
		same("values<-refs (copy) [1]", (const void *)&a.get<1>() == (const void *)&s, (const void *)&std::get<1>(sa) == (const void *)&s);
		a.get<1>() = "changed"; val("values<-refs: the result is a copy", s == std::string(30, 'r'));
		frg::tuple<long, std::string> b{std::move(src)};
		val("values<-refs (move)", b.get<0>() == 5 && b.get<1>().size() == 30);
	}
	{	// refs <- values, LVALUE source: the references must bind to the source's elements
		frg::tuple<int, std::string> src{9, std::string(35, 'v')}; std::tuple<int, std::string> ssrc{9, std::string(35, 'v')};
		frg::tuple<const int &, const std::string &> view{src}; std::tuple<const int &, const std::string &> sview{ssrc};
		same("refs<-values (copy, lvalue source) [0]", &view.get<0>() == &src.get<0>(), &std::get<0>(sview) == &std::get<0>(ssrc));
		same("refs<-values (copy, lvalue source) [1]", &view.get<1>() == &src.get<1>(), &std::get<1>(sview) == &std::get<1>(ssrc));
		src.get<0>() = 10; src.get<1>()[0] = 'w';
		if(&view.get<0>() == &src.get<0>() && &view.get<1>() == &src.get<1>())   // (a view that does not alias dangles: do not read through it)
			val("refs<-values: writes to the source are seen through the view", view.get<0>() == 10 && view.get<1>()[0] == 'w');
		frg::tuple<const int &, const std::string &> cview{std::as_const(src)};
		same("refs<-values (copy, const lvalue source) [1]", &cview.get<1>() == &src.get<1>(), true);
		// move: an xvalue of a named tuple; std::tuple binds to the source's elements as well
		frg::tuple<const int &, const std::string &> mview{std::move(src)}; std::tuple<const int &, const std::string &> smview{std::move(ssrc)};
		same("refs<-values (move of a named tuple) [0]", &mview.get<0>() == &src.get<0>(), &std::get<0>(smview) == &std::get<0>(ssrc));
		same("refs<-values (move of a named tuple) [1]", &mview.get<1>() == &src.get<1>(), &std::get<1>(smview) == &std::get<1>(ssrc));
		// tracked elements: no element object may be created (or moved from) by building a view
		frg::tuple<El<KF, 0>, El<KF, 1>> tsrc{El<KF, 0>(1), El<KF, 1>(2)};
		long before = vh::g_life.ctors;
		frg::tuple<const El<KF, 0> &, const El<KF, 1> &> tview{tsrc};
		n++; if(vh::g_life.ctors != before || tsrc.get<0>().moved || tsrc.get<1>().moved || &tview.get<1>() != &tsrc.get<1>())
			vh::oracle("tuple", "building a tuple of references from a tuple of values constructed or moved element objects");
	}
	{	// refs <- refs
		int x = 1; long y = 2; El<KM, 0> mo(3);
		frg::tuple<int &, long &, El<KM, 0> &> src{x, y, mo}; std::tuple<int &, long &, El<KM, 0> &> ssrc{x, y, mo};
		frg::tuple<const int &, const long &, const El<KM, 0> &> a{std::as_const(src)}; std::tuple<const int &, const long &, const El<KM, 0> &> sa{std::as_const(ssrc)};
		same("refs<-refs (copy) [0]", &a.get<0>() == &x, &std::get<0>(sa) == &x);
		same("refs<-refs (copy) [2]", &a.get<2>() == &mo, &std::get<2>(sa) == &mo);
		frg::tuple<const int &, const long &, const El<KM, 0> &> b{std::move(src)}; std::tuple<const int &, const long &, const El<KM, 0> &> sb{std::move(ssrc)};
		same("refs<-refs (move) [1]", &b.get<1>() == &y, &std::get<1>(sb) == &y);
		same("refs<-refs (move) [2]", &b.get<2>() == &mo, &std::get<2>(sb) == &mo);
		n++; if(mo.moved) vh::oracle("tuple", "converting a tuple of references moved out of a referenced object");
	}
	return n;
}

// tuple_cat over tuples with reference elements (const T& and T&&; tuples with a T& element do not compile: recorded D17):
// like std::tuple_cat the result keeps the reference element types, its reference elements ARE the originals
// (&get<i>(result) == &original), no element is copied on the way, writes to the originals show through the result.
// The result types are compared with std::tuple_cat's at run time (if constexpr) so that a wrong type is reported with
// this failing input instead of breaking the harness build.
template<typename T> struct as_frg_tuple;
template<typename... Ts> struct as_frg_tuple<std::tuple<Ts...>> { using type = frg::tuple<Ts...>; };
struct CatX {
	int v; int copies;
	explicit CatX(int x) : v(x), copies(0) {}
	CatX(const CatX &o) : v(o.v), copies(o.copies + 1) {}
	CatX &operator=(const CatX &o) { v = o.v; copies = o.copies + 1; return *this; }
};
static int tuple_cat_reference_checks() {
	int n = 0;
	auto type_ok = [&](const char *what, bool same) { n++; if(!same) vh::oracle("tuple", "tuple_cat %s: the result element types differ from std::tuple_cat's (reference elements must stay references)", what); };
	auto ident = [&](const char *what, const void *got, const void *orig) { n++; if(got != orig) vh::oracle("tuple", "tuple_cat %s: the reference element of the result is not the original object", what); };
	CatX x(5); int i = 6; long l = 7;
	{	// tuple<const X&, int> ++ tuple<long&&>
		frg::tuple<const CatX &, int> a{x, 1}; std::tuple<const CatX &, int> sa{x, 1};
		frg::tuple<long &&> b{std::move(l)}; std::tuple<long &&> sb{std::move(l)};
		auto r = frg::tuple_cat(std::move(a), std::move(b)); auto sr = std::tuple_cat(std::move(sa), std::move(sb));
		type_ok("(tuple<const X&, int>, tuple<long&&>)", std::is_same_v<decltype(r), as_frg_tuple<decltype(sr)>::type>);
		static_assert(std::is_same_v<decltype(sr), std::tuple<const CatX &, int, long &&>>);
		ident("(tuple<const X&, int>, tuple<long&&>) [0]", &r.get<0>(), &x);
		ident("(tuple<const X&, int>, tuple<long&&>) [2]", &r.get<2>(), &l);
		n++; if(r.get<0>().copies != 0 || x.copies != 0) vh::oracle("tuple", "tuple_cat copied an element that is held by const reference (%d copies)", r.get<0>().copies);
		n++; if(r.get<1>() != 1 || r.get<0>().v != std::get<0>(sr).v) vh::oracle("tuple", "tuple_cat over reference tuples: wrong values");
		x.v = 50; l = 70;
		n++; if(r.get<0>().v != 50 || r.get<2>() != 70) vh::oracle("tuple", "tuple_cat: a write to the original is not visible through the reference element of the result");
		x.v = 5; l = 7;
	}
	{	// tuple<const X&, const int&> alone and twice, also from lvalue source tuples (moving a reference element is harmless)
		frg::tuple<const CatX &, const int &> c{x, i}; std::tuple<const CatX &, const int &> sc{x, i};
		auto r1 = frg::tuple_cat(c); auto s1 = std::tuple_cat(sc);
		type_ok("(tuple<const X&, const int&>&)", std::is_same_v<decltype(r1), as_frg_tuple<decltype(s1)>::type>);
		ident("(tuple<const X&, const int&>&) [0]", &r1.get<0>(), &x); ident("(tuple<const X&, const int&>&) [1]", &r1.get<1>(), &i);
		auto r2 = frg::tuple_cat(c, frg::make_tuple(2.5), c); auto s2 = std::tuple_cat(sc, std::make_tuple(2.5), sc);
		type_ok("(refs, values, refs)", std::is_same_v<decltype(r2), as_frg_tuple<decltype(s2)>::type>);
		ident("(refs, values, refs) [0]", &r2.get<0>(), &x); ident("(refs, values, refs) [3]", &r2.get<3>(), &x); ident("(refs, values, refs) [4]", &r2.get<4>(), &i);
		n++; if(r2.get<2>() != 2.5 || r2.get<3>().copies != 0) vh::oracle("tuple", "tuple_cat(refs, values, refs): wrong value or a copy was made");
		i = 60; n++; if(r2.get<1>() != 60 || r1.get<1>() != 60) vh::oracle("tuple", "tuple_cat: a write to the original int is not visible through the const int& element");
		i = 6;
	}
	{	// a tuple<T&&> element keeps designating the original (moved-from only if somebody moves from it)
		CatX y(9);
		frg::tuple<CatX &&, int> d{std::move(y), 3}; std::tuple<CatX &&, int> sd{std::move(y), 3};
		auto r = frg::tuple_cat(std::move(d)); auto sr = std::tuple_cat(std::move(sd));
		type_ok("(tuple<X&&, int>)", std::is_same_v<decltype(r), as_frg_tuple<decltype(sr)>::type>);
		ident("(tuple<X&&, int>) [0]", &r.get<0>(), &y);
		n++; if(y.copies != 0 || r.get<0>().copies != 0) vh::oracle("tuple", "tuple_cat copied an element that is held by rvalue reference");
	}
	return n;
}

// apply(f, tuple): the functor receives references to the tuple's OWN elements -- for the rvalue overload too (like
// std::apply: std::get<I>(std::move(t))...).  A functor that only binds the references (records addresses, consumes
// nothing) must see &get<i>(t), must not cause any element to be constructed or moved, and t is unchanged afterwards
// (move-only handle and an element with an observable moved-from state).  Side by side with std::apply on std::tuple.
static int tuple_apply_identity_checks() {
	int n = 0;
	using M = El<KM, 0>; using C = El<KF, 1>;
	{	// rvalue overload
		frg::tuple<M, C, int> t{M(11), C(12), 13}; std::tuple<M, C, int> st{M(11), C(12), 13};
		const void *got[3] = {nullptr, nullptr, nullptr}, *sgot[3] = {nullptr, nullptr, nullptr};
		long before = vh::g_life.ctors;
		int r = frg::apply([&](M &&a, C &&b, int &&c) { got[0] = &a; got[1] = &b; got[2] = &c; return 5; }, std::move(t));
		long made = vh::g_life.ctors - before;
		int sr = std::apply([&](M &&a, C &&b, int &&c) { sgot[0] = &a; sgot[1] = &b; sgot[2] = &c; return 5; }, std::move(st));
		bool fid = got[0] == &t.get<0>() && got[1] == &t.get<1>() && got[2] == &t.get<2>();
		bool sid = sgot[0] == &std::get<0>(st) && sgot[1] == &std::get<1>(st) && sgot[2] == &std::get<2>(st);
		n++; if(fid != sid) vh::oracle("tuple", "apply(f, tuple&&): the functor's references %s the tuple's own elements, std::apply's %s", fid ? "are" : "are not", sid ? "are" : "are not");
		n++; if(made != 0) vh::oracle("tuple", "apply(f, tuple&&) with a functor that only binds references constructed %ld element object(s) (std::apply: none)", made);
		n++; if(t.get<0>().moved != std::get<0>(st).moved || t.get<1>().moved != std::get<1>(st).moved || t.get<0>().v != 11 || t.get<1>().v != 12 || t.get<2>() != 13)
			vh::oracle("tuple", "apply(f, tuple&&) with a functor that consumes nothing left the tuple moved-from (std::apply leaves it alone)");
		n++; if(r != sr) vh::oracle("tuple", "apply(f, tuple&&) returned a wrong result");
		// a functor that does consume one element: exactly that element is moved from
		frg::tuple<M, C> u{M(21), C(22)};
		uint64_t taken = frg::apply([](M &&a, C &&) { M x(std::move(a)); return x.v; }, std::move(u));
		n++; if(taken != 21 || !u.get<0>().moved || u.get<1>().moved) vh::oracle("tuple", "apply(f, tuple&&): consuming element 0 must move exactly element 0 out of the tuple");
	}
	{	// const& overload, also reached with a non-const lvalue (tuple.hpp has no tuple& overload)
		frg::tuple<M, C, int> t{M(31), C(32), 33}; std::tuple<M, C, int> st{M(31), C(32), 33};
		const void *got[3], *sgot[3];
		long before = vh::g_life.ctors;
		frg::apply([&](const M &a, const C &b, const int &c) { got[0] = &a; got[1] = &b; got[2] = &c; return 0; }, std::as_const(t));
		std::apply([&](const M &a, const C &b, const int &c) { sgot[0] = &a; sgot[1] = &b; sgot[2] = &c; return 0; }, std::as_const(st));
		bool fid = got[0] == &t.get<0>() && got[1] == &t.get<1>() && got[2] == &t.get<2>();
		bool sid = sgot[0] == &std::get<0>(st) && sgot[1] == &std::get<1>(st) && sgot[2] == &std::get<2>(st);
		n++; if(fid != sid) vh::oracle("tuple", "apply(f, const tuple&): the functor's references are not the tuple's own elements");
		frg::apply([&](const M &a, const C &b, const int &c) { got[0] = &a; got[1] = &b; got[2] = &c; return 0; }, t);
		n++; if(got[0] != &t.get<0>() || got[1] != &t.get<1>() || got[2] != &t.get<2>()) vh::oracle("tuple", "apply(f, tuple&): the functor's references are not the tuple's own elements");
		n++; if(vh::g_life.ctors != before || t.get<0>().moved || t.get<1>().moved) vh::oracle("tuple", "apply(f, const tuple&) constructed or moved element objects");
	}
	return n;
}

// run-time checks that do not depend on the script; returns the number of checks made
static int tuple_fixed_checks() {
	int n = 0;
	bool saved = g_log_on; g_log_on = false;
	{	// trivial elements: order and values
		frg::tuple<int, long, char> t{1, 2l, 'c'};
		if(t.get<0>() != 1 || t.get<1>() != 2l || t.get<2>() != 'c') vh::oracle("tuple", "get<i> returns a wrong element of tuple<int,long,char>");
		t.get<1>() = 7; if(t.get<1>() != 7 || t.get<0>() != 1) vh::oracle("tuple", "get<i> is not a reference to element i");
		const auto &ct = t; if(&ct.get<1>() != &t.get<1>()) vh::oracle("tuple", "const get<i> names another object");
		long s = frg::apply([](int a, long b, char c) { return a * 10000l + b * 100 + c; }, ct);
		if(s != 1 * 10000l + 7 * 100 + 'c') vh::oracle("tuple", "apply passes the elements in a wrong order");
		n += 4;
	}
	{	// reference elements: identity
		int x = 5; long y = 6; El<KM, 0> mo(9);
		frg::tuple<int &, long &, El<KM, 0> &> t{x, y, mo};
		if(&t.get<0>() != &x || &t.get<1>() != &y || &t.get<2>() != &mo) vh::oracle("tuple", "tuple<T&...>::get<i> does not name the bound object");
		t.get<0>() = 11; if(x != 11) vh::oracle("tuple", "write through tuple<int&> did not reach the bound object");
		frg::apply([&](int &a, long &b, El<KM, 0> &c) { if(&a != &x || &b != &y || &c != &mo) vh::oracle("tuple", "apply on tuple<T&...> passes other objects"); return 0; }, std::as_const(t));
		frg::tuple<int &, long &, El<KM, 0> &> t2(std::as_const(t));
		if(&t2.get<0>() != &x || &t2.get<2>() != &mo) vh::oracle("tuple", "copy of tuple<T&...> rebinds");
		n += 4;
	}
	{	// make_tuple copies, tuple_cat of three and of none
		int x = 3; auto t = frg::make_tuple(x, 4l);
		if(&t.get<0>() == &x || t.get<0>() != 3 || t.get<1>() != 4l) vh::oracle("tuple", "make_tuple result wrong");
		auto c = frg::tuple_cat(frg::make_tuple(1), frg::make_tuple(2l, 'a'), frg::make_tuple(3.5));
		if(c.get<0>() != 1 || c.get<1>() != 2l || c.get<2>() != 'a' || c.get<3>() != 3.5) vh::oracle("tuple", "tuple_cat of three tuples: wrong order or values");
		n += 2;
	}
	n += tuple_conversion_checks();
	n += tuple_cat_reference_checks();
	n += tuple_apply_identity_checks();
	g_log_on = saved;
	return n;
}

template<Kind K>
static void tuple_case(const vh::Lines &ls) {
	using E = El<K, 0>;
	using T3 = frg::tuple<E, E, E>;
	using T2 = frg::tuple<E, E>;
	using S3 = frg::tuple<Src, Src, Src>;
	alignas(16) static unsigned char buf[sizeof(T3)];
	for(size_t n = 1; n < ls.size(); n++) {
		auto t = vh::split(ls[n]);
		if(t.empty()) continue;
		const std::string &c = t[0];
		g_ev.clear(); g_temps.clear(); g_regions.clear();
		if(c == "static") {
			tuple_fixed_checks();
			printf("static ok\n");
		} else if(c == "make" && t.size() == 4) {
			uint64_t v[3] = {vh::u64(t[1]), vh::u64(t[2]), vh::u64(t[3])};
			// learn the element offsets, then log only the elements of the tuple under test
			size_t off[3];
			g_log_on = false;
			{ T3 *p = new (buf) T3(E(0), E(0), E(0)); off[0] = (char *)&p->template get<0>() - (char *)buf; off[1] = (char *)&p->template get<1>() - (char *)buf; off[2] = (char *)&p->template get<2>() - (char *)buf; p->~T3(); }
			g_log_on = true; g_log_temps = false;
			for(int i = 0; i < 3; i++) g_regions.push_back({(const char *)buf + off[i], sizeof(E), 0, 2 * i + 1});
			T3 *p = new (buf) T3(E(v[0]), E(v[1]), E(v[2]));
			uint64_t g[3] = {p->template get<0>().rd(), p->template get<1>().rd(), p->template get<2>().rd()};
			std::string s = show_tup({&p->template get<0>(), &p->template get<1>(), &p->template get<2>()});
			for(int i = 0; i < 3; i++) if(g[i] != v[i]) vh::oracle("tuple", "get<%d> of tuple(v0,v1,v2) returned %llu, expected %llu", i, (ull)g[i], (ull)v[i]);
			p->~T3();
			g_log_temps = true;
			printf("t %s |  | %s\n", s.c_str(), g_ev.c_str());
		} else if(c == "apply" && t.size() == 4) {
			g_log_on = false;
			T3 tp{E{vh::u64(t[1])}, E{vh::u64(t[2])}, E{vh::u64(t[3])}};
			auto f = [](const E &a, const E &b, const E &cc) { uint64_t acc = 7; acc = acc * 31 + a.rd(); acc = acc * 31 + b.rd(); acc = acc * 31 + cc.rd(); return acc; };
			uint64_t r1 = frg::apply(f, std::as_const(tp));
			uint64_t r2 = frg::apply(f, std::move(tp));
			uint64_t want = std::apply([](uint64_t a, uint64_t b, uint64_t cc) { uint64_t acc = 7; acc = acc * 31 + a; acc = acc * 31 + b; acc = acc * 31 + cc; return acc; },
				std::make_tuple(vh::u64(t[1]), vh::u64(t[2]), vh::u64(t[3])));
			if(r1 != want || r2 != want) vh::oracle("tuple", "apply(f, tuple) = %llu / %llu, std::apply gives %llu", (ull)r1, (ull)r2, (ull)want);
			g_log_on = true;
			printf("v %llu\n", (ull)r1);
		} else if(c == "cat" && t.size() == 8 && t[5] == "/") {
			bool l1 = t[1][0] == 'l', l2 = t[1][1] == 'l';
			uint64_t v[5] = {vh::u64(t[2]), vh::u64(t[3]), vh::u64(t[4]), vh::u64(t[6]), vh::u64(t[7])};
			g_log_on = false;
			{
				T3 t1{E{v[0]}, E{v[1]}, E{v[2]}}; T2 t2{E{v[3]}, E{v[4]}};
				auto show = [&](const frg::tuple<E, E, E, E, E> &r) {
					const vh::TV *re[5] = {&r.template get<0>(), &r.template get<1>(), &r.template get<2>(), &r.template get<3>(), &r.template get<4>()};
					auto want = std::tuple_cat(std::make_tuple(v[0], v[1], v[2]), std::make_tuple(v[3], v[4]));
					uint64_t w[5] = {std::get<0>(want), std::get<1>(want), std::get<2>(want), std::get<3>(want), std::get<4>(want)};
					for(int i = 0; i < 5; i++) if(re[i]->v != w[i]) vh::oracle("tuple", "tuple_cat element %d = %llu, std::tuple_cat gives %llu", i, (ull)re[i]->v, (ull)w[i]);
					// std::tuple_cat leaves lvalue arguments alone
					const vh::TV *s1[3] = {&t1.template get<0>(), &t1.template get<1>(), &t1.template get<2>()};
					const vh::TV *s2[2] = {&t2.template get<0>(), &t2.template get<1>()};
					bool bad = false;
					if(l1) for(auto p : s1) bad |= p->moved;
					if(l2) for(auto p : s2) bad |= p->moved;
					if(bad) vh::oracle("tuple-cat-lvalue", "tuple_cat moved out of an argument tuple that was passed as an lvalue (std::tuple_cat copies)");
					printf("t %s | %s %s | \n", show_tup({re[0], re[1], re[2], re[3], re[4]}).c_str(), show_tup({s1[0], s1[1], s1[2]}).c_str(), show_tup({s2[0], s2[1]}).c_str());
				};
				if constexpr (K == KM) {
					if(l1 || l2) printf("unsupported\n");
					else show(frg::tuple_cat(std::move(t1), std::move(t2)));
				} else {
					if(l1 && l2) show(frg::tuple_cat(t1, t2));
					else if(l1) show(frg::tuple_cat(t1, std::move(t2)));
					else if(l2) show(frg::tuple_cat(std::move(t1), t2));
					else show(frg::tuple_cat(std::move(t1), std::move(t2)));
				}
			}
			g_log_on = true;
		} else if((c == "copy" || c == "move") && t.size() == 4) {
			g_log_on = false;
			{
				S3 s{Src{vh::u64(t[1])}, Src{vh::u64(t[2])}, Src{vh::u64(t[3])}};
				auto show = [&](const T3 &r) {
					const vh::TV *re[3] = {&r.template get<0>(), &r.template get<1>(), &r.template get<2>()};
					const vh::TV *se[3] = {&s.template get<0>(), &s.template get<1>(), &s.template get<2>()};
					for(int i = 0; i < 3; i++) if(re[i]->v != vh::u64(t[1 + i])) vh::oracle("tuple", "converting %s construction: element %d wrong", c.c_str(), i);
					if(c == "copy") for(auto p : se) if(p->moved) vh::oracle("tuple", "converting copy construction moved out of its source");
					printf("t %s | %s | \n", show_tup({re[0], re[1], re[2]}).c_str(), show_tup({se[0], se[1], se[2]}).c_str());
				};
				if(c == "copy") show(T3(std::as_const(s))); else show(T3(std::move(s)));
			}
			g_log_on = true;
		} else printf("badop\n");
	}
	vh::g_life.check_empty("tuple");
}
