// Element category "construction may throw" with fault injection at EVERY element construction/assignment point:
// Th counts its constructions and assignments down and throws when the counter reaches zero.  For every operation
// that constructs an element in place while another one may be live, the operation is repeated with the fault at the
// 1st, 2nd, ... point until it completes without a throw.  After each (throwing or not) run:
//   C17  "claims-dead": the holder reports a value / an alternative  <=>  an element object is alive in its storage
//        (std::optional: disengaged after a throwing emplace; std::variant: valueless_by_exception -- frg::variant's
//        counterpart is the empty state: the tag must not claim an alternative whose object is dead);
//        for optional the state is also compared with std::optional<Th> run with the same fault (its element-level
//        steps coincide with frg::optional's); for variant: after a throw the state is the unchanged old state or empty
//        (std: unchanged or valueless_by_exception), without a throw it is std::variant's result;
//   C16  "lifetime": no destructor on dead storage, nothing constructed over a live object, nothing left alive.
// Own registry (not vh::g_life) so that the messages name the holder and the operation.  Oracle-only: the Gallina
// models cover the throwing converting constructor (RThrow) for emplace / initialize / optional(U&&) only.
// Included by harness.cpp.
#pragma once

struct ThrowNow {};
static long g_cd = 0;                 // fault countdown; 0 = no fault
static std::string g_thr_ctx;         // "<holder>.<operation>" for the messages
static std::set<const void *> g_thr_live;
static void thr_tick() { if(g_cd > 0 && --g_cd == 0) throw ThrowNow{}; }
static void thr_born(const void *p) { if(!g_thr_live.insert(p).second) vh::oracle("lifetime", "throwing-path %s: object constructed over a live object", g_thr_ctx.c_str()); }
static void thr_died(const void *p) { if(!g_thr_live.erase(p)) vh::oracle("lifetime", "throwing-path %s: destructor run on storage that holds no live object", g_thr_ctx.c_str()); }
static void thr_use(const void *p) { if(!g_thr_live.count(p)) vh::oracle("lifetime", "throwing-path %s: use of an object outside its lifetime", g_thr_ctx.c_str()); }

template<int Tag>
struct Th {
	long v;
	Th(long x) : v(x) { thr_tick(); thr_born(this); }
	Th(const Th &o) : v(o.v) { thr_use(&o); thr_tick(); thr_born(this); }
	Th(Th &&o) : v(o.v) { thr_use(&o); thr_tick(); thr_born(this); }
	Th &operator=(const Th &o) { thr_use(this); thr_use(&o); thr_tick(); v = o.v; return *this; }
	Th &operator=(Th &&o) { thr_use(this); thr_use(&o); thr_tick(); v = o.v; return *this; }
	~Th() { thr_died(this); }
};
static bool thr_alive(const void *p) { return g_thr_live.count(p) != 0; }

static void thr_claim(bool claims, const void *stor) {
	bool alive = thr_alive(stor);
	if(claims && !alive) vh::oracle("claims-dead", "throwing-path %s: reports a value but no object is alive in its storage", g_thr_ctx.c_str());
	if(!claims && alive) vh::oracle("lifetime", "throwing-path %s: an object is alive in the storage of a holder that reports no value", g_thr_ctx.c_str());
}
static void thr_end() {
	if(!g_thr_live.empty()) { vh::oracle("lifetime", "throwing-path %s: %zu object(s) never destroyed", g_thr_ctx.c_str(), g_thr_live.size()); g_thr_live.clear(); }
}

// run `scenario(k)` with the fault at point k = 1, 2, ... until it reports that nothing threw
template<typename F> static int thr_sweep(const char *ctx, F scenario) {
	int runs = 0;
	for(long k = 1; k <= 40; k++) {
		g_thr_ctx = ctx; g_thr_ctx += " [fault " + std::to_string(k) + "]";
		runs++;
		bool threw = scenario(k);
		g_cd = 0;
		thr_end();
		if(!threw) break;
	}
	return runs;
}
// run an operation under the fault; returns whether it threw
template<typename F> static bool thr_run(long k, F op) {
	g_cd = k;
	try { op(); } catch(ThrowNow &) { g_cd = 0; return true; }
	g_cd = 0; return false;
}

using T0 = Th<0>; using T1 = Th<1>;
enum class TErr : int { none = 0 };

// ---------------------------------------------------------------------------------------------- optional
template<typename Op, typename SOp>
static int thr_optional(const char *name, bool dst_engaged, bool src_engaged, long vold, long vnew, Op op, SOp sop) {
	return thr_sweep(name, [&](long k) {
		alignas(16) unsigned char buf[2][sizeof(frg::optional<T0>)];
		auto *d = new (buf[0]) frg::optional<T0>(); auto *s = new (buf[1]) frg::optional<T0>();
		std::optional<T0> sd, ss;
		if(dst_engaged) { d->emplace(vold); sd.emplace(vold); }
		if(src_engaged) { s->emplace(vnew); ss.emplace(vnew); }
		bool threw = thr_run(k, [&] { op(*d, *s, vnew); });
		bool sthrew = thr_run(k, [&] { sop(sd, ss, vnew); });
		thr_claim(d->has_value(), d->_stor.buffer); thr_claim(s->has_value(), s->_stor.buffer);
		if(threw != sthrew || d->has_value() != sd.has_value() || s->has_value() != ss.has_value()
				|| (d->has_value() && thr_alive(d->_stor.buffer) && sd.has_value() && (**d).v != sd->v))
			vh::oracle("refstd", "throwing-path %s: threw=%d engaged=%d, std::optional threw=%d engaged=%d", g_thr_ctx.c_str(), (int)threw, (int)d->has_value(), (int)sthrew, (int)sd.has_value());
		d->~optional(); s->~optional();
		return threw;
	});
}

// ---------------------------------------------------------------------------------------------- variant
using TV2 = frg::variant<T0, T1>;
using SV2 = std::variant<std::monostate, T0, T1>;
static long thr_vtag(const TV2 &v) { return v.tag_ == TV2::invalid_tag ? -1 : (long)v.tag_; }
static long thr_svtag(const SV2 &v) { return v.valueless_by_exception() ? -1 : (long)v.index() - 1; }
static void thr_vset(TV2 &v, SV2 &sv, int alt, long x) {
	if(alt == 0) { v.emplace<T0>(x); sv.emplace<1>(x); } else if(alt == 1) { v.emplace<T1>(x); sv.emplace<2>(x); }
}
template<typename Op, typename SOp>
static int thr_variant(const char *name, int dst_alt, int src_alt, Op op, SOp sop) {
	return thr_sweep(name, [&](long k) {
		alignas(16) unsigned char buf[2][sizeof(TV2)];
		auto *d = new (buf[0]) TV2(); auto *s = new (buf[1]) TV2();
		SV2 sd, ss;
		thr_vset(*d, sd, dst_alt, 11); thr_vset(*s, ss, src_alt, 22);
		long before = thr_vtag(*d);
		bool threw = thr_run(k, [&] { op(*d, *s); });
		bool sthrew = thr_run(k, [&] { sop(sd, ss); });
		thr_claim(bool(*d), d->storage_.buffer); thr_claim(bool(*s), s->storage_.buffer);
		long now = thr_vtag(*d), snow = thr_svtag(sd);
		// frg::variant and std::variant take different numbers of element-level steps (operator= takes its argument by
		// value), so the same fault hits different points: when the operation threw the state must be the unchanged old
		// state or empty (std: valueless_by_exception or unchanged); when it did not, it must be std::variant's result
		if(threw ? !(now == before || now == -1) : (!sthrew && now != snow))
			vh::oracle("refstd", "throwing-path %s: alternative %ld after the operation (before: %ld, threw=%d); std::variant: %ld (threw=%d)", g_thr_ctx.c_str(), now, before, (int)threw, snow, (int)sthrew);
		d->~TV2(); s->~TV2();
		return threw || sthrew;
	});
}

// ---------------------------------------------------------------------------------------------- expected
using TE = frg::expected<TErr, T0>;
template<typename Op>
static int thr_expected(const char *name, bool dst_value, bool src_value, Op op) {
	return thr_sweep(name, [&](long k) {
		alignas(16) unsigned char buf[2][sizeof(TE)];
		TE *d = dst_value ? new (buf[0]) TE(T0(11)) : new (buf[0]) TE(TErr(3));
		TE *s = src_value ? new (buf[1]) TE(T0(22)) : new (buf[1]) TE(TErr(4));
		bool threw = thr_run(k, [&] { op(*d, *s); });
		thr_claim(bool(*d), d->stor_); thr_claim(bool(*s), s->stor_);
		d->~TE(); s->~TE();
		return threw;
	});
}
// constructors of expected: the object under construction lives in raw storage; after a throw nothing may be alive there
template<typename Op>
static int thr_expected_ctor(const char *name, Op make) {
	return thr_sweep(name, [&](long k) {
		alignas(16) unsigned char buf[2][sizeof(TE)];
		TE *s = new (buf[1]) TE(T0(22));
		TE *d = nullptr;
		bool threw = thr_run(k, [&] { d = make(buf[0], *s); });
		if(threw) { if(thr_alive(buf[0] + offsetof(TE, stor_))) vh::oracle("lifetime", "throwing-path %s: an object is alive in an expected whose constructor threw", g_thr_ctx.c_str()); }
		else { thr_claim(bool(*d), d->stor_); d->~TE(); }
		thr_claim(bool(*s), s->stor_);
		s->~TE();
		return threw;
	});
}

static void thr_case(const vh::Lines &ls) {
	for(size_t n = 1; n < ls.size(); n++) {
		auto t = vh::split(ls[n]);
		if(t.empty()) continue;
		if(t[0] != "sweep" || t.size() != 3) { printf("badop\n"); continue; }
		long vo = atol(t[1].c_str()), vn = atol(t[2].c_str());
		g_thr_live.clear();
		int runs = 0;
		using FO = frg::optional<T0>; using SO = std::optional<T0>;
		for(int de = 0; de < 2; de++) for(int se = 0; se < 2; se++) {
			std::string sfx = std::string(de ? " engaged<-" : " empty<-") + (se ? "engaged" : "empty");
			runs += thr_optional(("optional.emplace" + sfx).c_str(), de, se, vo, vn, [](FO &d, FO &, long v) { d.emplace(v); }, [](SO &d, SO &, long v) { d.emplace(v); });
			runs += thr_optional(("optional.copy-assign" + sfx).c_str(), de, se, vo, vn, [](FO &d, FO &s, long) { d = std::as_const(s); }, [](SO &d, SO &s, long) { d = std::as_const(s); });
			runs += thr_optional(("optional.move-assign" + sfx).c_str(), de, se, vo, vn, [](FO &d, FO &s, long) { d = std::move(s); }, [](SO &d, SO &s, long) { d = std::move(s); });
			runs += thr_optional(("optional.converting-copy-assign" + sfx).c_str(), de, se, vo, vn,
				[&](FO &d, FO &, long v) { frg::optional<long> u; if(se) u.emplace(v); d = std::as_const(u); },
				[&](SO &d, SO &, long v) { std::optional<long> u; if(se) u.emplace(v); d = std::as_const(u); });
			runs += thr_optional(("optional.converting-move-assign" + sfx).c_str(), de, se, vo, vn,
				[&](FO &d, FO &, long v) { frg::optional<long> u; if(se) u.emplace(v); d = std::move(u); },
				[&](SO &d, SO &, long v) { std::optional<long> u; if(se) u.emplace(v); d = std::move(u); });
		}
		for(int da = -1; da < 2; da++) {
			std::string sfx = " dst=" + std::to_string(da);
			runs += thr_variant(("variant.emplace<0>" + sfx).c_str(), da, -1, [&](TV2 &d, TV2 &) { d.emplace<T0>(vn); }, [&](SV2 &d, SV2 &) { d.emplace<1>(vn); });
			runs += thr_variant(("variant.emplace<1>" + sfx).c_str(), da, -1, [&](TV2 &d, TV2 &) { d.emplace<T1>(vn); }, [&](SV2 &d, SV2 &) { d.emplace<2>(vn); });
			for(int sa = -1; sa < 2; sa++) {
				std::string sfx2 = sfx + " src=" + std::to_string(sa);
				runs += thr_variant(("variant.copy-assign" + sfx2).c_str(), da, sa, [](TV2 &d, TV2 &s) { d = std::as_const(s); }, [](SV2 &d, SV2 &s) { d = std::as_const(s); });
				runs += thr_variant(("variant.move-assign" + sfx2).c_str(), da, sa, [](TV2 &d, TV2 &s) { d = std::move(s); }, [](SV2 &d, SV2 &s) { d = std::move(s); });
			}
			runs += thr_variant(("variant.assign-value" + sfx).c_str(), da, -1, [&](TV2 &d, TV2 &) { d = T1(vn); }, [&](SV2 &d, SV2 &) { d = T1(vn); });
		}
		for(int dv = 0; dv < 2; dv++) for(int sv = 0; sv < 2; sv++) {
			std::string sfx = std::string(dv ? " value<-" : " error<-") + (sv ? "value" : "error");
#ifdef HOLDERS_EXPECTED_COPY_ASSIGN
			runs += thr_expected(("expected.copy-assign" + sfx).c_str(), dv, sv, [](TE &d, TE &s) { d = std::as_const(s); });
#endif
			runs += thr_expected(("expected.move-assign" + sfx).c_str(), dv, sv, [](TE &d, TE &s) { d = std::move(s); });
		}
		runs += thr_expected_ctor("expected.ctor-value", [&](void *p, TE &) { return new (p) TE(T0(vn)); });
		runs += thr_expected_ctor("expected.ctor-copy", [](void *p, TE &s) { return new (p) TE(std::as_const(s)); });
		runs += thr_expected_ctor("expected.ctor-move", [](void *p, TE &s) { return new (p) TE(std::move(s)); });
		runs += thr_sweep("manual_box.initialize", [&](long k) {
			frg::manual_box<T0> b;
			bool threw = thr_run(k, [&] { b.initialize(vn); });
			thr_claim(b.valid(), b._storage.buffer);
			if(threw && b.valid()) vh::oracle("refstd", "throwing-path %s: the box is initialized although the constructor threw", g_thr_ctx.c_str());
			if(b.valid()) b.destruct();
			return threw;
		});
		runs += thr_sweep("manual_box.construct_with", [&](long k) {
			frg::manual_box<T0> b;
			bool threw = thr_run(k, [&] { b.construct_with([&] { return T0(vn); }); });
			thr_claim(b.valid(), b._storage.buffer);
			if(b.valid()) b.destruct();
			return threw;
		});
		printf("thr ok %d\n", runs > 0 ? 1 : 0);
	}
}
