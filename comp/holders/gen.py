"""Script generator for the value holders (C17) and their lifetimes (C16).
A case = "type <opt|exp|var|box|uptr|umem|tup> <F|M|C>" + one op per line (see comp/holders/harness.cpp).
 * corpus(): minimised past failures (D13, D17, D18, D19) and hand-picked corner cases, run first;
 * exhaustive(ty, kind, L, core): the full product (state of variable 0 x state of variable 1) x every op
   sequence of length <= L over the op alphabet of the holder (both variables as destination and source,
   including self-assignment);
 * gen_case(rng, ty, kind, n): sampled longer scripts over three variables, biased to valid ops
   (an op that would stop in the assertion hook ends a case, so those are rare but present)."""
import itertools

THROW_MAGIC = 3735928559     # El's converting constructor throws on this argument (coq: throw_magic)

KINDS = {"opt": "FMC", "exp": "FMC", "var": "FMC", "box": "FMC", "uptr": "F", "uptrre": "F", "umem": "F", "tup": "FMC"}
NEEDS_COPY = {"opt": {"newcval", "newcopy", "assign"}, "exp": {"newcopy", "assign"}, "var": {"newcopy", "assign"},
              "box": set(), "uptr": set(), "uptrre": set(), "umem": set()}

def allowed(ty, kind, op, exp_copy_assign=True):
    name = op.split()[0]
    if kind == "M" and name in NEEDS_COPY.get(ty, ()):
        return False
    if ty == "exp" and name == "assign" and not exp_copy_assign:
        return False
    return True

def alphabet(ty, kind, vs=(0, 1), core=False, exp_copy_assign=True):
    """op strings over the variables vs; core = state-changing ops + one accessor (for the longest sequences)"""
    ops = []
    pairs = [(i, j) for i in vs for j in vs]
    dpairs = [(i, j) for i, j in pairs if i != j]
    if ty == "opt":
        for i in vs:
            ops += ["new %d" % i, "newval %d 5" % i, "del %d" % i, "emplace %d 6" % i, "reset %d" % i, "get %d" % i,
                    "emplace %d %d" % (i, THROW_MAGIC)]
            if not core:
                ops += ["newconv %d %d" % (i, THROW_MAGIC)]
                ops += ["newnull %d" % i, "newcval %d 4" % i, "newconv %d 3" % i, "cassign %d none" % i, "cassign %d 7" % i,
                        "cmassign %d none" % i, "cmassign %d 8" % i, "assignval %d 9" % i, "has %d" % i]
        if not core:
            ops += ["cget 0", "arrow 0", "value 0", "bool 0"]
        for i, j in dpairs:
            ops += ["newcopy %d %d" % (i, j), "newmove %d %d" % (i, j)]
        for i, j in pairs:
            ops += ["assign %d %d" % (i, j), "massign %d %d" % (i, j)]
    elif ty == "exp":
        for i in vs:
            ops += ["new %d" % i, "newerr %d 3" % i, "newval %d 5" % i, "del %d" % i, "value %d" % i]
            if not core:
                ops += ["newsucc %d" % i, "unwrap %d" % i, "map %d" % i, "map_error %d" % i, "error %d" % i]
        if not core:
            ops += ["newerr 0 0", "cvalue 0", "bool 0", "maybe_error 0", "newerr 1 4"]
        for i, j in dpairs:
            ops += ["newcopy %d %d" % (i, j), "newmove %d %d" % (i, j)]
        for i, j in pairs:
            ops += ["assign %d %d" % (i, j), "massign %d %d" % (i, j)]
    elif ty == "var":
        for i in vs:
            ops += ["new %d" % i, "newval %d 0 5" % i, "newval %d 2 6" % i, "del %d" % i, "emplace %d 1 7" % i, "apply %d" % i,
                    "emplace %d 1 %d" % (i, THROW_MAGIC)]
            if not core:
                ops += ["newval %d 1 4" % i, "assignval %d 0 8" % i, "assignval %d 2 9" % i, "emplace %d 0 3" % i, "tag %d" % i]
        if not core:
            ops += ["get 0 0", "get 0 2", "cget 0 1", "is 0 0", "is 0 2", "bool 0", "assignval 0 1 2"]
        for i, j in dpairs:
            ops += ["newcopy %d %d" % (i, j), "newmove %d %d" % (i, j)]
        for i, j in pairs:
            ops += ["assign %d %d" % (i, j), "massign %d %d" % (i, j)]
    elif ty == "box":
        for i in vs:
            ops += ["new %d" % i, "init %d 5" % i, "destruct %d" % i, "get %d" % i, "init %d %d" % (i, THROW_MAGIC)]
            if not core:
                ops += ["construct_with %d %d" % (i, THROW_MAGIC), "construct_with %d 6" % i, "arrow %d" % i, "deref %d" % i, "valid %d" % i, "bool %d" % i]
        # "del" of an initialized box is outside the documented use (leaks by design); the generator issues
        # del only on variable 1 after a destruct
    elif ty in ("uptr", "uptrre"):
        for i in vs:
            ops += ["new %d" % i, "make %d 5" % i, "reset %d" % i, "resetnew %d 6" % i, "release %d" % i, "del %d" % i, "get %d" % i]
            if not core:
                ops += ["bool %d" % i, "deref %d" % i]
        for i, j in dpairs:
            ops += ["newmove %d %d" % (i, j)]
        for i, j in pairs:
            ops += ["massign %d %d" % (i, j)]
    elif ty == "umem":
        for i in vs:
            ops += ["new %d" % i, "alloc %d 24" % i, "del %d" % i, "data %d" % i]
            if not core:
                ops += ["alloc %d 0" % i, "size %d" % i, "bool %d" % i]
        for i, j in dpairs:
            ops += ["newmove %d %d" % (i, j)]
        for i, j in pairs:
            ops += ["assign %d %d" % (i, j)]
    return [o for o in ops if allowed(ty, kind, o, exp_copy_assign)]

def var_states(ty):
    """op lists (with %d for the variable) that put a fresh variable into each of its states"""
    if ty == "opt":
        return {"dead": [], "empty": ["new %d"], "full": ["newconv %d 1%d"]}
    if ty == "exp":
        return {"dead": [], "err": ["newerr %d 2"], "val": ["newval %d 1%d"]}
    if ty == "var":
        return {"dead": [], "empty": ["new %d"], "alt0": ["newval %d 0 1%d"], "alt1": ["newval %d 1 1%d"], "alt2": ["newval %d 2 1%d"]}
    if ty == "box":
        return {"dead": [], "empty": ["new %d"], "full": ["new %d", "init %d 1%d"]}
    if ty in ("uptr", "uptrre"):
        return {"dead": [], "null": ["new %d"], "owning": ["make %d 1%d"]}
    if ty == "umem":
        return {"dead": [], "null": ["new %d"], "owning": ["alloc %d 16"]}
    return {}

def _fill(tmpl, i):
    n = tmpl.count("%d")
    return tmpl % ((i,) * n)

def setups(ty):
    st = var_states(ty)
    out = []
    for a, pa in st.items():
        for b, pb in st.items():
            out.append(("%s-%s" % (a, b), [_fill(x, 0) for x in pa] + [_fill(x, 1) for x in pb]))
    return out

def exhaustive(ty, kind, L, core=False, exp_copy_assign=True):
    alpha = alphabet(ty, kind, core=core, exp_copy_assign=exp_copy_assign)
    cases = []
    for sname, pre in setups(ty):
        for n in range(1, L + 1):
            for k, seq in enumerate(itertools.product(alpha, repeat=n)):
                cases.append(("ex-%s-%s-%s-%d-%d" % (ty, kind, sname, n, k), ["type %s %s" % (ty, kind)] + pre + list(seq)))
    return cases

# ---- sampled scripts: a small tracker of liveness/engagement keeps most ops valid
def gen_case(rng, ty, kind, n_ops, exp_copy_assign=True):
    if ty == "tup":
        return gen_tuple(rng, kind, n_ops)
    alpha = alphabet(ty, kind, vs=(0, 1, 2), exp_copy_assign=exp_copy_assign)
    st = {0: "-", 1: "-", 2: "-"}     # '-' dead, 'n' empty/null/error, 's' holds a value
    lines = ["type %s %s" % (ty, kind)]
    ctor_full = {"newval", "newcval", "newconv", "make", "alloc"}
    ctor_empty = {"new", "newnull", "newerr"}
    tries = 0
    while len(lines) <= n_ops and tries < n_ops * 30:
        tries += 1
        op = rng.choice(alpha)
        t = op.split()
        name, i = t[0], int(t[1])
        # randomise operands
        throwing = t[-1] == str(THROW_MAGIC)
        if name in ("newval", "newcval", "newconv", "emplace", "assignval", "init", "construct_with", "make", "resetnew") and not throwing:
            t[-1] = str(rng.choice([0, 1, 7, 255, 2**32 - 1, rng.randrange(1, 10**6)]))
            if ty == "var":
                t[2] = str(rng.randrange(3))
        if ty == "var" and name in ("get", "cget", "is"):
            t[2] = str(rng.randrange(3))
        if name in ("cassign", "cmassign") and t[2] != "none":
            t[2] = str(rng.randrange(1, 1000))
        if name == "newerr":
            t[2] = str(rng.choice([1, 2, 3, 9, 0]) if rng.random() < 0.97 else 0)
        if name == "alloc":
            t[2] = str(rng.choice([0, 1, 8, 24, 100, 4096]))
        op = " ".join(t)
        is_ctor = name in ctor_full or name in ctor_empty or name in ("newcopy", "newmove", "newsucc")
        j = int(t[2]) if name in ("newcopy", "newmove", "assign", "massign") else None
        rare = rng.random() < 0.04
        if is_ctor and st[i] != "-" and not rare:
            continue
        if not is_ctor and st[i] == "-" and not rare:
            continue
        if j is not None and st[j] == "-" and not rare:
            continue
        # accessors that would stop in the assertion hook: rarely
        stops = False
        if name in ("get", "cget", "arrow", "value", "deref", "unwrap", "cvalue", "apply") and st[i] == "n":
            stops = ty not in ("uptr", "uptrre") or name == "deref"
        if ty == "exp" and name == "error" and st[i] == "s":
            stops = True
        if ty == "box" and name in ("init", "construct_with") and st[i] == "s":
            stops = True
        if ty == "box" and name == "destruct" and st[i] == "n":
            stops = True
        if name == "newerr" and t[2] == "0":
            stops = True
        if stops and rng.random() > 0.03:
            continue
        if ty == "box" and name == "del":
            continue
        lines.append(op)
        if stops:
            break
        if throwing:
            if name == "emplace":
                st[i] = "n"        # the old value is gone, no new one
            continue
        # tracker update (approximate for variant alternatives: the harness/model decide asserts exactly)
        if st[i] == "-" and is_ctor:
            if name in ctor_full or name == "newsucc":
                st[i] = "s"
            elif name in ("newcopy", "newmove"):
                st[i] = st[j] if st[j] != "-" else "-"
            elif ty == "exp" and name == "new":
                st[i] = "s"
            else:
                st[i] = "n"
        elif st[i] != "-":
            if name == "del":
                st[i] = "-"
            elif name in ("assign", "massign") and j is not None and st[j] != "-":
                if ty in ("uptr", "uptrre"):
                    st[i], st[j] = st[j], st[i]
                elif ty == "umem":
                    if i != j:
                        st[i], st[j] = st[j], "n"
                else:
                    st[i] = st[j]
            elif name in ("cassign", "cmassign"):
                st[i] = "n" if t[2] == "none" else "s"
            elif name in ("assignval", "emplace", "init", "construct_with", "resetnew"):
                st[i] = "s"
            elif name in ("reset", "destruct", "release"):
                st[i] = "n"
        if name == "newmove" and ty in ("uptr", "uptrre", "umem") and j is not None and st[j] != "-" and st[i] != "-":
            st[j] = "n"
    if ty == "var":
        lines += ["tag 0", "tag 1", "tag 2"]
    return lines

def gen_tuple(rng, kind, n_ops):
    lines = ["type tup %s" % kind, "static"]
    def v():
        return str(rng.choice([0, 1, 2**32 - 1, rng.randrange(10**9)]))
    for _ in range(max(1, n_ops // 4)):
        o = rng.choice(["make", "apply", "cat", "copy", "move"])
        if o == "cat":
            m = "rr" if kind == "M" else rng.choice(["ll", "lr", "rl", "rr"])
            lines.append("cat %s %s %s %s / %s %s" % (m, v(), v(), v(), v(), v()))
        else:
            lines.append("%s %s %s %s" % (o, v(), v(), v()))
    return lines

def tuple_exhaustive():
    cs = []
    for k in "FMC":
        ls = ["type tup %s" % k, "static", "make 1 2 3", "apply 1 2 3", "copy 4 5 6", "move 7 8 9"]
        for m in (["rr"] if k == "M" else ["ll", "lr", "rl", "rr"]):
            ls.append("cat %s 1 2 3 / 4 5" % m)
        cs.append(("ex-tup-%s" % k, ls))
    return cs

def il_cases(rng=None, n=0):
    """initializer_list element category (std::vector<int>, Bag): constructor arguments (a, b) with a != b so that
    T(a, b) and T{a, b} differ, plus single-argument forms"""
    cs = [("ex-il-small", ["type il F"] + ["fwd %d %d" % (a, b) for a in range(0, 5) for b in (0, 1, 7)] + ["one %d" % a for a in range(0, 5)])]
    for i in range(n):
        cs.append(("g-il-%d" % i, ["type il F"] + ["fwd %d %d" % (rng.randrange(0, 9), rng.randrange(-5, 100)) for _ in range(4)] + ["one %d" % rng.randrange(0, 9)]))
    return cs

def tp_cases(rng=None, n=0):
    """element type that is trivially destructible but has observable copy/move constructors (comp/holders/tp_part.hpp)"""
    return [("ex-tp", ["type tp F", "run 5"])] + [("g-tp-%d" % i, ["type tp F", "run %d" % rng.randrange(0, 10**6)]) for i in range(n)]

def mix_cases(rng=None, n=0):
    """variants mixing trivially destructible alternatives with tracked class types (comp/holders/mix_part.hpp)"""
    return [("ex-mix", ["type mix F", "run 5"])] + [("g-mix-%d" % i, ["type mix F", "run %d" % rng.randrange(0, 10**6)]) for i in range(n)]

def err_cases(rng=None, n=0):
    """expected<E, T> over a 64-bit enum class, int and a struct error type (comp/holders/err_part.hpp)"""
    return [("ex-err", ["type err F", "run 5"])] + [("g-err-%d" % i, ["type err F", "run %d" % rng.randrange(0, 10**6)]) for i in range(n)]

def alloc_cases(rng=None, n=0):
    """construct/destruct/construct_n/destruct_n (comp/holders/alloc_part.hpp): n = 0, 1, 3, 8 and sampled"""
    cs = [("ex-alloc", ["type alloc F"] + ["arr %d %d" % (k, 7 + k) for k in (0, 1, 3, 8)] + ["one 5", "null", "arr 0 1", "arr 0 2"])]
    for i in range(n):
        cs.append(("g-alloc-%d" % i, ["type alloc F"] + [rng.choice(["arr %d %d" % (rng.choice([0, 0, 1, 2, 3, 8, 17]), rng.randrange(1000)), "one %d" % rng.randrange(1000), "null"]) for _ in range(6)]))
    return cs

def thr_cases(rng=None, n=0):
    """fault injection at every element construction point (comp/holders/throw_part.hpp)"""
    cs = [("ex-thr", ["type thr F", "sweep 5 6"])]
    for i in range(n):
        cs.append(("g-thr-%d" % i, ["type thr F", "sweep %d %d" % (rng.randrange(0, 1000), rng.randrange(0, 1000))]))
    return cs

def corpus(exp_copy_assign=True):
    cs = []
    # seeded change caught in round 2 (follow-up 2): optional::emplace on an engaged optional keeps _non_null set while
    # the constructor throws
    cs.append(("corpus-opt-emplace-throws", ["type opt F", "newconv 0 5", "emplace 0 %d" % THROW_MAGIC, "has 0", "emplace 0 7", "get 0"]))
    cs.append(("corpus-var-emplace-throws", ["type var F", "newval 0 1 5", "emplace 0 2 %d" % THROW_MAGIC, "tag 0", "emplace 0 1 %d" % THROW_MAGIC, "emplace 0 0 3"]))
    cs.append(("corpus-box-init-throws", ["type box F", "new 0", "init 0 %d" % THROW_MAGIC, "valid 0", "construct_with 0 %d" % THROW_MAGIC, "init 0 4", "get 0"]))
    # seeded change caught in round 2 (follow-up 2): unique_ptr::reset destroys the old pointee before storing the new pointer
    cs.append(("corpus-uptr-reentrant-reset", ["type uptrre F", "make 0 5", "reset 0", "make 1 6", "resetnew 1 7", "get 1",
                                                 "make 2 8", "massign 0 2", "reset 2", "reset 0", "resetnew 1 9", "del 1"]))
    # seeded change caught in round 2 (follow-up 3): optional(const optional&) copies the storage bytes for trivially destructible T
    cs.append(("corpus-tp-bytewise-copy", ["type tp F", "run 5"]))
    # seeded change caught in round 2 (follow-up 3): ~variant skips the destructor walk when SOME alternative is trivially destructible
    cs.append(("corpus-mix-variant-dtor", ["type mix F", "run 5"]))
    # seeded changes caught in round 2 (follow-up 4): indicates_error casting enums to int; tuple_cat result type decayed
    cs.append(("corpus-err-wide-enum", ["type err F", "run 5"]))
    cs.append(("corpus-tuple-cat-references", ["type tup F", "static"]))
    # round-7 seeds: aligned_storage() = default (manual_box no longer constant-initialised); expected() uses new T instead of T{}
    cs.append(("corpus-init-static-box-and-arena", ["type init F", "run"]))
    # round-8 seeds: _tuple::apply(tuple&&) works on a moved copy; destruct_n(p, 0) keeps the zero-length block
    cs.append(("corpus-tuple-apply-rvalue-identity", ["type tup F", "static"]))
    cs.append(("corpus-destruct-n-zero", ["type alloc F", "arr 0 5", "arr 3 6", "one 7"]))
    cs.append(("corpus-thr-sweep", ["type thr F", "sweep 5 6"]))
    # seeded change caught in round 2: manual_box::initialize with T{args...} (vector<int>(3, 7) became {3, 7})
    cs.append(("corpus-il-initialize-braces", ["type il F", "fwd 3 7", "one 3"]))
    # seeded change caught in round 2: _tuple::storage converting constructor taking its source by value
    cs.append(("corpus-tuple-view-of-lvalue", ["type tup F", "static"]))
    # D18: variant empty-to-empty assignment ran into FRG_ASSERT (variant.hpp:92-93 -> assign_<N>)
    cs.append(("corpus-d18-empty-to-empty-copy", ["type var F", "new 0", "new 1", "assign 0 1", "tag 0"]))
    cs.append(("corpus-d18-empty-to-empty-move", ["type var M", "new 0", "new 1", "massign 0 1", "tag 0"]))
    cs.append(("corpus-d18-empty-self", ["type var F", "new 0", "massign 0 0", "assign 0 0", "tag 0"]))
    # D13: unique_ptr frees without running ~T (destructor, reset)
    cs.append(("corpus-d13-destructor", ["type uptr F", "make 0 5", "del 0"]))
    cs.append(("corpus-d13-reset", ["type uptr F", "make 0 5", "reset 0"]))
    cs.append(("corpus-d13-reset-new", ["type uptr F", "make 0 5", "resetnew 0 6", "deref 0"]))
    cs.append(("corpus-d13-scope-end", ["type uptr F", "make 0 5", "new 1", "massign 1 0"]))
    # D17: tuple_cat moves out of lvalue arguments
    cs.append(("corpus-d17-tuple-cat-lvalues", ["type tup F", "cat ll 1 2 3 / 4 5", "cat lr 1 2 3 / 4 5", "cat rl 1 2 3 / 4 5"]))
    # D19: expected copy assignment (needs the separate probe to compile first)
    if exp_copy_assign:
        cs.append(("corpus-d19-copy-assign", ["type exp F", "newval 0 5", "newerr 1 3", "newval 2 7", "assign 0 2", "assign 0 1", "assign 1 2", "assign 1 1", "value 1"]))
    # corner cases
    cs.append(("corpus-opt-self-assign", ["type opt F", "newconv 0 5", "assign 0 0", "massign 0 0", "get 0", "new 1", "massign 1 1", "assign 1 1", "has 1"]))
    cs.append(("corpus-opt-four-cases", ["type opt F", "newconv 0 5", "new 1", "assign 1 0", "massign 1 0", "reset 0", "assign 1 0", "assign 1 0", "has 1"]))
    cs.append(("corpus-var-diff-tag", ["type var F", "newval 0 0 5", "newval 1 2 6", "assign 0 1", "massign 1 0", "emplace 0 1 9", "assign 1 0", "get 1 1", "get 1 2"]))
    cs.append(("corpus-exp-self-move", ["type exp F", "newval 0 5", "massign 0 0", "value 0", "newerr 1 2", "massign 1 1", "error 1", "value 1"]))
    cs.append(("corpus-box", ["type box F", "new 0", "init 0 5", "get 0", "destruct 0", "construct_with 0 6", "init 0 7"]))
    cs.append(("corpus-umem", ["type umem F", "alloc 0 16", "alloc 1 32", "assign 0 1", "assign 0 0", "new 2", "assign 0 2", "size 0"]))
    return cs
