// Error-type instantiations of frg::expected<E, T>: "is an error" means e != E{} for EVERY error type -- a 64-bit enum
// class whose non-zero codes may have all low 32 bits clear (1 << 32), a plain int, a small struct with operator==
// (and explicit operator bool, consistent with != E{}).  State and error code are compared with a hand-written
// reference (error iff code != E{}) across construction, copy/move construction, copy/move assignment (error over value,
// value over error, error over error), map and map_error.  Oracle-only: in the model the error code is an abstract
// number different from the success value.  Included by harness.cpp.
#pragma once

enum class Status64 : uint64_t { ok = 0 };
struct SErr {
	int code; short aux;
	bool operator==(const SErr &o) const { return code == o.code && aux == o.aux; }
	bool operator!=(const SErr &o) const { return !(*this == o); }
	explicit operator bool() const { return code != 0 || aux != 0; }
};
struct MapR { uint64_t v; };                                      // result type of map(): not convertible from/to any error type
// tracked payload, not convertible from/to the error types; a destructor that runs while an AssertStop unwinds
// (expected(E{}) asserts inside its constructor) is an artifact of the throwing assertion hook, as for El
struct PV : vh::TV {
	explicit PV(uint64_t x) : vh::TV(x) {}
	PV(const PV &) = default; PV(PV &&) = default;
	~PV() { if(std::uncaught_exceptions() > 0 && !vh::g_life.live.count(static_cast<vh::TV *>(this))) vh::g_life.live.insert(static_cast<vh::TV *>(this)); }
};
static std::string err_show(Status64 e) { char b[40]; snprintf(b, sizeof b, "0x%llx", (ull)e); return b; }
static std::string err_show(int e) { return std::to_string(e); }
static std::string err_show(SErr e) { return "{" + std::to_string(e.code) + "," + std::to_string(e.aux) + "}"; }

template<typename E>
static void err_run(const char *en, const std::vector<E> &codes, uint64_t a) {
	using X = frg::expected<E, PV>;
	auto bad = [&](const char *what, E e, const char *msg) { vh::oracle("refstd", "expected<%s, T> %s with error code %s: %s", en, what, err_show(e).c_str(), msg); };
	// state of r must be: error with code e
	auto is_err = [&](const char *what, X &r, E e) {
		if(bool(r)) { bad(what, e, "classified as success (a non-zero error code is an error)"); return; }
		if(!(r.maybe_error() == e)) bad(what, e, "maybe_error() returns another code");
		try { if(!(r.error() == e)) bad(what, e, "error() returns another code"); } catch(vh::AssertStop &) { bad(what, e, "error() stopped in the assertion hook"); }
	};
	auto is_val = [&](const char *what, X &r, uint64_t v, E e) {
		if(!bool(r)) { bad(what, e, "a value is classified as an error"); return; }
		if(!(r.maybe_error() == E{})) bad(what, e, "maybe_error() of a value is not E{}");
		try { if(r.value().v != v) bad(what, e, "wrong value"); } catch(vh::AssertStop &) { bad(what, e, "value() stopped in the assertion hook"); }
	};
	for(E e : codes) {
		alignas(16) unsigned char buf[sizeof(X)];
		X *pe = nullptr;
		try { pe = new (buf) X(e); } catch(vh::AssertStop &) { bad("expected(E)", e, "stopped in the assertion hook (the code is not E{})"); continue; }
		X &xe = *pe;
		is_err("expected(E)", xe, e);
		{ X c{std::as_const(xe)}; is_err("copy construction", c, e); X m{std::move(c)}; is_err("move construction", m, e); }
		{ X d{PV(a)}; is_val("expected(T)", d, a, e); d = X(e); is_err("move assignment (error over value)", d, e);
		  d = X(PV(a + 1)); is_val("move assignment (value over error)", d, a + 1, e);
		  d = X(e); X o(codes[0]); o = std::move(d); is_err("move assignment (error over error)", o, e); }
#ifdef HOLDERS_EXPECTED_COPY_ASSIGN
		{ X d{PV(a)}; d = std::as_const(xe); is_err("copy assignment (error over value)", d, e);
		  X v{PV(a + 2)}; d = std::as_const(v); is_val("copy assignment (value over error)", d, a + 2, e);
		  X o(codes[0]); o = std::as_const(xe); is_err("copy assignment (error over error)", o, e); }
#endif
		try {
			auto r = xe.map([](PV x) -> MapR { return MapR{x.v + 1}; });
			if(bool(r) || !(r.maybe_error() == e)) bad("map", e, "the error was not passed through");
			auto r2 = xe.map_error([](E) -> int { return 77; });
			if(bool(r2) || r2.maybe_error() != 77) bad("map_error", e, "the error was not mapped");
			X v{PV(a)};
			auto r3 = v.map([](PV x) -> MapR { return MapR{x.v + 1}; });
			if(!bool(r3) || r3.value().v != a + 1) bad("map on a value", e, "wrong result");
			X v2{PV(a)};
			auto r4 = v2.map_error([](E) -> int { return 77; });
			if(!bool(r4) || r4.value().v != a) bad("map_error on a value", e, "the value was lost");
		} catch(vh::AssertStop &) { bad("map / map_error", e, "stopped in the assertion hook"); }
		xe.~X();
	}
	// E{} is not an error value: expected(E{}) must stop in the assertion hook
	bool stopped = false;
	{ alignas(16) unsigned char buf[sizeof(X)]; try { X *p = new (buf) X(E{}); p->~X(); } catch(vh::AssertStop &) { stopped = true; } }
	if(!stopped) vh::oracle("refstd", "expected<%s, T>(E{}) did not stop in the assertion hook", en);
}

static void err_case(const vh::Lines &ls) {
	for(size_t n = 1; n < ls.size(); n++) {
		auto t = vh::split(ls[n]);
		if(t.empty()) continue;
		if(t[0] != "run" || t.size() != 2) { printf("badop\n"); continue; }
		uint64_t a = vh::u64(t[1]);
		{
			err_run<Status64>("enum class : uint64_t", {Status64(1), Status64(1ull << 32), Status64(0xFFFFFFFF00000000ull), Status64((1ull << 32) + 5), Status64(1ull << 63), Status64(0xFFFFFFFFull)}, a);
			err_run<int>("int", {1, -1, 65536, INT32_MIN}, a);
			err_run<SErr>("struct", {SErr{1, 0}, SErr{0, 1}, SErr{-7, 3}}, a);
		}
		printf("err ok\n");
	}
	vh::g_life.check_empty("expected with various error types");
}
