// variant instantiations that MIX trivially destructible alternatives (int, double, an empty struct) with tracked class
// types, in several orders: construct from a value, copy/move construct, assign (every destination x source alternative
// pair, incl. empty), assign from a value, emplace over every alternative, destroy while holding each alternative
// (incl. operator='s by-value parameter and temporaries).  Oracle: std::variant<std::monostate, Ts...> (alternative and
// value, C17 kind refstd) and the lifetime registry (nothing left alive when every variant is gone: leak-object, C16).
// Also optional / expected / manual_box with a trivially destructible T (int, double, empty struct) next to the tracked
// one.  Oracle-only (the model's variant is parametric in the number of alternatives, not in their triviality).
// Included by harness.cpp.
#pragma once

struct Nothing {};
template<typename T> static constexpr bool mix_tracked = std::is_base_of_v<vh::TV, T>;
template<typename T> static long mix_val(const T &x) {
	if constexpr (std::is_same_v<T, Nothing> || std::is_same_v<T, std::monostate>) return 0;
	else if constexpr (mix_tracked<T>) return (long)static_cast<const vh::TV &>(x).v;
	else return (long)x;
}

template<typename... Ts>
struct Mix {
	using FV = frg::variant<Ts...>;
	using SV = std::variant<std::monostate, Ts...>;
	static constexpr size_t N = sizeof...(Ts);
	template<size_t I> using Alt = frg::_variant::get<I, Ts...>;
	const char *name;

	void cmp(const char *what, FV &f, const SV &s) {
		long ft = f.tag_ == FV::invalid_tag ? -1 : (long)f.tag_, st = (long)s.index() - 1;
		if(ft != st || bool(f) != (st >= 0)) { vh::oracle("refstd", "%s %s: alternative %ld, std::variant alternative %ld", name, what, ft, st); return; }
		if(ft < 0) return;
		long fv = f.apply([](auto &x) -> long { return mix_val(x); });
		long sv = std::visit([](const auto &x) -> long { return mix_val(x); }, s);
		if(fv != sv) vh::oracle("refstd", "%s %s: holds %ld, std::variant holds %ld", name, what, fv, sv);
		if constexpr ((mix_tracked<Ts> || ...))
			f.apply([&](auto &x) -> long { using X = std::remove_reference_t<decltype(x)>;
				if constexpr (mix_tracked<X>) if(!alive_at(static_cast<vh::TV *>(&x))) vh::oracle("claims-dead", "%s %s: claims a class-type alternative whose object is not alive", name, what);
				return 0; });
	}
	// put alternative I (or nothing for I == N) into both
	template<size_t I> void set(FV &f, SV &s, long a) {
		if constexpr (I < N) {
			using X = Alt<I>;
			if constexpr (std::is_same_v<X, Nothing>) { f.template emplace<X>(); s.template emplace<I + 1>(); }
			else if constexpr (mix_tracked<X>) { f.template emplace<X>((uint64_t)a); s.template emplace<I + 1>((uint64_t)a); }
			else { f.template emplace<X>((X)a); s.template emplace<I + 1>((X)a); }
		}
	}
	template<size_t I> static Alt<I> make(long a) {
		using X = Alt<I>;
		if constexpr (std::is_same_v<X, Nothing>) return X{};
		else if constexpr (mix_tracked<X>) return X((uint64_t)a);
		else return (X)a;
	}
	template<size_t S, size_t D> void pair(long a) {
		FV fs; SV ss; set<S>(fs, ss, a);
		{ FV f; SV s; set<D>(f, s, a + 1); f = std::as_const(fs); s = std::as_const(ss); cmp("copy assignment", f, s); cmp("copy assignment: source", fs, ss); }
		{ FV t{std::as_const(fs)}; SV u{std::as_const(ss)}; FV f; SV s; set<D>(f, s, a + 1); f = std::move(t); s = std::move(u); cmp("move assignment", f, s); }
		if constexpr (S < N) {
			{ FV f; SV s; set<D>(f, s, a + 1); f = make<S>(a + 2); s = make<S>(a + 2); cmp("assignment from a value", f, s); }
			{ FV f; SV s; set<D>(f, s, a + 1); set<S>(f, s, a + 3); cmp("emplace over another alternative", f, s); }
		}
	}
	template<size_t S, size_t... D> void row(long a, std::index_sequence<D...>) {
		(pair<S, D>(a), ...);
		FV fs; SV ss; set<S>(fs, ss, a);
		{ FV f{std::as_const(fs)}; SV s{std::as_const(ss)}; cmp("copy construction", f, s); FV g{std::move(f)}; SV h{std::move(s)}; cmp("move construction", g, h); }
		if constexpr (S < N) { FV f{make<S>(a)}; SV s{make<S>(a)}; cmp("construction from a value", f, s); }
		// fs (holding alternative S) dies here
	}
	template<size_t... S> void all(long a, std::index_sequence<S...> is) { (row<S>(a, is), ...); }
	void run(long a) { all(a, std::make_index_sequence<N + 1>{}); }
};

template<typename T>
static void mix_holders_of_trivial(const char *tn, T x, T y) {
	auto eq = [&](const char *what, bool fe, T fv, const std::optional<T> &s) {
		if(fe != s.has_value() || (fe && mix_val(fv) != mix_val(*s))) vh::oracle("refstd", "%s<%s>: engaged=%d, std::optional engaged=%d (or the values differ)", what, tn, (int)fe, (int)s.has_value());
	};
	for(int se = 0; se < 2; se++) for(int de = 0; de < 2; de++) {
		frg::optional<T> fs, fd; std::optional<T> ss, sd;
		if(se) { fs.emplace(x); ss.emplace(x); } if(de) { fd.emplace(y); sd.emplace(y); }
		{ frg::optional<T> c{std::as_const(fs)}; std::optional<T> sc{std::as_const(ss)}; eq("optional copy construction", c.has_value(), c.has_value() ? *c : T{}, sc);
		  frg::optional<T> m{std::move(c)}; eq("optional move construction", m.has_value(), m.has_value() ? *m : T{}, sc); }
		fd = std::as_const(fs); sd = std::as_const(ss); eq("optional copy assignment", fd.has_value(), fd.has_value() ? *fd : T{}, sd);
		fd.emplace(y); sd.emplace(y); fd = std::move(fs); sd = std::move(ss); eq("optional move assignment", fd.has_value(), fd.has_value() ? *fd : T{}, sd);
		fd = frg::null_opt; sd = std::nullopt; eq("optional = null_opt", fd.has_value(), T{}, sd);
	}
	{ frg::manual_box<T> b; b.initialize(x); if(!b.valid() || mix_val(*b) != mix_val(x)) vh::oracle("refstd", "manual_box<%s>::initialize lost the value", tn); b.destruct();
	  if(b.valid()) vh::oracle("refstd", "manual_box<%s> valid after destruct", tn); b.initialize(y); if(mix_val(*b.get()) != mix_val(y)) vh::oracle("refstd", "manual_box<%s> second initialize", tn); b.destruct(); }
	if constexpr (!std::is_same_v<T, Nothing>) {
		using FE = frg::expected<PErr, T>;
		FE v{x}, e{PErr(3)};
		auto chk = [&](const char *what, FE &r, bool ok, T want) { if(bool(r) != ok || (ok && mix_val(r.value()) != mix_val(want)) || (!ok && int(r.error()) != 3)) vh::oracle("refstd", "expected<E,%s> %s: wrong state or value", tn, what); };
		{ FE c{std::as_const(v)}; chk("copy construction", c, true, x); FE m{std::move(c)}; chk("move construction", m, true, x); FE ce{std::as_const(e)}; chk("copy construction of an error", ce, false, x); }
		for(int dv = 0; dv < 2; dv++) {
			{ FE d = dv ? FE{y} : FE{PErr(2)}; d = FE{x}; chk("move assignment", d, true, x); d = FE{PErr(3)}; chk("move assignment of an error", d, false, x); }
#ifdef HOLDERS_EXPECTED_COPY_ASSIGN
			{ FE d = dv ? FE{y} : FE{PErr(2)}; d = std::as_const(v); chk("copy assignment", d, true, x); d = std::as_const(e); chk("copy assignment of an error", d, false, x); }
#endif
		}
	}
}

static void mix_case(const vh::Lines &ls) {
	using A = El<KF, 0>; using B = El<KF, 1>;
	for(size_t n = 1; n < ls.size(); n++) {
		auto t = vh::split(ls[n]);
		if(t.empty()) continue;
		if(t[0] != "run" || t.size() != 2) { printf("badop\n"); continue; }
		long a = atol(t[1].c_str());
		{
			Mix<int, A, double>{"variant<int, A, double>"}.run(a);
			Mix<Nothing, A>{"variant<nothing, A>"}.run(a);
			Mix<A, Nothing>{"variant<A, nothing>"}.run(a);
			Mix<A, int, B>{"variant<A, int, B>"}.run(a);
			Mix<double, Nothing, B, int>{"variant<double, nothing, B, int>"}.run(a);
			Mix<int, double, Nothing>{"variant<int, double, nothing>"}.run(a);
			Mix<A, B>{"variant<A, B>"}.run(a);
			mix_holders_of_trivial<int>("int", (int)a, (int)a + 1);
			mix_holders_of_trivial<double>("double", (double)a, (double)a + 1);
			mix_holders_of_trivial<Nothing>("nothing", Nothing{}, Nothing{});
		}
		g_ev.clear();
		printf("mix ok\n");
	}
	vh::g_life.check_empty("variant with mixed trivially destructible / class-type alternatives");
}
