// (1) Constant initialisation of manual_box: manual_box exists for early-boot objects that are initialize()d before the
//     dynamic initialisers of their translation unit have run.  Its constexpr constructor must therefore be a constant
//     initialiser (probe_constinit.cpp checks that at compile time); here the run-time scenario: a static object defined
//     BEFORE the box initialize()s the box and a std::optional reference from its constructor; when the cases run the box
//     must still hold what the reference holds (a dynamically initialised box would have been wiped afterwards).
// (2) Value-initialising constructors in a pre-filled arena: expected() / expected(success_tag) hold T{} (not stale bytes),
//     like std::optional<T>(std::in_place); optional::emplace() / variant::emplace<X>() / manual_box::initialize() with no
//     arguments and tuple() value-initialise as well.  Payloads: int, pointer, POD struct.
// Oracle-only (the model's default value is the number 0).  Included by harness.cpp.
#pragma once
#include <cstring>

extern frg::manual_box<long> g_early_box;
extern std::optional<long> g_early_ref;
struct EarlyInit { EarlyInit() { g_early_box.initialize(41); g_early_ref.emplace(41); } };
static EarlyInit g_early_init;              // dynamic initialisation: runs before the two definitions below would
frg::manual_box<long> g_early_box;          // constant initialisation (constexpr constructor)
std::optional<long> g_early_ref;            // constant initialisation

struct Pod { int a; long b; void *p; };
static bool init_eq(int x, int y) { return x == y; }
static bool init_eq(const char *x, const char *y) { return x == y; }
static bool init_eq(const Pod &x, const Pod &y) { return x.a == y.a && x.b == y.b && x.p == y.p; }
enum class IErr : int { none = 0 };

template<typename T>
static void init_arena(const char *tn) {
	alignas(16) unsigned char buf[256];
	std::optional<T> ref(std::in_place);     // holds T{}
	auto fill = [&] { memset(buf, 0xA5, sizeof buf); };
	auto bad = [&](const char *what) { vh::oracle("refstd", "%s<%s> in a 0xA5-filled arena does not hold T{} (std::optional<T>(std::in_place) does)", what, tn); };
	using X = frg::expected<IErr, T>;
	static_assert(sizeof(X) <= sizeof buf);
	{ fill(); X *e = new (buf) X(); if(!bool(*e)) bad("expected() [not a value]"); else { if(!init_eq(e->value(), *ref)) bad("expected()");
	    X c{std::as_const(*e)}; if(!init_eq(c.value(), *ref)) bad("copy of expected()"); if(!init_eq(e->unwrap(), *ref)) bad("expected().unwrap()"); } e->~X(); }
	{ fill(); X *e = new (buf) X(frg::success); if(!bool(*e)) bad("expected(success) [not a value]"); else { if(!init_eq(std::as_const(*e).value(), *ref)) bad("expected(success)");
	    X m{std::move(*e)}; if(!init_eq(m.value(), *ref)) bad("move of expected(success)"); } e->~X(); }
	{ fill(); auto *o = new (buf) frg::optional<T>(); if(o->has_value()) bad("optional() [engaged]"); o->emplace(); if(!o->has_value() || !init_eq(**o, *ref)) bad("optional::emplace()"); o->~optional(); }
	{ fill(); using V = frg::variant<Nothing, T>; auto *v = new (buf) V(); if(bool(*v)) bad("variant() [not empty]"); v->template emplace<T>(); if(!v->template is<T>() || !init_eq(v->template get<T>(), *ref)) bad("variant::emplace<T>()"); v->~V(); }
	{ fill(); auto *b = new (buf) frg::manual_box<T>(); if(b->valid()) bad("manual_box() [valid]"); b->initialize(); if(!b->valid() || !init_eq(**b, *ref)) bad("manual_box::initialize()"); b->destruct(); }
	{ fill(); using TT = frg::tuple<T, int>; auto *t = new (buf) TT(); std::tuple<T, int> st{};
	  if(!init_eq(t->template get<0>(), std::get<0>(st)) || t->template get<1>() != std::get<1>(st)) bad("tuple()"); t->~TT(); }
}

static void init_case(const vh::Lines &ls) {
	for(size_t n = 1; n < ls.size(); n++) {
		auto t = vh::split(ls[n]);
		if(t.empty()) continue;
		if(t[0] != "run") { printf("badop\n"); continue; }
		if(g_early_box.valid() != g_early_ref.has_value())
			vh::oracle("refstd", "namespace-scope manual_box initialize()d by an earlier static constructor: valid()=%d, std::optional in the same position has_value()=%d (the box was not constant-initialised)", (int)g_early_box.valid(), (int)g_early_ref.has_value());
		else if(g_early_box.valid() && *g_early_box != *g_early_ref)
			vh::oracle("refstd", "namespace-scope manual_box initialize()d by an earlier static constructor lost its value");
		init_arena<int>("int");
		init_arena<const char *>("const char *");
		init_arena<Pod>("Pod");
		printf("init ok\n");
	}
}
