// Element category "trivially destructible, observable copy/move constructors": Tp has no user-declared destructor
// (so is_trivially_destructible) but its copy/move constructors re-point a self-pointer and count copies/moves -- a holder
// that copies the storage BYTES instead of running T's constructor leaves self pointing at the source and the counter
// unchanged.  After every copy/move construction and assignment of optional, variant, expected, tuple (and what
// manual_box constructs) the held object's self-pointer must point to itself and the number of copies in its lineage
// must equal the reference's (std::optional / std::variant / std::tuple with the same type; expected: by hand; the
// number of MOVES is compared for optional and tuple only: variant/expected take detours through by-value parameters
// and temporaries).  C17 kind "bytewise-copy".  Constructions only (such a type cannot register its death).
// Oracle-only: for the model an element copy is value transfer.  Included by harness.cpp.
#pragma once

template<int Tag>
struct TpT {
	long v; const TpT *self; int copies, moves;
	TpT(long x) : v(x), self(this), copies(0), moves(0) {}
	TpT(const TpT &o) : v(o.v), self(this), copies(o.copies + 1), moves(o.moves) {}
	TpT(TpT &&o) : v(o.v), self(this), copies(o.copies), moves(o.moves + 1) {}
	TpT &operator=(const TpT &o) { v = o.v; copies = o.copies + 1; moves = o.moves; return *this; }
	TpT &operator=(TpT &&o) { v = o.v; copies = o.copies; moves = o.moves + 1; return *this; }
};
using Tp = TpT<0>; using Tp2 = TpT<1>;
static_assert(std::is_trivially_destructible_v<Tp> && !std::is_trivially_copy_constructible_v<Tp> && !std::is_trivially_move_constructible_v<Tp>);

template<typename X>
static void tp_obj(const char *what, const X &x, long v, int copies, int moves /* -1 = not compared */) {
	if(x.self != &x) vh::oracle("bytewise-copy", "%s: the held object's self-pointer does not point to the held object (its bytes were copied, not constructed)", what);
	else if(x.v != v || x.copies != copies || (moves >= 0 && x.moves != moves))
		vh::oracle("bytewise-copy", "%s: value %ld copies %d moves %d, reference value %ld copies %d moves %d", what, x.v, x.copies, x.moves, v, copies, moves);
}

static void tp_opt(const char *what, frg::optional<Tp> &f, std::optional<Tp> &s, bool cmp_moves = true) {
	if(f.has_value() != s.has_value()) { vh::oracle("bytewise-copy", "%s: engaged=%d, std::optional engaged=%d", what, (int)f.has_value(), (int)s.has_value()); return; }
	if(f.has_value()) tp_obj(what, *f, s->v, s->copies, cmp_moves ? s->moves : -1);
	if(s.has_value() && s->self != &*s) vh::oracle("bytewise-copy", "%s: (reference broken)", what);
}

static void tp_optional(long a) {
	using FO = frg::optional<Tp>; using SO = std::optional<Tp>;
	for(int se = 0; se < 2; se++) {
		FO fs; SO ss; if(se) { fs.emplace(a); ss.emplace(a); }
		{ FO f{std::as_const(fs)}; SO s{std::as_const(ss)}; tp_opt(se ? "optional(const optional&) from engaged" : "optional(const optional&) from empty", f, s);
		  FO f2{std::as_const(f)}; SO s2{std::as_const(s)}; tp_opt("optional(const optional&) of a copy", f2, s2); }
		{ FO t{std::as_const(fs)}; SO u{std::as_const(ss)}; FO f{std::move(t)}; SO s{std::move(u)}; tp_opt("optional(optional&&)", f, s); tp_opt("optional(optional&&): source", t, u); }
		for(int de = 0; de < 2; de++) {
			{ FO f; SO s; if(de) { f.emplace(a + 1); s.emplace(a + 1); } f = std::as_const(fs); s = std::as_const(ss); tp_opt("optional copy assignment", f, s); }
			{ FO t{std::as_const(fs)}; SO u{std::as_const(ss)}; FO f; SO s; if(de) { f.emplace(a + 1); s.emplace(a + 1); } f = std::move(t); s = std::move(u); tp_opt("optional move assignment", f, s); }
		}
	}
	Tp x(a);
	{ FO f{std::as_const(x)}; SO s{std::as_const(x)}; tp_opt("optional(const T&)", f, s); }
	{ Tp y(a), z(a); FO f{std::move(y)}; SO s{std::move(z)}; tp_opt("optional(T&&)", f, s); }
	{ FO f; SO s; f.emplace(std::as_const(x)); s.emplace(std::as_const(x)); tp_opt("optional::emplace(const T&)", f, s); f = std::as_const(x); s = std::as_const(x);
	  tp_opt("optional = const T& (frg: temporary optional + move assignment)", f, s, false); }
}

static void tp_variant(long a) {
	using FV = frg::variant<int, Tp, Tp2>; using SV = std::variant<std::monostate, int, Tp, Tp2>;
	auto cmp = [](const char *what, FV &f, SV &s) {
		long ft = f.tag_ == FV::invalid_tag ? -1 : (long)f.tag_, st = (long)s.index() - 1;
		if(ft != st) { vh::oracle("bytewise-copy", "%s: alternative %ld, std::variant %ld", what, ft, st); return; }
		if(ft == 1) tp_obj(what, f.get<Tp>(), std::get<Tp>(s).v, std::get<Tp>(s).copies, -1);
		if(ft == 2) tp_obj(what, f.get<Tp2>(), std::get<Tp2>(s).v, std::get<Tp2>(s).copies, -1);
	};
	auto set = [&](FV &f, SV &s, int alt, long x) {
		if(alt == 0) { f.emplace<int>((int)x); s.emplace<1>((int)x); } else if(alt == 1) { f.emplace<Tp>(x); s.emplace<2>(x); } else if(alt == 2) { f.emplace<Tp2>(x); s.emplace<3>(x); }
	};
	for(int sa = -1; sa < 3; sa++) {
		FV fs; SV ss; set(fs, ss, sa, a);
		{ FV f{std::as_const(fs)}; SV s{std::as_const(ss)}; cmp("variant(const variant&)", f, s); FV f2{std::as_const(f)}; SV s2{std::as_const(s)}; cmp("variant(const variant&) of a copy", f2, s2); }
		{ FV t{std::as_const(fs)}; SV u{std::as_const(ss)}; FV f{std::move(t)}; SV s{std::move(u)}; cmp("variant(variant&&)", f, s); }
		for(int da = -1; da < 3; da++) {
			{ FV f; SV s; set(f, s, da, a + 1); f = std::as_const(fs); s = std::as_const(ss); cmp("variant copy assignment", f, s); }
			{ FV t{std::as_const(fs)}; SV u{std::as_const(ss)}; FV f; SV s; set(f, s, da, a + 1); f = std::move(t); s = std::move(u); cmp("variant move assignment", f, s); }
		}
	}
	Tp x(a);
	{ FV f{std::as_const(x)}; SV s{std::as_const(x)}; cmp("variant(X) from an lvalue", f, s); f = std::as_const(x); s = std::as_const(x); cmp("variant = X (same alternative)", f, s); }
	{ FV f{5}; SV s{std::in_place_index<1>, 5}; f = std::as_const(x); s = std::as_const(x); cmp("variant = X (other alternative)", f, s); }
}

enum class PErr : int { none = 0 };
static void tp_expected(long a) {
	using FE = frg::expected<PErr, Tp>;
	auto chk = [](const char *what, FE &e, bool ok, long v, int copies) {
		if(bool(e) != ok) { vh::oracle("bytewise-copy", "%s: has value=%d, reference %d", what, (int)bool(e), (int)ok); return; }
		if(ok) tp_obj(what, e.value(), v, copies, -1);
	};
	Tp x(a);
	FE val{std::as_const(x)}; chk("expected(T) from an lvalue", val, true, a, 1);
	FE err{PErr(3)};
	{ FE c{std::as_const(val)}; chk("expected(const expected&)", c, true, a, 2); FE c2{std::as_const(c)}; chk("expected(const expected&) of a copy", c2, true, a, 3);
	  FE m{std::move(c2)}; chk("expected(expected&&)", m, true, a, 3); }
	{ FE c{std::as_const(err)}; chk("expected(const expected&) from an error", c, false, 0, 0); }
	for(int dv = 0; dv < 2; dv++) {
#ifdef HOLDERS_EXPECTED_COPY_ASSIGN
		{ FE d = dv ? FE{Tp(a + 1)} : FE{PErr(2)}; d = std::as_const(val); chk("expected copy assignment", d, true, a, 2); d = std::as_const(err); chk("expected copy assignment from an error", d, false, 0, 0); }
#endif
		{ FE t{std::as_const(val)}; FE d = dv ? FE{Tp(a + 1)} : FE{PErr(2)}; d = std::move(t); chk("expected move assignment", d, true, a, 2); }
	}
}

static void tp_tuple_box(long a) {
	{ frg::tuple<Tp, Tp2> t{Tp(a), Tp2(a + 1)}; std::tuple<Tp, Tp2> s{Tp(a), Tp2(a + 1)};
	  tp_obj("tuple(T...) element 0", t.get<0>(), a, std::get<0>(s).copies, -1); tp_obj("tuple(T...) element 1", t.get<1>(), a + 1, std::get<1>(s).copies, -1);
	  frg::tuple<Tp, Tp2> c{std::as_const(t)}; std::tuple<Tp, Tp2> sc{std::as_const(s)};
	  tp_obj("tuple copy construction element 0", c.get<0>(), a, std::get<0>(sc).copies, -1); tp_obj("tuple copy construction element 1", c.get<1>(), a + 1, std::get<1>(sc).copies, -1);
	  frg::tuple<Tp, Tp2> m{std::move(c)}; std::tuple<Tp, Tp2> sm{std::move(sc)};
	  tp_obj("tuple move construction element 0", m.get<0>(), a, std::get<0>(sm).copies, -1); tp_obj("tuple move construction element 1", m.get<1>(), a + 1, std::get<1>(sm).copies, -1);
	  Tp x(a); auto mt = frg::make_tuple(x, 7); auto smt = std::make_tuple(x, 7);
	  tp_obj("make_tuple(lvalue) element 0", mt.get<0>(), a, std::get<0>(smt).copies, -1);
	  auto cat = frg::tuple_cat(std::move(m), frg::make_tuple(Tp(a + 2))); auto scat = std::tuple_cat(std::move(sm), std::make_tuple(Tp(a + 2)));
	  tp_obj("tuple_cat(rvalues) element 0", cat.get<0>(), a, std::get<0>(scat).copies, -1); tp_obj("tuple_cat(rvalues) element 2", cat.get<2>(), a + 2, std::get<2>(scat).copies, -1); }
	{ Tp x(a); std::optional<Tp> s; frg::manual_box<Tp> b;
	  b.initialize(std::as_const(x)); s.emplace(std::as_const(x)); tp_obj("manual_box::initialize(const T&)", *b, s->v, s->copies, s->moves); b.destruct();
	  Tp y(a), z(a); b.initialize(std::move(y)); s.emplace(std::move(z)); tp_obj("manual_box::initialize(T&&)", *b, s->v, s->copies, s->moves); b.destruct();
	  b.construct_with([&] { return Tp(a); }); tp_obj("manual_box::construct_with", *b, a, 0, 0); b.destruct(); }
}

static void tp_case(const vh::Lines &ls) {
	for(size_t n = 1; n < ls.size(); n++) {
		auto t = vh::split(ls[n]);
		if(t.empty()) continue;
		if(t[0] != "run" || t.size() != 2) { printf("badop\n"); continue; }
		long a = atol(t[1].c_str());
		tp_optional(a); tp_variant(a); tp_expected(a); tp_tuple_box(a);
		printf("tp ok\n");
	}
}
