(* driver for the extracted holder models: same scripts as comp/holders/harness.cpp.
   First line of a case: "type <opt|exp|var|box|uptr|umem|tup> <F|M|C>"; then one op per line.
   Per op: "<result> | <state of every variable> | <events>"; at the end "fin | <events>". *)
let nvars = 3
let nalt = nat_of_int 3
let esize_re = n_of_string "32"   (* sizeof(Re) *)
let esize = n_of_string "16"      (* sizeof(El<...>) = sizeof(vh::TV), printed by the harness in its A events *)

let ni s = nat_of_int (int_of_string s)
let show_obj (b, s) = Printf.sprintf "%d.%d" (int_of_nat b) (int_of_nat s)
let show_ev = function
  | EAlloc (b, n) -> Printf.sprintf "A%d:%s" (int_of_nat b) (string_of_n n)
  | EDealloc (b, n) -> Printf.sprintf "X%d:%s" (int_of_nat b) (string_of_n n)
  | EFree b -> Printf.sprintf "F%d" (int_of_nat b)
  | EConstruct o -> "C" ^ show_obj o
  | EDestroy o -> "D" ^ show_obj o
  | EUse o -> "U" ^ show_obj o
let show_evs l = String.concat " " (List.map show_ev l)
let show_out = function
  | RUnit -> "u" | RSkip -> "skip" | RAssert -> "assert" | RUB -> "ub"
  | RBool b -> if b then "b 1" else "b 0"
  | RVal v -> "v " ^ string_of_n v
  | RNone -> "none"
  | RErr e -> "err " ^ string_of_n e
  | RThrow -> "throw"
let show_elem e = string_of_n e.val0 ^ (if e.moved then "m" else "")
let show_cell f = function Dead -> "-" | Live h -> f h
let show_vars f vs = String.concat " " (List.map (show_cell f) vs)
let optn s = if s = "none" then None else Some (n_of_string s)

let kind_of = function "M" -> KMoveOnly | "C" -> KCopyOnly | _ -> KFull

(* generic loop: parse, step, print; stop after assert/ub *)
let drive (type s) (type o) (parse : string list -> o option) (step : s -> o -> (s * out) * ev list)
    (show : s -> string) (fin : s -> ev list) (s0 : s) (ops : string list) =
  let s = ref s0 and stopped = ref false in
  List.iter (fun l ->
    if not !stopped then
      match parse (words l) with
      | None -> print_string "badop\n"
      | Some o ->
        let ((s1, x), e) = step !s o in
        s := s1;
        if stops x then begin stopped := true; print_string (show_out x ^ "\n") end
        else Printf.printf "%s | %s | %s\n" (show_out x) (show s1) (show_evs e)) ops;
  if not !stopped then Printf.printf "fin | %s\n" (show_evs (fin !s))

let parse_opt = function
  | ["new"; i] -> Some (ONew (ni i)) | ["newnull"; i] -> Some (ONewNull (ni i))
  | ["newcval"; i; v] -> Some (ONewCVal (ni i, n_of_string v))
  | ["newval"; i; v] -> Some (ONewVal (ni i, n_of_string v))
  | ["newconv"; i; v] -> Some (ONewConv (ni i, n_of_string v))
  | ["newcopy"; i; j] -> Some (ONewCopy (ni i, ni j)) | ["newmove"; i; j] -> Some (ONewMove (ni i, ni j))
  | ["del"; i] -> Some (ODel (ni i))
  | ["assign"; i; j] -> Some (OAssign (ni i, ni j)) | ["massign"; i; j] -> Some (OMAssign (ni i, ni j))
  | ["cassign"; i; s] -> Some (OCAssign (ni i, optn s)) | ["cmassign"; i; s] -> Some (OCMAssign (ni i, optn s))
  | ["assignval"; i; v] -> Some (OAssignVal (ni i, n_of_string v))
  | ["reset"; i] -> Some (OReset (ni i)) | ["emplace"; i; v] -> Some (OEmplace (ni i, n_of_string v))
  | ["get"; i] -> Some (OGet (ni i)) | ["cget"; i] -> Some (OCGet (ni i)) | ["arrow"; i] -> Some (OArrow (ni i))
  | ["value"; i] -> Some (OValue (ni i)) | ["has"; i] -> Some (OHas (ni i)) | ["bool"; i] -> Some (OBoolOp (ni i))
  | _ -> None
let show_opt d = if d.eng then "s" ^ show_elem d.ov else "n"

let parse_exp = function
  | ["new"; i] -> Some (XNew (ni i)) | ["newsucc"; i] -> Some (XNewSucc (ni i))
  | ["newerr"; i; e] -> Some (XNewErr (ni i, n_of_string e))
  | ["newval"; i; v] -> Some (XNewVal (ni i, n_of_string v))
  | ["newcopy"; i; j] -> Some (XNewCopy (ni i, ni j)) | ["newmove"; i; j] -> Some (XNewMove (ni i, ni j))
  | ["del"; i] -> Some (XDel (ni i))
  | ["assign"; i; j] -> Some (XAssign (ni i, ni j)) | ["massign"; i; j] -> Some (XMAssign (ni i, ni j))
  | ["bool"; i] -> Some (XBool (ni i)) | ["maybe_error"; i] -> Some (XMaybeError (ni i))
  | ["error"; i] -> Some (XError (ni i)) | ["value"; i] -> Some (XValue (ni i)) | ["cvalue"; i] -> Some (XCValue (ni i))
  | ["unwrap"; i] -> Some (XUnwrap (ni i)) | ["map"; i] -> Some (XMap (ni i)) | ["map_error"; i] -> Some (XMapError (ni i))
  | _ -> None
let show_exp d = if is_err d.err then "e" ^ string_of_n d.err else "v" ^ show_elem d.xv

let parse_var = function
  | ["new"; i] -> Some (VNew (ni i))
  | ["newval"; i; a; v] -> Some (VNewVal (ni i, ni a, n_of_string v))
  | ["newcopy"; i; j] -> Some (VNewCopy (ni i, ni j)) | ["newmove"; i; j] -> Some (VNewMove (ni i, ni j))
  | ["del"; i] -> Some (VDel (ni i))
  | ["assign"; i; j] -> Some (VAssign (ni i, ni j)) | ["massign"; i; j] -> Some (VMAssign (ni i, ni j))
  | ["assignval"; i; a; v] -> Some (VAssignVal (ni i, ni a, n_of_string v))
  | ["emplace"; i; a; v] -> Some (VEmplace (ni i, ni a, n_of_string v))
  | ["get"; i; a] -> Some (VGet (ni i, ni a)) | ["cget"; i; a] -> Some (VCGet (ni i, ni a))
  | ["is"; i; a] -> Some (VIs (ni i, ni a)) | ["tag"; i] -> Some (VTag (ni i)) | ["bool"; i] -> Some (VBoolOp (ni i))
  | ["apply"; i] -> Some (VApply (ni i))
  | _ -> None
let show_var d = match d.tag with None -> "n" | Some a -> Printf.sprintf "a%d:%s" (int_of_nat a) (show_elem d.vv)

let parse_box = function
  | ["new"; i] -> Some (BNew (ni i)) | ["init"; i; v] -> Some (BInit (ni i, n_of_string v))
  | ["construct_with"; i; v] -> Some (BConstructWith (ni i, n_of_string v))
  | ["destruct"; i] -> Some (BDestruct (ni i))
  | ["get"; i] -> Some (BGet (ni i)) | ["arrow"; i] -> Some (BArrow (ni i)) | ["deref"; i] -> Some (BDeref (ni i))
  | ["valid"; i] -> Some (BValid (ni i)) | ["bool"; i] -> Some (BBoolOp (ni i)) | ["del"; i] -> Some (BDel (ni i))
  | _ -> None
let show_box d = if d.init then "s" ^ show_elem d.bv else "n"

let parse_uptr = function
  | ["new"; i] -> Some (PNew (ni i)) | ["make"; i; v] -> Some (PMake (ni i, n_of_string v))
  | ["newmove"; i; j] -> Some (PNewMove (ni i, ni j)) | ["massign"; i; j] -> Some (PMAssign (ni i, ni j))
  | ["reset"; i] -> Some (PReset (ni i)) | ["resetnew"; i; v] -> Some (PResetNew (ni i, n_of_string v))
  | ["release"; i] -> Some (PRelease (ni i))
  | ["get"; i] -> Some (PGet (ni i)) | ["bool"; i] -> Some (PBoolOp (ni i)) | ["deref"; i] -> Some (PDeref (ni i))
  | ["del"; i] -> Some (PDel (ni i))
  | _ -> None
let show_ps s = show_vars (fun a -> match ptr a with None -> "n"
  | Some b -> Printf.sprintf "b%d:%s" (int_of_nat b) (string_of_n (heap_get s.heap b))) s.pvars

let parse_umem = function
  | ["new"; i] -> Some (MNew (ni i)) | ["alloc"; i; n] -> Some (MAlloc (ni i, n_of_string n))
  | ["newmove"; i; j] -> Some (MNewMove (ni i, ni j)) | ["assign"; i; j] -> Some (MAssign (ni i, ni j))
  | ["bool"; i] -> Some (MBoolOp (ni i)) | ["size"; i] -> Some (MSize (ni i)) | ["data"; i] -> Some (MData (ni i))
  | ["del"; i] -> Some (MDel (ni i))
  | _ -> None
let show_ms s = show_vars (fun a -> match mp a with None -> "n"
  | Some (b, n) -> Printf.sprintf "b%d:%s" (int_of_nat b) (string_of_n n)) s.mvars

(* tuple ops: "make v..", "apply v..", "cat <l|r><l|r> v.. / w..", "copy v..", "move v.." *)
let show_tup t = "[" ^ String.concat " " (List.map show_elem t) ^ "]"
let split_slash ws =
  let rec go acc = function [] -> (List.rev acc, []) | "/" :: r -> (List.rev acc, r) | x :: r -> go (x :: acc) r in go [] ws
let tuple_line k l =
  let nums = List.map n_of_string in
  let o = match words l with
    | "make" :: vs -> Some (TMake (nums vs)) | "apply" :: vs -> Some (TApply (nums vs))
    | "copy" :: vs -> Some (TCopy (nums vs)) | "move" :: vs -> Some (TMove (nums vs))
    | "cat" :: m :: r -> let (a, b) = split_slash r in Some (TCat (m.[0] = 'l', m.[1] = 'l', nums a, nums b))
    | _ -> None in
  match o with
  | None -> if words l = ["static"] then print_string "static ok\n" else print_string "badop\n"
  | Some o -> (match tstep k o with
    | TNum n -> Printf.printf "v %s\n" (string_of_n n)
    | TVals (r, srcs, e) -> Printf.printf "t %s | %s | %s\n" (show_tup r) (String.concat " " (List.map show_tup srcs)) (show_evs e))

let body lines =
  match lines with
  | [] -> ()
  | hd :: ops ->
    let (ty, k) = match words hd with ["type"; t; k] -> (t, kind_of k) | _ -> ("?", KFull) in
    let n = nat_of_int nvars in
    match ty with
    | "opt" -> drive parse_opt (ostep k) (show_vars show_opt) ofinish (ovars0 n) ops
    | "exp" -> drive parse_exp (xstep k) (show_vars show_exp) xfinish (xvars0 n) ops
    | "var" -> drive parse_var (vstep nalt k) (show_vars show_var) vfinish (vvars0 n) ops
    | "box" -> drive parse_box bstep (show_vars show_box) bfinish (bvars0 n) ops
    | "uptr" -> drive parse_uptr (pstep esize) show_ps pfinish (pstate0 n) ops
    (* pointees whose destructor resets their owner: only reset(p) differs (the nested reset sees the new pointer) *)
    | "uptrre" -> drive (fun w -> match parse_uptr w with Some (PResetNew (i, v)) -> Some (PResetNewRe (i, v)) | x -> x)
                    (pstep esize_re) show_ps pfinish (pstate0 n) ops
    | "umem" -> drive parse_umem mstep show_ms mfinish (mstate0 n) ops
    | "tup" -> List.iter (tuple_line k) ops
    (* initializer_list element category: outside the model (its element is a number); the harness oracle carries it *)
    (* fault-injection sweep over every element construction point: oracle-only *)
    | "thr" -> List.iter (fun l -> match words l with
        | ["sweep"; _; _] -> print_string "thr ok 1\n" | _ -> print_string "badop\n") ops
    (* trivially destructible element with observable copy/move constructors: oracle-only *)
    | "tp" -> List.iter (fun l -> match words l with ["run"; _] -> print_string "tp ok\n" | _ -> print_string "badop\n") ops
    (* variants mixing trivially destructible and class-type alternatives: oracle-only *)
    | "mix" -> List.iter (fun l -> match words l with ["run"; _] -> print_string "mix ok\n" | _ -> print_string "badop\n") ops
    (* expected over several error types: oracle-only *)
    | "err" -> List.iter (fun l -> match words l with ["run"; _] -> print_string "err ok\n" | _ -> print_string "badop\n") ops
    (* constant initialisation of manual_box / value-initialising constructors in a pre-filled arena: oracle-only *)
    | "init" -> List.iter (fun l -> match words l with ["run"] -> print_string "init ok\n" | _ -> print_string "badop\n") ops
    (* construct / destruct / construct_n / destruct_n of allocation.hpp: oracle-only *)
    | "alloc" -> List.iter (fun l -> match words l with ["arr"; _; _] | ["one"; _] | ["null"] -> print_string "alloc ok\n" | _ -> print_string "badop\n") ops
    | "il" -> List.iter (fun l -> match words l with
        | ["fwd"; _; _] | ["one"; _] -> print_string "il ok\n" | _ -> print_string "badop\n") ops
    | _ -> print_string "badtype\n"

let () = run_cases body
