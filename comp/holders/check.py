"""holders component (frg::optional, expected, variant, manual_box, tuple, unique_ptr, unique_memory):
builds model driver + harness + the build probes, generates cases, runs legs C and O into the given Check.
Used by checks/c17.py (functional kinds) and checks/c16_holders.py / the coordinator's c16.py (lifetime kinds)."""
import os
import vlib
from comp.holders import gen

HERE = os.path.join(vlib.ROOT, "comp", "holders")

RULE = ("per holder type (optional, expected, variant<3 alternatives>, manual_box, unique_ptr, unique_memory) and element "
        "category (copy+move, move-only, copy-only): corpus; the full product (state of variable 0 x state of variable 1) x "
        "every op sequence of length <= 2 (quick) / <= 3 (thorough, core alphabet at length 3) over both variables incl. "
        "self-assignment; seeded longer scripts over three variables; tuple: static_asserts + run-time checks + seeded "
        "get/apply/tuple_cat/copy/move scripts. non-trivial = distinct script containing at least one assignment / emplace / "
        "reset / destruct / release / tuple_cat applied after the set-up")
TRUSTED = ["extraction: ExtrOcamlBasic only; OCaml 4.13.1; comp/holders/driver.ml",
           "correspondence harness comp/holders/harness.cpp + tuple_part.hpp (g++ -fsanitize=address,undefined, -fno-access-control); "
           "event naming of temporaries (smallest free index) and g++'s parameter-destruction order are part of the harness",
           "oracle: std::optional, std::variant<std::monostate,...>, hand-written reference expected (std::expected is C++23), "
           "std::tuple_cat/std::apply, lifetime/allocation registries in lib/vharness.hpp",
           "build probes comp/holders/probe_*.cpp (g++ -fsyntax-only): a diagnostic is reported as the violation",
           "tuple.hpp template metaprogramming: carried by correspondence only (static_asserts + run-time checks), not modelled"]
ASSUMPTIONS = ["element copy/move/assignment behave as value transfer; a moved-from element keeps its number (vh::TV)",
               "expected's error type: 0 (E{}) means success; map_error's function never returns E{}",
               "manual_box: the user destructs an initialized box before its storage goes away (documented contract)",
               "unique_ptr: operator* / -> on a null pointer is outside the API (no assertion in the source; modelled as UB, not executed)",
               "allocator never returns null"]

MUTATING = {"sweep", "fwd", "run", "arr", "assign", "massign", "cassign", "cmassign", "assignval", "emplace", "reset", "destruct", "release", "resetnew", "cat",
            "init", "construct_with", "unwrap", "map", "map_error"}

def nontrivial(cid, lines, ri):
    if any(l.split()[0] in MUTATING for l in lines[1:]):
        return "|".join(lines)
    return None

def probe(name, extra=()):
    """compile one probe TU against $REPO/include; returns (ok, first diagnostics)"""
    src = os.path.join(HERE, name + ".cpp")
    rc, o, e = vlib.sh(["g++", "-std=c++20", "-fsized-deallocation", "-I", os.path.join(vlib.REPO, "include"),
                        "-fsyntax-only", "-Werror=return-type"] + list(extra) + [src], timeout=300)
    diag = [l for l in e.split("\n") if "error" in l]
    return rc == 0, " ;; ".join(d.strip()[:300] for d in diag[:3]), e

def run(c):
    """legs C and O for the holders; returns False if the harness could not be built."""
    okm, mlog = vlib.coq_make(["Holders/HoldersExtract.vo"], jobs=4)
    okd, drv, dlog = vlib.ocaml_build("holders_m", ["holders_model"], os.path.join(HERE, "driver.ml"))
    # --- build probes (each is its own translation unit)
    ok19, d19, full19 = probe("probe_d19")
    if not ok19:
        c.oracle("build-expected-copy-assign", "expected<E,T>::operator=(const expected&) cannot be instantiated: " + d19,
                 "probe-d19", ["# g++ -std=c++20 -I$REPO/include -fsyntax-only -Werror=return-type comp/holders/probe_d19.cpp"]
                 + ["# " + l for l in full19.split("\n")[:40]])
    okca, dca, fullca = probe("probe_const_apply")
    if not okca:
        c.oracle("build-variant-const-apply", "variant::const_apply cannot be instantiated: " + dca, "probe-const-apply",
                 ["# g++ -std=c++20 -I$REPO/include -fsyntax-only comp/holders/probe_const_apply.cpp"] + ["# " + l for l in fullca.split("\n")[:30]])
    oktr, dtr, fulltr = probe("probe_tuple_cat_ref")
    if not oktr:
        c.oracle("build-tuple-cat-ref", "tuple_cat over a tuple with a reference element cannot be instantiated: " + dtr, "probe-tuple-cat-ref",
                 ["# g++ -std=c++20 -I$REPO/include -fsyntax-only comp/holders/probe_tuple_cat_ref.cpp"] + ["# " + l for l in fulltr.split("\n")[:30]])
    okci, dci, fullci = probe("probe_constinit")
    if not okci:
        c.oracle("build-manual-box-constinit", "manual_box's constexpr constructor is not a constant initialiser (a namespace-scope box is dynamically initialised): " + dci,
                 "probe-constinit", ["# g++ -std=c++20 -I$REPO/include -fsyntax-only comp/holders/probe_constinit.cpp"] + ["# " + l for l in fullci.split("\n")[:30]])
    c.count("holders_probe_constinit_ok", int(okci))
    c.count("holders_probe_d19_ok", int(ok19)); c.count("holders_probe_const_apply_ok", int(okca)); c.count("holders_probe_tuple_cat_ref_ok", int(oktr))
    okh, har, hlog = vlib.cxx_build("holders_h", os.path.join(HERE, "harness.cpp"),
                                    extra=["-DHOLDERS_EXPECTED_COPY_ASSIGN"] if ok19 else [])
    if not (okm and okd):
        c.broken.append("holders model extraction/driver build failed: " + (dlog or mlog)[-800:])
    if not okh:
        c.broken.append("holders harness does not compile against /repo: " + hlog[-1500:])
        return False
    thorough = c.tier == "thorough"
    nassert = [0]

    def batch(cases):
        """run one batch through both executables and compare (bounded memory)"""
        if not cases:
            return
        for cid, ls in cases:
            h = ls[0].split()
            key = "holders_%s_%s" % (h[1], h[2]) if len(h) == 3 else "holders_other"
            c.count(key + "_cases"); c.count("holders_ops", len(ls) - 1)
            c.count("holders_exhaustive_cases" if cid.startswith("ex-") else "holders_corpus_cases" if cid.startswith("corpus") else "holders_sampled_cases")
        impl = vlib.run_cases(har, cases, shards=6)
        model = vlib.run_cases(drv, cases, shards=4) if okd else {}
        nassert[0] += sum(1 for r in impl.values() if r["lines"] and r["lines"][-1] in ("assert", "ub"))
        c.compare(cases, impl, model, nontrivial)

    if c.replay:
        batch([cs for cs in vlib.read_replay(c.replay) if cs[1]])
    else:
        first = gen.corpus(ok19) + gen.tuple_exhaustive() + gen.il_cases(c.rng, 20 if not thorough else 200) + gen.thr_cases(c.rng, 3 if not thorough else 30) + gen.tp_cases(c.rng, 3 if not thorough else 30) + gen.mix_cases(c.rng, 3 if not thorough else 30) + gen.err_cases(c.rng, 3 if not thorough else 30) + gen.alloc_cases(c.rng, 5 if not thorough else 50)
        n = 1500 if not thorough else 15000
        types = [t for t in gen.KINDS for _ in range(1 if t in ("tup", "umem", "box") else 3)]
        for i in range(n):
            ty = c.rng.choice(types)
            k = c.rng.choice(gen.KINDS[ty])
            first.append(("g%d-%s-%s" % (i, ty, k), gen.gen_case(c.rng, ty, k, c.rng.choice([6, 12, 25, 60]), ok19)))
        batch(first)
        for ty, kinds in gen.KINDS.items():
            if ty == "tup":
                continue
            for k in kinds:
                cases = gen.exhaustive(ty, k, 2, core=False, exp_copy_assign=ok19)
                if thorough:
                    # length 3: full alphabet for the copy+move element type (core alphabet for variant, whose
                    # product is 25 set-ups x 41^3), core alphabet for the move-only / copy-only element types
                    full3 = (k == "F" and ty != "var")
                    ex3 = gen.exhaustive(ty, k, 3, core=not full3, exp_copy_assign=ok19)
                    cases += [cs for cs in ex3 if cs[0].split("-")[-2] == "3"]
                    del ex3
                batch(cases)
                del cases
    c.count("holders_cases_ending_in_assert", nassert[0])
    return True
