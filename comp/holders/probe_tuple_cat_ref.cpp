// probe: frg::tuple_cat over a tuple with a reference element (part of D17: do_concat std::move's every
// element, so an int& element arrives as int&& and cannot bind; std::tuple_cat keeps the reference)
#include <frg/tuple.hpp>
bool probe_tuple_cat_ref(int &x) {
	frg::tuple<int &> a{x}; frg::tuple<long> b{2};
	auto r = frg::tuple_cat(a, b);
	return &r.get<0>() == &x;
}
