// frg::construct / destruct / construct_n / destruct_n (allocation.hpp:13-41), C16: every block obtained from the
// allocator is given back exactly once with its size -- also the zero-length block of construct_n(alloc, 0, ...): the
// tracking allocator hands out distinct real blocks for size 0 -- and every element is destroyed exactly once.
// Oracle: the lifetime/allocation registries of lib/vharness.hpp, checked after every op (leak-block, leak-object,
// dealloc-size, bad-free, destroy-dead).  Oracle-only (no Gallina model of these four helpers; the slot-level event
// log of the sequence containers covers their pattern).  Included by harness.cpp.
#pragma once

static void alloc_settled(const char *what) {
	if(!vh::g_alloc.blocks.empty()) {
		size_t tot = 0; for(auto &b : vh::g_alloc.blocks) tot += b.second;
		vh::oracle("leak-block", "%s: %zu block(s) (%zu bytes) still allocated", what, vh::g_alloc.blocks.size(), tot);
		vh::g_alloc.reset();
	}
	if(!vh::g_life.live.empty()) { vh::oracle("leak-object", "%s: %zu object(s) never destroyed", what, vh::g_life.live.size()); vh::g_life.live.clear(); }
}

static void alloc_case(const vh::Lines &ls) {
	using E = El<KF, 0>;
	vh::TrackAlloc al;
	for(size_t i = 1; i < ls.size(); i++) {
		auto t = vh::split(ls[i]);
		if(t.empty()) continue;
		g_ev.clear();
		if(t[0] == "arr" && t.size() == 3) {           // construct_n(n, v) ... destruct_n(n)
			size_t n = (size_t)vh::u64(t[1]); uint64_t v = vh::u64(t[2]);
			long c0 = vh::g_life.ctors, d0 = vh::g_life.dtors, a0 = vh::g_alloc.allocs, f0 = vh::g_alloc.frees;
			E *p = frg::construct_n<E>(al, n, v);
			if(!p) vh::oracle("lifetime", "construct_n(%zu) returned null", n);
			auto it = vh::g_alloc.blocks.find(p);
			if(it == vh::g_alloc.blocks.end() || it->second != sizeof(E) * n) vh::oracle("lifetime", "construct_n(%zu) did not allocate sizeof(T)*n bytes", n);
			if(vh::g_life.ctors - c0 != (long)n) vh::oracle("lifetime", "construct_n(%zu) constructed %ld objects", n, vh::g_life.ctors - c0);
			for(size_t k = 0; k < n; k++) if(p[k].rd() != v) vh::oracle("lifetime", "construct_n: element %zu has a wrong value", k);
			frg::destruct_n(al, p, n);
			if(vh::g_life.dtors - d0 != (long)n) vh::oracle("lifetime", "destruct_n(%zu) destroyed %ld objects", n, vh::g_life.dtors - d0);
			if(vh::g_alloc.allocs - a0 != 1 || vh::g_alloc.frees - f0 != 1)
				vh::oracle("leak-block", "construct_n(%zu)/destruct_n(%zu): %ld block(s) obtained, %ld given back", n, n, vh::g_alloc.allocs - a0, vh::g_alloc.frees - f0);
			alloc_settled("after construct_n/destruct_n");
		} else if(t[0] == "one" && t.size() == 2) {    // construct(v) ... destruct
			uint64_t v = vh::u64(t[1]);
			long a0 = vh::g_alloc.allocs, f0 = vh::g_alloc.frees;
			E *p = frg::construct<E>(al, v);
			auto it = vh::g_alloc.blocks.find(p);
			if(it == vh::g_alloc.blocks.end() || it->second != sizeof(E)) vh::oracle("lifetime", "construct did not allocate sizeof(T) bytes");
			if(p->rd() != v) vh::oracle("lifetime", "construct: wrong value");
			frg::destruct(al, p);
			if(vh::g_alloc.allocs - a0 != 1 || vh::g_alloc.frees - f0 != 1) vh::oracle("leak-block", "construct/destruct: %ld block(s) obtained, %ld given back", vh::g_alloc.allocs - a0, vh::g_alloc.frees - f0);
			alloc_settled("after construct/destruct");
		} else if(t[0] == "null") {                     // destruct / destruct_n of a null pointer: no effect
			long f0 = vh::g_alloc.frees;
			frg::destruct<E>(al, nullptr); frg::destruct_n<E>(al, nullptr, 3); frg::destruct_n<E>(al, nullptr, 0);
			if(vh::g_alloc.frees != f0) vh::oracle("bad-free", "destruct(nullptr) gave a block back");
			alloc_settled("after destruct(nullptr)");
		} else { printf("badop\n"); continue; }
		printf("alloc ok\n");
	}
	vh::g_life.check_empty("construct/destruct helpers");
	vh::g_alloc.check_empty("construct/destruct helpers");
}
