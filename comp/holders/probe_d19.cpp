// D19 probe (separate translation unit so that the main harness still builds when this does not):
// instantiates frg::expected<E, T>::operator=(const expected &).  Compiled with
// -fsyntax-only -Werror=return-type; a diagnostic here IS the C17 violation (the operation cannot be used).
#include <frg/expected.hpp>
enum class ProbeErr : int { none = 0, bad = 1 };
struct ProbeVal { long v; ProbeVal() : v(0) {} ProbeVal(long x) : v(x) {} ProbeVal(const ProbeVal &) = default; ~ProbeVal() {} };
frg::expected<ProbeErr, ProbeVal> &probe_copy_assign(frg::expected<ProbeErr, ProbeVal> &a, const frg::expected<ProbeErr, ProbeVal> &b) {
	return a = b;
}
