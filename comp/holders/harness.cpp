// Harness for the value holders (C17) and their lifetimes (C16): frg::optional, expected, variant,
// manual_box, unique_ptr, unique_memory, tuple.  Runs op scripts on the real code, prints
// "<result> | <state of every holder variable> | <lifetime/allocation events>" per op (compared with
// the extracted Gallina model) and evaluates the property with oracles that do not use the model:
// std::optional / std::variant / a hand-written reference expected mirroring the script, and the
// lifetime/allocation registries of lib/vharness.hpp.
#include <optional>
#include <variant>
#include <tuple>
#include <utility>
#include <exception>
#include <type_traits>
#include "vharness.hpp"
#include <frg/optional.hpp>
#include <frg/expected.hpp>
#include <frg/variant.hpp>
#include <frg/manual_box.hpp>
#include <frg/tuple.hpp>
#include <frg/unique.hpp>
#include <frg/allocation.hpp>

typedef unsigned long long ull;
enum Kind { KF, KM, KC };   // element category: copy+move, move-only, copy-only
static const int NV = 3;    // holder variables per case

// ------------------------------------------------------------------------------------------------
// event log with canonical object names (block.slot as in coq/Common/EventLog.v):
// holder variable i = 0.(2i+1), harness argument = 0.0, temporary number d = 0.(2d+2),
// object in heap block b = b.0
// ------------------------------------------------------------------------------------------------
struct Region { const char *base; size_t size; int block, slot; };
static std::vector<Region> g_regions;
static std::map<const void *, int> g_temps;      // live temporaries -> index
static std::map<const void *, int> g_blockid;    // live heap blocks -> id
static int g_next_block = 1;
static std::string g_ev;
static bool g_log_on = true, g_log_temps = true;

static void ev_reset_all() { g_regions.clear(); g_temps.clear(); g_blockid.clear(); g_next_block = 1; g_ev.clear(); g_log_on = true; g_log_temps = true; }
static void ev_add(const std::string &s) { if(!g_ev.empty()) g_ev += ' '; g_ev += s; }
// returns false when the object is a temporary and temporaries are not logged
static bool name_of(const void *p, char what, std::string &out) {
	const char *c = (const char *)p;
	char buf[64];
	for(auto &r : g_regions)
		if(c >= r.base && c < r.base + r.size) { snprintf(buf, sizeof buf, "%d.%d", r.block, r.slot); out = buf; return true; }
	auto it = vh::g_alloc.blocks.upper_bound((void *)p);
	if(it != vh::g_alloc.blocks.begin()) {
		--it;
		if(c >= (const char *)it->first && c < (const char *)it->first + (it->second ? it->second : 1)) {
			auto b = g_blockid.find(it->first);
			snprintf(buf, sizeof buf, "%d.%d", b == g_blockid.end() ? -1 : b->second, 0); out = buf; return true;
		}
	}
	if(!g_log_temps) return false;
	int idx;
	auto t = g_temps.find(p);
	if(what == 'C') {
		std::set<int> used; for(auto &kv : g_temps) used.insert(kv.second);
		idx = 0; while(used.count(idx)) idx++;
		g_temps[p] = idx;
	} else if(t != g_temps.end()) {
		idx = t->second;
		if(what == 'D') g_temps.erase(t);
	} else idx = 999;   // use/destroy of a temporary that was never constructed
	snprintf(buf, sizeof buf, "0.%d", 2 * (idx + 1)); out = buf; return true;
}
static void ev_obj(char what, const void *p) {
	if(!g_log_on) return;
	std::string n;
	if(name_of(p, what, n)) ev_add(std::string(1, what) + n);
}

// allocator: vh::TrackAlloc plus block numbering and A/F/X events
struct LogAlloc {
	vh::TrackAlloc a;
	void *allocate(size_t n) {
		void *p = a.allocate(n);
		int id = g_next_block++; g_blockid[p] = id;
		char buf[64]; snprintf(buf, sizeof buf, "A%d:%zu", id, n); ev_add(buf);
		return p;
	}
	void free(void *p) {
		if(p) { auto it = g_blockid.find(p); char buf[64]; snprintf(buf, sizeof buf, "F%d", it == g_blockid.end() ? -1 : it->second); ev_add(buf); if(it != g_blockid.end()) g_blockid.erase(it); }
		a.free(p);
	}
	void deallocate(void *p, size_t n) {
		if(p) { auto it = g_blockid.find(p); char buf[64]; snprintf(buf, sizeof buf, "X%d:%zu", it == g_blockid.end() ? -1 : it->second, n); ev_add(buf); if(it != g_blockid.end()) g_blockid.erase(it); }
		a.deallocate(p, n);
	}
};
static LogAlloc g_logalloc;

// ------------------------------------------------------------------------------------------------
// element types: vh::TV (lifetime registry = oracle) + event log
// ------------------------------------------------------------------------------------------------
static const uint64_t THROW_MAGIC = 3735928559ull;   // = throw_magic in coq/Holders/HoldersCommon.v
struct ElThrow {};

struct Src : vh::TV {     // source type of optional's converting assignments
	Src(uint64_t x) : vh::TV(x) { ev_obj('C', this); }
	Src(const Src &o) : vh::TV(static_cast<const vh::TV &>(o)) { ev_obj('U', &o); ev_obj('C', this); }
	Src(Src &&o) : vh::TV(std::move(static_cast<vh::TV &>(o))) { ev_obj('U', &o); ev_obj('C', this); }
	~Src() { ev_obj('D', this); }
};

template<Kind K, int Tag>
struct El : vh::TV {
	static constexpr int tag = Tag;
	El() : vh::TV() { ev_obj('C', this); }
	// the converting constructor throws on the designated argument (model: throw_magic); the TV base is born and dies again
	El(uint64_t x) : vh::TV(x) { if(x == THROW_MAGIC) throw ElThrow{}; ev_obj('C', this); }
	El(const El &o) requires (K != KM) : vh::TV(static_cast<const vh::TV &>(o)) { ev_obj('U', &o); ev_obj('C', this); }
	El(El &&o) requires (K != KC) : vh::TV(std::move(static_cast<vh::TV &>(o))) { ev_obj('U', &o); ev_obj('C', this); }
	El &operator=(const El &o) requires (K != KM) { vh::TV::operator=(static_cast<const vh::TV &>(o)); ev_obj('U', this); ev_obj('U', &o); return *this; }
	El &operator=(El &&o) requires (K != KC) { vh::TV::operator=(std::move(static_cast<vh::TV &>(o))); ev_obj('U', this); ev_obj('U', &o); return *this; }
	El(const Src &s) : vh::TV(static_cast<const vh::TV &>(s)) { ev_obj('U', &s); ev_obj('C', this); }
	El(Src &&s) : vh::TV(std::move(static_cast<vh::TV &>(s))) { ev_obj('U', &s); ev_obj('C', this); }
	El &operator=(const Src &s) { vh::TV::operator=(static_cast<const vh::TV &>(s)); ev_obj('U', this); ev_obj('U', &s); return *this; }
	El &operator=(Src &&s) { vh::TV::operator=(std::move(static_cast<vh::TV &>(s))); ev_obj('U', this); ev_obj('U', &s); return *this; }
	// A destructor that runs while an AssertStop unwinds is an artifact of the throwing assertion hook (the real
	// hook never returns): e.g. expected(E{}) asserts inside its constructor and the unwinding runs ~destructor_crtp
	// on storage that holds nothing.  Such destructor calls are not reported by the registry.
	~El() { if(std::uncaught_exceptions() > 0 && !vh::g_life.live.count(static_cast<vh::TV *>(this))) vh::g_life.live.insert(static_cast<vh::TV *>(this)); ev_obj('D', this); }
	uint64_t rd() const { ev_obj('U', this); return vh::TV::get(); }
};
static std::string show_tv(const vh::TV &t) { char b[40]; snprintf(b, sizeof b, "%llu%s", (ull)t.v, t.moved ? "m" : ""); return b; }

// value types of the reference (std::) holders; their converting constructor throws on the same argument as El's
struct RV { uint64_t v; RV(uint64_t x) : v(x) { if(x == THROW_MAGIC) throw ElThrow{}; } };
template<int Tag> struct RVt { uint64_t v; RVt(uint64_t x) : v(x) { if(x == THROW_MAGIC) throw ElThrow{}; } };
// is an element object alive (lifetime registry) at this address?
static bool alive_at(const void *p) { return vh::g_life.live.count(p) != 0; }

// raw storage for NV holder variables of type H
template<typename H>
struct Vars {
	alignas(16) unsigned char store[NV][sizeof(H)];
	bool alive[NV] = {false, false, false};
	Vars() { for(int i = 0; i < NV; i++) g_regions.push_back({(const char *)store[i], sizeof(H), 0, 2 * i + 1}); }
	H *at(int i) { return std::launder(reinterpret_cast<H *>(store[i])); }
	void *raw(int i) { return store[i]; }
	bool live(int i) const { return i >= 0 && i < NV && alive[i]; }
	bool dead(int i) const { return i >= 0 && i < NV && !alive[i]; }
};
alignas(16) static unsigned char g_argbuf[128];
static void register_arg() { g_regions.push_back({(const char *)g_argbuf, sizeof g_argbuf, 0, 0}); }

static int ai(const std::string &s) { return atoi(s.c_str()); }

// common per-op protocol
struct OpOut { std::string res; bool asserted = false; };
#define SKIP() do { o.res = "skip"; return; } while(0)
#define UNSUP() do { o.res = "unsupported"; return; } while(0)

template<typename F>
static bool guarded(OpOut &o, F f) {
	try { f(); } catch(vh::AssertStop &a) { o.asserted = true; o.res = "assert"; return false; }
	return true;
}
static std::string vres(uint64_t v) { char b[40]; snprintf(b, sizeof b, "v %llu", (ull)v); return b; }
static std::string bres(bool b) { return b ? "b 1" : "b 0"; }

// ================================================================================================
// optional
// ================================================================================================
template<Kind K>
struct OptRun {
	using E = El<K, 0>;
	using H = frg::optional<E>;
	using R = std::optional<RV>;
	Vars<H> a;
	std::optional<R> ref[NV];

	std::string state() {
		std::string s;
		for(int i = 0; i < NV; i++) {
			if(i) s += ' ';
			if(!a.alive[i]) s += '-';
			else if(!a.at(i)->_non_null) s += 'n';
			else s += "s" + show_tv(*reinterpret_cast<vh::TV *>(a.at(i)->_stor.buffer));
		}
		return s;
	}
	void check() {
		for(int i = 0; i < NV; i++) {
			if(a.alive[i] != ref[i].has_value()) { vh::oracle("refstd", "optional var %d: liveness differs from the reference", i); continue; }
			if(!a.alive[i]) continue;
			H &h = *a.at(i); R &r = *ref[i];
			if(h.has_value() && !alive_at(h._stor.buffer)) vh::oracle("claims-dead", "optional var %d reports a value but no object is alive in its storage", i);
			if(h.has_value() != r.has_value() || bool(h) != bool(r))
				vh::oracle("refstd", "optional var %d: engaged=%d, std::optional engaged=%d", i, (int)h.has_value(), (int)r.has_value());
			else if(r.has_value() && reinterpret_cast<vh::TV *>(h._stor.buffer)->v != r->v)
				vh::oracle("refstd", "optional var %d holds %llu, std::optional holds %llu", i, (ull)reinterpret_cast<vh::TV *>(h._stor.buffer)->v, (ull)r->v);
		}
	}
	// accessor: reference says whether a value must come back
	void access(OpOut &o, int i, const char *which) {
		if(!a.live(i)) SKIP();
		H &h = *a.at(i);
		uint64_t got = 0; const void *addr = nullptr;
		bool ok = guarded(o, [&] {
			std::string w = which;
			if(w == "get") { E &e = *h; addr = &e; got = e.rd(); }
			else if(w == "cget") { const E &e = *std::as_const(h); addr = &e; got = e.rd(); }
			else if(w == "arrow") { addr = h.operator->(); got = h->rd(); }
			else { E &e = h.value(); addr = &e; const E &ce = std::as_const(h).value(); E &&re = std::move(h).value();
				if(&ce != &e || &re != &e) vh::oracle("refstd", "optional value() overloads return different objects"); got = e.rd(); }
		});
		R &r = *ref[i];
		if(ok) {
			o.res = vres(got);
			if(!r.has_value()) vh::oracle("refstd", "optional %s on a disengaged optional did not stop in the assertion hook", which);
			else if(got != r->v) vh::oracle("refstd", "optional %s returned %llu, reference %llu", which, (ull)got, (ull)r->v);
			if(addr != (void *)h._stor.buffer) vh::oracle("refstd", "optional %s does not return the held object", which);
		} else if(r.has_value())
			vh::oracle("refstd", "optional %s on an engaged optional stopped in the assertion hook", which);
	}
	void op(const std::vector<std::string> &t, OpOut &o) {
		const std::string &c = t[0];
		int i = t.size() > 1 ? ai(t[1]) : -1;
		o.res = "u";
		if(c == "new" || c == "newnull") {
			if(!a.dead(i)) SKIP();
			if(c == "new") new (a.raw(i)) H(); else new (a.raw(i)) H(frg::null_opt);
			a.alive[i] = true; ref[i].emplace();
		} else if(c == "newcval" || c == "newval") {
			if(!a.dead(i)) SKIP();
			uint64_t v = vh::u64(t[2]);
			E *arg = new (g_argbuf) E(v);
			if(c == "newcval") { if constexpr (K != KM) new (a.raw(i)) H(std::as_const(*arg)); else UNSUP(); }
			else new (a.raw(i)) H(std::move(*arg));
			arg->~E();
			a.alive[i] = true; ref[i].emplace(R(RV{v}));
		} else if(c == "newconv") {
			if(!a.dead(i)) SKIP();
			uint64_t v = vh::u64(t[2]);
			bool threw = false, rthrew = false;
			try { new (a.raw(i)) H(v); a.alive[i] = true; } catch(ElThrow &) { threw = true; }
			try { ref[i].emplace(std::in_place, v); } catch(ElThrow &) { rthrew = true; ref[i].reset(); }
			if(threw != rthrew) vh::oracle("refstd", "optional(U&&): throws=%d, std::optional throws=%d", (int)threw, (int)rthrew);
			if(threw) o.res = "throw";
		} else if(c == "newcopy" || c == "newmove") {
			int j = ai(t[2]);
			if(!a.dead(i) || !a.live(j)) SKIP();
			if(c == "newcopy") { if constexpr (K != KM) new (a.raw(i)) H(std::as_const(*a.at(j))); else UNSUP(); ref[i].emplace(std::as_const(*ref[j])); }
			else { new (a.raw(i)) H(std::move(*a.at(j))); R keep = *ref[j]; ref[i].emplace(std::move(*ref[j])); *ref[j] = keep; }
			a.alive[i] = true;
		} else if(c == "del") {
			if(!a.live(i)) SKIP();
			a.at(i)->~H(); a.alive[i] = false; ref[i].reset();
		} else if(c == "assign" || c == "massign") {
			int j = ai(t[2]);
			if(!a.live(i) || !a.live(j)) SKIP();
			if(c == "assign") { if constexpr (K != KM) { H &r = (*a.at(i) = std::as_const(*a.at(j))); if(&r != a.at(i)) vh::oracle("refstd", "operator= does not return *this"); } else UNSUP();
				*ref[i] = std::as_const(*ref[j]); }
			else { H &r = (*a.at(i) = std::move(*a.at(j))); if(&r != a.at(i)) vh::oracle("refstd", "operator= does not return *this");
				R keep = *ref[j]; *ref[i] = std::move(keep); }   // a moved-from RV keeps its number, as TV does
		} else if(c == "cassign" || c == "cmassign") {
			if(!a.live(i)) SKIP();
			bool some = t[2] != "none"; uint64_t v = some ? vh::u64(t[2]) : 0;
			auto *ao = new (g_argbuf) frg::optional<Src>();
			if(some) ao->emplace(v);
			if(c == "cassign") *a.at(i) = std::as_const(*ao); else *a.at(i) = std::move(*ao);
			ao->~optional();
			std::optional<RV> rs; if(some) rs = RV{v};
			*ref[i] = rs;
		} else if(c == "assignval") {
			if(!a.live(i)) SKIP();
			uint64_t v = vh::u64(t[2]);
			E *arg = new (g_argbuf) E(v);
			*a.at(i) = std::move(*arg);
			arg->~E();
			*ref[i] = RV{v};
		} else if(c == "reset") {
			if(!a.live(i)) SKIP();
			*a.at(i) = frg::null_opt;
			*ref[i] = std::nullopt;
		} else if(c == "emplace") {
			if(!a.live(i)) SKIP();
			uint64_t v = vh::u64(t[2]);
			bool threw = false, rthrew = false;
			try { a.at(i)->emplace(v); } catch(ElThrow &) { threw = true; }
			try { ref[i]->emplace(v); } catch(ElThrow &) { rthrew = true; }   // std: "if the constructor throws, *this does not contain a value"
			if(threw != rthrew) vh::oracle("refstd", "optional::emplace: throws=%d, std::optional throws=%d", (int)threw, (int)rthrew);
			if(threw) o.res = "throw";
		} else if(c == "get" || c == "cget" || c == "arrow" || c == "value") {
			access(o, i, c.c_str());
		} else if(c == "has" || c == "bool") {
			if(!a.live(i)) SKIP();
			bool b = c == "has" ? a.at(i)->has_value() : bool(*a.at(i));
			o.res = bres(b);
			if(b != ref[i]->has_value()) vh::oracle("refstd", "optional %s() = %d, reference %d", c.c_str(), (int)b, (int)ref[i]->has_value());
		} else o.res = "badop";
	}
	void finish() { for(int i = 0; i < NV; i++) if(a.alive[i]) { a.at(i)->~H(); a.alive[i] = false; } }
};

// ================================================================================================
// expected
// ================================================================================================
enum class Err : int { none = 0 };
enum class Err2 : int { none = 0 };
struct RefExp { bool ok; uint64_t err; uint64_t val; };   // hand-written reference (std::expected is C++23)

template<Kind K>
struct ExpRun {
	using E = El<K, 0>;
	using H = frg::expected<Err, E>;
	Vars<H> a;
	std::optional<RefExp> ref[NV];

	static vh::TV *tvp(H &h) { return reinterpret_cast<vh::TV *>(h.stor_); }
	std::string state() {
		std::string s;
		for(int i = 0; i < NV; i++) {
			if(i) s += ' ';
			if(!a.alive[i]) s += '-';
			else if(int(a.at(i)->e_) != 0) s += "e" + std::to_string(int(a.at(i)->e_));
			else s += "v" + show_tv(*tvp(*a.at(i)));
		}
		return s;
	}
	void check() {
		for(int i = 0; i < NV; i++) {
			if(a.alive[i] != ref[i].has_value()) { vh::oracle("refstd", "expected var %d: liveness differs from the reference", i); continue; }
			if(!a.alive[i]) continue;
			H &h = *a.at(i); RefExp &r = *ref[i];
			if(bool(h) && !alive_at(h.stor_)) vh::oracle("claims-dead", "expected var %d reports a value but no object is alive in its storage", i);
			if(bool(h) != r.ok) vh::oracle("refstd", "expected var %d: has value=%d, reference %d", i, (int)bool(h), (int)r.ok);
			else if(r.ok && tvp(h)->v != r.val) vh::oracle("refstd", "expected var %d holds %llu, reference %llu", i, (ull)tvp(h)->v, (ull)r.val);
			else if(!r.ok && (uint64_t)int(h.maybe_error()) != r.err) vh::oracle("refstd", "expected var %d: error %d, reference %llu", i, int(h.maybe_error()), (ull)r.err);
		}
	}
	void op(const std::vector<std::string> &t, OpOut &o) {
		const std::string &c = t[0];
		int i = t.size() > 1 ? ai(t[1]) : -1;
		o.res = "u";
		if(c == "new" || c == "newsucc") {
			if(!a.dead(i)) SKIP();
			if(c == "new") new (a.raw(i)) H(); else new (a.raw(i)) H(frg::success);
			a.alive[i] = true; ref[i] = RefExp{true, 0, 0};
		} else if(c == "newerr") {
			if(!a.dead(i)) SKIP();
			uint64_t e = vh::u64(t[2]);
			bool ok = guarded(o, [&] { new (a.raw(i)) H(Err(int(e))); });
			if(ok) { a.alive[i] = true; ref[i] = RefExp{false, e, 0};
				if(e == 0) vh::oracle("refstd", "expected(E{}) did not stop in the assertion hook"); }
			else if(e != 0) vh::oracle("refstd", "expected(E) with an error value stopped in the assertion hook");
		} else if(c == "newval") {
			if(!a.dead(i)) SKIP();
			uint64_t v = vh::u64(t[2]);
			E *arg = new (g_argbuf) E(v);
			new (a.raw(i)) H(std::move(*arg));
			arg->~E();
			a.alive[i] = true; ref[i] = RefExp{true, 0, v};
		} else if(c == "newcopy" || c == "newmove") {
			int j = ai(t[2]);
			if(!a.dead(i) || !a.live(j)) SKIP();
			if(c == "newcopy") { if constexpr (K != KM) new (a.raw(i)) H(std::as_const(*a.at(j))); else UNSUP(); }
			else new (a.raw(i)) H(std::move(*a.at(j)));
			a.alive[i] = true; ref[i] = *ref[j];
		} else if(c == "del") {
			if(!a.live(i)) SKIP();
			a.at(i)->~H(); a.alive[i] = false; ref[i].reset();
		} else if(c == "assign" || c == "massign") {
			int j = ai(t[2]);
			if(!a.live(i) || !a.live(j)) SKIP();
			RefExp src = *ref[j];
			if(c == "assign") {
#ifdef HOLDERS_EXPECTED_COPY_ASSIGN
				if constexpr (K != KM) { H &r = (*a.at(i) = std::as_const(*a.at(j))); if(&r != a.at(i)) vh::oracle("refstd", "expected operator=(const&) does not return *this"); } else UNSUP();
#else
				UNSUP();
#endif
			} else { H &r = (*a.at(i) = std::move(*a.at(j))); if(&r != a.at(i)) vh::oracle("refstd", "expected operator=(&&) does not return *this"); }
			*ref[i] = src;
		} else if(c == "bool") {
			if(!a.live(i)) SKIP();
			o.res = bres(bool(*a.at(i)));
		} else if(c == "maybe_error") {
			if(!a.live(i)) SKIP();
			uint64_t e = (uint64_t)int(a.at(i)->maybe_error());
			o.res = vres(e);
			if(e != (ref[i]->ok ? 0 : ref[i]->err)) vh::oracle("refstd", "maybe_error() = %llu, reference %llu", (ull)e, (ull)ref[i]->err);
		} else if(c == "error") {
			if(!a.live(i)) SKIP();
			uint64_t e = 0;
			bool ok = guarded(o, [&] { e = (uint64_t)int(a.at(i)->error()); });
			if(ok) { o.res = vres(e);
				if(ref[i]->ok) vh::oracle("refstd", "error() on a value did not stop in the assertion hook");
				else if(e != ref[i]->err) vh::oracle("refstd", "error() = %llu, reference %llu", (ull)e, (ull)ref[i]->err); }
			else if(!ref[i]->ok) vh::oracle("refstd", "error() on an error stopped in the assertion hook");
		} else if(c == "value" || c == "cvalue" || c == "unwrap") {
			if(!a.live(i)) SKIP();
			H &h = *a.at(i);
			uint64_t got = 0; bool same = true;
			bool ok = guarded(o, [&] {
				if(c == "value") { E &e = h.value(); same = (void *)&e == (void *)h.stor_; got = e.rd(); }
				else if(c == "cvalue") { const E &e = std::as_const(h).value(); same = (void *)&e == (void *)h.stor_; got = e.rd(); }
				else { E r = h.unwrap(); got = r.rd(); }
			});
			if(ok) { o.res = vres(got);
				if(!ref[i]->ok) vh::oracle("refstd", "%s() on an error did not stop in the assertion hook", c.c_str());
				else if(got != ref[i]->val) vh::oracle("refstd", "%s() returned %llu, reference %llu", c.c_str(), (ull)got, (ull)ref[i]->val);
				if(!same) vh::oracle("refstd", "%s() does not return the held object", c.c_str()); }
			else if(ref[i]->ok) vh::oracle("refstd", "%s() on a value stopped in the assertion hook", c.c_str());
		} else if(c == "map") {
			if(!a.live(i)) SKIP();
			auto r = a.at(i)->map([](E x) -> uint64_t { return 2 * x.rd() + 1; });
			static_assert(std::is_same_v<decltype(r), frg::expected<Err, uint64_t>>);
			if(r) { o.res = vres(r.value());
				if(!ref[i]->ok || r.value() != 2 * ref[i]->val + 1) vh::oracle("refstd", "map() produced a wrong value"); }
			else { o.res = "err " + std::to_string(int(r.error()));
				if(ref[i]->ok || (uint64_t)int(r.error()) != ref[i]->err) vh::oracle("refstd", "map() produced a wrong error"); }
		} else if(c == "map_error") {
			if(!a.live(i)) SKIP();
			auto r = a.at(i)->map_error([](Err e) -> Err2 { return Err2(int(e) + 10); });
			static_assert(std::is_same_v<decltype(r), frg::expected<Err2, E>>);
			if(r) { uint64_t got = r.value().rd(); o.res = vres(got);
				if(!ref[i]->ok || got != ref[i]->val) vh::oracle("refstd", "map_error() lost the value"); }
			else { o.res = "err " + std::to_string(int(r.error()));
				if(ref[i]->ok || (uint64_t)int(r.error()) != ref[i]->err + 10) vh::oracle("refstd", "map_error() produced a wrong error"); }
		} else o.res = "badop";
	}
	void finish() { for(int i = 0; i < NV; i++) if(a.alive[i]) { a.at(i)->~H(); a.alive[i] = false; } }
};

// ================================================================================================
// variant (3 alternatives)
// ================================================================================================
template<Kind K>
struct VarRun {
	using A0 = El<K, 0>; using A1 = El<K, 1>; using A2 = El<K, 2>;
	using H = frg::variant<A0, A1, A2>;
	using R = std::variant<std::monostate, RVt<0>, RVt<1>, RVt<2>>;
	Vars<H> a;
	std::optional<R> ref[NV];

	template<typename F> static void with_alt(int alt, F f) {
		if(alt == 0) f(std::integral_constant<int, 0>{});
		else if(alt == 1) f(std::integral_constant<int, 1>{});
		else f(std::integral_constant<int, 2>{});
	}
	static vh::TV *tvp(H &h) { return reinterpret_cast<vh::TV *>(h.storage_.buffer); }
	static uint64_t rval(const R &r) { return r.index() == 1 ? std::get<1>(r).v : r.index() == 2 ? std::get<2>(r).v : r.index() == 3 ? std::get<3>(r).v : 0; }
	std::string state() {
		std::string s;
		for(int i = 0; i < NV; i++) {
			if(i) s += ' ';
			if(!a.alive[i]) s += '-';
			else if(a.at(i)->tag_ == H::invalid_tag) s += 'n';
			else s += "a" + std::to_string(a.at(i)->tag_) + ":" + show_tv(*tvp(*a.at(i)));
		}
		return s;
	}
	void check() {
		for(int i = 0; i < NV; i++) {
			if(a.alive[i] != ref[i].has_value()) { vh::oracle("refstd", "variant var %d: liveness differs from the reference", i); continue; }
			if(!a.alive[i]) continue;
			H &h = *a.at(i); R &r = *ref[i];
			if(bool(h) && !alive_at(h.storage_.buffer)) vh::oracle("claims-dead", "variant var %d claims alternative %zu but no object is alive in its storage", i, h.tag_);
			long tg = h.tag_ == H::invalid_tag ? -1 : (long)h.tag_;
			if(tg != (long)r.index() - 1 || bool(h) != (r.index() != 0))
				vh::oracle("refstd", "variant var %d: alternative %ld, std::variant alternative %ld", i, tg, (long)r.index() - 1);
			else if(tg >= 0 && tvp(h)->v != rval(r))
				vh::oracle("refstd", "variant var %d holds %llu, std::variant holds %llu", i, (ull)tvp(h)->v, (ull)rval(r));
		}
	}
	void op(const std::vector<std::string> &t, OpOut &o) {
		const std::string &c = t[0];
		int i = t.size() > 1 ? ai(t[1]) : -1;
		o.res = "u";
		if(c == "new") {
			if(!a.dead(i)) SKIP();
			new (a.raw(i)) H(); a.alive[i] = true; ref[i].emplace();
		} else if(c == "newval") {
			int alt = ai(t[2]); uint64_t v = vh::u64(t[3]);
			if(!a.dead(i) || alt < 0 || alt > 2) SKIP();
			with_alt(alt, [&](auto ic) {
				using X = El<K, ic.value>;
				X *arg = new (g_argbuf) X(v);
				new (a.raw(i)) H(std::move(*arg));
				arg->~X();
				ref[i].emplace(R(RVt<ic.value>{v}));
			});
			a.alive[i] = true;
		} else if(c == "newcopy" || c == "newmove") {
			int j = ai(t[2]);
			if(!a.dead(i) || !a.live(j)) SKIP();
			if(c == "newcopy") { if constexpr (K != KM) new (a.raw(i)) H(std::as_const(*a.at(j))); else UNSUP(); }
			else new (a.raw(i)) H(std::move(*a.at(j)));
			a.alive[i] = true; ref[i].emplace(std::as_const(*ref[j]));
		} else if(c == "del") {
			if(!a.live(i)) SKIP();
			a.at(i)->~H(); a.alive[i] = false; ref[i].reset();
		} else if(c == "assign" || c == "massign") {
			int j = ai(t[2]);
			if(!a.live(i) || !a.live(j)) SKIP();
			R src = *ref[j];
			bool ok = guarded(o, [&] {
				if(c == "assign") { if constexpr (K != KM) { H &r = (*a.at(i) = std::as_const(*a.at(j))); if(&r != a.at(i)) vh::oracle("refstd", "variant operator= does not return *this"); } else o.res = "unsupported"; }
				else { H &r = (*a.at(i) = std::move(*a.at(j))); if(&r != a.at(i)) vh::oracle("refstd", "variant operator= does not return *this"); }
			});
			if(!ok) vh::oracle("refstd", "variant assignment (destination alternative %ld, source alternative %ld) stopped in the assertion hook; std::variant assigns", (long)ref[i]->index() - 1, (long)src.index() - 1);
			*ref[i] = src;
		} else if(c == "assignval") {
			int alt = ai(t[2]); uint64_t v = vh::u64(t[3]);
			if(!a.live(i) || alt < 0 || alt > 2) SKIP();
			with_alt(alt, [&](auto ic) {
				using X = El<K, ic.value>;
				X *arg = new (g_argbuf) X(v);
				*a.at(i) = std::move(*arg);
				arg->~X();
				*ref[i] = RVt<ic.value>{v};
			});
		} else if(c == "emplace") {
			int alt = ai(t[2]); uint64_t v = vh::u64(t[3]);
			if(!a.live(i) || alt < 0 || alt > 2) SKIP();
			with_alt(alt, [&](auto ic) {
				using X = El<K, ic.value>;
				bool threw = false, rthrew = false;
				try { a.at(i)->template emplace<X>(v); } catch(ElThrow &) { threw = true; }
				try { ref[i]->template emplace<ic.value + 1>(v); } catch(ElThrow &) { rthrew = true; }
				// std::variant is valueless_by_exception now; frg::variant's counterpart of "holds nothing" is the empty
				// state, so the reference is normalised to monostate: the tag must not claim an alternative
				// (libstdc++ even keeps the old value for some alternative types, which the standard also allows: "might not
				// hold a value"; the reference semantics here is the specified effect order destroy-then-construct: empty)
				if(rthrew || ref[i]->valueless_by_exception()) ref[i]->template emplace<0>();
				if(threw != rthrew) vh::oracle("refstd", "variant::emplace: throws=%d, std::variant throws=%d", (int)threw, (int)rthrew);
				if(threw) o.res = "throw";
			});
		} else if(c == "get" || c == "cget") {
			int alt = ai(t[2]);
			if(alt < 0 || alt > 2 || !a.live(i)) SKIP();
			H &h = *a.at(i);
			uint64_t got = 0; bool same = true;
			bool ok = guarded(o, [&] {
				with_alt(alt, [&](auto ic) {
					using X = El<K, ic.value>;
					if(c == "get") { X &x = h.template get<X>(); same = (void *)&x == (void *)h.storage_.buffer; got = x.rd(); }
					else { const X &x = std::as_const(h).template get<X>(); same = (void *)&x == (void *)h.storage_.buffer; got = x.rd(); }
				});
			});
			bool refhas = (long)ref[i]->index() - 1 == alt;
			if(ok) { o.res = vres(got);
				if(!refhas) vh::oracle("refstd", "variant get<%d> on alternative %ld did not stop in the assertion hook", alt, (long)ref[i]->index() - 1);
				else if(got != rval(*ref[i])) vh::oracle("refstd", "variant get returned %llu, reference %llu", (ull)got, (ull)rval(*ref[i]));
				if(!same) vh::oracle("refstd", "variant get does not return the held object"); }
			else if(refhas) vh::oracle("refstd", "variant get<%d> on alternative %d stopped in the assertion hook", alt, alt);
		} else if(c == "is") {
			int alt = ai(t[2]);
			if(!a.live(i) || alt < 0 || alt > 2) SKIP();
			bool b = false;
			with_alt(alt, [&](auto ic) { b = a.at(i)->template is<El<K, ic.value>>(); });
			o.res = bres(b);
			if(b != ((long)ref[i]->index() - 1 == alt)) vh::oracle("refstd", "variant is<%d>() = %d on alternative %ld", alt, (int)b, (long)ref[i]->index() - 1);
		} else if(c == "tag") {
			if(!a.live(i)) SKIP();
			size_t tg = a.at(i)->tag();
			o.res = tg == H::invalid_tag ? "none" : vres(tg);
		} else if(c == "bool") {
			if(!a.live(i)) SKIP();
			o.res = bres(bool(*a.at(i)));
		} else if(c == "apply") {
			if(!a.live(i)) SKIP();
			uint64_t got = 0;
			bool ok = guarded(o, [&] { got = a.at(i)->apply([](auto &x) -> uint64_t { return 1000000ull * std::remove_reference_t<decltype(x)>::tag + x.rd(); }); });
			bool refhas = ref[i]->index() != 0;
			if(ok) { o.res = vres(got);
				if(!refhas) vh::oracle("refstd", "variant apply on an empty variant did not stop in the assertion hook");
				else if(got != 1000000ull * (ref[i]->index() - 1) + rval(*ref[i])) vh::oracle("refstd", "variant apply visited the wrong alternative/value"); }
			else if(refhas) vh::oracle("refstd", "variant apply on a non-empty variant stopped in the assertion hook");
		} else o.res = "badop";
	}
	void finish() { for(int i = 0; i < NV; i++) if(a.alive[i]) { a.at(i)->~H(); a.alive[i] = false; } }
};

// ================================================================================================
// manual_box
// ================================================================================================
template<Kind K>
struct BoxRun {
	using E = El<K, 0>;
	using H = frg::manual_box<E>;
	Vars<H> a;
	std::optional<std::optional<RV>> ref[NV];

	std::string state() {
		std::string s;
		for(int i = 0; i < NV; i++) {
			if(i) s += ' ';
			if(!a.alive[i]) s += '-';
			else if(!a.at(i)->_initialized) s += 'n';
			else s += "s" + show_tv(*reinterpret_cast<vh::TV *>(a.at(i)->_storage.buffer));
		}
		return s;
	}
	void check() {
		for(int i = 0; i < NV; i++) {
			if(a.alive[i] != ref[i].has_value()) { vh::oracle("refstd", "manual_box var %d: liveness differs from the reference", i); continue; }
			if(!a.alive[i]) continue;
			H &h = *a.at(i);
			if(h.valid() && !alive_at(h._storage.buffer)) vh::oracle("claims-dead", "manual_box var %d reports a value but no object is alive in its storage", i);
			if(h.valid() != ref[i]->has_value() || bool(h) != ref[i]->has_value())
				vh::oracle("refstd", "manual_box var %d: valid=%d, reference %d", i, (int)h.valid(), (int)ref[i]->has_value());
			else if(h.valid() && reinterpret_cast<vh::TV *>(h._storage.buffer)->v != (*ref[i])->v)
				vh::oracle("refstd", "manual_box var %d holds a wrong value", i);
		}
	}
	void op(const std::vector<std::string> &t, OpOut &o) {
		const std::string &c = t[0];
		int i = t.size() > 1 ? ai(t[1]) : -1;
		o.res = "u";
		if(c == "new") {
			if(!a.dead(i)) SKIP();
			new (a.raw(i)) H(); a.alive[i] = true; ref[i].emplace();
		} else if(c == "init" || c == "construct_with") {
			if(!a.live(i)) SKIP();
			uint64_t v = vh::u64(t[2]);
			bool threw = false;
			bool ok = guarded(o, [&] { try { if(c == "init") a.at(i)->initialize(v); else a.at(i)->construct_with([&] { return E(v); }); } catch(ElThrow &) { threw = true; } });
			if(ok && threw) {   // the element's constructor threw: the box must stay empty (std::optional::emplace likewise)
				o.res = "throw";
				bool rthrew = false; std::optional<RV> probe; try { probe.emplace(v); } catch(ElThrow &) { rthrew = true; }
				if(!rthrew || ref[i]->has_value()) vh::oracle("refstd", "manual_box %s threw where the reference does not", c.c_str());
			} else
			if(ok) { if(ref[i]->has_value()) vh::oracle("refstd", "manual_box %s on an initialized box did not stop in the assertion hook", c.c_str()); *ref[i] = RV{v}; }
			else if(!ref[i]->has_value()) vh::oracle("refstd", "manual_box %s on an empty box stopped in the assertion hook", c.c_str());
		} else if(c == "destruct") {
			if(!a.live(i)) SKIP();
			bool ok = guarded(o, [&] { a.at(i)->destruct(); });
			if(ok) { if(!ref[i]->has_value()) vh::oracle("refstd", "manual_box destruct on an empty box did not stop in the assertion hook"); ref[i]->reset(); }
			else if(ref[i]->has_value()) vh::oracle("refstd", "manual_box destruct on an initialized box stopped in the assertion hook");
		} else if(c == "get" || c == "arrow" || c == "deref") {
			if(!a.live(i)) SKIP();
			H &h = *a.at(i);
			uint64_t got = 0; const void *addr = nullptr;
			bool ok = guarded(o, [&] {
				if(c == "get") { addr = h.get(); got = h.get()->rd(); }
				else if(c == "arrow") { addr = h.operator->(); got = h->rd(); }
				else { E &e = *h; addr = &e; got = e.rd(); }
			});
			if(ok) { o.res = vres(got);
				if(!ref[i]->has_value()) vh::oracle("refstd", "manual_box %s on an empty box did not stop in the assertion hook", c.c_str());
				else if(got != (*ref[i])->v) vh::oracle("refstd", "manual_box %s returned a wrong value", c.c_str());
				if(addr != (void *)h._storage.buffer) vh::oracle("refstd", "manual_box %s does not return the held object", c.c_str()); }
			else if(ref[i]->has_value()) vh::oracle("refstd", "manual_box %s on an initialized box stopped in the assertion hook", c.c_str());
		} else if(c == "valid" || c == "bool") {
			if(!a.live(i)) SKIP();
			o.res = bres(c == "valid" ? a.at(i)->valid() : bool(*a.at(i)));
		} else if(c == "del") {
			if(!a.live(i)) SKIP();
			a.at(i)->~H(); a.alive[i] = false; ref[i].reset();
		} else o.res = "badop";
	}
	// the user of a manual_box destructs the content before the box goes away
	void finish() { for(int i = 0; i < NV; i++) if(a.alive[i]) { if(a.at(i)->valid()) a.at(i)->destruct(); a.at(i)->~H(); a.alive[i] = false; } }
};

// ================================================================================================
// unique_ptr / unique_memory
// ================================================================================================
// Re-entrant pointee: its destructor calls back into its owner and resets the unique_ptr that holds (held) it
// ("unregister myself from my owner").  unique_ptr::reset stores the new pointer BEFORE it destroys the old object, so
// the nested reset sees the new pointer (and destroys the new object); an implementation that destroys first would find
// the dying object still installed and destroy/free it a second time.  The callback runs once per object and is skipped
// while the owner itself is being destroyed (a nested reset on a unique_ptr under destruction double-deletes with
// std::unique_ptr as well: outside the API).
struct Re;
static void *g_dying_owner = nullptr;
struct Re : El<KF, 0> {
	frg::unique_ptr<Re, LogAlloc> *owner = nullptr;
	bool called = false;
	Re(uint64_t x) : El<KF, 0>(x) {}
	~Re();
};
inline Re::~Re() {
	if(owner && !called && (void *)owner != g_dying_owner) { called = true; owner->reset(nullptr); }
}

template<typename E, bool RE>
struct UptrRunT {
	using H = frg::unique_ptr<E, LogAlloc>;
	Vars<H> a;
	static int bid(const void *p) { auto it = g_blockid.find(p); return it == g_blockid.end() ? -1 : it->second; }
	// every pointee knows the variable that currently owns it (ownership moves by swap / move construction)
	void fix_owners() { if constexpr (RE) for(int i = 0; i < NV; i++) if(a.alive[i] && a.at(i)->_ptr) a.at(i)->_ptr->owner = a.at(i); }
	std::string state() {
		fix_owners();
		std::string s;
		for(int i = 0; i < NV; i++) {
			if(i) s += ' ';
			if(!a.alive[i]) s += '-';
			else if(!a.at(i)->_ptr) s += 'n';
			else s += "b" + std::to_string(bid(a.at(i)->_ptr)) + ":" + std::to_string((ull)static_cast<vh::TV *>(a.at(i)->_ptr)->v);
		}
		return s;
	}
	void check() {
		// ownership is unique: no two live variables hold the same pointer; every owned block is allocated and holds a live object
		for(int i = 0; i < NV; i++) for(int j = i + 1; j < NV; j++)
			if(a.alive[i] && a.alive[j] && a.at(i)->_ptr && a.at(i)->_ptr == a.at(j)->_ptr)
				vh::oracle("lifetime", "two unique_ptr variables own the same object");
		for(int i = 0; i < NV; i++)
			if(a.alive[i] && a.at(i)->_ptr) {
				if(!vh::g_alloc.blocks.count(a.at(i)->_ptr)) vh::oracle("lifetime", "unique_ptr variable %d owns a block that is not allocated", i);
				else if(!alive_at(static_cast<vh::TV *>(a.at(i)->_ptr))) vh::oracle("lifetime", "unique_ptr variable %d owns an object that is not alive", i);
			}
	}
	void op(const std::vector<std::string> &t, OpOut &o) {
		const std::string &c = t[0];
		int i = t.size() > 1 ? ai(t[1]) : -1;
		o.res = "u";
		if(c == "new") { if(!a.dead(i)) SKIP(); new (a.raw(i)) H(LogAlloc{}); a.alive[i] = true; }
		else if(c == "make") { if(!a.dead(i)) SKIP(); uint64_t v = vh::u64(t[2]);
			new (a.raw(i)) H(frg::make_unique<E, LogAlloc>(LogAlloc{}, v)); a.alive[i] = true; }
		else if(c == "newmove") { int j = ai(t[2]); if(!a.dead(i) || !a.live(j)) SKIP(); new (a.raw(i)) H(std::move(*a.at(j))); a.alive[i] = true; }
		else if(c == "massign") { int j = ai(t[2]); if(!a.live(i) || !a.live(j)) SKIP(); *a.at(i) = std::move(*a.at(j)); }
		else if(c == "reset") { if(!a.live(i)) SKIP(); a.at(i)->reset(nullptr); }
		else if(c == "resetnew") { if(!a.live(i)) SKIP(); uint64_t v = vh::u64(t[2]);
			LogAlloc al; E *q = new (al.allocate(sizeof(E))) E(v);
			if constexpr (RE) q->owner = a.at(i);
			a.at(i)->reset(q); }
		else if(c == "release") { if(!a.live(i)) SKIP();
			E *q = a.at(i)->release();
			if(a.at(i)->get() != nullptr) vh::oracle("lifetime", "unique_ptr still owns the object after release()");
			if(q) { o.res = vres(q->rd()); q->~E(); LogAlloc{}.free(q); } else o.res = "none"; }
		else if(c == "get") { if(!a.live(i)) SKIP(); E *q = a.at(i)->get(); o.res = q ? vres(bid(q)) : "none"; }
		else if(c == "bool") { if(!a.live(i)) SKIP(); o.res = bres(bool(*a.at(i))); }
		else if(c == "deref") { if(!a.live(i)) SKIP();
			if(!a.at(i)->_ptr) { o.res = "ub"; o.asserted = true; }    // not executed: no assertion in the source
			else { uint64_t x = (**a.at(i)).rd(); if((*a.at(i))->v != x) vh::oracle("lifetime", "unique_ptr * and -> disagree"); o.res = vres(x); } }
		else if(c == "del") { if(!a.live(i)) SKIP(); g_dying_owner = a.at(i); a.at(i)->~H(); g_dying_owner = nullptr; a.alive[i] = false; }
		else o.res = "badop";
		fix_owners();
	}
	void finish() { for(int i = 0; i < NV; i++) if(a.alive[i]) { g_dying_owner = a.at(i); a.at(i)->~H(); g_dying_owner = nullptr; a.alive[i] = false; } }
};
using UptrRun = UptrRunT<El<KF, 0>, false>;
using UptrReRun = UptrRunT<Re, true>;

struct UmemRun {
	using H = frg::unique_memory<LogAlloc>;
	Vars<H> a;
	static int bid(const void *p) { auto it = g_blockid.find(p); return it == g_blockid.end() ? -1 : it->second; }
	std::string state() {
		std::string s;
		for(int i = 0; i < NV; i++) {
			if(i) s += ' ';
			if(!a.alive[i]) s += '-';
			else if(!a.at(i)->pointer_) s += 'n';
			else s += "b" + std::to_string(bid(a.at(i)->pointer_)) + ":" + std::to_string(a.at(i)->size_);
		}
		return s;
	}
	void check() {
		for(int i = 0; i < NV; i++) for(int j = i + 1; j < NV; j++)
			if(a.alive[i] && a.alive[j] && a.at(i)->pointer_ && a.at(i)->pointer_ == a.at(j)->pointer_)
				vh::oracle("lifetime", "two unique_memory variables own the same block");
		for(int i = 0; i < NV; i++)
			if(a.alive[i] && a.at(i)->pointer_) {
				auto it = vh::g_alloc.blocks.find(a.at(i)->pointer_);
				if(it == vh::g_alloc.blocks.end()) vh::oracle("lifetime", "unique_memory variable %d owns a block that is not allocated", i);
				else if(it->second != a.at(i)->size()) vh::oracle("lifetime", "unique_memory size() differs from the allocation size");
			}
	}
	void op(const std::vector<std::string> &t, OpOut &o) {
		const std::string &c = t[0];
		int i = t.size() > 1 ? ai(t[1]) : -1;
		o.res = "u";
		if(c == "new") { if(!a.dead(i)) SKIP(); new (a.raw(i)) H(); a.alive[i] = true; }
		else if(c == "alloc") { if(!a.dead(i)) SKIP(); new (a.raw(i)) H(g_logalloc, (size_t)vh::u64(t[2])); a.alive[i] = true; }
		else if(c == "newmove") { int j = ai(t[2]); if(!a.dead(i) || !a.live(j)) SKIP(); new (a.raw(i)) H(std::move(*a.at(j))); a.alive[i] = true; }
		else if(c == "assign") { int j = ai(t[2]); if(!a.live(i) || !a.live(j)) SKIP(); *a.at(i) = std::move(*a.at(j)); }
		else if(c == "bool") { if(!a.live(i)) SKIP(); o.res = bres(bool(*a.at(i))); }
		else if(c == "size") { if(!a.live(i)) SKIP(); o.res = vres(a.at(i)->size()); }
		else if(c == "data") { if(!a.live(i)) SKIP(); void *p = a.at(i)->data(); o.res = p ? vres(bid(p)) : "none"; }
		else if(c == "del") { if(!a.live(i)) SKIP(); a.at(i)->~H(); a.alive[i] = false; }
		else o.res = "badop";
	}
	void finish() { for(int i = 0; i < NV; i++) if(a.alive[i]) { a.at(i)->~H(); a.alive[i] = false; } }
};

// ================================================================================================
// generic case loop
// ================================================================================================
template<typename Run>
static void drive(const vh::Lines &ls, const char *who) {
	{
		Run r;
		register_arg();
		for(size_t n = 1; n < ls.size(); n++) {
			auto t = vh::split(ls[n]);
			if(t.empty()) continue;
			OpOut o;
			g_ev.clear();
			r.op(t, o);
			if(o.asserted) { printf("%s\n", o.res.c_str()); return; }   // assertion stop (or UB guard): the case ends here
			r.check();
			printf("%s | %s | %s\n", o.res.c_str(), r.state().c_str(), g_ev.c_str());
		}
		g_ev.clear();
		r.finish();
		printf("fin | %s\n", g_ev.c_str());
	}
	vh::g_life.check_empty(who);
	vh::g_alloc.check_empty(who);
}

#include "tuple_part.hpp"
#include "il_part.hpp"
#include "throw_part.hpp"
#include "tp_part.hpp"
#include "mix_part.hpp"
#include "err_part.hpp"
#include "init_part.hpp"
#include "alloc_part.hpp"

static void body(const vh::Lines &ls) {
	ev_reset_all();
	if(ls.empty()) return;
	auto h = vh::split(ls[0]);
	if(h.size() != 3 || h[0] != "type") { printf("badtype\n"); return; }
	const std::string &ty = h[1]; char k = h[2][0];
#define DISPATCH(T, name) do { if(k == 'M') drive<T<KM>>(ls, name); else if(k == 'C') drive<T<KC>>(ls, name); else drive<T<KF>>(ls, name); } while(0)
	if(ty == "opt") DISPATCH(OptRun, "optional");
	else if(ty == "exp") DISPATCH(ExpRun, "expected");
	else if(ty == "var") DISPATCH(VarRun, "variant");
	else if(ty == "box") DISPATCH(BoxRun, "manual_box");
	else if(ty == "uptr") drive<UptrRun>(ls, "unique_ptr");
	else if(ty == "uptrre") drive<UptrReRun>(ls, "unique_ptr (re-entrant pointee)");
	else if(ty == "umem") drive<UmemRun>(ls, "unique_memory");
	else if(ty == "tup") { if(k == 'M') tuple_case<KM>(ls); else if(k == 'C') tuple_case<KC>(ls); else tuple_case<KF>(ls); }
	else if(ty == "il") il_case(ls);
	else if(ty == "thr") thr_case(ls);
	else if(ty == "tp") tp_case(ls);
	else if(ty == "mix") mix_case(ls);
	else if(ty == "err") err_case(ls);
	else if(ty == "init") init_case(ls);
	else if(ty == "alloc") alloc_case(ls);
	else printf("badtype\n");
}

int main() { return vh::run(body); }
