// probe: manual_box's constexpr default constructor must be a constant initialiser (constinit), for trivial and
// class-type payloads: a namespace-scope manual_box that is dynamically initialised would wipe an initialize() done by
// earlier start-up code (see init_part.hpp).  A diagnostic here IS the C17 violation.
#include <frg/manual_box.hpp>
struct ProbePayload { long v; ProbePayload(long x) : v(x) {} ~ProbePayload() {} };
constinit frg::manual_box<int> probe_box_int;
constinit frg::manual_box<ProbePayload> probe_box_class;
constexpr frg::aligned_storage<16, 8> probe_storage{};
static_assert(probe_storage.buffer[0] == 0 && probe_storage.buffer[15] == 0);
