// probe: frg::variant<T...>::const_apply on a const variant (variant.hpp:137-140)
#include <frg/variant.hpp>
long probe_const_apply(const frg::variant<int, long> &v) {
	return v.const_apply([](const auto &x) { return (long)x; });
}
