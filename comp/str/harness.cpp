// Harness for frg::basic_string_view / frg::basic_string / string hashes (C15, C16 string part,
// C20 to_number part).  Runs op scripts on the REAL code from /repo/include, prints canonical lines
// (compared with the extracted Gallina model, comp/str/driver.ml) and evaluates the property with
// std::basic_string<CharT> / std::basic_string_view<CharT> references (oracle, independent of the model).
// Every source buffer is an exact-size heap block: the ASan redzone starts right after its last byte,
// so a read one byte past a view is a sanitizer report (attributed to the running case by vlib).
#include <algorithm>
#include <limits>
#include <memory>
#include <optional>
#include <string>
#include <string_view>
#include <stdexcept>
#include <type_traits>
#include <sanitizer/asan_interface.h>
#include "vharness.hpp"
#include <frg/string.hpp>

static long g_id = 0;                          // shared id counter: source buffers and allocations
static std::map<void *, long> g_block_id;
static std::vector<std::string> g_evs;

struct LogAlloc {
	void *allocate(size_t n) {
		void *p = vh::g_alloc.allocate(n);
		memset(p, 0xCD, n);                    // the model's "junk" (only resize leaves any of it visible)
		long id = ++g_id; g_block_id[p] = id;
		g_evs.push_back("ev a " + std::to_string(id) + " " + std::to_string(n));
		return p;
	}
	void note_free(void *p) {
		auto it = g_block_id.find(p);
		g_evs.push_back("ev f " + (it == g_block_id.end() ? std::string("?") : std::to_string(it->second)));
		if(it != g_block_id.end()) g_block_id.erase(it);
	}
	void free(void *p) { if(p) note_free(p); vh::g_alloc.free(p); }
	void deallocate(void *p, size_t n) { if(p) note_free(p); vh::g_alloc.deallocate(p, n); }
};
static void flush_evs() { for(auto &e : g_evs) printf("%s\n", e.c_str()); g_evs.clear(); }

// Everything below is generic in the character type: the same scripts run on char, char16_t, char32_t and wchar_t
// (first script line "char 1|2|4|w"; buffer contents are lists of ELEMENTS, 2*sizeof(CharT) hex digits each).
static bool g_assert_expected = false;
template<typename CharT>
struct H {
using FS = frg::basic_string<CharT, LogAlloc>;
using FV = frg::basic_string_view<CharT>;
using SS = std::basic_string<CharT>;
using SV = std::basic_string_view<CharT>;
static constexpr size_t W = sizeof(CharT);

struct Buf { CharT *p; size_t n; SS bytes; };
static inline std::vector<Buf> g_bufs;
static void drop_bufs() {
	for(auto &b : g_bufs) { if(!b.n) ASAN_UNPOISON_MEMORY_REGION(b.p, 1); ::free(b.p); }
	g_bufs.clear();
}
static bool same(const CharT *a, const CharT *b, size_t n) { for(size_t i = 0; i < n; i++) if(a[i] != b[i]) return false; return true; }
static SS unhex(const std::string &h) {
	SS r;
	if(h == "-") return r;
	for(size_t i = 0; i + 2 * W <= h.size(); i += 2 * W) r.push_back((CharT)strtoull(h.substr(i, 2 * W).c_str(), nullptr, 16));
	return r;
}
static std::string hex(const CharT *p, size_t n) {
	if(!n) return "-";
	static const char *d = "0123456789abcdef";
	std::string r;
	for(size_t i = 0; i < n; i++) {
		unsigned long long v = (unsigned long long)(std::make_unsigned_t<CharT>)p[i];
		for(int k = 2 * (int)W - 1; k >= 0; k--) r.push_back(d[(v >> (4 * k)) & 15]);
	}
	return r;
}

struct World {
	std::vector<std::unique_ptr<FS>> strs;
	std::vector<std::optional<SS>> ref;
	std::vector<FV> views;
	std::vector<SS> vref;
	std::map<SS, unsigned> hashes;
};

struct VE { FV v; SS ref; };

static std::vector<std::string> splitc(const std::string &s) {
	std::vector<std::string> r; std::string cur;
	for(char c : s) { if(c == ':') { r.push_back(cur); cur.clear(); } else cur.push_back(c); }
	r.push_back(cur); return r;
}

static VE eval(World &w, const std::string &tok) {
	auto t = splitc(tok);
	if(t[0] == "N") return VE{FV{}, SS()};
	if(t[0] == "P") {
		Buf &b = g_bufs.at(vh::u64(t[1])); size_t off = vh::u64(t[2]), len = vh::u64(t[3]);
		return VE{FV{b.p + off, len}, (off <= b.bytes.size() ? b.bytes.substr(off, len) : SS())};
	}
	if(t[0] == "C") {
		Buf &b = g_bufs.at(vh::u64(t[1])); size_t off = vh::u64(t[2]);
		FV v{b.p + off};
		SS r = b.bytes.substr(off); r = r.substr(0, r.find(CharT(0)));
		if(v.size() != r.size()) vh::oracle("refstr", "view(const char*) has size %zu, reference strlen %zu", v.size(), r.size());
		return VE{v, r};
	}
	if(t[0] == "S") {
		size_t k = vh::u64(t[1]);
		return VE{FV(*w.strs.at(k)), *w.ref.at(k)};
	}
	size_t k = vh::u64(t[1]);
	return VE{w.views.at(k), w.vref.at(k)};
}

static void print_str(World &w, size_t k) {
	FS &s = *w.strs[k];
	if(!s.data()) printf("s %zu null %zu\n", k, s.size());
	else printf("s %zu %zu %s\n", k, s.size(), hex(s.data(), s.size() + 1).c_str());
}

// string k must denote its reference text, keep the terminator, and own a buffer iff data() != nullptr
static void check_str(World &w, size_t k, const char *what, size_t junk_from = (size_t)-1) {
	FS &s = *w.strs[k];
	SS &r = *w.ref[k];
	if(s.size() != r.size()) { vh::oracle("refstr", "%s: size() = %zu, reference %zu", what, s.size(), r.size()); return; }
	if(!s.data()) { if(s.size()) vh::oracle("refstr", "%s: data() == nullptr with size() = %zu", what, s.size()); return; }
	size_t cmp = junk_from < r.size() ? junk_from : r.size();
	if(!same(s.data(), r.data(), cmp)) vh::oracle("refstr", "%s: contents differ from the reference (size %zu)", what, r.size());
	if(s.data()[s.size()] != 0) vh::oracle("terminator", "%s: data()[size()] = %d, not 0", what, (int)s.data()[s.size()]);
	if(junk_from != (size_t)-1) r.assign(s.data(), s.size());   // the grown part is unspecified: adopt it
}

static int ref_compare(const SS &a, const SS &b) {
	if(a.size() != b.size()) return a.size() < b.size() ? -1 : 1;
	for(size_t i = 0; i < a.size(); i++) if(a[i] != b[i]) return a[i] < b[i] ? -1 : 1;
	return 0;
}

template<typename T>
static void do_num(FV v, const SS &ref) {
	auto r = v.template to_number<T>();
	if(r) printf("v %lld\n", (long long)*r); else printf("none\n");
	bool digits = true; unsigned __int128 val = 0; bool huge = false;
	for(char c : ref) {
		if(c < '0' || c > '9') { digits = false; break; }
		val = val * 10 + (unsigned)(c - '0');
		if(val > ((unsigned __int128)1 << 70)) huge = true, val = (unsigned __int128)1 << 70;
	}
	T mx = std::numeric_limits<T>::max();
	if(!digits) { if(r) vh::oracle("tonumber", "to_number of a non-digit string returned a value"); }
	else if(!huge && val <= (unsigned __int128)mx) {
		if(!r) vh::oracle("tonumber", "to_number of a digit string that fits returned null_opt");
		else if((unsigned __int128)*r != val || *r < 0) vh::oracle("tonumber", "to_number returned a wrong value");
	}
}
static void do_num_u64(FV v, const SS &ref) {
	auto r = v.template to_number<uint64_t>();
	if(r) printf("v %llu\n", (unsigned long long)*r); else printf("none\n");
	bool digits = true; unsigned __int128 val = 0; bool huge = false;
	for(char c : ref) {
		if(c < '0' || c > '9') { digits = false; break; }
		val = val * 10 + (unsigned)(c - '0');
		if(val > ((unsigned __int128)1 << 70)) huge = true, val = (unsigned __int128)1 << 70;
	}
	if(!digits) { if(r) vh::oracle("tonumber", "to_number of a non-digit string returned a value"); }
	else if(!huge && val <= (unsigned __int128)UINT64_MAX) {
		if(!r) vh::oracle("tonumber", "to_number of a digit string that fits returned null_opt");
		else if((unsigned __int128)*r != val) vh::oracle("tonumber", "to_number returned a wrong value");
	}
}

static void check_hash(World &w, const SS &text, unsigned h) {
	auto it = w.hashes.find(text);
	if(it == w.hashes.end()) w.hashes[text] = h;
	else if(it->second != h) vh::oracle("hash", "equal texts hash differently (%u vs %u)", it->second, h);
}

// after std::move(strs[k]): whatever a (future) move operation leaves behind, the source must satisfy the terminator
// invariant: it owns size()+1 elements ending in 0, or owns no buffer and has size() == 0 -- never "size() > 0 with
// data() == nullptr".  Its reference text becomes what it now holds (std: valid but unspecified).
static void check_moved_from(World &w, size_t k, const char *what) {
	FS &s = *w.strs[k];
	if(!s.data()) {
		if(s.size()) vh::oracle("terminator", "%s: moved-from string reports size() = %zu with data() == nullptr", what, s.size());
		*w.ref[k] = SS();
		return;
	}
	if(s.data()[s.size()] != 0) vh::oracle("terminator", "%s: moved-from string: data()[size()] is not 0", what);
	w.ref[k]->assign(s.data(), s.size());
}
static size_t take_by_value(FS p) { return p.size() + (p.data() ? (size_t)(p.data()[p.size()] != 0) : 0); }

static void new_str(World &w, FS *s, SS r, const char *what) {
	w.strs.emplace_back(s); w.ref.emplace_back(std::move(r));
	printf("u\n");
	print_str(w, w.strs.size() - 1);
	check_str(w, w.strs.size() - 1, what);
}

static void body(const vh::Lines &ls) {
	g_assert_expected = false;
	try { run_lines(ls); }
	catch(std::out_of_range &) { printf("bad-script\n"); }      // malformed script (index without object): not a finding
	catch(vh::AssertStop &a) {
		// the only documented stop: sub_string with a request outside the view
		if(!g_assert_expected) vh::oracle("unexpected-assert", "assertion hook reached by an operation whose preconditions hold: %s", a.where.c_str());
		throw;
	}
}
static void run_lines(const vh::Lines &ls) {
	g_id = 0; g_block_id.clear(); g_evs.clear(); drop_bufs();
	{
		World w;
		for(size_t li = 0; li < ls.size(); li++) {
			auto t = vh::split(ls[li]);
			const std::string &o = t[0];
			if(o == "buf") {
				SS bytes = unhex(t[1]);
				Buf b; b.n = bytes.size(); b.bytes = bytes;
				b.p = (CharT *)::malloc(b.n ? b.n * W : 1);
				if(b.n) memcpy(b.p, bytes.data(), b.n * W); else ASAN_POISON_MEMORY_REGION(b.p, 1);
				++g_id;
				g_bufs.push_back(b);
				printf("u\n");
			} else if(o == "eq") {
				VE a = eval(w, t[1]), b = eval(w, t[2]);
				bool r = a.v == b.v;
				printf("b %d\n", (int)r);
				if(r != (a.ref == b.ref)) vh::oracle("refstr", "operator== gives %d, reference %d", (int)r, (int)(a.ref == b.ref));
			} else if(o == "ff") {
				VE a = eval(w, t[1]); CharT c = (CharT)vh::u64(t[2]); size_t st = vh::u64(t[3]);
				size_t r = a.v.find_first(c, st);
				printf("n %zu\n", r);
				size_t e = SV(a.ref).find(c, st);
				if(r != e) vh::oracle("refstr", "find_first gives %zu, reference %zu", r, e);
			} else if(o == "ffo") {
				VE a = eval(w, t[1]), b = eval(w, t[2]); size_t st = vh::u64(t[3]);
				size_t r = a.v.find_first_of(b.v, st);
				printf("n %zu\n", r);
				size_t e = SV(a.ref).find_first_of(SV(b.ref), st);
				if(r != e) vh::oracle("refstr", "find_first_of gives %zu, reference %zu", r, e);
			} else if(o == "fl") {
				VE a = eval(w, t[1]); CharT c = (CharT)vh::u64(t[2]);
				size_t r = a.v.find_last(c);
				printf("n %zu\n", r);
				size_t e = SV(a.ref).rfind(c);
				if(r != e) vh::oracle("refstr", "find_last gives %zu, reference %zu", r, e);
			} else if(o == "sub") {
				VE a = eval(w, t[1]); size_t from = vh::u64(t[2]), size = vh::u64(t[3]);
				bool inside = from <= a.ref.size() && size <= a.ref.size() - from;
				g_assert_expected = !inside;
				FV r = a.v.sub_string(from, size);        // stops in the assertion hook when outside
				g_assert_expected = false;
				if(!inside) {
					vh::oracle("substr-bounds", "sub_string(%zu, %zu) of a view of size %zu returned a view instead of stopping", from, size, a.ref.size());
					printf("w bad\n");
					w.views.push_back(FV{}); w.vref.push_back(SS());
				} else {
					if(!r.data()) printf("w null\n"); else printf("w %zu %s\n", r.size(), hex(r.data(), r.size()).c_str());
					SS e = a.ref.substr(from, size);
					if(r.size() != e.size() || !same(r.data(), e.data(), e.size()))
						vh::oracle("refstr", "sub_string(%zu, %zu) differs from the reference", from, size);
					w.views.push_back(r); w.vref.push_back(e);
				}
			} else if(o == "sw" || o == "ew") {
				VE a = eval(w, t[1]), b = eval(w, t[2]);
				bool r = o == "sw" ? a.v.starts_with(b.v) : a.v.ends_with(b.v);
				printf("b %d\n", (int)r);
				bool e = o == "sw" ? SV(a.ref).starts_with(b.ref) : SV(a.ref).ends_with(b.ref);
				if(r != e) vh::oracle("refstr", "%s gives %d, reference %d", o == "sw" ? "starts_with" : "ends_with", (int)r, (int)e);
			} else if(o == "num") {
				if constexpr(std::is_same_v<CharT, char>) {
				VE a = eval(w, t[2]);
				const std::string &ty = t[1];
				if(ty == "i8") do_num<int8_t>(a.v, a.ref); else if(ty == "i16") do_num<int16_t>(a.v, a.ref);
				else if(ty == "i32") do_num<int32_t>(a.v, a.ref); else if(ty == "i64") do_num<int64_t>(a.v, a.ref);
				else if(ty == "u8") do_num<uint8_t>(a.v, a.ref); else if(ty == "u16") do_num<uint16_t>(a.v, a.ref);
				else if(ty == "u32") do_num<uint32_t>(a.v, a.ref); else do_num_u64(a.v, a.ref);
				} else printf("?? num\n");
			} else if(o == "hv") {
				VE a = eval(w, t[1]);
				unsigned h = frg::hash<FV>{}(a.v);
				printf("n %u\n", h);
				check_hash(w, a.ref, h);
			} else if(o == "len") {
				Buf &b = g_bufs.at(vh::u64(t[1])); size_t off = vh::u64(t[2]);
				size_t r = frg::generic_strlen(b.p + off);
				printf("n %zu\n", r);
				size_t e = b.bytes.substr(off).find(CharT(0));
				if(r != e) vh::oracle("refstr", "generic_strlen gives %zu, reference %zu", r, e);
			} else if(o == "nlen") {
				Buf &b = g_bufs.at(vh::u64(t[1])); size_t off = vh::u64(t[2]), mx = vh::u64(t[3]);
				size_t r = frg::generic_strnlen(b.p + off, mx);
				printf("n %zu\n", r);
				size_t e = b.bytes.substr(off).find(CharT(0)); if(e == SS::npos || e > mx) e = mx;
				if(r != e) vh::oracle("refstr", "generic_strnlen gives %zu, reference %zu", r, e);
			} else if(o == "snew") {
				new_str(w, new FS(), SS(), "basic_string()");
				if(w.strs.back()->data()) vh::oracle("refstr", "default-constructed string owns a buffer");
			} else if(o == "scs") {
				Buf &b = g_bufs.at(vh::u64(t[1])); size_t off = vh::u64(t[2]);
				SS r = b.bytes.substr(off); r = r.substr(0, r.find(CharT(0)));
				new_str(w, new FS(b.p + off), r, "basic_string(const char*)");
			} else if(o == "spl") {
				Buf &b = g_bufs.at(vh::u64(t[1])); size_t off = vh::u64(t[2]), len = vh::u64(t[3]);
				new_str(w, new FS(b.p + off, len), b.bytes.substr(off, len), "basic_string(ptr, len)");
			} else if(o == "sview") {
				VE a = eval(w, t[1]);
				new_str(w, new FS(a.v), a.ref, "basic_string(view)");
			} else if(o == "scsa") {                    // compatibility overload basic_string(Allocator, const Char *)
				Buf &b = g_bufs.at(vh::u64(t[1])); size_t off = vh::u64(t[2]);
				SS r = b.bytes.substr(off); r = r.substr(0, r.find(CharT(0)));
				new_str(w, new FS(LogAlloc{}, (const CharT *)(b.p + off)), r, "basic_string(Allocator, const char*)");
			} else if(o == "spla") {                    // compatibility overload basic_string(Allocator, const Char *, size_t)
				Buf &b = g_bufs.at(vh::u64(t[1])); size_t off = vh::u64(t[2]), len = vh::u64(t[3]);
				new_str(w, new FS(LogAlloc{}, (const CharT *)(b.p + off), len), b.bytes.substr(off, len), "basic_string(Allocator, ptr, len)");
			} else if(o == "sviewa") {                  // compatibility overload explicit basic_string(Allocator, const view &)
				VE a = eval(w, t[1]);
				new_str(w, new FS(LogAlloc{}, a.v), a.ref, "basic_string(Allocator, view)");
			} else if(o == "sfill0") {                  // basic_string(size): the fill character defaults to 0
				size_t n = vh::u64(t[1]);
				new_str(w, new FS(n), SS(n, CharT(0)), "basic_string(size)");
			} else if(o == "sfill") {
				size_t n = vh::u64(t[1]); CharT c = (CharT)vh::u64(t[2]);
				new_str(w, new FS(n, c), SS(n, c), "basic_string(size, c)");
			} else if(o == "scopy") {
				size_t k = vh::u64(t[1]);
				new_str(w, new FS(*w.strs.at(k)), *w.ref.at(k), "copy constructor");
			} else if(o == "sassign") {
				size_t d = vh::u64(t[1]), s = vh::u64(t[2]);
				*w.strs.at(d) = *w.strs.at(s);
				w.ref[d] = SS(*w.ref.at(s));
				printf("u\n"); print_str(w, d); check_str(w, d, "operator=");
				if(d != s) check_str(w, s, "operator= (source)");
			} else if(o == "sresize") {
				size_t k = vh::u64(t[1]), n = vh::u64(t[2]);
				size_t keep = std::min(n, w.ref.at(k)->size());
				w.strs.at(k)->resize(n);
				w.ref[k]->resize(n);
				printf("u\n"); print_str(w, k); check_str(w, k, "resize", keep);
			} else if(o == "splusv") {
				size_t k = vh::u64(t[1]); VE a = eval(w, t[2]);
				new_str(w, new FS(*w.strs.at(k) + a.v), *w.ref.at(k) + a.ref, "operator+(view)");
				check_str(w, k, "operator+(view) (left operand)");
			} else if(o == "splusc") {
				size_t k = vh::u64(t[1]); CharT c = (CharT)vh::u64(t[2]);
				new_str(w, new FS(*w.strs.at(k) + c), *w.ref.at(k) + c, "operator+(char)");
				check_str(w, k, "operator+(char) (left operand)");
			} else if(o == "sappv") {
				size_t k = vh::u64(t[1]); VE a = eval(w, t[2]);
				*w.strs.at(k) += a.v;
				*w.ref[k] += a.ref;
				printf("u\n"); print_str(w, k); check_str(w, k, "operator+=(view)");
			} else if(o == "sappc" || o == "spush") {
				size_t k = vh::u64(t[1]); CharT c = (CharT)vh::u64(t[2]);
				if(o == "sappc") *w.strs.at(k) += c; else w.strs.at(k)->push_back(c);
				w.ref[k]->push_back(c);
				printf("u\n"); print_str(w, k); check_str(w, k, o == "sappc" ? "operator+=(char)" : "push_back");
			} else if(o == "scmp") {
				size_t a = vh::u64(t[1]), b = vh::u64(t[2]);
				int r = w.strs.at(a)->compare(*w.strs.at(b));
				bool e = *w.strs[a] == *w.strs[b];
				printf("i %d\n", r);
				int want = ref_compare(*w.ref[a], *w.ref[b]);
				if(r != want) vh::oracle("refstr", "compare gives %d, reference %d", r, want);
				if(e != (*w.ref[a] == *w.ref[b])) vh::oracle("refstr", "operator== (strings) gives %d, reference %d", (int)e, (int)(*w.ref[a] == *w.ref[b]));
			} else if(o == "scmpc") {
				if constexpr(std::is_same_v<CharT, char>) {
				size_t a = vh::u64(t[1]); Buf &b = g_bufs.at(vh::u64(t[2])); size_t off = vh::u64(t[3]);
				int r = w.strs.at(a)->compare(b.p + off);
				bool e = *w.strs[a] == (const char *)(b.p + off);
				printf("i %d\n", r);
				SS cs = b.bytes.substr(off); cs = cs.substr(0, cs.find(CharT(0)));
				int want = ref_compare(*w.ref[a], cs);
				if(r != want) vh::oracle("refstr", "compare(const char*) gives %d, reference %d", r, want);
				if(e != (*w.ref[a] == cs)) vh::oracle("refstr", "operator==(const char*) gives %d, reference %d", (int)e, (int)(*w.ref[a] == cs));
				} else printf("?? scmpc\n");
			} else if(o == "ssw" || o == "sew") {
				size_t k = vh::u64(t[1]); VE a = eval(w, t[2]);
				bool r = o == "ssw" ? w.strs.at(k)->starts_with(a.v) : w.strs.at(k)->ends_with(a.v);
				printf("b %d\n", (int)r);
				bool e = o == "ssw" ? SV(*w.ref[k]).starts_with(a.ref) : SV(*w.ref[k]).ends_with(a.ref);
				if(r != e) vh::oracle("refstr", "string %s gives %d, reference %d", o == "ssw" ? "starts_with" : "ends_with", (int)r, (int)e);
			} else if(o == "hs") {
				size_t k = vh::u64(t[1]);
				unsigned h = frg::hash<FS>{}(*w.strs.at(k));
				printf("n %u\n", h);
				check_hash(w, *w.ref[k], h);
				unsigned hv = frg::hash<FV>{}(FV(*w.strs[k]));
				if(h != hv) vh::oracle("hash", "hash<basic_string> = %u but hash<basic_string_view> of the same text = %u", h, hv);
			} else if(o == "sdetach") {
				size_t k = vh::u64(t[1]);
				CharT *p = w.strs.at(k)->data();
				w.strs[k]->detach();
				LogAlloc{}.free(p);                     // the caller owns the buffer now
				w.ref[k] = SS();
				printf("u\n"); print_str(w, k); check_str(w, k, "detach");
			} else if(o == "sswap") {
				size_t a = vh::u64(t[1]), b = vh::u64(t[2]);
				swap(*w.strs.at(a), *w.strs.at(b));
				std::swap(*w.ref[a], *w.ref[b]);
				printf("u\n"); print_str(w, a); print_str(w, b); check_str(w, a, "swap"); check_str(w, b, "swap");
			} else if(o == "smove") {                    // basic_string t(std::move(s)); then keep using s
				size_t k = vh::u64(t[1]);
				SS text = *w.ref.at(k);
				FS *nt = new FS(std::move(*w.strs.at(k)));
				w.strs.emplace_back(nt); w.ref.emplace_back(text);
				check_moved_from(w, k, "move construction");
				print_str(w, k); print_str(w, w.strs.size() - 1);
				check_str(w, w.strs.size() - 1, "move construction (destination)");
			} else if(o == "smovea") {                   // t = std::move(s)
				size_t d = vh::u64(t[1]), sidx = vh::u64(t[2]);
				SS text = *w.ref.at(sidx);
				*w.strs.at(d) = std::move(*w.strs.at(sidx));
				*w.ref[d] = text;
				if(d != sidx) check_moved_from(w, sidx, "move assignment");
				print_str(w, sidx); print_str(w, d);
				check_str(w, d, "move assignment (destination)");
			} else if(o == "sbyval" || o == "sbyvalm") {  // f(s) / f(std::move(s)) with f(basic_string p)
				size_t k = vh::u64(t[1]);
				size_t want = w.ref.at(k)->size();
				size_t r = o == "sbyval" ? take_by_value(*w.strs.at(k)) : take_by_value(std::move(*w.strs.at(k)));
				printf("n %zu\n", r);
				if(r != want) vh::oracle("refstr", "by-value parameter has size() = %zu (or lost its terminator), reference %zu", r, want);
				if(o == "sbyvalm") check_moved_from(w, k, "pass by value of std::move"); else check_str(w, k, "pass by value (argument)");
			} else if(o == "traits") {
				printf("traits %d %d %d\n", (int)std::is_nothrow_move_constructible_v<FS>, (int)std::is_trivially_move_constructible_v<FS>,
					(int)std::is_nothrow_move_assignable_v<FS>);
			} else if(o == "sdel") {
				size_t k = vh::u64(t[1]);
				w.strs.at(k).reset();                  // ~basic_string
				w.ref[k].reset();
				printf("u\n");
			} else {
				printf("?? %s\n", o.c_str());
			}
			flush_evs();
		}
		// end of the script: every live string dies, in slot order
		for(size_t k = 0; k < w.strs.size(); k++) if(w.strs[k]) { check_str(w, k, "final state"); w.strs[k].reset(); }
		flush_evs();
		int before = vh::g_oracle_count;
		vh::g_alloc.check_empty("basic_string");
		printf("closed %d\n", (int)(vh::g_alloc.blocks.empty() && vh::g_oracle_count == before));
		g_evs.clear();
	}
}

};   // struct H

static void body(const vh::Lines &ls0) {
	vh::Lines ls = ls0;
	std::string ct = "1";
	if(!ls.empty()) { auto t = vh::split(ls[0]); if(t.size() == 2 && t[0] == "char") { ct = t[1]; ls.erase(ls.begin()); } }
	if(ct == "2") H<char16_t>::body(ls);
	else if(ct == "4") H<char32_t>::body(ls);
	else if(ct == "w") H<wchar_t>::body(ls);
	else H<char>::body(ls);
}

int main() { return vh::run(body); }
