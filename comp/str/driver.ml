(* driver for the extracted string model: same scripts as comp/str/harness.cpp *)
let n_of_int i = n_of_i64 (Int64.of_int i)
let int_of_n x = Int64.to_int (i64_of_n x)
(* buffer contents are lists of ELEMENTS, 2 * sizeof(Char) hex digits each *)
let width = ref 1
let unhex (h : String.t) : n list =
  if h = "-" then [] else
  let d = 2 * !width in
  List.init (String.length h / d) (fun i -> n_of_i64 (Int64.of_string ("0x" ^ String.sub h (d * i) d)))
let hex (l : n list) : String.t =
  if l = [] then "-" else String.concat "" (List.map (fun b -> Printf.sprintf "%0*Lx" (2 * !width) (i64_of_n b)) l)
let junk () = n_of_i64 (match !width with 1 -> 0xCDL | 2 -> 0xCDCDL | _ -> 0xCDCDCDCDL)
let nat s = nat_of_int (int_of_string s)

let vexp (tok : String.t) : vexp =
  match String.split_on_char ':' tok with
  | ["N"] -> ENull
  | ["P"; b; off; len] -> EPtrLen (nat b, n_of_string off, n_of_string len)
  | ["C"; b; off] -> ECstr (nat b, n_of_string off)
  | ["S"; k] -> EStr (nat k)
  | ["V"; k] -> EView (nat k)
  | _ -> failwith ("bad vexp " ^ tok)

let ty = function
  | "i8" -> (true, 8) | "i16" -> (true, 16) | "i32" -> (true, 32) | "i64" -> (true, 64)
  | "u8" -> (false, 8) | "u16" -> (false, 16) | "u32" -> (false, 32) | _ -> (false, 64)

let parse (l : String.t) : op option =
  match words l with
  | ["buf"; h] -> Some (OBuf (unhex h))
  | ["eq"; a; b] -> Some (OEq (vexp a, vexp b))
  | ["ff"; a; c; s] -> Some (OFf (vexp a, n_of_string c, n_of_string s))
  | ["ffo"; a; b; s] -> Some (OFfo (vexp a, vexp b, n_of_string s))
  | ["fl"; a; c] -> Some (OFl (vexp a, n_of_string c))
  | ["sub"; a; f; s] -> Some (OSub (vexp a, n_of_string f, n_of_string s))
  | ["sw"; a; b] -> Some (OSw (vexp a, vexp b))
  | ["ew"; a; b] -> Some (OEw (vexp a, vexp b))
  | ["num"; t; a] -> let (sg, bits) = ty t in Some (ONum (sg, n_of_int bits, vexp a))
  | ["hv"; a] -> Some (OHashV (vexp a))
  | ["len"; b; off] -> Some (OStrlen (nat b, n_of_string off))
  | ["nlen"; b; off; mx] -> Some (OStrnlen (nat b, n_of_string off, n_of_string mx))
  | ["snew"] -> Some OSNew
  | ["scs"; b; off] -> Some (OSCstr (nat b, n_of_string off))
  | ["spl"; b; off; len] -> Some (OSPtrLen (nat b, n_of_string off, n_of_string len))
  | ["sview"; a] -> Some (OSView (vexp a))
  | ["sfill"; n; c] -> Some (OSFill (n_of_string n, n_of_string c))
  (* the allocator-first compatibility overloads delegate to the constructors above; basic_string(size) fills with 0 *)
  | ["scsa"; b; off] -> Some (OSCstr (nat b, n_of_string off))
  | ["spla"; b; off; len] -> Some (OSPtrLen (nat b, n_of_string off, n_of_string len))
  | ["sviewa"; a] -> Some (OSView (vexp a))
  | ["sfill0"; n] -> Some (OSFill (n_of_string n, n_of_int 0))
  | ["scopy"; k] -> Some (OSCopy (nat k))
  | ["sassign"; d; s] -> Some (OSAssign (nat d, nat s))
  | ["sresize"; k; n] -> Some (OSResize (nat k, n_of_string n, junk ()))
  | ["splusv"; k; a] -> Some (OSPlusV (nat k, vexp a))
  | ["splusc"; k; c] -> Some (OSPlusC (nat k, n_of_string c))
  | ["sappv"; k; a] -> Some (OSAppV (nat k, vexp a))
  | ["sappc"; k; c] -> Some (OSAppC (nat k, n_of_string c))
  | ["spush"; k; c] -> Some (OSPush (nat k, n_of_string c))
  | ["scmp"; a; b] -> Some (OSCmp (nat a, nat b))
  | ["scmpc"; a; b; off] -> Some (OSCmpC (nat a, nat b, n_of_string off))
  | ["ssw"; k; a] -> Some (OSSw (nat k, vexp a))
  | ["sew"; k; a] -> Some (OSEw (nat k, vexp a))
  | ["hs"; k] -> Some (OSHash (nat k))
  | ["sdetach"; k] -> Some (OSDetach (nat k))
  | ["sswap"; a; b] -> Some (OSSwap (nat a, nat b))
  | ["sdel"; k] -> Some (OSDel (nat k))
  | ["smove"; k] -> Some (OSMoveCtor (nat k))
  | ["smovea"; d; s] -> Some (OSMoveAssign (nat d, nat s))
  | ["sbyval"; k] | ["sbyvalm"; k] -> Some (OSByVal (nat k))
  | ["traits"] -> Some OTraits
  | _ -> None

let show_ev = function
  | EAlloc (b, n) -> Printf.sprintf "ev a %d %s" (int_of_nat b) (string_of_n n)
  | EFree b -> Printf.sprintf "ev f %d" (int_of_nat b)
  | EDealloc (b, n) -> Printf.sprintf "ev d %d %s" (int_of_nat b) (string_of_n n)
  | _ -> "ev ?"

let show_out = function
  | OutUnit -> "u"
  | OutN n -> "n " ^ string_of_n n
  | OutB b -> if b then "b 1" else "b 0"
  | OutZ z -> "i " ^ string_of_z z
  | OutOpt None -> "none"
  | OutOpt (Some n) -> "v " ^ string_of_n n
  | OutView (VNull, _) -> "w null"
  | OutView (V (_, _, len), txt) -> Printf.sprintf "w %s %s" (string_of_n len) (hex txt)
  | OutStr (k, s, None) -> Printf.sprintf "s %d null %s" (int_of_nat k) (string_of_n s.slen)
  | OutStr (k, s, Some buf) -> Printf.sprintf "s %d %s %s" (int_of_nat k) (string_of_n s.slen) (hex buf)
  | OutTraits (a, b, c) -> Printf.sprintf "traits %d %d %d" (Bool.to_int a) (Bool.to_int b) (Bool.to_int c)
  | OutBad -> "bad-script"

let show_err = function
  | AssertStop _ -> "assert"
  | UB Oob -> "UB oob" | UB Null_deref -> "UB null" | UB Signed_overflow -> "UB signed-overflow"
  | UB Bad_free -> "UB bad-free" | UB Oob_write -> "UB oob-write"
  | OutOfFuel -> "out-of-fuel"
  | Ok _ -> "ok"

let body lines =
  let (ct, lines) = (match lines with
    | l :: r when (match words l with ["char"; _] -> true | _ -> false) ->
      ((match List.nth (words l) 1 with
        | "2" -> width := 2; char16_t | "4" -> width := 4; char32_t | "w" -> width := 4; wchar_t
        | _ -> width := 1; char_t), r)
    | _ -> width := 1; (char_t, lines)) in
  let w = ref (world0 ct) in
  let stopped = ref false in
  List.iter (fun l ->
    if not !stopped then
    match parse l with
    | None -> print_string ("?? " ^ l ^ "\n")
    | Some o ->
      let (r, w') = step !w o in
      w := w';
      (match r with
       | Ok (outs, evs) ->
         List.iter (fun x -> print_string (show_out x ^ "\n")) outs;
         List.iter (fun e -> print_string (show_ev e ^ "\n")) evs
       | e -> print_string (show_err e ^ "\n"); stopped := true)) lines;
  if not !stopped then begin
    let (r, s) = finish !w in
    (match r with
     | Ok evs -> List.iter (fun e -> print_string (show_ev e ^ "\n")) evs
     | e -> print_string (show_err e ^ "\n"));
    print_string (if wf_closed s.sevs then "closed 1\n" else "closed 0\n")
  end

let () = run_cases body
