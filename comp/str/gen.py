"""Script generator for frg::basic_string / basic_string_view (C15, C16 string part, C20 to_number part).
Every source buffer is an exact-size block; views are generated flush against its end (off+len == n) on
purpose.  Aimed at: the constructor from a view (D11), operator+ scratch buffer (D15), sub_string's bound check
(D32), to_number around every type's maximum (D12), signed-char comparison/hash (bytes >= 128), embedded NULs,
empty and null views, self-aliasing (s += s, s = s, swap(s, s))."""
import itertools

ALPHA = [0, ord('a'), ord('b'), ord('9')]
TYPES = ["i8", "i16", "i32", "i64", "u8", "u16", "u32", "u64"]
TMAX = {"i8": 2**7 - 1, "i16": 2**15 - 1, "i32": 2**31 - 1, "i64": 2**63 - 1,
        "u8": 2**8 - 1, "u16": 2**16 - 1, "u32": 2**32 - 1, "u64": 2**64 - 1}
MAX64 = 2**64 - 1


WIDTH = {"1": 1, "2": 2, "4": 4, "w": 4}      # script tag -> sizeof(Char): char, char16_t, char32_t, wchar_t
# elements whose low byte / low half agree, so that byte-count vs element-count confusions change the answer
WALPHA = {"2": [0, 0x61, 0x62, 0x0161, 0x6100], "4": [0, 0x61, 0x62, 0x10061, 0x61000000],
          "w": [0, 0x61, 0x62, 0xFFFFFF61, 0x7FFFFFFF]}


def hx(bs, w=1):
    return "".join("%0*x" % (2 * w, b) for b in bs) if bs else "-"


def small_strings(maxlen=4, alpha=ALPHA):
    out = []
    for n in range(maxlen + 1):
        out += [list(t) for t in itertools.product(alpha, repeat=n)]
    return out


def corpus():
    """Minimised past failures; run first."""
    cs = []
    # D11: basic_string(view) copied len+1 bytes: one byte past an exact-size source (ASan)
    cs.append(("corpus-d11-string-from-view", ["buf 393939", "sview P:0:0:3"]))
    cs.append(("corpus-d11-empty-view-at-end", ["buf 61", "sview P:0:1:0"]))
    # D12: to_number<int>("99999999999"): signed overflow (UBSan)
    cs.append(("corpus-d12-int-overflow", ["buf 3939393939393939393939", "num i32 P:0:0:11"]))
    cs.append(("corpus-d12-i64-overflow", ["buf " + hx([0x39] * 20), "num i64 P:0:0:20"]))
    # D15: operator+ never freed its scratch buffer (block registry)
    cs.append(("corpus-d15-plus-view-leak", ["buf 6100", "scs 0 0", "splusv 0 P:0:0:1"]))
    cs.append(("corpus-d15-plus-char-leak", ["snew", "splusc 0 98"]))
    # D32: sub_string's check from + size <= _length wrapped
    cs.append(("corpus-d32-substr-wrap", ["buf 61626364", "sub P:0:0:4 1 %d" % MAX64]))
    cs.append(("corpus-d32-substr-wrap2", ["buf 61626364", "sub P:0:0:4 %d 2" % (MAX64 - 1)]))
    # D34: allocate(sizeof(Char) * _length + 1): the terminator of a char16_t/char32_t string is written past the block
    cs.append(("corpus-d34-wide-terminator", ["char 2", "buf 006101610062", "spl 0 0 3"]))
    cs.append(("corpus-d34-wide-append-char", ["char 4", "snew", "sappc 0 97", "spush 0 98", "splusc 0 99"]))
    # seeded: operator== with memcmp(_pointer, other._pointer, _length): element count used as a byte count
    cs.append(("corpus-wide-eq-tail", ["char 2", "buf 00610062", "buf 00610063", "eq P:0:0:2 P:1:0:2", "sw P:0:0:2 P:1:0:2",
                                       "ew P:0:0:2 P:1:1:1", "ew P:0:0:2 P:1:0:2"]))
    cs.append(("corpus-wide-eq-tail32", ["char 4", "buf 00000061000000620000006300000064", "buf 00000061000000620000006300000065",
                                         "eq P:0:0:4 P:1:0:4", "eq P:0:1:3 P:1:1:3", "sw P:0:0:4 P:1:0:4"]))
    # seeded: a move constructor that steals the buffer but keeps the source's _length.  At HEAD std::move copies.
    use_src = ["hs 0", "scopy 0", "sappc 0 98", "spush 0 99", "sresize 0 2", "scmp 0 1", "sappv 0 S:1", "sdel 0"]
    cs.append(("corpus-move-ctor", ["traits", "buf 616200", "scs 0 0", "smove 0"] + use_src))
    cs.append(("corpus-move-assign", ["buf 616200", "scs 0 0", "snew", "smovea 1 0"] + use_src))
    cs.append(("corpus-move-assign-self", ["buf 616200", "scs 0 0", "smovea 0 0", "scopy 0", "spush 0 0"]))
    cs.append(("corpus-move-by-value", ["buf 616200", "scs 0 0", "sbyval 0", "sbyvalm 0", "scopy 0", "sresize 0 5", "spush 1 97", "scmp 0 1"]))
    cs.append(("corpus-move-empty", ["snew", "smove 0", "sbyvalm 0", "smovea 1 0", "spush 0 97", "smove 0", "sresize 0 0", "scmp 0 2"]))
    cs.append(("corpus-move-wide", ["char 2", "traits", "buf 006101610000", "scs 0 0", "smove 0", "scopy 0", "spush 0 354", "sresize 0 1", "scmp 0 1"]))
    # seeded: operator+(view) returning early for a buffer-less left operand AFTER allocating the scratch buffer (leak)
    cs.append(("corpus-plus-nobuf-default", ["buf 6162", "snew", "splusv 0 P:0:0:2", "splusc 0 99", "splusv 0 N"]))
    cs.append(("corpus-plus-nobuf-detached", ["buf 6162", "spl 0 0 2", "sdetach 0", "splusv 0 P:0:0:2", "splusv 0 S:0", "splusc 0 0"]))
    cs.append(("corpus-plus-nobuf-wide", ["char 4", "buf 0000006100010061", "snew", "splusv 0 P:0:0:2", "splusc 0 97"]))
    # seeded (r7): basic_string(Allocator, view) delegating to basic_string{view.data(), allocator}: the view's length is
    # dropped and the source re-measured with strlen (sub-view, embedded NUL, unterminated exact-size buffer)
    cs.append(("corpus-ctor-alloc-view-subview", ["buf 61626364", "sviewa P:0:1:2", "buf 6162636400", "sviewa P:1:0:2", "sviewa P:1:4:0"]))
    cs.append(("corpus-ctor-alloc-view-nul", ["buf 6100626300", "sviewa P:0:0:4", "sviewa P:0:1:3", "sviewa N", "sviewa S:0"]))
    cs.append(("corpus-ctor-overloads", ["buf 6162006300", "scsa 0 0", "scsa 0 3", "spla 0 1 3", "spla 0 5 0", "sfill0 3", "sfill0 0",
                                         "sviewa C:0:0", "sviewa S:2", "scmp 0 1"]))
    cs.append(("corpus-ctor-overloads-wide", ["char 2", "buf 00610062000000630000", "scsa 0 0", "spla 0 1 3", "sviewa P:0:0:4", "sviewa P:0:1:1", "sfill0 2"]))
    # assorted
    cs.append(("corpus-self-alias", ["buf 616200", "scs 0 0", "sappv 0 S:0", "sassign 0 0", "sswap 0 0", "splusv 0 S:0", "scmp 0 1", "hs 0"]))
    cs.append(("corpus-null-views", ["eq N N", "ff N 0 0", "fl N 0", "ffo N N 0", "sub N 0 0", "sw N N", "ew N V:0", "num u8 N", "hv N",
                                     "sview N", "snew", "sappv 1 N", "splusv 1 N", "scmp 0 1", "ssw 1 N", "sresize 1 0", "sdetach 1", "sdel 0"]))
    cs.append(("corpus-signed-char", ["buf 80", "buf 7f", "spl 0 0 1", "spl 1 0 1", "scmp 0 1", "scmp 1 0", "hs 0", "hv P:0:0:1", "hs 1"]))
    return cs


def pair_case(cid, a, b, ct="1"):
    """All binary operations on the pair (a, b); a and b sit in exact-size buffers, plus NUL-terminated copies.
    ct = character type tag; compare(const char*) exists for char only."""
    la, lb = len(a), len(b)
    w = WIDTH[ct]
    A, B = "P:0:0:%d" % la, "P:1:0:%d" % lb
    ls = ([] if ct == "1" else ["char " + ct]) + ["buf " + hx(a, w), "buf " + hx(b, w), "buf " + hx(a + [0], w), "buf " + hx(b + [0], w),
          "eq %s %s" % (A, B), "sw %s %s" % (A, B), "ew %s %s" % (A, B), "ffo %s %s 0" % (A, B),
          "spl 0 0 %d" % la, "sview %s" % B, "scmp 0 1", "scmp 1 0", "scmpc 0 3 0",
          "splusv 0 %s" % B, "ssw 2 %s" % A, "sew 2 %s" % B, "ssw 0 %s" % B, "sew 0 %s" % B,
          "eq C:2:0 C:3:0", "scs 2 0", "scmp 3 0",
          "sappv 1 %s" % A, "sassign 0 1", "scmp 0 1", "hs 0", "hv S:1", "hv %s" % A]
    if lb:
        ls += ["ffo %s %s 1" % (A, B), "sappc 0 %d" % b[0], "splusc 1 %d" % b[-1]]
    ls += ["sviewa %s" % A, "sviewa %s" % B, "spla 1 0 %d" % lb, "scsa 3 0", "sfill0 %d" % la]
    if la > 1:
        ls += ["sviewa P:0:1:%d" % (la - 1), "sviewa P:0:0:%d" % (la - 1), "sviewa P:2:0:%d" % (la - 1)]
    ls += ["smove 0", "scmp 0 1", "sappv 0 %s" % B, "smovea 1 0", "spush 0 0", "sbyvalm 1", "scopy 1", "sresize 1 %d" % la]
    if ct != "1":
        ls = [l for l in ls if not l.startswith("scmpc")]
    return (cid, ls)


def bufless_case(cid, a, ct="1"):
    """Every binary operation with a string that owns NO buffer (default-constructed, and detached) as left AND as right
    operand; a is the text of the ordinary operand.  Scratch-buffer leaks on such paths show as leak-block (C16)."""
    w = WIDTH[ct]
    la = len(a)
    c = a[0] if a else 0x61
    A = "P:0:0:%d" % la
    ls = ([] if ct == "1" else ["char " + ct]) + ["buf " + hx(a, w), "buf " + hx(a + [0], w)]
    n = [0]
    def new(line):
        ls.append(line); n[0] += 1; return n[0] - 1
    d = new("snew")                               # default-constructed
    t = new("spl 0 0 %d" % la); ls.append("sdetach %d" % t)    # detached
    x = new("spl 0 0 %d" % la)                    # ordinary
    for e in (d, t):
        # operator+ : buffer-less left operand with view / char / own view / null view; buffer-less RIGHT operand (as view)
        new("splusv %d %s" % (e, A)); new("splusc %d %d" % (e, c)); new("splusv %d S:%d" % (e, e)); new("splusv %d N" % e)
        new("splusv %d S:%d" % (x, e)); new("splusv %d S:%d" % (e, x))
        ls += ["scmp %d %d" % (e, x), "scmp %d %d" % (x, e), "scmp %d %d" % (e, e), "scmp %d %d" % (d, t), "hs %d" % e,
               "hv S:%d" % e, "eq S:%d S:%d" % (e, x), "eq S:%d N" % e, "ssw %d %s" % (e, A), "sew %d S:%d" % (x, e),
               "ssw %d S:%d" % (e, e), "ffo S:%d %s 0" % (e, A), "ffo %s S:%d 0" % (A, e), "sbyval %d" % e]
        new("scopy %d" % e); new("smove %d" % e); new("sview S:%d" % e)
        # assignment: buffer-less source, buffer-less destination, both
        y = new("scopy %d" % x); ls.append("sassign %d %d" % (y, e))
        z = new("snew"); ls.append("sassign %d %d" % (z, x))
        z2 = new("snew"); ls.append("sassign %d %d" % (z2, e)); ls.append("smovea %d %d" % (z2, e))
        # += / push_back / resize starting from a buffer-less string (each on a fresh one), and with a buffer-less right operand
        for op in ("sappv %%d %s" % A, "sappc %%d %d" % c, "spush %%d %d" % c, "sresize %d 0", "sresize %%d %d" % (la + 1),
                   "sappv %d N", "sappv %%d S:%d" % e):
            f = new("snew")
            if e == t:
                ls.append("sdetach %d" % f)
            ls.append(op % f if op.count("%d") == 1 else op % (f, f))
        ls.append("sappv %d S:%d" % (x, e))
        ls.append("sswap %d %d" % (e, x)); ls.append("sswap %d %d" % (e, x))
    ls += ["sdetach %d" % d, "sdel %d" % t]
    return (cid, ls)


def bufless_cases(maxlen=2):
    out = []
    for ct in ("1", "2", "4", "w"):
        alpha = ALPHA if ct == "1" else WALPHA[ct]
        for i, a in enumerate(small_strings(maxlen, alpha[:3])):
            out.append(bufless_case("nobuf%s-%d" % (ct, i), a, ct))
    return out


def wide_strings(ct, maxlen):
    return small_strings(maxlen, WALPHA[ct])


def wide_pairs(rng, n, ct, maxlen=3):
    ss = wide_strings(ct, maxlen)
    out = []
    for i in range(n):
        a = rng.choice(ss)
        k = rng.random()
        if k < 0.35 and a:          # same length, differing in one position (often the tail)
            b = list(a); j = len(a) - 1 if rng.random() < 0.6 else rng.randrange(len(a))
            b[j] = rng.choice([x for x in WALPHA[ct] if x != a[j]])
        elif k < 0.55:
            b = list(a[:rng.randrange(len(a) + 1)]) if rng.random() < 0.5 else list(a[rng.randrange(len(a) + 1):])
        else:
            b = rng.choice(ss)
        out.append(pair_case("wpair%s-%d" % (ct, i), a, b, ct))
    return out


def wide_pairs_exhaustive(ct, maxlen=3):
    ss = wide_strings(ct, maxlen)
    return [pair_case("wpairx%s-%d-%d" % (ct, i, j), a, b, ct) for i, a in enumerate(ss) for j, b in enumerate(ss)]


def wide_unary(ct, maxlen=2):
    out = []
    for i, a in enumerate(wide_strings(ct, maxlen)):
        for cid, ls in unary_cases("wun%s-%d" % (ct, i), a, ct):
            out.append((cid, ls))
    return out


def unary_cases(prefix, a, ct="1"):
    """Operations on one string, with every start / from / size around its length."""
    la = len(a)
    w = WIDTH[ct]
    A = "P:0:0:%d" % la
    base = ([] if ct == "1" else ["char " + ct]) + ["buf " + hx(a, w), "buf " + hx(a + [0], w)]
    ls = list(base)
    for c in (ALPHA if ct == "1" else WALPHA[ct]):
        for st in range(la + 2):
            ls.append("ff %s %d %d" % (A, c, st))
        ls.append("fl %s %d" % (A, c))
    ls += ["hv " + A, "len 1 0", "nlen 1 0 %d" % la, "nlen 0 0 %d" % la, "nlen 1 0 %d" % (la + 1), "nlen 1 0 0"]
    if ct == "1":
        for t in TYPES:
            ls.append("num %s %s" % (t, A))
    for fr in range(la + 1):
        for sz in range(la - fr + 1):
            ls.append("sub %s %d %d" % (A, fr, sz))
    ls += ["spl 0 0 %d" % la, "scopy 0", "sresize 0 %d" % (la + 2), "sresize 1 %d" % max(0, la - 1), "sresize 1 0",
           "spush 0 0", "spush 0 97", "sfill %d 98" % la, "scmp 0 2", "sdetach 0", "sdel 1", "snew", "sassign 3 2", "sassign 2 0"]
    # every constructor overload, incl. the allocator-first compatibility ones, on the whole text, on every sub-view of the
    # exact-size (unterminated) buffer and on views of the NUL-terminated copy
    ls += ["sviewa %s" % A, "sviewa P:1:0:%d" % la, "sviewa P:1:0:%d" % (la + 1), "spla 0 0 %d" % la, "scsa 1 0", "sfill0 %d" % la]
    for fr in range(la + 1):
        for sz in range(la - fr + 1):
            if (fr, sz) != (0, la):
                ls.append("sviewa P:0:%d:%d" % (fr, sz))
    out = [(prefix + "-ops", ls)]
    # requests outside the view: each ends the case in the assertion hook
    k = 0
    for fr, sz in [(la + 1, 0), (0, la + 1), (la, 1), (1, MAX64), (MAX64, 1), (MAX64, 2), (2**63, 2**63), (la + 1, MAX64)]:
        out.append(("%s-oob%d" % (prefix, k), base + ["sub %s %d %d" % (A, fr, sz)])); k += 1
    return out


def exhaustive_pairs(maxlen=4):
    ss = small_strings(maxlen)
    out = []
    for i, a in enumerate(ss):
        for j, b in enumerate(ss):
            out.append(pair_case("pair-%d-%d" % (i, j), a, b))
    return out


def sample_pairs(rng, n, maxlen=4):
    ss = small_strings(maxlen)
    out = []
    for i in range(n):
        a, b = rng.choice(ss), rng.choice(ss)
        if rng.random() < 0.3:
            b = list(a[:rng.randrange(len(a) + 1)]) if rng.random() < 0.5 else list(a[rng.randrange(len(a) + 1):])
        out.append(pair_case("spair-%d" % i, a, b))
    return out


def exhaustive_unary(maxlen=4):
    out = []
    for i, a in enumerate(small_strings(maxlen)):
        out += unary_cases("un-%d" % i, a)
    return out


def number_cases():
    """Digit strings around every type's maximum, non-digits at every position, long runs."""
    out = []
    texts = set()
    for t in TYPES:
        m = TMAX[t]
        for v in (m - 1, m, m + 1, m + 9, m * 10, m * 10 + 7, m // 10, m // 10 + 1, 10 * (m // 10), 10 * (m // 10) + 9, 2 * m + 1, 2 * m + 2):
            texts.add(str(v)); texts.add("0" + str(v)); texts.add("000" + str(v))
        s = str(m)
        for pos in range(len(s) + 1):
            for ch in "/:a -+\x00":
                texts.add(s[:pos] + ch + s[pos:])
    for n in (0, 1, 2, 19, 20, 21, 25, 40):
        texts.add("9" * n); texts.add("0" * n); texts.add("1" + "0" * n)
    texts |= {"", "0", "7", "00", "-1", "+1", " 1", "1 ", "\xb0", "12\xb9"}
    for i, tx in enumerate(sorted(texts)):
        bs = [ord(c) for c in tx]
        ls = ["buf " + hx(bs)] + ["num %s P:0:0:%d" % (t, len(bs)) for t in TYPES]
        out.append(("num-%d" % i, ls))
    return out


def number_small_exhaustive(maxlen=5):
    """Every byte string of length <= maxlen over {'0','9','2','a'} for every type (C20 small scope)."""
    out = []
    k = 0
    for n in range(maxlen + 1):
        for t in itertools.product([0x30, 0x39, 0x32, 0x61], repeat=n):
            bs = list(t)
            out.append(("numx-%d" % k, ["buf " + hx(bs)] + ["num %s P:0:0:%d" % (ty, len(bs)) for ty in TYPES])); k += 1
    return out


class Rand:
    """Random longer scripts with a pool of buffers, strings and stored views."""
    def __init__(self, rng, ct="1"):
        self.rng = rng
        self.ct = ct
        self.w = WIDTH[ct]
        self.lines = [] if ct == "1" else ["char " + ct]
        self.bufs = []      # byte lists
        self.strs = []      # byte list or None (destroyed)
        self.views = []     # (safe, bytes)   safe = does not point into a string's buffer
        self.nobuf = set()  # strings that own no buffer: default-constructed or detached, not modified since

    def rbytes(self, n):
        r = self.rng
        if self.ct != "1":
            top = (1 << (8 * self.w)) - 1
            mode = r.choice(["alpha", "alpha", "edge", "any"])
            if mode == "alpha":
                return [r.choice(WALPHA[self.ct]) for _ in range(n)]
            if mode == "edge":
                return [r.choice([0, 1, 0x61, 0xFF, 0x100, 0x161, top, top >> 1, (top >> 1) + 1, 0x6100]) & top for _ in range(n)]
            return [r.randrange(top + 1) for _ in range(n)]
        mode = r.choice(["small", "small", "any", "hi", "digits"])
        if mode == "small":
            return [r.choice(ALPHA) for _ in range(n)]
        if mode == "hi":
            return [r.choice([0, 0x7f, 0x80, 0xff, 0x61, 0x81]) for _ in range(n)]
        if mode == "digits":
            return [r.choice([0x30, 0x31, 0x39, 0x39, 0x35]) for _ in range(n)]
        return [r.randrange(256) for _ in range(n)]

    def add_buf(self):
        r = self.rng
        n = r.choice([0, 1, 2, 3, 5, 8, 13, 21, 40])
        bs = self.rbytes(n)
        if r.random() < 0.6:
            bs = bs + [0]
        self.bufs.append(bs)
        self.lines.append("buf " + hx(bs, self.w))

    def vexp(self, allow_str=True):
        """-> (token, bytes)"""
        r = self.rng
        for _ in range(20):
            k = r.random()
            if k < 0.08:
                return "N", []
            if k < 0.55 and self.bufs:
                b = r.randrange(len(self.bufs)); n = len(self.bufs[b])
                if r.random() < 0.5:        # flush against the end of the block
                    off = r.randrange(n + 1); ln = n - off
                else:
                    off = r.randrange(n + 1); ln = r.randrange(n - off + 1)
                return "P:%d:%d:%d" % (b, off, ln), self.bufs[b][off:off + ln]
            if k < 0.7 and self.bufs:
                b = r.randrange(len(self.bufs)); bs = self.bufs[b]
                zs = [i for i, x in enumerate(bs) if x == 0]
                if not zs:
                    continue
                off = r.randrange(zs[-1] + 1)
                end = next(i for i in zs if i >= off)
                return "C:%d:%d" % (b, off), bs[off:end]
            if k < 0.88 and allow_str:
                live = [i for i, s in enumerate(self.strs) if s is not None]
                if live:
                    i = r.choice(live)
                    return "S:%d" % i, self.strs[i]
            safe = [i for i, (s, _) in enumerate(self.views) if s]
            if safe:
                i = r.choice(safe)
                return "V:%d" % i, self.views[i][1]
        return "N", []

    def live(self):
        live = [i for i, s in enumerate(self.strs) if s is not None]
        # bias: strings that own no buffer (default-constructed / detached and untouched since) are preferred operands
        nb = [i for i in live if i in self.nobuf]
        return live + nb * 3 if nb else live

    def cstr(self):
        """-> (buf, off, bytes) of a NUL-terminated position, or None"""
        r = self.rng
        cands = [(b, bs) for b, bs in enumerate(self.bufs) if 0 in bs]
        if not cands:
            return None
        b, bs = r.choice(cands)
        zs = [i for i, x in enumerate(bs) if x == 0]
        off = r.randrange(zs[-1] + 1)
        end = next(i for i in zs if i >= off)
        return b, off, bs[off:end]

    def op(self):
        r = self.rng
        L = self.lines
        kind = r.choice(["eq", "ff", "ffo", "fl", "sub", "sw", "ew", "num", "hv", "len", "nlen",
                         "snew", "scs", "spl", "sview", "sfill", "scopy", "sassign", "sresize", "splusv", "splusc",
                         "sappv", "sappv", "sappc", "spush", "scmp", "scmpc", "ssw", "sew", "hs", "sdetach", "sswap", "sdel", "buf",
                         "smove", "smove", "smovea", "sbyval", "sbyvalm", "traits"])
        live = self.live()
        if self.ct != "1" and kind in ("num", "scmpc"):
            kind = "eq"
        top = (1 << (8 * self.w)) - 1
        if kind == "buf" or not self.bufs:
            self.add_buf(); return
        if kind in ("eq", "sw", "ew"):
            a, ab = self.vexp(); b, bb = self.vexp()
            if r.random() < 0.3:
                b, bb = a, ab
            L.append("%s %s %s" % (kind, a, b))
        elif kind == "ff":
            a, ab = self.vexp()
            c = r.choice(ab) if ab and r.random() < 0.7 else r.randrange(top + 1)
            L.append("ff %s %d %d" % (a, c, r.choice([0, 0, 1, len(ab), len(ab) + 1, r.randrange(len(ab) + 2), MAX64])))
        elif kind == "ffo":
            a, ab = self.vexp(); b, bb = self.vexp()
            L.append("ffo %s %s %d" % (a, b, r.choice([0, 0, 1, len(ab), r.randrange(len(ab) + 2)])))
        elif kind == "fl":
            a, ab = self.vexp()
            c = r.choice(ab) if ab and r.random() < 0.7 else r.randrange(top + 1)
            L.append("fl %s %d" % (a, c))
        elif kind == "sub":
            a, ab = self.vexp()
            fr = r.randrange(len(ab) + 1); sz = r.randrange(len(ab) - fr + 1)
            if r.random() < 0.4:
                sz = len(ab) - fr
            L.append("sub %s %d %d" % (a, fr, sz))
            self.views.append((not a.startswith("S:") and not (a.startswith("V:") and not self.views[int(a[2:])][0]), ab[fr:fr + sz]))
        elif kind == "num":
            a, ab = self.vexp()
            L.append("num %s %s" % (r.choice(TYPES), a))
        elif kind == "hv":
            L.append("hv %s" % self.vexp()[0])
        elif kind in ("len", "scs", "scmpc"):
            c = self.cstr()
            if c is None:
                return
            b, off, bs = c
            if kind == "len":
                L.append("len %d %d" % (b, off))
            elif kind == "scs":
                L.append("scs %d %d" % (b, off)); self.strs.append(list(bs))
            elif live:
                L.append("scmpc %d %d %d" % (r.choice(live), b, off))
        elif kind == "nlen":
            b = r.randrange(len(self.bufs)); bs = self.bufs[b]
            off = r.randrange(len(bs) + 1)
            rest = bs[off:]
            mx = r.randrange(len(rest) + 1)
            if 0 in rest and r.random() < 0.5:
                mx = r.choice([len(rest) + 3, MAX64, mx])
            L.append("nlen %d %d %d" % (b, off, mx))
        elif kind == "snew":
            L.append("snew"); self.strs.append([]); self.nobuf.add(len(self.strs) - 1)
        elif kind == "spl":
            b = r.randrange(len(self.bufs)); n = len(self.bufs[b])
            off = r.randrange(n + 1); ln = n - off if r.random() < 0.5 else r.randrange(n - off + 1)
            L.append("spl %d %d %d" % (b, off, ln)); self.strs.append(self.bufs[b][off:off + ln])
        elif kind == "sview":
            a, ab = self.vexp()
            L.append("sview " + a); self.strs.append(list(ab))
        elif kind == "sfill":
            n = r.choice([0, 1, 3, 17]); c = r.randrange(top + 1)
            L.append("sfill %d %d" % (n, c)); self.strs.append([c] * n)
        elif not live:
            L.append("snew"); self.strs.append([]); self.nobuf.add(len(self.strs) - 1)
        elif kind == "scopy":
            k = r.choice(live); L.append("scopy %d" % k); self.strs.append(list(self.strs[k]))
        elif kind == "smove":       # at HEAD a move is a copy; the source is used again by the following ops
            k = r.choice(live); L.append("smove %d" % k); self.strs.append(list(self.strs[k]))
            self.use_again(k)
        elif kind == "smovea":
            d, s = r.choice(live), r.choice(live)
            L.append("smovea %d %d" % (d, s)); self.strs[d] = list(self.strs[s]); self.nobuf.discard(d)
            self.use_again(s)
        elif kind in ("sbyval", "sbyvalm"):
            k = r.choice(live); L.append("%s %d" % (kind, k))
            if kind == "sbyvalm":
                self.use_again(k)
        elif kind == "traits":
            L.append("traits")
        elif kind == "sassign":
            d, s = r.choice(live), r.choice(live)
            L.append("sassign %d %d" % (d, s)); self.strs[d] = list(self.strs[s]); self.kill_views(); self.nobuf.discard(d)
        elif kind == "sresize":
            k = r.choice(live); n = r.choice([0, 1, len(self.strs[k]), len(self.strs[k]) + 1, max(0, len(self.strs[k]) - 1), r.randrange(30)])
            L.append("sresize %d %d" % (k, n)); self.nobuf.discard(k)
            s = self.strs[k]
            self.strs[k] = (s + [int('cd' * self.w, 16)] * n)[:n]
        elif kind == "splusv":
            k = r.choice(live); a, ab = self.vexp()
            L.append("splusv %d %s" % (k, a)); self.strs.append(self.strs[k] + list(ab))
        elif kind == "splusc":
            k = r.choice(live); c = r.randrange(top + 1)
            L.append("splusc %d %d" % (k, c)); self.strs.append(self.strs[k] + [c])
        elif kind == "sappv":
            k = r.choice(live); a, ab = self.vexp()
            if r.random() < 0.15:
                a, ab = "S:%d" % k, self.strs[k]
            L.append("sappv %d %s" % (k, a)); self.strs[k] = self.strs[k] + list(ab); self.nobuf.discard(k)
        elif kind in ("sappc", "spush"):
            k = r.choice(live); c = r.choice([0, 0x61, r.randrange(top + 1)])
            L.append("%s %d %d" % (kind, k, c)); self.strs[k] = self.strs[k] + [c]; self.nobuf.discard(k)
        elif kind == "scmp":
            a, b = r.choice(live), r.choice(live)
            L.append("scmp %d %d" % (a, b))
        elif kind in ("ssw", "sew"):
            k = r.choice(live); a, ab = self.vexp()
            if r.random() < 0.5 and self.strs[k]:
                # a real prefix / suffix through a fresh exact-size buffer
                s = self.strs[k]; cut = r.randrange(len(s) + 1)
                bs = s[:cut] if kind == "ssw" else s[cut:]
                self.bufs.append(list(bs)); L.append("buf " + hx(bs, self.w))
                a = "P:%d:0:%d" % (len(self.bufs) - 1, len(bs))
            L.append("%s %d %s" % (kind, k, a))
        elif kind == "hs":
            L.append("hs %d" % r.choice(live))
        elif kind == "sdetach":
            k = r.choice(live); L.append("sdetach %d" % k); self.strs[k] = []; self.nobuf.add(k)
        elif kind == "sswap":
            a, b = r.choice(live), r.choice(live)
            L.append("sswap %d %d" % (a, b)); self.strs[a], self.strs[b] = self.strs[b], self.strs[a]
            ina, inb = a in self.nobuf, b in self.nobuf
            self.nobuf.discard(a); self.nobuf.discard(b)
            if inb: self.nobuf.add(a)
            if ina: self.nobuf.add(b)
        elif kind == "sdel":
            if r.random() < 0.5:
                k = r.choice(live); L.append("sdel %d" % k); self.strs[k] = None

    def use_again(self, k):
        self.nobuf.discard(k)
        """keep using a moved-from string: size/data (every op prints them), copy, +=, push_back, resize, compare, hash"""
        r = self.rng
        L = self.lines
        for _ in range(r.choice([1, 2, 3])):
            u = r.choice(["scopy", "spush", "sappc", "sresize", "scmp", "hs", "sappv", "splusc"])
            if u == "scopy":
                L.append("scopy %d" % k); self.strs.append(list(self.strs[k]))
            elif u in ("spush", "sappc"):
                c = r.choice([0, 0x61]); L.append("%s %d %d" % (u, k, c)); self.strs[k] = self.strs[k] + [c]
            elif u == "sresize":
                n = r.choice([0, 1, len(self.strs[k]), len(self.strs[k]) + 2]); L.append("sresize %d %d" % (k, n))
                self.strs[k] = (self.strs[k] + [int('cd' * self.w, 16)] * n)[:n]
            elif u == "scmp":
                L.append("scmp %d %d" % (k, r.choice(self.live())))
            elif u == "hs":
                L.append("hs %d" % k)
            elif u == "sappv":
                L.append("sappv %d S:%d" % (k, k)); self.strs[k] = self.strs[k] + self.strs[k]
            else:
                L.append("splusc %d 98" % k); self.strs.append(self.strs[k] + [98])

    def kill_views(self):
        pass   # stored views derived from strings are never marked safe, nothing to do


def gen_case(rng, n_ops, ct="1"):
    g = Rand(rng, ct)
    g.add_buf(); g.add_buf()
    for _ in range(n_ops):
        g.op()
    return g.lines
