"""str component (frg::basic_string_view, frg::basic_string, string hashes, to_number): builds the model driver and the
harness, generates cases, runs legs C and O into the given Check.
Used by checks/c15.py (functional kinds), checks/c16_str.py (lifetime/allocation kinds) and checks/c20_str.py
(parts=("number",): the to_number parser on arbitrary bytes)."""
import os, re
import vlib
from comp.str import gen

RULE = ("harness instantiated for char, char16_t, char32_t and wchar_t (all operations except to_number / compare(const char*) for the "
        "wide types; alphabets with elements that agree in their low byte/half); seeded op scripts over exact-size heap buffers (ASan redzone right after the last byte): all constructors, copy, "
        "assignment, resize, +/+= (view, char), push_back, compare/== (string, C string), find_first/find_first_of/find_last, "
        "sub_string (incl. requests that wrap size_t), starts_with/ends_with, to_number<T> for 8 integer types, both hashes, "
        "strlen/strnlen, detach, swap; quick: corpus + sampled pairs of strings of length <= 4 over {0,'a','b','9'} + unary sweeps "
        "+ number strings around every type's maximum + random longer scripts (all 256 byte values); thorough: ALL pairs. "
        "non-trivial = distinct script that uses at least one view ending exactly at the end of its buffer or an owning-string op")
TRUSTED = ["extraction: ExtrOcamlBasic only; OCaml 4.13.1; comp/str/driver.ml (parsing/printing)",
           "correspondence harness comp/str/harness.cpp (g++ -fsanitize=address,undefined, -fno-access-control); "
           "allocator wrapper fills fresh blocks with 0xCD (the model's junk input of resize)",
           "oracle: std::string / std::string_view, ASan/UBSan, block registry of lib/vharness.hpp",
           "modelled, not verified: memcpy as read-range + splice; pointer arithmetic as (buffer, offset); char is signed (x86-64); "
           "operator+ returns its named local by NRVO (g++ 12 / clang 14 always do)"]
ASSUMPTIONS = ["C-string arguments are NUL-terminated inside their buffer; (pointer, length) arguments lie inside their buffer",
               "views handed to an operation are not dangling", "lengths stay below 2^64 - 1 (len + 1 does not wrap)",
               "bytes exposed by a growing resize are unspecified (model input)"]

_flush = re.compile(r"P:(\d+):(\d+):(\d+)")

def nontrivial(cid, lines, ri):
    sizes = []
    hit = False
    for l in lines:
        if l.startswith("buf "):
            h = l.split()[1]
            sizes.append(0 if h == "-" else len(h) // 2)
        elif l[0] == "s" and not l.startswith("sub") and not l.startswith("sw"):
            hit = True
        else:
            for m in _flush.finditer(l):
                b, off, ln = int(m.group(1)), int(m.group(2)), int(m.group(3))
                if b < len(sizes) and off + ln == sizes[b]:
                    hit = True
    return "|".join(lines) if hit else None

def build(c):
    okm, mlog = vlib.coq_make(["Str/StrExtract.vo"])
    okd, drv, dlog = vlib.ocaml_build("str_m", ["str_model"], os.path.join(vlib.ROOT, "comp/str/driver.ml"))
    okh, har, hlog = vlib.cxx_build("str_h", os.path.join(vlib.ROOT, "comp/str/harness.cpp"))
    if not (okm and okd):
        c.broken.append("str model extraction/driver build failed: " + (mlog[-400:] if not okm else dlog[-500:]))
    if not okh:
        c.broken.append("str harness does not compile against the repo: " + hlog[-1500:])
    return (okm and okd), drv, okh, har

def cases_for(c, parts):
    cases = []
    quick = c.tier == "quick"
    if "all" in parts:
        cases += gen.corpus()
        cases += gen.sample_pairs(c.rng, 1500) if quick else gen.exhaustive_pairs(4)
        cases += gen.exhaustive_unary(3 if quick else 4)
        cases += gen.bufless_cases(1 if quick else 2)      # buffer-less (default-constructed / detached) operands, all char types
        for i in range(700 if quick else 6000):
            cases.append(("r%d" % i, gen.gen_case(c.rng, c.rng.choice([8, 20, 40, 80]))))
        # the same operations instantiated for char16_t, char32_t, wchar_t (everything except to_number / compare(const char*))
        for ct in ("2", "4", "w"):
            cases += gen.wide_pairs(c.rng, 500, ct) if quick else gen.wide_pairs_exhaustive(ct, 3)
            cases += gen.wide_unary(ct, 1 if quick else 2)
            for i in range(150 if quick else 1500):
                cases.append(("rw%s-%d" % (ct, i), gen.gen_case(c.rng, c.rng.choice([8, 20, 40]), ct)))
    if "all" in parts or "number" in parts:
        cases += [x for x in gen.corpus() if "d12" in x[0]] if "all" not in parts else []
        cases += gen.number_cases()
        cases += gen.number_small_exhaustive(3 if quick else 6)
    return cases

def run(c, parts=("all",)):
    """legs C and O; returns False if the harness could not be built."""
    if isinstance(parts, str):
        # the combined checks (lib/merged.py) pass the property id: C20 = the to_number parser, anything else = everything
        parts = ("number",) if parts.upper().startswith("C20") else ("all",)
    okd, drv, okh, har = build(c)
    if not okh:
        return False
    cases = vlib.read_replay(c.replay) if c.replay else cases_for(c, parts)
    for _, ls in cases:
        c.count("str_cases")
        c.count("str_chartype_" + (ls[0].split()[1] if ls and ls[0].startswith("char ") else "1"))
        c.count("str_ops", len(ls))
        for l in ls:
            k = l.split()[0]
            if k == "char":
                continue
            if k == "num":
                c.count("str_num_" + l.split()[1])
            elif k != "buf":
                c.count("str_op_" + k)
    impl = vlib.run_cases(har, cases)
    model = vlib.run_cases(drv, cases) if okd else {}
    c.compare(cases, impl, model, nontrivial)
    return True
