"""Script generators for the locks component (C12).

Guards: op scripts over <= 6 guard slots and <= 3 mutexes:
  new K g m | defer K g m | adopt K g m | empty K g | mvc K g h | mva g h | swap g h |
  lock g | unlock g | del g | isl g | prot g m | end          (K: u unique_lock, s shared_lock, q QS lock_guard)
A tiny simulator steers generation towards well-typed scripts (it is NOT used to judge results):
mostly-valid streams, with a small share of assertion-ending / ill-typed / null-mutex ops.
Aimed at: move-assign over an owning target, self move-assign, self swap, swap of owning/non-owning,
moved-from guards being locked/destroyed, adopt, relock after unlock, destroy order.

Spinlocks: single-threaded API scripts  (T|S) then  lock | unlock | trylock-like probes | isl,
with counters preset near 2^32 to cross the uint32 wrap.
"""
import itertools

KINDS = "usq"


class Sim:
    """generation-steering simulator: slot -> [kind, mutex|None, owns]"""
    def __init__(self):
        self.g = {}

    def clone(self):
        s = Sim(); s.g = {k: list(v) for k, v in self.g.items()}; return s

    def key(self):
        return tuple(sorted((k, tuple(v)) for k, v in self.g.items()))

    def held(self, m):
        return any(v[2] and v[1] == m for v in self.g.values())

    def classify(self, t):
        """-> 'ok' | 'invalid' | 'assert' | 'ub' | 'relock' (valid but asks for a self-deadlock)"""
        o = t[0]
        g = self.g
        if o in ("new", "defer", "adopt", "empty"):
            k, a = t[1], t[2]
            if a in g or (k == "q" and o != "new"):
                return "invalid"
            if o == "new" and any(v[2] and v[1] == t[3] and (v[0] != "s" or k != "s") for v in g.values()):
                return "relock"
            if o == "adopt" and any(v[2] and v[1] == t[3] and (v[0] != "s" or k != "s") for v in g.values()):
                return "relock"
            return "ok"
        if o == "mvc":
            k, a, b = t[1], t[2], t[3]
            return "ok" if (a not in g and b in g and k != "q" and g[b][0] == k) else "invalid"
        if o in ("gnew", "gdefer"):     # frg::guard(&m) / frg::guard(dont_lock, &m): as `new u` / `defer u`
            return self.classify((("new" if o == "gnew" else "defer"), "u", t[1], t[2]))
        if o in ("cpc", "cpa"):
            return "invalid"
        if o in ("mva", "swap"):
            a, b = t[1], t[2]
            return "ok" if (a in g and b in g and g[a][0] != "q" and g[a][0] == g[b][0]) else "invalid"
        a = t[1]
        if a not in g:
            return "invalid"
        v = g[a]
        if o == "lock":
            if v[2]:
                return "assert"
            if v[1] is None:
                return "ub"
            if any(w[2] and w[1] == v[1] and (w[0] != "s" or v[0] != "s") for w in g.values()):
                return "relock"
            return "ok"
        if o == "unlock":
            return "ok" if v[2] else "assert"
        return "ok"

    def apply(self, t):
        o = t[0]; g = self.g
        if o == "gnew": g[t[1]] = ["u", t[2], True]
        elif o == "gdefer": g[t[1]] = ["u", t[2], False]
        elif o == "new": g[t[2]] = [t[1], t[3], True]
        elif o == "defer": g[t[2]] = [t[1], t[3], False]
        elif o == "adopt": g[t[2]] = [t[1], t[3], True]
        elif o == "empty": g[t[2]] = [t[1], None, False]
        elif o == "mvc": g[t[2]] = list(g[t[3]]); g[t[3]] = [t[1], None, False]
        elif o == "mva":
            src = list(g[t[2]]); g[t[2]] = [src[0], None, False]; g[t[1]] = src
        elif o == "swap": g[t[1]], g[t[2]] = g[t[2]], g[t[1]]
        elif o == "lock": g[t[1]][2] = True
        elif o == "unlock": g[t[1]][2] = False
        elif o == "del": del g[t[1]]


def fmt(t):
    return " ".join(str(x) for x in t)


def all_ops(ng, nm, kinds=KINDS):
    ops = []
    if "u" in kinds:
        for g in range(ng):
            for m in range(nm):
                ops.append(("gnew", g, m)); ops.append(("gdefer", g, m))
    for k in kinds:
        for g in range(ng):
            for m in range(nm):
                ops.append(("new", k, g, m))
                if k != "q":
                    ops.append(("defer", k, g, m)); ops.append(("adopt", k, g, m))
            if k != "q":
                ops.append(("empty", k, g))
            for h in range(ng):
                if h != g:
                    ops.append(("mvc", k, g, h))      # for q: offered by no guard in the model -> `invalid` unless the real type offers it
                    ops.append(("cpc", k, g, h))      # copy construction: offered by none
    for g in range(ng):
        for h in range(ng):
            ops.append(("mva", g, h)); ops.append(("swap", g, h)); ops.append(("cpa", g, h))
        ops += [("lock", g), ("unlock", g), ("del", g)]
    return ops


def gen_guard_case(rng, n_ops, ng=None, nm=None):
    ng = ng or rng.choice([2, 3, 4, 6]); nm = nm or rng.choice([1, 2, 2, 3])
    kinds = rng.choice(["u", "s", "us", "usq", "usq", "q", "uq"])
    ops = all_ops(ng, nm, kinds)
    sim = Sim(); lines = ["api"]
    p_bad = rng.choice([0.0, 0.0, 0.02, 0.1])
    for _ in range(n_ops):
        r = rng.random()
        if r < 0.12 and sim.g:
            g = rng.choice(list(sim.g))
            lines.append(fmt(("isl", g)) if rng.random() < 0.4 else fmt(("prot", g, rng.randrange(nm))))
            continue
        for _try in range(40):
            t = rng.choice(ops)
            c = sim.classify(t)
            if c == "ok":
                break
            if c == "relock" and rng.random() < 0.03:
                break
            if c in ("invalid", "assert", "ub") and rng.random() < p_bad:
                break
        else:
            continue
        lines.append(fmt(t))
        if c in ("assert", "ub"):
            return lines            # the run stops there
        if c in ("ok", "relock"):
            sim.apply(t)
    lines.append("end")
    return lines


def guard_corpus():
    """minimised past failures first"""
    return [
        # D04: qs.hpp lock_guard::unlock() called _mutex->lock()  (fixed; reverting the fix fails here)
        ("corpus-d04-unlock", ["new q 0 0", "unlock 0", "end"]),
        ("corpus-d04-dtor", ["new q 0 0", "del 0"]),
        ("corpus-d04-relock", ["new q 0 0", "unlock 0", "lock 0", "unlock 0", "end"]),
        # classic traps for swap-based move
        ("corpus-mva-owning", ["new u 0 0", "new u 1 1", "mva 0 1", "end"]),
        ("corpus-mva-self", ["new u 0 0", "mva 0 0", "isl 0", "end"]),
        ("corpus-swap-mixed", ["new s 0 0", "defer s 1 1", "swap 0 1", "prot 1 0", "prot 0 1", "end"]),
        ("corpus-swap-self", ["new u 0 0", "swap 0 0", "end"]),
        ("corpus-moved-from", ["new u 0 1", "mvc u 1 0", "isl 0", "del 0", "unlock 1", "lock 1", "end"]),
        ("corpus-adopt", ["adopt s 0 0", "adopt u 1 1", "mva 1 1", "unlock 0", "end"]),
        ("corpus-assert-lock", ["new u 0 0", "lock 0"]),
        ("corpus-assert-unlock", ["defer s 0 0", "unlock 0"]),
        ("corpus-ub-null", ["empty u 0", "lock 0"]),
        # API surface: which transfer operations the real guard types offer (type traits) vs. the model's table; a seeded
        # change made the QS lock_guard move-constructible with a memberwise move (both objects own -> double unlock)
        # free helpers guard(&m) / guard(dont_lock, &m): a seeded change built the deferred guard with adopt_lock
        ("corpus-helper-deferred-drop", ["gdefer 0 0", "isl 0", "prot 0 0", "del 0"]),
        ("corpus-helper-deferred-lock", ["gdefer 0 0", "lock 0", "unlock 0", "end"]),
        ("corpus-helpers", ["gnew 0 0", "gdefer 1 1", "isl 0", "isl 1", "mva 1 0", "lock 0", "end"]),
        ("corpus-api", ["api"]),
        ("corpus-q-move", ["api", "new q 0 0", "mvc q 1 0", "isl 0", "isl 1", "end"]),
        ("corpus-q-move-del", ["new q 0 0", "mvc q 1 0", "del 1", "del 0"]),
        ("corpus-q-xfer-all", ["new q 0 0", "new q 1 1", "cpc q 2 0", "mva 0 1", "cpa 0 1", "swap 0 1", "end"]),
        ("corpus-us-copy", ["new u 0 0", "cpc u 1 0", "defer u 2 1", "cpa 2 0", "new s 3 1", "cpc s 4 3", "end"]),
    ]


def guard_exhaustive(max_len=6, ng=3, nm=2, kinds=KINDS, cap=400000):
    """Every (reachable state, op) pair over ng guard slots / nm mutexes whose state is reachable by a
    script of < max_len valid ops, each as a shortest script (BFS), followed by probes and `end`.
    ops that are ill-typed in that state are included too (one script each)."""
    ops = all_ops(ng, nm, kinds)
    start = Sim()
    seen = {start.key(): []}
    frontier = [(start, [])]
    cases = []
    n = 0
    for depth in range(max_len):
        nxt = []
        for sim, path in frontier:
            for t in ops:
                c = sim.classify(t)
                lines = path + [fmt(t)]
                if c in ("assert", "ub"):
                    tail = []
                else:
                    s2 = sim.clone()
                    if c in ("ok", "relock"):
                        s2.apply(t)
                    tail = [fmt(("isl", g)) for g in sorted(s2.g)] + ["end"]
                    if c in ("ok", "relock") and s2.key() not in seen:
                        seen[s2.key()] = lines
                        nxt.append((s2, lines))
                cases.append(("x%d" % n, lines + tail)); n += 1
                if n >= cap:
                    return cases
        frontier = nxt
        if not frontier:
            break
    return cases


def guard_all_sequences(length, ng=2, nm=2, kinds="u"):
    """Plain exhaustive enumeration: every sequence of `length` ops (valid or not) over a small alphabet."""
    ops = all_ops(ng, nm, kinds)
    cases = []
    for i, seq in enumerate(itertools.product(ops, repeat=length)):
        cases.append(("a%s%d_%d" % (kinds, length, i), [fmt(t) for t in seq] + ["end"]))
    return cases


# ---------------------------------------------------------------------------------------------- spinlocks

W32 = 1 << 32


def gen_spin_ticket(rng, n_ops):
    lines = ["spin T"]
    r = rng.random()
    if r < 0.45:
        a = W32 - rng.randrange(1, 6)
    elif r < 0.55:
        a = rng.randrange(W32)
    else:
        a = None
    if a is not None:
        lines.append("set %d %d" % (a, a))
    st = {v: "idle" for v in range(4)}       # steering only
    waiting = []                             # draw order
    holder = None
    real_budget = rng.choice([0, 0, 1, 2, 3])
    for _ in range(n_ops):
        idle = [v for v in st if st[v] == "idle"]
        cands = ["isl"]
        if idle:
            cands += ["draw"] * 2
            if holder is None and not waiting:
                cands += ["lock"] * 3
            elif real_budget > 0:
                cands += ["lockc"] * 3
        if waiting:
            cands += ["spin"] * 3
        if holder is not None:
            cands += ["unlock"] * 3
        if rng.random() < 0.04:
            cands = ["lock", "unlock", "spin", "draw", "lockc"]      # possibly a `skip`
        o = rng.choice(cands)
        if o == "isl":
            lines.append("isl"); continue
        if o in ("lock", "draw", "lockc"):
            v = rng.choice(idle) if idle and rng.random() < 0.97 else rng.randrange(4)
            lines.append("%s %d" % (o, v))
            if st[v] != "idle":
                continue
            if o == "lock":
                if holder is None and not waiting:
                    st[v] = "crit"; holder = v
            elif o == "draw" or (holder is not None or waiting):
                if o == "lockc":
                    real_budget -= 1
                st[v] = "spin"; waiting.append(v)
        elif o == "spin":
            v = rng.choice(waiting) if waiting and rng.random() < 0.97 else rng.randrange(4)
            if waiting and rng.random() < 0.5:
                v = waiting[0]
            lines.append("spin %d" % v)
            if waiting and v == waiting[0] and holder is None:
                waiting.pop(0); st[v] = "crit"; holder = v
        elif o == "unlock":
            v = holder if holder is not None and rng.random() < 0.97 else rng.randrange(4)
            lines.append("unlock %d" % v)
            if v == holder:
                st[v] = "idle"; holder = None
    # drain: let everybody through so that real threads end normally
    for _ in range(8):
        if holder is not None:
            lines.append("unlock %d" % holder); st[holder] = "idle"; holder = None
        if waiting:
            v = waiting.pop(0); lines.append("spin %d" % v); st[v] = "crit"; holder = v
    lines.append("isl")
    return lines


def gen_spin_simple(rng, n_ops):
    lines = ["spin S"]
    for _ in range(n_ops):
        o = rng.choices(["lock", "xchg", "load", "unlock", "isl"], [3, 3, 3, 4, 1])[0]
        lines.append(o if o == "isl" else "%s %d" % (o, rng.randrange(4)))
    return lines


def spin_corpus():
    return [
        # ticket_spinlock::is_locked() compared serving < next: false for the holder once next_ticket_ wrapped
        ("corpus-isl-wrap", ["spin T", "set 4294967295 4294967295", "lock 0", "isl", "unlock 0", "isl"]),
        ("corpus-wrap-handover", ["spin T", "set 4294967294 4294967294", "lock 0", "draw 1", "lockc 2", "draw 3", "isl", "unlock 0",
                                  "spin 2", "spin 1", "isl", "unlock 1", "spin 3", "spin 2", "unlock 2", "spin 3", "isl", "unlock 3", "isl"]),
        ("corpus-ticket-basic", ["spin T", "lock 0", "isl", "lock 1", "lockc 1", "spin 1", "unlock 0", "spin 1", "unlock 1", "isl"]),
        ("corpus-simple-basic", ["spin S", "lock 0", "isl", "xchg 1", "load 1", "unlock 0", "load 1", "lock 1", "isl", "unlock 1", "isl"]),
    ]


def spin_exhaustive(max_len=5):
    """all op sequences of a given length over 2 virtual threads (emulated single accesses and real calls)"""
    cases = []
    tops = ["lock 0", "lock 1", "draw 0", "draw 1", "spin 0", "spin 1", "unlock 0", "unlock 1", "isl"]
    sops = ["lock 0", "lock 1", "xchg 0", "xchg 1", "load 0", "load 1", "unlock 0", "unlock 1", "isl"]
    for n in range(1, max_len + 1):
        for i, seq in enumerate(itertools.product(tops, repeat=n)):
            cases.append(("xt%d_%d" % (n, i), ["spin T", "set 4294967295 4294967295"] + list(seq)))
        for i, seq in enumerate(itertools.product(sops, repeat=n)):
            cases.append(("xs%d_%d" % (n, i), ["spin S"] + list(seq)))
    return cases


def stress_cases(tier, rng):
    it = 3000 if tier == "quick" else 100000
    cs = []
    for nt in (2, 3, 4):
        cs.append(("stressT%d" % nt, ["stress T %d %d %d" % (nt, it, 0)]))
        cs.append(("stressTw%d" % nt, ["stress T %d %d %d" % (nt, it, W32 - rng.randrange(10, it))]))
        cs.append(("stressS%d" % nt, ["stress S %d %d" % (nt, it)]))
    return cs
