(* driver for the extracted guard model (coq/Locks/GuardModel.v): same scripts and the same
   canonical lines as comp/locks/guard_harness.cpp *)
let kind_of = function "u" -> Some KUnique | "s" -> Some KShared | "q" -> Some KQs | _ -> None
let kind_ch = function KUnique -> "u" | KShared -> "s" | KQs -> "q"
let ni s = nat_of_int (int_of_string s)

let show_call = function
  | CLock m -> "L" ^ string_of_int (int_of_nat m)
  | CUnlock m -> "U" ^ string_of_int (int_of_nat m)
  | CLockShared m -> "LS" ^ string_of_int (int_of_nat m)
  | CUnlockShared m -> "US" ^ string_of_int (int_of_nat m)
  | CAdopt m -> "A" ^ string_of_int (int_of_nat m)
  | CAdoptShared m -> "AS" ^ string_of_int (int_of_nat m)

let show_store s =
  let ids = live_ids s in
  "s" ^ String.concat "" (List.map (fun g ->
    match sget s g with
    | Some x -> Printf.sprintf " %d:%s:%s:%d" (int_of_nat g) (kind_ch x.g_kind)
        (match x.g_mutex with None -> "-" | Some m -> string_of_int (int_of_nat m))
        (if x.g_owns then 1 else 0)
    | None -> "") ids)

exception Stopped

let body lines =
  let s = ref empty_store in
  let do_op o =
    let ((s', cs), r) = step !s o in
    s := s';
    let res = match r with
      | RUnit -> "ok" | RBool b -> if b then "b1" else "b0"
      | RAssert _ -> "assert" | RUB -> "ub" | RInvalid -> "invalid" in
    print_string (res ^ String.concat "" (List.map (fun c -> " " ^ show_call c) cs) ^ "\n");
    (match r with RAssert _ | RUB -> raise Stopped | _ -> ());
    print_string (show_store !s ^ "\n") in
  try List.iter (fun l ->
    match words l with
    | ["new"; k; g; m] -> (match kind_of k with Some k -> do_op (ONew (k, ni g, ni m)) | None -> ())
    | ["gnew"; g; m] -> do_op (helper_op HGuard (ni g) (ni m))               (* frg::guard(&m) *)
    | ["gdefer"; g; m] -> do_op (helper_op HGuardDontLock (ni g) (ni m))    (* frg::guard(frg::dont_lock, &m) *)
    | ["defer"; k; g; m] -> (match kind_of k with Some k -> do_op (ODefer (k, ni g, ni m)) | None -> ())
    | ["adopt"; k; g; m] -> (match kind_of k with Some k -> do_op (OAdopt (k, ni g, ni m)) | None -> ())
    | ["empty"; k; g] -> (match kind_of k with Some k -> do_op (OEmpty (k, ni g)) | None -> ())
    | ["mvc"; k; g; h] -> (match kind_of k with Some k -> do_op (OMoveCons (k, ni g, ni h)) | None -> ())
    | ["mva"; g; h] -> do_op (OMoveAssign (ni g, ni h))
    | ["swap"; g; h] -> do_op (OSwap (ni g, ni h))
    | ["lock"; g] -> do_op (OLock (ni g))
    | ["unlock"; g] -> do_op (OUnlock (ni g))
    | ["del"; g] -> do_op (ODestroy (ni g))
    | ["isl"; g] -> do_op (OIsLocked (ni g))
    | ["prot"; g; m] -> do_op (OProtects (ni g, ni m))
    | ["api"] ->
      (* the table of offered transfer operations, same canonical line as the harness prints from the type traits *)
      let b k x = if offers k x then "1" else "0" in
      let row k = Printf.sprintf "%s cc%s mc%s ca%s ma%s sw%s" (kind_ch k) (b k XCopyCons) (b k XMoveCons) (b k XCopyAssign) (b k XMoveAssign) (b k XSwap) in
      print_string ("api " ^ String.concat " | " (List.map row [KUnique; KShared; KQs]) ^ "\n");
      print_string (show_store !s ^ "\n")
    | ["cpc"; k; g; h] ->
      (* copy construction / copy assignment: offered by no guard type in the model *)
      (match kind_of k with
       | Some k -> if offers k XCopyCons then print_string "unmodelled\n" else print_string "invalid\n"; print_string (show_store !s ^ "\n")
       | None -> ())
    | ["cpa"; g; h] ->
      (match sget !s (ni g) with
       | Some x when offers x.g_kind XCopyAssign -> print_string "unmodelled\n"
       | _ -> print_string "invalid\n");
      print_string (show_store !s ^ "\n")
    | ["end"] -> List.iter (fun g -> do_op (ODestroy g)) (live_ids !s); print_string "end\n"
    | _ -> ()) lines
  with Stopped -> ()

let () = run_cases body
