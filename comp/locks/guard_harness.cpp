// Harness for the lock guards: frg::unique_lock, frg::shared_lock (mutex.hpp) and frg::lock_guard (qs.hpp).
// Runs op scripts on the REAL guard classes over an instrumented mutex that logs every call, prints
//   <result> <calls made on the mutexes during the op>      and      s <slot>:<kind>:<mutex>:<owns> ...
// (compared line by line with the extracted model coq/Locks/GuardModel.v) and evaluates the
// property with an oracle that does not use the model:
//   per mutex and mode, hold = acquire calls (adoptions counted at adoption) - release calls
//   * unmatched-release : unlock() with exclusive hold 0 / unlock_shared() with shared hold 0
//   * relock            : lock()/lock_shared() on a mutex that is held, made by an op that is not an acquiring
//                         op of the script (constructor-with-lock / lock), or a second acquire in one op
//   * balance           : after every op, hold != number of live guards that CLAIM the mutex (g.protects(&m))
//   * held-after-destroy: after every guard was destroyed some hold is non-zero
// `api` prints which transfer operations (copy/move construction, copy/move assignment, swap) each REAL guard type offers
// (type traits), compared with the model's table [offered]; mvc/cpc/mva/cpa/swap are executed for every type that offers
// them (if constexpr), expected by the model or not, under the same oracle.
#include <new>
#include <string>
#include <type_traits>
#include <utility>
#include "vharness.hpp"
#include <frg/mutex.hpp>
#include <frg/qs.hpp>

static const int NM = 8, NG = 16;

static long hx[NM], hs[NM];
static std::vector<std::string> oplog;
static int acq_budget;        // acquire calls the running op is entitled to
static long n_requested_relock;

struct Mx {
	int id;
	void note_acquire(const char *what) {
		if(acq_budget > 0) {
			acq_budget--;
			if(hx[id] > 0 || (hs[id] > 0 && what[1] != 'S')) n_requested_relock++;   // the script asked for it
		} else if(hx[id] > 0 || hs[id] > 0) {
			vh::oracle("relock", "%s() called on mutex %d which is already held (exclusive %ld, shared %ld) by an operation that is not an acquisition: self-deadlock on a real mutex", what[1] == 'S' ? "lock_shared" : "lock", id, hx[id], hs[id]);
		}
	}
	void lock() { oplog.push_back("L" + std::to_string(id)); note_acquire("L"); hx[id]++; }
	void lock_shared() { oplog.push_back("LS" + std::to_string(id)); note_acquire("LS"); hs[id]++; }
	void unlock() {
		oplog.push_back("U" + std::to_string(id));
		if(hx[id] <= 0) vh::oracle("unmatched-release", "unlock() on mutex %d whose exclusive hold is %ld (shared hold %ld)", id, hx[id], hs[id]);
		hx[id]--;
	}
	void unlock_shared() {
		oplog.push_back("US" + std::to_string(id));
		if(hs[id] <= 0) vh::oracle("unmatched-release", "unlock_shared() on mutex %d whose shared hold is %ld (exclusive hold %ld)", id, hs[id], hx[id]);
		hs[id]--;
	}
};

using UL = frg::unique_lock<Mx>;
using SL = frg::shared_lock<Mx>;
using QL = frg::lock_guard<Mx>;

struct Slot {
	char kind = 0;    // 0 = no live guard; 'u','s','q'
	alignas(16) unsigned char buf[64];
	UL &u() { return *reinterpret_cast<UL *>(buf); }
	SL &s() { return *reinterpret_cast<SL *>(buf); }
	QL &q() { return *reinterpret_cast<QL *>(buf); }
};
static_assert(sizeof(UL) <= 64 && sizeof(SL) <= 64 && sizeof(QL) <= 64);

static Mx mx[NM];
static Slot slot[NG];

// ---- the transfer API surface of a guard type, detected from the REAL class, and every offered operation made
// executable through `if constexpr` (an operation the model does not expect is executed too: the oracle judges it)
template<typename G> static std::string api_row(char k) {
	char b[64];
	snprintf(b, sizeof b, "%c cc%d mc%d ca%d ma%d sw%d", k, (int)std::is_copy_constructible_v<G>, (int)std::is_move_constructible_v<G>,
		(int)std::is_copy_assignable_v<G>, (int)std::is_move_assignable_v<G>, (int)std::is_swappable_v<G>);
	return b;
}
template<typename G> static G &as(Slot &s) { return *reinterpret_cast<G *>(s.buf); }
template<typename G> static bool do_move_construct(Slot &dst, Slot &src) {
	if constexpr(std::is_move_constructible_v<G>) { new(dst.buf) G(std::move(as<G>(src))); return true; } else return false;
}
template<typename G> static bool do_copy_construct(Slot &dst, Slot &src) {
	if constexpr(std::is_copy_constructible_v<G>) { new(dst.buf) G(static_cast<const G &>(as<G>(src))); return true; } else return false;
}
template<typename G> static bool do_move_assign(Slot &dst, Slot &src) {
	if constexpr(std::is_move_assignable_v<G>) { as<G>(dst) = std::move(as<G>(src)); return true; } else return false;
}
template<typename G> static bool do_copy_assign(Slot &dst, Slot &src) {
	if constexpr(std::is_copy_assignable_v<G>) { as<G>(dst) = static_cast<const G &>(as<G>(src)); return true; } else return false;
}
template<typename G> static bool do_swap(Slot &a, Slot &b) {
	if constexpr(std::is_swappable_v<G>) { using std::swap; swap(as<G>(a), as<G>(b)); return true; } else return false;
}
#define BY_KIND(k, f, a, b) ((k) == 'u' ? f<UL>(a, b) : (k) == 's' ? f<SL>(a, b) : f<QL>(a, b))

static Mx *mutex_of(Slot &s) { return s.kind == 'u' ? s.u()._mutex : s.kind == 's' ? s.s()._mutex : s.q()._mutex; }
static bool flag_of(Slot &s) { return s.kind == 'u' ? s.u()._is_locked : s.kind == 's' ? s.s()._is_locked : s.q()._locked; }
// what the guard CLAIMS through its public interface (lock_guard has no query; its flag is read)
static bool claims(Slot &s, Mx *m) {
	if(s.kind == 'u') return s.u().protects(m);
	if(s.kind == 's') return s.s().protects(m);
	return s.q()._locked && s.q()._mutex == m;
}

static void print_state() {
	printf("s");
	for(int g = 0; g < NG; g++) {
		if(!slot[g].kind) continue;
		Mx *m = mutex_of(slot[g]);
		if(m) printf(" %d:%c:%d:%d", g, slot[g].kind, m->id, (int)flag_of(slot[g]));
		else printf(" %d:%c:-:%d", g, slot[g].kind, (int)flag_of(slot[g]));
	}
	printf("\n");
}

static void check_balance(const char *after) {
	bool any = false;
	for(int g = 0; g < NG; g++) any = any || slot[g].kind;
	for(int m = 0; m < NM; m++) {
		long cx = 0, cs = 0;
		for(int g = 0; g < NG; g++) {
			if(!slot[g].kind) continue;
			if(claims(slot[g], &mx[m])) { if(slot[g].kind == 's') cs++; else cx++; }
		}
		if(cx != hx[m] || cs != hs[m]) {
			if(!any)
				vh::oracle("held-after-destroy", "after `%s` no guard is alive but mutex %d has exclusive hold %ld, shared hold %ld", after, m, hx[m], hs[m]);
			else
				vh::oracle("balance", "after `%s`: mutex %d has exclusive hold %ld / shared hold %ld but %ld / %ld live guards claim to own it", after, m, hx[m], hs[m], cx, cs);
		}
	}
}

static void emit(const char *res) {
	printf("%s", res);
	for(auto &c : oplog) printf(" %s", c.c_str());
	printf("\n");
	oplog.clear();
}

static bool destroy_slot(int g) {
	Slot &s = slot[g];
	if(s.kind == 'u') s.u().~UL(); else if(s.kind == 's') s.s().~SL(); else s.q().~QL();
	s.kind = 0;
	return true;
}

static void body(const vh::Lines &ls) {
	for(int m = 0; m < NM; m++) { mx[m].id = m; hx[m] = hs[m] = 0; }
	for(int g = 0; g < NG; g++) slot[g].kind = 0;     // guards of an aborted case are abandoned, not destroyed
	oplog.clear(); n_requested_relock = 0;
	auto gi = [](const std::string &t) { int v = atoi(t.c_str()); return (v >= 0 && v < NG) ? v : -1; };
	auto mi = [](const std::string &t) { int v = atoi(t.c_str()); return (v >= 0 && v < NM) ? v : -1; };
	for(const auto &line : ls) {
		auto t = vh::split(line);
		if(t.empty()) continue;
		const std::string &o = t[0];
		acq_budget = 0;
		const char *res = "ok";
		std::string res_s;
		try {
			if(o == "new" || o == "defer" || o == "adopt" || o == "empty") {
				char k = t[1][0]; int g = gi(t[2]); int m = o == "empty" ? 0 : mi(t[3]);
				if(g < 0 || m < 0 || slot[g].kind || (k == 'q' && o != "new")) res = "invalid";
				else if(o == "new") {
					acq_budget = 1;
					if(k == 'u') new(slot[g].buf) UL(mx[m]); else if(k == 's') new(slot[g].buf) SL(mx[m]); else new(slot[g].buf) QL(mx[m]);
					slot[g].kind = k;
				} else if(o == "defer") {
					if(k == 'u') new(slot[g].buf) UL(frg::dont_lock, mx[m]); else new(slot[g].buf) SL(frg::dont_lock, mx[m]);
					slot[g].kind = k;
				} else if(o == "adopt") {
					// the script hands over a lock it holds: counted at adoption
					if(k == 'u') { hx[m]++; oplog.push_back("A" + std::to_string(m)); new(slot[g].buf) UL(frg::adopt_lock, mx[m]); }
					else { hs[m]++; oplog.push_back("AS" + std::to_string(m)); new(slot[g].buf) SL(frg::adopt_lock, mx[m]); }
					slot[g].kind = k;
				} else {
					if(k == 'u') new(slot[g].buf) UL(); else new(slot[g].buf) SL();
					slot[g].kind = k;
				}
			} else if(o == "gnew" || o == "gdefer") {
				// the free helper functions frg::guard(&m) / frg::guard(frg::dont_lock, &m); the returned unique_lock
				// initialises the slot directly (prvalue)
				int g = gi(t[1]); int m = mi(t[2]);
				if(g < 0 || m < 0 || slot[g].kind) res = "invalid";
				else if(o == "gnew") { acq_budget = 1; new(slot[g].buf) UL(frg::guard(&mx[m])); slot[g].kind = 'u'; }
				else { new(slot[g].buf) UL(frg::guard(frg::dont_lock, &mx[m])); slot[g].kind = 'u'; }
			} else if(o == "api") {
				res_s = "api " + api_row<UL>('u') + " | " + api_row<SL>('s') + " | " + api_row<QL>('q');
				res = res_s.c_str();
			} else if(o == "mvc" || o == "cpc") {
				// construction of a new guard g from h (by move / by copy); executed whenever the real type offers it
				char k = t[1][0]; int g = gi(t[2]), h = gi(t[3]);
				if(g < 0 || h < 0 || slot[g].kind || !slot[h].kind || slot[h].kind != k || (k != 'u' && k != 's' && k != 'q')) res = "invalid";
				else if(o == "mvc" ? BY_KIND(k, do_move_construct, slot[g], slot[h]) : BY_KIND(k, do_copy_construct, slot[g], slot[h])) slot[g].kind = k;
				else res = "invalid";
			} else if(o == "mva" || o == "cpa" || o == "swap") {
				int g = gi(t[1]), h = gi(t[2]);
				if(g < 0 || h < 0 || !slot[g].kind || !slot[h].kind || slot[g].kind != slot[h].kind) res = "invalid";
				else {
					char k = slot[g].kind;
					bool done = o == "mva" ? BY_KIND(k, do_move_assign, slot[g], slot[h])
						: o == "cpa" ? BY_KIND(k, do_copy_assign, slot[g], slot[h]) : BY_KIND(k, do_swap, slot[g], slot[h]);
					if(!done) res = "invalid";
				}
			} else if(o == "lock" || o == "unlock" || o == "del" || o == "isl") {
				int g = gi(t[1]);
				if(g < 0 || !slot[g].kind) res = "invalid";
				else {
					Slot &s = slot[g];
					if(o == "lock") {
						if(!flag_of(s) && !mutex_of(s)) { emit("ub"); return; }    // would dereference the null _mutex
						acq_budget = 1;
						if(s.kind == 'u') s.u().lock(); else if(s.kind == 's') s.s().lock(); else s.q().lock();
					} else if(o == "unlock") {
						if(flag_of(s) && !mutex_of(s)) { emit("ub"); return; }
						if(s.kind == 'u') s.u().unlock(); else if(s.kind == 's') s.s().unlock(); else s.q().unlock();
					} else if(o == "del") {
						if(flag_of(s) && !mutex_of(s)) { emit("ub"); return; }
						destroy_slot(g);
					} else {
						bool b = s.kind == 'u' ? s.u().is_locked() : s.kind == 's' ? s.s().is_locked() : s.q()._locked;
						res = b ? "b1" : "b0";
					}
				}
			} else if(o == "prot") {
				int g = gi(t[1]), m = mi(t[2]);
				if(g < 0 || m < 0 || !slot[g].kind) res = "invalid";
				else res = claims(slot[g], &mx[m]) ? "b1" : "b0";
			} else if(o == "end") {
				for(int g = 0; g < NG; g++) {
					if(!slot[g].kind) continue;
					if(flag_of(slot[g]) && !mutex_of(slot[g])) { emit("ub"); return; }
					destroy_slot(g);
					emit("ok"); print_state();
					check_balance("end");
				}
				printf("end\n");
				continue;
			} else continue;
		} catch(vh::AssertStop &a) {
			emit("assert");
			return;
		}
		emit(res);
		print_state();
		check_balance(line.c_str());
	}
}

int main() { return vh::run(body); }
