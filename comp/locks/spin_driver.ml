(* driver for the extracted real machines of coq/Locks/SpinModel.v: same scripts and lines as
   comp/locks/spin_harness.cpp.  4 virtual threads. *)
let nthreads = nat_of_int 4
let show = function
  | SrSkip -> "skip" | SrTicket k -> "t " ^ string_of_n k | SrAcq -> "acq" | SrWait -> "wait"
  | SrOk -> "ok" | SrBool b -> if b then "b1" else "b0"

let ticket lines =
  let r = ref (treal_init N0 N0) in
  let out (r', res) = r := r'; print_string (show res ^ "\n") in
  List.iter (fun l ->
    (match words l with
     | ["set"; a; b] -> r := treal_init (n_of_string a) (n_of_string b); print_string "ok\n"
     | ["lock"; v] -> out (t_api_lock nthreads !r (nat_of_int (int_of_string v)))
     | ["draw"; v] -> out (t_api_draw nthreads !r (nat_of_int (int_of_string v)))
     | ["lockc"; v] ->
       (* a real contending thread is only started when lock() is certain to block *)
       if !r.t_next = !r.t_serving then print_string "skip\n"
       else out (t_api_draw nthreads !r (nat_of_int (int_of_string v)))
     | ["spin"; v] -> out (t_api_spin nthreads !r (nat_of_int (int_of_string v)))
     | ["unlock"; v] -> out (t_api_unlock nthreads !r (nat_of_int (int_of_string v)))
     | ["isl"] -> print_string (show (SrBool (t_is_locked !r)) ^ "\n")
     | _ -> print_string "?\n");
    print_string ("f " ^ string_of_n !r.t_next ^ " " ^ string_of_n !r.t_serving ^ "\n")) lines

let simple lines =
  let r = ref sreal_init in
  let out (r', res) = r := r'; print_string (show res ^ "\n") in
  List.iter (fun l ->
    (match words l with
     | ["lock"; v] -> out (s_api_lock nthreads !r (nat_of_int (int_of_string v)))
     | ["xchg"; v] -> out (s_api_xchg nthreads !r (nat_of_int (int_of_string v)))
     | ["load"; v] -> out (s_api_load nthreads !r (nat_of_int (int_of_string v)))
     | ["unlock"; v] -> out (s_api_unlock nthreads !r (nat_of_int (int_of_string v)))
     | ["isl"] -> print_string (show (SrBool (s_is_locked !r)) ^ "\n")
     | _ -> print_string "?\n");
    print_string ("f " ^ (if !r.s_lock then "1" else "0") ^ "\n")) lines

let body lines = match lines with
  | h :: rest when words h = ["spin"; "T"] -> ticket rest
  | h :: rest when words h = ["spin"; "S"] -> simple rest
  | _ -> ()

let () = run_cases body
