// Step-by-step correspondence harness for frg::ticket_spinlock / frg::simple_spinlock.
// A script drives up to 4 "virtual threads" call by call on ONE real lock object:
//   lock v    real lock()  (only issued when it cannot block: the harness checks the real fields first)
//   unlock v  real unlock()
//   isl       real is_locked()
//   lockc v   (ticket) a REAL std::thread calls lock() while the lock is busy; the harness waits until it
//             has drawn its ticket (next_ticket_ moved) -- the contended path of the real code
//   spin v    the waiting thread's loop condition is evaluated once: for a real thread the harness joins it
//             when the real serving_ticket_ equals its ticket; for an emulated one it re-reads the field
//   draw v    (ticket) / xchg v, load v (simple): a single atomic access of lock(), emulated by the harness with
//             the same builtin on the real field (single accesses of a blocked call cannot be run in isolation)
//   set a b   (ticket, first op only) preset next_ticket_/serving_ticket_ (to reach the uint32 wrap)
// After every op the atomic fields are printed ("f ...") and compared with the extracted model.
// Oracle (no model): at most one virtual thread is between acquisition and release ("mutex-overlap"); grants
// happen in the order the tickets were drawn ("fifo"); is_locked() is true while some thread holds ("is-locked");
// a contending real thread neither returns early ("mutex-overlap") nor fails to draw/return ("hang").
#include <atomic>
#include <chrono>
#include <thread>
#include "vharness.hpp"
#include <frg/spinlock.hpp>

static const int NV = 4;
using clk = std::chrono::steady_clock;

struct VT {
	enum St { Idle, Spin, Crit, XchgNext, LoadNext } st = Idle;
	uint32_t ticket = 0;
	bool real = false;
	std::thread th;
	std::atomic<bool> returned{false};
};

static int holders(VT *vt) { int n = 0; for(int i = 0; i < NV; i++) n += vt[i].st == VT::Crit; return n; }

static void ticket_case(const vh::Lines &ls) {
	frg::ticket_spinlock l;
	VT vt[NV];
	uint32_t next_grant = 0; bool have_grant = false;    // fifo oracle: ticket the next grant must carry
	auto fields = [&]() { printf("f %u %u\n", __atomic_load_n(&l.next_ticket_, __ATOMIC_RELAXED), __atomic_load_n(&l.serving_ticket_, __ATOMIC_RELAXED)); };
	auto granted = [&](int v, uint32_t tk) {
		if(have_grant && tk != next_grant) vh::oracle("fifo", "thread %d acquired with ticket %u but the next ticket in draw order is %u", v, tk, next_grant);
		next_grant = tk + 1; have_grant = true;
		vt[v].st = VT::Crit;
		if(holders(vt) > 1) vh::oracle("mutex-overlap", "thread %d acquired while another thread is in its critical section", v);
	};
	auto cleanup = [&]() {
		for(int i = 0; i < NV; i++) if(vt[i].real && vt[i].th.joinable()) {
			__atomic_store_n(&l.serving_ticket_, vt[i].ticket, __ATOMIC_RELEASE);   // let it out
			vt[i].th.join();
		}
	};
	for(size_t i = 1; i < ls.size(); i++) {
		auto t = vh::split(ls[i]);
		const std::string &o = t[0];
		int v = (t.size() > 1 && o != "set") ? atoi(t[1].c_str()) : 0;
		if(v < 0 || v >= NV) { printf("?\n"); fields(); continue; }
		uint32_t nx = __atomic_load_n(&l.next_ticket_, __ATOMIC_RELAXED), sv = __atomic_load_n(&l.serving_ticket_, __ATOMIC_RELAXED);
		if(o == "set") {
			l.next_ticket_ = (uint32_t)vh::u64(t[1]); l.serving_ticket_ = (uint32_t)vh::u64(t[2]);
			have_grant = false;
			printf("ok\n");
		} else if(o == "lock") {
			if(vt[v].st != VT::Idle || nx != sv) printf("skip\n");
			else { l.lock(); printf("acq\n"); granted(v, nx); }
		} else if(o == "draw") {
			if(vt[v].st != VT::Idle) printf("skip\n");
			else {
				vt[v].ticket = __atomic_fetch_add(&l.next_ticket_, 1, __ATOMIC_RELAXED);
				vt[v].st = VT::Spin; vt[v].real = false;
				printf("t %u\n", vt[v].ticket);
			}
		} else if(o == "lockc") {
			if(vt[v].st != VT::Idle || nx == sv) printf("skip\n");
			else {
				vt[v].ticket = nx; vt[v].st = VT::Spin; vt[v].real = true; vt[v].returned = false;
				VT *me = &vt[v];
				vt[v].th = std::thread([&l, me]() { l.lock(); me->returned.store(true, std::memory_order_release); });
				auto t0 = clk::now();
				while(__atomic_load_n(&l.next_ticket_, __ATOMIC_RELAXED) == nx) {
					if(clk::now() - t0 > std::chrono::seconds(10)) { vh::oracle("hang", "a contending lock() did not draw a ticket within 10 s"); break; }
					std::this_thread::yield();
				}
				printf("t %u\n", vt[v].ticket);
			}
		} else if(o == "spin") {
			if(vt[v].st != VT::Spin) printf("skip\n");
			else if(vt[v].real) {
				// give an early return a chance to show
				if(sv != vt[v].ticket) {
					std::this_thread::sleep_for(std::chrono::microseconds(200));
					if(vt[v].returned.load(std::memory_order_acquire)) {
						vh::oracle("mutex-overlap", "contending lock() with ticket %u returned while serving_ticket_ is %u", vt[v].ticket, sv);
						vt[v].th.join(); vt[v].real = false;
						printf("acq\n"); granted(v, vt[v].ticket);
					} else printf("wait\n");
				} else {
					auto t0 = clk::now();
					while(!vt[v].returned.load(std::memory_order_acquire)) {
						if(clk::now() - t0 > std::chrono::seconds(10)) { vh::oracle("hang", "lock() with ticket %u does not return although serving_ticket_ == %u", vt[v].ticket, sv); break; }
						std::this_thread::yield();
					}
					if(vt[v].returned.load()) { vt[v].th.join(); vt[v].real = false; }
					printf("acq\n"); granted(v, vt[v].ticket);
				}
			} else {
				if(__atomic_load_n(&l.serving_ticket_, __ATOMIC_ACQUIRE) != vt[v].ticket) printf("wait\n");
				else { printf("acq\n"); granted(v, vt[v].ticket); }
			}
		} else if(o == "unlock") {
			if(vt[v].st != VT::Crit) printf("skip\n");
			else { l.unlock(); vt[v].st = VT::Idle; printf("ok\n"); }
		} else if(o == "isl") {
			bool b = l.is_locked();
			printf(b ? "b1\n" : "b0\n");
			if(!b && holders(vt) > 0) vh::oracle("is-locked", "is_locked() returned false while a thread holds the lock (next_ticket_ %u, serving_ticket_ %u)", nx, sv);
		} else printf("?\n");
		fields();
	}
	cleanup();
}

static void simple_case(const vh::Lines &ls) {
	frg::simple_spinlock l;
	VT vt[NV];
	auto fields = [&]() { printf("f %d\n", (int)__atomic_load_n(&l.lock_, __ATOMIC_RELAXED)); };
	auto granted = [&](int v) {
		vt[v].st = VT::Crit;
		if(holders(vt) > 1) vh::oracle("mutex-overlap", "thread %d acquired while another thread is in its critical section", v);
	};
	for(size_t i = 1; i < ls.size(); i++) {
		auto t = vh::split(ls[i]);
		const std::string &o = t[0];
		int v = t.size() > 1 ? atoi(t[1].c_str()) : 0;
		if(v < 0 || v >= NV) { printf("?\n"); fields(); continue; }
		bool lk = __atomic_load_n(&l.lock_, __ATOMIC_RELAXED);
		bool at_x = vt[v].st == VT::Idle || vt[v].st == VT::XchgNext;
		if(o == "lock") {
			if(!at_x || lk) printf("skip\n");
			else { l.lock(); printf("acq\n"); granted(v); }
		} else if(o == "xchg") {
			if(!at_x) printf("skip\n");
			else if(!__atomic_exchange_n(&l.lock_, true, __ATOMIC_ACQUIRE)) { printf("acq\n"); granted(v); }
			else { vt[v].st = VT::LoadNext; printf("wait\n"); }
		} else if(o == "load") {
			if(vt[v].st != VT::LoadNext) printf("skip\n");
			else if(__atomic_load_n(&l.lock_, __ATOMIC_RELAXED)) printf("wait\n");
			else { vt[v].st = VT::XchgNext; printf("ok\n"); }
		} else if(o == "unlock") {
			if(vt[v].st != VT::Crit) printf("skip\n");
			else { l.unlock(); vt[v].st = VT::Idle; printf("ok\n"); }
		} else if(o == "isl") {
			bool b = l.is_locked();
			printf(b ? "b1\n" : "b0\n");
			if(b != (holders(vt) > 0)) vh::oracle("is-locked", "is_locked() returned %d while %d thread(s) hold the lock", (int)b, holders(vt));
		} else printf("?\n");
		fields();
	}
}

static void body(const vh::Lines &ls) {
	if(ls.empty()) return;
	auto t = vh::split(ls[0]);
	if(t.size() == 2 && t[0] == "spin" && t[1] == "T") ticket_case(ls);
	else if(t.size() == 2 && t[0] == "spin" && t[1] == "S") simple_case(ls);
}

int main() { return vh::run(body); }
