"""locks component (C12): guards (unique_lock / shared_lock / QS lock_guard) and spinlocks.
run(c) builds model drivers + harnesses, regenerates coq/Gen/SpinOrders.v, generates cases, runs legs C and O."""
import os, re, sys
import vlib
from comp.locks import gen

HERE = os.path.join(vlib.ROOT, "comp/locks")

RULE = ("guards: seeded + corpus op scripts (construct locking/dont_lock/adopt_lock/default, lock, unlock, move-construct, "
        "move-assign, swap, copy-construct/copy-assign attempts, destroy, is_locked/protects, `api` = table of offered transfer operations from type traits) over <= 6 guards x <= 3 instrumented mutexes for unique_lock, "
        "shared_lock and qs lock_guard; non-trivial = distinct script in which a move/assign/swap ran while some guard owned a lock, "
        "or a qs lock_guard was unlocked")
TRUSTED = ["extraction: ExtrOcamlBasic only; OCaml 4.13.1; comp/locks/guard_driver.ml",
           "correspondence harness comp/locks/guard_harness.cpp (g++ -fsanitize=address,undefined, -fno-access-control; reads _mutex/_is_locked)",
           "oracle: hold counters inside the instrumented mutex vs. the guards' own protects()/is_locked() claims"]
ASSUMPTIONS = ["a guard's mutex outlives the guard (reference parameter)",
               "lock() on a default-constructed/moved-from guard dereferences a null _mutex: modelled as UB and excluded (precondition)",
               "an adopted lock is counted as an acquisition at adoption",
               "weak-memory ticket theorems: no load returns a message 2^32 - n or more messages behind the last one "
               "(stale_bounded; needed only because of the uint32 wrap); n < 2^32 threads"]


def guard_nontrivial(cid, lines, ri):
    out = ri["lines"]
    # out: per op  "<res> calls" then "s ..." ; find a transfer op executed while some guard owned
    j = 0
    prev_state = "s"
    for l in lines:
        w = l.split()
        if w[0] == "end":
            break
        if j >= len(out):
            break
        res = out[j]
        st = out[j + 1] if j + 1 < len(out) else ""
        if w[0] in ("mvc", "mva", "swap") and res.startswith("ok") and ":1" in prev_state:
            return "|".join(lines)
        if w[0] == "unlock" and res.startswith("ok") and (" %s:q:" % w[1]) in prev_state:
            return "|".join(lines)
        if res.split()[0] in ("assert", "ub"):
            break
        prev_state = st
        j += 2
    return None


def run_guards(c):
    okm, mlog = vlib.coq_make(["Locks/GuardExtract.vo"])
    okd, drv, dlog = vlib.ocaml_build("guard_m", ["guard_model"], os.path.join(HERE, "guard_driver.ml"))
    okh, har, hlog = vlib.cxx_build("guard_h", os.path.join(HERE, "guard_harness.cpp"))
    if not (okm and okd):
        c.broken.append("locks guard model extraction/driver build failed: " + (mlog[-800:] if not okm else dlog[-800:]))
    if not okh:
        c.broken.append("locks guard harness does not compile against the repo: " + hlog[-1500:])
        return False
    if c.replay:
        cases = [x for x in vlib.read_replay(c.replay) if not x[1] or x[1][0].split()[0] not in ("spin", "stress")]
    else:
        cases = gen.guard_corpus()
        n = 1500 if c.tier == "quick" else 60000
        for i in range(n):
            cases.append(("g%d" % i, gen.gen_guard_case(c.rng, c.rng.choice([4, 8, 14, 25, 60]))))
        if c.tier == "thorough":
            cases += gen.guard_exhaustive(6, 3, 2)
            cases += gen.guard_all_sequences(3, 2, 2, "u") + gen.guard_all_sequences(3, 2, 1, "s") + gen.guard_all_sequences(4, 1, 2, "q")
        else:
            cases += gen.guard_exhaustive(3, 2, 2)
    for _, ls in cases:
        c.count("locks_guard_ops", len(ls))
        for l in ls:
            c.count("locks_guard_op_" + l.split()[0])
    impl = vlib.run_cases(har, cases)
    model = vlib.run_cases(drv, cases) if okd else {}
    for cid, _ in cases:
        r = impl.get(cid)
        if r and r["lines"]:
            last = r["lines"][-1].split()[0]
            c.count("locks_guard_end_" + (last if last in ("assert", "ub", "end") else "other"))
    c.compare(cases, impl, model, guard_nontrivial)
    return True


def spin_nontrivial(cid, lines, ri):
    out = ri["lines"]
    if any(l == "wait" for l in out) or any(l.startswith("f 0 ") or l.startswith("f 1 4294967295") for l in out):
        return "|".join(lines)      # contention was observed, or the counters crossed the uint32 wrap
    return None


def gen_spin_orders(c):
    """regenerate coq/Gen/SpinOrders.v from the source and check its two vm_compute obligations"""
    c._locks_gen_done = True
    rc, o, e = vlib.sh([sys.executable, os.path.join(vlib.ROOT, "translator/gen_locks.py")], timeout=300)
    names = ["orders_match_model", "orders_sufficient", "guard_helpers_match_model"]
    if rc != 0:
        for nm in names:
            c.gen_obligation(nm, False, "(translator/gen_locks.py failed: %s)" % (e.strip()[-300:]))
        return False
    ok, log = vlib.coq_make(["Gen/SpinOrders.vo"])
    if ok:
        for nm in names:
            c.gen_obligation(nm, True)
        return True
    # which lemma broke?  File "./Gen/SpinOrders.v", line N
    bad = set()
    src = open(os.path.join(vlib.COQ, "Gen/SpinOrders.v")).read().split("\n")
    for m in re.finditer(r'File "\./Gen/SpinOrders\.v", line (\d+)', log):
        ln = int(m.group(1))
        for nm in names:
            idx = next((i for i, l in enumerate(src) if l.startswith("Lemma " + nm)), None)
            if idx is not None and idx < ln <= idx + 2:
                bad.add(nm)
    if not bad:
        bad = set(names)
    for nm in names:
        c.gen_obligation(nm, nm not in bad, "(coq/Gen/SpinOrders.v, regenerated from %s/include/frg/spinlock.hpp)" % vlib.REPO)
    return False


def run_spin(c):
    if not getattr(c, "_locks_gen_done", False):
        gen_spin_orders(c)
    okm, mlog = vlib.coq_make(["Locks/SpinExtract.vo"])
    okd, drv, dlog = vlib.ocaml_build("spin_m", ["spin_model"], os.path.join(HERE, "spin_driver.ml"))
    okh, har, hlog = vlib.cxx_build("spin_h", os.path.join(HERE, "spin_harness.cpp"), extra=["-pthread"])
    oks, strs, slog = vlib.cxx_build("spin_stress", os.path.join(HERE, "spin_stress.cpp"), san="tsan")
    if not (okm and okd):
        c.broken.append("locks spin model extraction/driver build failed: " + (mlog[-800:] if not okm else dlog[-800:]))
    if not okh or not oks:
        c.broken.append("locks spin harness does not compile against the repo: " + (hlog if not okh else slog)[-1500:])
        return False
    if c.replay:
        allc = vlib.read_replay(c.replay)
        cases = [x for x in allc if x[1] and x[1][0].split()[0] == "spin"]
        stress = [x for x in allc if x[1] and x[1][0].split()[0] == "stress"]
    else:
        cases = gen.spin_corpus()
        n = 300 if c.tier == "quick" else 4000
        for i in range(n):
            if i % 3 == 2:
                cases.append(("ss%d" % i, gen.gen_spin_simple(c.rng, c.rng.choice([6, 15, 40]))))
            else:
                cases.append(("st%d" % i, gen.gen_spin_ticket(c.rng, c.rng.choice([6, 15, 40]))))
        cases += gen.spin_exhaustive(3 if c.tier == "quick" else 5)
        stress = gen.stress_cases(c.tier, c.rng)
    for _, ls in cases:
        c.count("locks_spin_ops", len(ls) - 1)
        c.count("locks_spin_script_" + ls[0].split()[1])
        for l in ls[1:]:
            c.count("locks_spin_op_" + l.split()[0])
    impl = vlib.run_cases(har, cases, timeout=900)
    model = vlib.run_cases(drv, cases) if okd else {}
    c.compare(cases, impl, model, spin_nontrivial)
    # failing-schedule search: TSan stress, a few cases at a time (they spin on all their threads)
    res = vlib.run_cases(strs, stress, shards=min(3, max(1, len(stress))), timeout=1200)
    for cid, ls in stress:
        w = ls[0].split()
        c.count("locks_stress_runs_" + w[1]); c.count("locks_stress_lock_unlock_pairs", int(w[2]) * int(w[3]))
        r = res.get(cid)
        c.add_case(cid, ls, "|".join(ls) if r and not r.get("crash") and not r["oracle"] else None)
        if r is None:
            c.mismatch(cid, ls, "stress harness produced no output"); continue
        for o in r["oracle"]:
            k, _, m = o.partition(" ")
            c.oracle(k, m, cid, ls)
        if r.get("crash"):
            txt = r["crash"]
            if "ThreadSanitizer: data race" in txt:
                m = re.search(r"WARNING: ThreadSanitizer: data race[^\n]*", txt)
                loc = re.search(r"(spin_stress\.cpp:\d+)", txt)
                c.oracle("race", "ThreadSanitizer: data race between two critical sections (%s): lock()/unlock() do not order them" % (loc.group(1) if loc else "?"), cid, ls)
            elif not r["oracle"]:
                c.oracle("crash", vlib._crash_summary(txt), cid, ls)
    return True


def run(c):
    ok1 = run_guards(c)
    ok2 = run_spin(c)
    return ok1 and ok2


def coqchk(c, lib):
    """thorough tier: re-check the compiled property file and its dependencies with the stand-alone checker"""
    rc, o, e = vlib.sh(["coqchk", "-silent", "-o", "-Q", ".", "FV", lib], cwd=vlib.COQ, timeout=1500)
    txt = o + e
    m = re.search(r"\* Axioms:\s*(.*?)\n\s*\n", txt, re.S)
    ax = m.group(1).strip() if m else "?"
    c.extra["coqchk"] = {"rc": rc, "axioms": ax}
    if rc != 0 or ax != "<none>":
        c.broken.append("coqchk %s: rc=%s axioms=%s" % (lib, rc, ax[:200]))


def widen(c):
    """P or C broke but no oracle failure yet: search harder for a failing input (longer TSan stress on more
    seeds, the exhaustive guard enumeration of the thorough tier)."""
    if c.replay:
        return
    har = os.path.join(vlib.BUILD, "bin", "guard_h")
    strs = os.path.join(vlib.BUILD, "bin", "spin_stress")
    if os.path.exists(har):
        cases = gen.guard_exhaustive(5, 3, 2)
        impl = vlib.run_cases(har, cases)
        for cid, ls in cases:
            r = impl.get(cid)
            if r:
                for o in r["oracle"]:
                    k, _, m = o.partition(" ")
                    c.oracle(k, m, cid, ls)
    if os.path.exists(strs):
        stress = [(cid + "w", [l.replace(" 3000", " 30000") for l in ls]) for cid, ls in gen.stress_cases("quick", c.rng)]
        res = vlib.run_cases(strs, stress, shards=3, timeout=1200)
        for cid, ls in stress:
            r = res.get(cid)
            if not r:
                continue
            for o in r["oracle"]:
                k, _, m = o.partition(" ")
                c.oracle(k, m, cid, ls)
            if r.get("crash") and "ThreadSanitizer: data race" in r["crash"]:
                c.oracle("race", "ThreadSanitizer: data race between two critical sections: lock()/unlock() do not order them", cid, ls)
    c.notes.append("widened search: exhaustive guard scripts (5 ops, 3 guards, 2 mutexes) and 10x longer TSan stress")
