// Failing-schedule search for frg::ticket_spinlock / frg::simple_spinlock (built with -fsanitize=thread).
// case line:  stress T <threads> <iters> <start>     or     stress S <threads> <iters>
// Every thread does <iters> times: lock(); critical section; unlock().  The critical section increments a PLAIN
// counter and appends to a PLAIN array (so ThreadSanitizer reports a data race if lock()/unlock() do not establish
// happens-before between consecutive critical sections), runs an overlap detector made of relaxed atomics (which
// add no happens-before edges), and for the ticket lock records the ticket it was granted with (= serving_ticket_
// while holding).  Oracle:  mutex-overlap (two threads inside / lost update), fifo (k-th grant does not carry
// ticket start+k), hang (watchdog).  TSan reports end the process (exit 97) and are turned into
// kind "race" by comp/locks/check.py.  Watchdog: 60 s + 1 s per 1000 lock/unlock pairs.
#include <atomic>
#include <chrono>
#include <thread>
#include <vector>
#include <unistd.h>
#include "vharness.hpp"
#include <frg/spinlock.hpp>

static std::atomic<int> g_inside{0};
static std::atomic<long> g_overlaps{0};
static std::atomic<bool> g_go{false};
static std::atomic<int> g_done{0};

static uint32_t ticket_of(frg::ticket_spinlock &l) { return __atomic_load_n(&l.serving_ticket_, __ATOMIC_RELAXED); }
static uint32_t ticket_of(frg::simple_spinlock &) { return 0; }

template<typename L>
static void stress(L &l, int nt, long iters, uint32_t start, bool fifo) {
	long counter = 0;                               // plain, protected by the lock
	std::vector<uint32_t> grants((size_t)nt * iters);  // plain, protected by the lock
	std::vector<int> who((size_t)nt * iters);
	g_inside = 0; g_overlaps = 0; g_go = false; g_done = 0;
	std::vector<std::thread> th;
	for(int t = 0; t < nt; t++) {
		th.emplace_back([&, t]() {
			while(!g_go.load(std::memory_order_relaxed)) std::this_thread::yield();
			for(long i = 0; i < iters; i++) {
				l.lock();
				if(g_inside.exchange(1, std::memory_order_relaxed)) g_overlaps.fetch_add(1, std::memory_order_relaxed);
				long k = counter;
				if(k >= 0 && k < (long)grants.size()) { grants[k] = ticket_of(l); who[k] = t; }
				if((i & 63) == 0) std::this_thread::yield();      // widen the window now and then
				counter = k + 1;
				g_inside.store(0, std::memory_order_relaxed);
				l.unlock();
			}
			g_done.fetch_add(1, std::memory_order_relaxed);
		});
	}
	g_go.store(true, std::memory_order_relaxed);
	auto t0 = std::chrono::steady_clock::now();
	bool hung = false;
	long watchdog_s = 60 + (long)nt * iters / 1000;
	while(g_done.load(std::memory_order_relaxed) < nt) {
		if(std::chrono::steady_clock::now() - t0 > std::chrono::seconds(watchdog_s)) { hung = true; break; }
		std::this_thread::sleep_for(std::chrono::milliseconds(1));
	}
	if(hung) {
		vh::oracle("hang", "%d threads x %ld lock/unlock pairs did not finish within %ld s", nt, iters, watchdog_s);
		fflush(stdout);
		_exit(3);       // the spinning threads cannot be joined; the runner attributes the exit to this case
	}
	for(auto &x : th) x.join();
	long ov = g_overlaps.load();
	if(ov) vh::oracle("mutex-overlap", "%ld entries into the critical section while another thread was inside", ov);
	if(counter != (long)nt * iters) vh::oracle("mutex-overlap", "plain counter is %ld after %ld increments under the lock (lost updates)", counter, (long)nt * iters);
	if(fifo && counter == (long)nt * iters) {
		for(long k = 0; k < counter; k++)
			if(grants[k] != (uint32_t)(start + (uint32_t)k)) {
				vh::oracle("fifo", "grant #%ld (thread %d) carries ticket %u, expected %u", k, who[k], grants[k], (uint32_t)(start + (uint32_t)k));
				break;
			}
	}
	printf("done %ld\n", (long)nt * iters);
}

static void body(const vh::Lines &ls) {
	for(auto &line : ls) {
		auto t = vh::split(line);
		if(t.size() < 4 || t[0] != "stress") continue;
		int nt = atoi(t[2].c_str()); long iters = atol(t[3].c_str());
		if(nt < 1 || nt > 8 || iters < 1 || iters > 10000000) continue;
		if(t[1] == "T") {
			uint32_t start = t.size() > 4 ? (uint32_t)vh::u64(t[4]) : 0;
			frg::ticket_spinlock l;
			l.next_ticket_ = start; l.serving_ticket_ = start;
			stress(l, nt, iters, start, true);
		} else {
			frg::simple_spinlock l;
			stress(l, nt, iters, 0, false);
		}
	}
}

int main() { return vh::run(body); }
