// Harness for frg::parse_arguments (C20, cmdline part).  The command line and every option name live in
// exact-size heap blocks (ASan redzone right after the last byte); the assertion hook is a recorded outcome.
// Canonical lines: one "apply <option index> <offset in the command line> <len>" per callback, then "ok".
// Oracle (independent of the model): sanitizers, termination, and every view handed to a callback must lie
// inside the command-line buffer (kind "oob").
#include <span>
#include <sanitizer/asan_interface.h>
#include "vharness.hpp"
#include <frg/cmdline.hpp>

struct Block { char *p; size_t n; };
static std::vector<Block> g_blocks;
static Block exact(const std::string &bytes) {
	Block b; b.n = bytes.size();
	b.p = (char *)::malloc(b.n ? b.n : 1);
	if(b.n) memcpy(b.p, bytes.data(), b.n); else ASAN_POISON_MEMORY_REGION(b.p, 1);
	g_blocks.push_back(b);
	return b;
}
static void drop_blocks() {
	for(auto &b : g_blocks) { if(!b.n) ASAN_UNPOISON_MEMORY_REGION(b.p, 1); ::free(b.p); }
	g_blocks.clear();
}
static std::string unhex(const std::string &h) {
	std::string r;
	if(h == "-") return r;
	for(size_t i = 0; i + 1 < h.size(); i += 2) r.push_back((char)strtoul(h.substr(i, 2).c_str(), nullptr, 16));
	return r;
}

static Block g_cl;
static bool g_null_cl;
struct Ctx { size_t idx; };

static void on_apply(frg::string_view v, void *ctx) {
	size_t idx = static_cast<Ctx *>(ctx)->idx;
	if(!v.data()) {
		printf("apply %zu null\n", idx);
		if(v.size()) vh::oracle("oob", "callback %zu got a null view of size %zu", idx, v.size());
		return;
	}
	if(g_null_cl || v.data() < g_cl.p || v.data() > g_cl.p + g_cl.n || v.size() > (size_t)(g_cl.p + g_cl.n - v.data())) {
		vh::oracle("oob", "callback %zu got a view outside the command line (size %zu, buffer %zu)", idx, v.size(), g_cl.n);
		printf("apply %zu outside\n", idx);
		return;
	}
	printf("apply %zu %zu %zu\n", idx, (size_t)(v.data() - g_cl.p), v.size());
	volatile char sink = 0;
	for(size_t i = 0; i < v.size(); i++) sink = sink + v[i];    // the target may read every byte of its view
}

// Options built by the real helpers of cmdline.hpp: each target object lives in its own heap block of exactly
// sizeof(target) bytes, so a callback writing more than its target is an ASan report
// ("the callbacks write only through the option's target").
struct Target {
	bool *b = nullptr; frg::string_view *v = nullptr; int32_t *i32 = nullptr; uint8_t *u8 = nullptr;
	int64_t *i64 = nullptr; uint16_t *u16 = nullptr;
	void release() { ::free(b); ::free(v); ::free(i32); ::free(u8); ::free(i64); ::free(u16); }
};
template<typename T> static T *exact_obj(T init) { T *p = (T *)::malloc(sizeof(T)); new (p) T(init); return p; }
static Target *new_target(const std::string &kind) {
	Target *t = new Target;
	if(kind == "T" || kind == "F") t->b = exact_obj<bool>(kind == "F");
	else if(kind == "V") t->v = exact_obj<frg::string_view>(frg::string_view{});
	else if(kind == "i32") t->i32 = exact_obj<int32_t>(7);
	else if(kind == "u8") t->u8 = exact_obj<uint8_t>(7);
	else if(kind == "u16") t->u16 = exact_obj<uint16_t>(7);
	else t->i64 = exact_obj<int64_t>(7);
	return t;
}
static void free_targets(std::vector<std::pair<std::string, Target *>> &ts) {
	for(auto &t : ts) if(t.second) { t.second->release(); delete t.second; }
	ts.clear();
}

static void body(const vh::Lines &ls) {
	drop_blocks();
	std::vector<frg::option> opts;
	std::vector<Ctx *> ctxs;
	std::vector<std::pair<std::string, Target *>> targets;   // per option: kind ("" = custom callback), target
	for(auto &l : ls) {
		auto t = vh::split(l);
		if(t[0] == "opt") {
			Block nb = exact(unhex(t[1]));
			Ctx *c = new Ctx{opts.size()}; ctxs.push_back(c);
			opts.push_back(frg::option{frg::string_view{nb.p, nb.n}, frg::option::fn_type{on_apply, c, t[2] == "1"}});
			targets.push_back({"", nullptr});
		} else if(t[0] == "nopt") {
			// a reserved / unbound option: null handler; option::apply must stop in FRG_ASSERT(fn.ptr)
			Block nb = exact(unhex(t[1]));
			opts.push_back(frg::option{frg::string_view{nb.p, nb.n}, frg::option::fn_type{nullptr, nullptr, t[2] == "1"}});
			targets.push_back({"", nullptr});
		} else if(t[0] == "ropt") {
			Block nb = exact(unhex(t[1]));
			const std::string &k = t[2];
			Target *tg = new_target(k);
			frg::string_view name{nb.p, nb.n};
			if(k == "T") opts.push_back(frg::option{name, frg::store_true(*tg->b)});
			else if(k == "F") opts.push_back(frg::option{name, frg::store_false(*tg->b)});
			else if(k == "V") opts.push_back(frg::option{name, frg::as_string_view(*tg->v)});
			else if(k == "i32") opts.push_back(frg::option{name, frg::as_number(*tg->i32)});
			else if(k == "u8") opts.push_back(frg::option{name, frg::as_number(*tg->u8)});
			else if(k == "u16") opts.push_back(frg::option{name, frg::as_number(*tg->u16)});
			else opts.push_back(frg::option{name, frg::as_number(*tg->i64)});
			targets.push_back({k, tg});
		} else if(t[0] == "parse" || t[0] == "parsenull") {
			g_null_cl = t[0] == "parsenull";
			g_cl = exact(g_null_cl ? std::string() : unhex(t[1]));
			fflush(stdout);
			try {
				frg::parse_arguments(g_null_cl ? frg::string_view{} : frg::string_view{g_cl.p, g_cl.n}, std::span<frg::option>(opts));
			} catch(...) { for(auto c : ctxs) delete c; free_targets(targets); throw; }
			printf("ok\n");
			for(size_t i = 0; i < targets.size(); i++) {
				const std::string &k = targets[i].first; Target *tg = targets[i].second;
				if(!tg) continue;
				if(k == "T" || k == "F") printf("t %zu b %d\n", i, (int)*tg->b);
				else if(k == "V") {
					if(!tg->v->data()) printf("t %zu v null\n", i);
					else if(tg->v->data() < g_cl.p || tg->v->data() > g_cl.p + g_cl.n || tg->v->size() > (size_t)(g_cl.p + g_cl.n - tg->v->data())) {
						vh::oracle("oob", "as_string_view target %zu holds a view outside the command line", i); printf("t %zu v outside\n", i); }
					else printf("t %zu v %zu %zu\n", i, (size_t)(tg->v->data() - g_cl.p), tg->v->size());
				}
				else if(k == "i32") printf("t %zu n %lld\n", i, (long long)*tg->i32);
				else if(k == "u8") printf("t %zu n %lld\n", i, (long long)*tg->u8);
				else if(k == "u16") printf("t %zu n %lld\n", i, (long long)*tg->u16);
				else printf("t %zu n %lld\n", i, (long long)*tg->i64);
			}
		}
	}
	for(auto c : ctxs) delete c;
	free_targets(targets);
}

int main() { return vh::run(body); }
