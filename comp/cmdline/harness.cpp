// Harness for frg::parse_arguments (C20, cmdline part).  The command line and every option name live in
// exact-size heap blocks (ASan redzone right after the last byte); the assertion hook is a recorded outcome.
// Canonical lines: one "apply <option index> <offset in the command line> <len>" per callback, then "ok".
// Oracle (independent of the model): sanitizers, termination, and every view handed to a callback must lie
// inside the command-line buffer (kind "oob").
#include <span>
#include <sanitizer/asan_interface.h>
#include "vharness.hpp"
#include <frg/cmdline.hpp>

struct Block { char *p; size_t n; };
static std::vector<Block> g_blocks;
static Block exact(const std::string &bytes) {
	Block b; b.n = bytes.size();
	b.p = (char *)::malloc(b.n ? b.n : 1);
	if(b.n) memcpy(b.p, bytes.data(), b.n); else ASAN_POISON_MEMORY_REGION(b.p, 1);
	g_blocks.push_back(b);
	return b;
}
static void drop_blocks() {
	for(auto &b : g_blocks) { if(!b.n) ASAN_UNPOISON_MEMORY_REGION(b.p, 1); ::free(b.p); }
	g_blocks.clear();
}
static std::string unhex(const std::string &h) {
	std::string r;
	if(h == "-") return r;
	for(size_t i = 0; i + 1 < h.size(); i += 2) r.push_back((char)strtoul(h.substr(i, 2).c_str(), nullptr, 16));
	return r;
}

static Block g_cl;
static bool g_null_cl;
struct Ctx { size_t idx; };

static void on_apply(frg::string_view v, void *ctx) {
	size_t idx = static_cast<Ctx *>(ctx)->idx;
	if(!v.data()) {
		printf("apply %zu null\n", idx);
		if(v.size()) vh::oracle("oob", "callback %zu got a null view of size %zu", idx, v.size());
		return;
	}
	if(g_null_cl || v.data() < g_cl.p || v.data() > g_cl.p + g_cl.n || v.size() > (size_t)(g_cl.p + g_cl.n - v.data())) {
		vh::oracle("oob", "callback %zu got a view outside the command line (size %zu, buffer %zu)", idx, v.size(), g_cl.n);
		printf("apply %zu outside\n", idx);
		return;
	}
	printf("apply %zu %zu %zu\n", idx, (size_t)(v.data() - g_cl.p), v.size());
	volatile char sink = 0;
	for(size_t i = 0; i < v.size(); i++) sink = sink + v[i];    // the target may read every byte of its view
}

static void body(const vh::Lines &ls) {
	drop_blocks();
	std::vector<frg::option> opts;
	std::vector<Ctx *> ctxs;
	for(auto &l : ls) {
		auto t = vh::split(l);
		if(t[0] == "opt") {
			Block nb = exact(unhex(t[1]));
			Ctx *c = new Ctx{opts.size()}; ctxs.push_back(c);
			opts.push_back(frg::option{frg::string_view{nb.p, nb.n}, frg::option::fn_type{on_apply, c, t[2] == "1"}});
		} else if(t[0] == "parse" || t[0] == "parsenull") {
			g_null_cl = t[0] == "parsenull";
			g_cl = exact(g_null_cl ? std::string() : unhex(t[1]));
			fflush(stdout);
			try {
				frg::parse_arguments(g_null_cl ? frg::string_view{} : frg::string_view{g_cl.p, g_cl.n}, std::span<frg::option>(opts));
			} catch(...) { for(auto c : ctxs) delete c; throw; }
			printf("ok\n");
		}
	}
	for(auto c : ctxs) delete c;
}

int main() { return vh::run(body); }
