"""cmdline component (frg::parse_arguments): builds the model driver and the harness, generates cases, runs legs C and O
into the given Check.  Used by checks/c20_cmdline.py and the coordinator's combined C20 check."""
import os
import vlib
from comp.cmdline import gen

RULE = ("command lines in exact-size heap buffers (ASan redzone right after the last byte), option names likewise; "
        "options are recording callbacks or the real helpers store_true/store_false/as_string_view/as_number<T> with "
        "exact-size heap targets; quick: every byte string of length <= 4 over {'\"','=',' ','a'} under 6 option tables (one with NULL-handler entries, flag- and value-shaped) + a sample of lengths 5..8 + "
        "grammar-based longer lines with quote/space/'=' mutations; thorough: every string of length <= 6; "
        "non-trivial = distinct script whose command line contains a quote or whose run invoked at least one callback")
TRUSTED = ["extraction: ExtrOcamlBasic only; OCaml 4.13.1; comp/cmdline/driver.ml",
           "correspondence harness comp/cmdline/harness.cpp (g++ -fsanitize=address,undefined); callbacks record (option, offset, length)",
           "oracle: ASan/UBSan, termination (timeout), callback views inside the command-line buffer, helper targets in exact-size heap objects",
           "modelled, not verified: the range-for over the option table as a list; option callbacks as output events "
           "(option targets are written only inside the callbacks of cmdline.hpp)"]
ASSUMPTIONS = ["the command-line view and the option-name views lie inside their buffers"]

def nontrivial(cid, lines, ri):
    p = [l for l in lines if l.startswith("parse ")]
    if any("22" in [l.split()[1][i:i + 2] for i in range(0, len(l.split()[1]), 2)] for l in p):
        return "|".join(lines)
    if any(x.startswith("apply") for x in ri.get("lines", [])):
        return "|".join(lines)
    return None

def run(c):
    okm, mlog = vlib.coq_make(["Cmdline/CmdlineExtract.vo"])
    okd, drv, dlog = vlib.ocaml_build("cmdline_m", ["cmdline_model"], os.path.join(vlib.ROOT, "comp/cmdline/driver.ml"))
    okh, har, hlog = vlib.cxx_build("cmdline_h", os.path.join(vlib.ROOT, "comp/cmdline/harness.cpp"))
    if not (okm and okd):
        c.broken.append("cmdline model extraction/driver build failed: " + (mlog[-400:] if not okm else dlog[-500:]))
    if not okh:
        c.broken.append("cmdline harness does not compile against the repo: " + hlog[-1500:])
        return False
    if c.replay:
        cases = vlib.read_replay(c.replay)
    else:
        cases = gen.corpus()
        if c.tier == "quick":
            cases += gen.exhaustive(4)
            cases += gen.sample_exhaustive(c.rng, 1200, 5, 8)
            cases += [gen.grammar(c.rng, i) for i in range(1200)]
        else:
            cases += gen.exhaustive(6)
            cases += gen.sample_exhaustive(c.rng, 4000, 7, 12)
            cases += [gen.grammar(c.rng, i) for i in range(10000)]
    for _, ls in cases:
        c.count("cmdline_cases")
        c.count("cmdline_options", sum(1 for l in ls if l.startswith("opt ")))
        c.count("cmdline_helper_options", sum(1 for l in ls if l.startswith("ropt ")))
        c.count("cmdline_null_handler_options", sum(1 for l in ls if l.startswith("nopt ")))
        for l in ls:
            if l.startswith("parse "):
                h = l.split()[1]
                n = 0 if h == "-" else len(h) // 2
                c.count("cmdline_len_%s" % (n if n <= 6 else "7+"))
                c.count("cmdline_with_quote" if "22" in [h[i:i + 2] for i in range(0, len(h), 2)] else "cmdline_no_quote")
    impl = vlib.run_cases(har, cases, timeout=300)
    model = vlib.run_cases(drv, cases) if okd else {}
    n_assert = sum(1 for r in impl.values() if "assert" in r.get("lines", []))
    c.count("cmdline_stopped_in_assertion_hook", n_assert)
    c.compare(cases, impl, model, nontrivial)
    return True
