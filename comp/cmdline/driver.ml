(* driver for the extracted parse_arguments model: same scripts as comp/cmdline/harness.cpp *)
let n_of_int i = n_of_i64 (Int64.of_int i)
let unhex (h : String.t) : n list =
  if h = "-" then [] else
  List.init (String.length h / 2) (fun i -> n_of_int (int_of_string ("0x" ^ String.sub h (2 * i) 2)))

let show_err = function
  | AssertStop _ -> "assert"
  | UB Oob -> "UB oob" | UB Null_deref -> "UB null" | UB _ -> "UB other"
  | OutOfFuel -> "out-of-fuel"
  | Ok _ -> "ok"

let kind_of = function
  | "T" -> KStore true | "F" -> KStore false | "V" -> KView
  | "i32" -> KNum { t_signed = true; t_bits = n_of_int 32 } | "u8" -> KNum { t_signed = false; t_bits = n_of_int 8 }
  | "u16" -> KNum { t_signed = false; t_bits = n_of_int 16 } | _ -> KNum { t_signed = true; t_bits = n_of_int 64 }
let has_arg_of = function "T" | "F" -> false | _ -> true

let body lines =
  let tbl = ref [] in
  let kinds = ref [] in
  let stopped = ref false in
  List.iter (fun l ->
    if not !stopped then
    match words l with
    | ["opt"; h; a] -> tbl := !tbl @ [((unhex h, a = "1"), true)]; kinds := !kinds @ [KCustom]
    | ["nopt"; h; a] -> tbl := !tbl @ [((unhex h, a = "1"), false)]; kinds := !kinds @ [KCustom]
    | ["ropt"; h; k] -> tbl := !tbl @ [((unhex h, has_arg_of k), true)]; kinds := !kinds @ [kind_of k]
    | "parse" :: _ | ["parsenull"] ->
      let (nul, cl) = (match words l with ["parse"; h] -> (false, unhex h) | _ -> (true, [])) in
      let ((r, items), tgs) = run_cmdline_targets !tbl !kinds cl nul in
      let custom idx = (match List.nth_opt !kinds (int_of_nat idx) with Some KCustom -> true | _ -> false) in
      List.iter (function
        | IRead _ -> ()
        | IApply (idx, _) when not (custom idx) -> ()
        | IApply (idx, VNull) -> Printf.printf "apply %d null\n" (int_of_nat idx)
        | IApply (idx, V (b, off, len)) ->
          if int_of_nat b = 0 then Printf.printf "apply %d %s %s\n" (int_of_nat idx) (string_of_n off) (string_of_n len)
          else Printf.printf "apply %d outside\n" (int_of_nat idx)) items;
      (match r with
       | Ok _ ->
         print_string "ok\n";
         List.iteri (fun i t -> match t with
           | TCustom -> ()
           | TBool b -> Printf.printf "t %d b %d\n" i (if b then 1 else 0)
           | TView VNull -> Printf.printf "t %d v null\n" i
           | TView (V (b, off, len)) ->
             if int_of_nat b = 0 then Printf.printf "t %d v %s %s\n" i (string_of_n off) (string_of_n len)
             else Printf.printf "t %d v outside\n" i
           | TNum n -> Printf.printf "t %d n %s\n" i (string_of_n n)) tgs
       | e -> print_string (show_err e ^ "\n"); stopped := true)
    | _ -> print_string ("?? " ^ l ^ "\n")) lines

let () = run_cases body
