(* driver for the extracted parse_arguments model: same scripts as comp/cmdline/harness.cpp *)
let n_of_int i = n_of_i64 (Int64.of_int i)
let unhex (h : String.t) : n list =
  if h = "-" then [] else
  List.init (String.length h / 2) (fun i -> n_of_int (int_of_string ("0x" ^ String.sub h (2 * i) 2)))

let show_err = function
  | AssertStop _ -> "assert"
  | UB Oob -> "UB oob" | UB Null_deref -> "UB null" | UB _ -> "UB other"
  | OutOfFuel -> "out-of-fuel"
  | Ok _ -> "ok"

let body lines =
  let tbl = ref [] in
  let stopped = ref false in
  List.iter (fun l ->
    if not !stopped then
    match words l with
    | ["opt"; h; a] -> tbl := !tbl @ [(unhex h, a = "1")]
    | "parse" :: _ | ["parsenull"] ->
      let (nul, cl) = (match words l with ["parse"; h] -> (false, unhex h) | _ -> (true, [])) in
      let (r, items) = run_cmdline !tbl cl nul in
      List.iter (function
        | IRead _ -> ()
        | IApply (idx, VNull) -> Printf.printf "apply %d null\n" (int_of_nat idx - 0)
        | IApply (idx, V (b, off, len)) ->
          if int_of_nat b = 0 then Printf.printf "apply %d %s %s\n" (int_of_nat idx) (string_of_n off) (string_of_n len)
          else Printf.printf "apply %d outside\n" (int_of_nat idx)) items;
      (match r with Ok _ -> print_string "ok\n" | e -> print_string (show_err e ^ "\n"); stopped := true)
    | _ -> print_string ("?? " ^ l ^ "\n")) lines

let () = run_cases body
