"""Case generator for frg::parse_arguments (C20 cmdline part): every byte string up to a length over the
syntactically relevant alphabet {'"', '=', ' ', 'a'} under several option tables, and grammar-based longer
command lines with mutations (dropped / extra quotes, doubled spaces, empty values, trailing separators)."""
import itertools

def hx(bs):
    return "".join("%02x" % b for b in bs) if bs else "-"

def hs(s):
    return hx([ord(c) for c in s])

ALPHA = [0x22, 0x3d, 0x20, 0x61]
# (name, has_arg)
TABLES = [
    [("a", 0), ("a", 1), ("aa", 1), ("aa", 0)],
    [("", 0), ("", 1), ("a", 1)],
    [("a=a", 0), ("a", 1), ("a", 0), ("aaa", 1), ("a a", 1)],
    [],
    [("a", "T"), ("a", "V"), ("aa", "V"), ("", "F"), ("a", 1)],
    [("aa", "N0"), ("a", "N1"), ("a", 0), ("aa", 1), ("", "N0")],      # null handlers: flag- and value-shaped
]
BIG_TABLE = [("foo", 0), ("bar", 1), ("baz", 1), ("init.exec", 1), ("quiet", 0), ("path1", 1), ("fo", 0), ("", 1), ("bar", 0),
             ("foo", "T"), ("quiet", "F"), ("baz", "V"), ("n", "i32"), ("m", "u8"), ("k", "i64"), ("j", "u16"), ("bar", "V"),
             ("debug", "N0"), ("console", "N1"), ("quiet", "N0"), ("baz", "N1")]

def table_lines(tbl):
    """entries: (name, 0|1) = custom recording callback without/with argument; (name, kind) with kind in
    T F V i32 u8 u16 i64 = the real helper of cmdline.hpp (store_true/false, as_string_view, as_number<T>)"""
    def line(n, h):
        if isinstance(h, int):
            return "opt %s %d" % (hs(n), h)
        if h in ("N0", "N1"):            # reserved option with a NULL handler, flag-shaped / value-shaped
            return "nopt %s %s" % (hs(n), h[1])
        return "ropt %s %s" % (hs(n), h)
    return [line(n, h) for n, h in tbl]

def corpus():
    cs = []
    # D32: unbalanced quote: closing_quote wraps, sub_string(1, SIZE_MAX) passed the wrapping check,
    # find_first('=') ran off the buffer
    cs.append(("corpus-d32-unbalanced-quote", table_lines([("a", 1)]) + ["parse " + hs('"abc')]))
    cs.append(("corpus-d32-quote-mid", table_lines([("a", 1)]) + ["parse " + hs('a"b c')]))
    cs.append(("corpus-quoted-last", table_lines([("", 0), ("a", 0)]) + ["parse " + hs('"a"')]))
    cs.append(("corpus-test-basic", table_lines([("foo", 0), ("bar", 0), ("baz", 1), ("path1", 1), ("path2", 1)]) +
               ["parse " + hs('foo baz=quux "path1=/foo bar/baz" path2="/baz bar/foo" bar')]))
    cs.append(("corpus-helpers", table_lines([("foo", "T"), ("bar", "V"), ("baz", 1), ("n", "i32"), ("m", "u8"), ("q", "F")]) +
               ["parse " + hs('foo bar=x "baz=a b" n=123 m=300 n=99999999999999 bar')]))
    cs.append(("corpus-helper-i64-max", table_lines([("n", "i64")]) + ["parse " + hs('n=9223372036854775807')]))
    # seeded: try_apply_arg calling opt.fn.ptr directly (bypassing FRG_ASSERT(fn.ptr) in option::apply): a reserved option
    # with a null handler named in the matching shape must stop in the assertion hook, at the start / middle / end
    for pos, line in (("start", "debug x=1 y"), ("middle", "x=1 debug y"), ("end", "x=1 y debug")):
        cs.append(("corpus-null-flag-" + pos, table_lines([("x", 1), ("debug", "N0"), ("y", 0)]) + ["parse " + hs(line)]))
    for pos, line in (("start", "console=ttyS0 x y=2"), ("middle", "x console=ttyS0 y=2"), ("end", "x y=2 console=ttyS0"),
                      ("quoted", 'x "console=tty S0" y=2')):
        cs.append(("corpus-null-value-" + pos, table_lines([("x", 0), ("console", "N1"), ("y", 1)]) + ["parse " + hs(line)]))
    cs.append(("corpus-null-wrong-shape", table_lines([("debug", "N0"), ("console", "N1")]) + ["parse " + hs("debug=1 console")]))
    cs.append(("corpus-null-cmdline", table_lines([("", 0), ("a", 1)]) + ["parsenull"]))
    cs.append(("corpus-empty-cmdline", table_lines([("", 0), ("a", 1)]) + ["parse -"]))
    return cs

def exhaustive(maxlen, tables=TABLES):
    out = []
    k = 0
    for ti, tbl in enumerate(tables):
        tl = table_lines(tbl)
        for n in range(maxlen + 1):
            for t in itertools.product(ALPHA, repeat=n):
                out.append(("ex-%d-%d" % (ti, k), tl + ["parse " + hx(list(t))])); k += 1
    return out

def sample_exhaustive(rng, count, lo, hi, tables=TABLES):
    out = []
    for i in range(count):
        n = rng.randrange(lo, hi + 1)
        tbl = rng.choice(tables)
        out.append(("sx-%d" % i, table_lines(tbl) + ["parse " + hx([rng.choice(ALPHA) for _ in range(n)])]))
    return out

def grammar(rng, i):
    tbl = list(BIG_TABLE)
    rng.shuffle(tbl)
    tbl = tbl[:rng.randrange(1, len(tbl) + 1)]
    names = [n for n, _ in BIG_TABLE] + ["x", "nosuch", "n", "m", "k", "j", "debug", "console"]
    toks = []
    for _ in range(rng.randrange(0, 9)):
        n = rng.choice(names)
        k = rng.random()
        if k < 0.3:
            t = n
        elif k < 0.6:
            t = n + "=" + rng.choice(["", "1", "quux", "/a/b", "a=b", "12345678901234567890", "255", "256", "2147483647", "2147483648",
                                      "65535", "65536", "9223372036854775807", "9223372036854775808", "007", "12x", str(rng.randrange(0, 70000))])
        elif k < 0.8:
            t = '"' + n + "=" + rng.choice(["a b", " ", "", "x  y z", "a=b c"]) + '"'
        else:
            t = n + '="' + rng.choice(["a b", "", "p q r"]) + '"'
        toks.append(t)
    s = ""
    for t in toks:
        s += t + " " * rng.choice([1, 1, 1, 2, 3])
    if rng.random() < 0.6:
        s = s.rstrip(" ")
    s = list(s)
    # mutations
    for _ in range(rng.choice([0, 0, 1, 1, 2, 3])):
        m = rng.random()
        pos = rng.randrange(len(s) + 1)
        if m < 0.35:
            qs = [j for j, ch in enumerate(s) if ch == '"']
            if qs:
                del s[rng.choice(qs)]
        elif m < 0.6:
            s.insert(pos, '"')
        elif m < 0.75:
            s.insert(pos, ' ')
        elif m < 0.9:
            s.insert(pos, '=')
        elif s:
            del s[rng.randrange(len(s))]
    bs = [ord(c) for c in s]
    if rng.random() < 0.1:
        bs = [rng.randrange(256) for _ in range(rng.randrange(0, 30))]
    return ("g-%d" % i, table_lines(tbl) + ["parse " + hx(bs)])
