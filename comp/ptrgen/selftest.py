#!/usr/bin/env python3
"""Mutation self-test of the pointer-level tie (not part of any check; run by hand, ~10 s per edit).

  python3 comp/ptrgen/selftest.py [part ...]

For every edit in the tables below: the header is patched in a scratch git worktree of /repo, the translator is run against
it (VERIF_REPO) into a scratch shadow of /verif/coq (PTRGEN_ROOT; symlinks to the compiled directories, private Gen/ and
PtrGen/), and coq/Gen/Ptr_<part>.v + coq/PtrGen/Tie_<part>.v are compiled with coqc directly (no vlib locks are taken, the
real tree is not touched).  Reported per edit: `rejected` (translator exit != 0, names the node), `tie broke at <lemma>`,
or `green`.  Semantics-CHANGING edits must not be green; for the harmless ones the table says what is expected."""
import os, re, shutil, subprocess, sys, tempfile

ROOT = os.path.dirname(os.path.dirname(os.path.dirname(os.path.abspath(__file__))))
HDR = {"pairing": "include/frg/pairing_heap.hpp", "hashmap": "include/frg/hash_map.hpp", "rb": "include/frg/rbtree.hpp"}

# (id, kind, description, [(old, new, count)])   kind: "sem" = semantics-changing, "harmless" = semantics-preserving
EDITS = {
    "pairing": [
        ("P1", "sem", "_merge: wrong value written into the old child's backlink",
         [("\t\t\t\th(sibling).backlink = a;", "\t\t\t\th(sibling).backlink = b;", 1)]),
        ("P2", "sem", "_merge: null check of the old child dropped (first branch)",
         [("\t\t\tif(sibling) {\n\t\t\t\tFRG_ASSERT(h(sibling).backlink == b);", "\t\t\t{\n\t\t\t\tFRG_ASSERT(h(sibling).backlink == b);", 1)]),
        ("P3", "sem", "_merge: assertion and the assignment it guards swapped (dependent)",
         [("\t\t\t\tFRG_ASSERT(h(sibling).backlink == a);\n\t\t\t\th(sibling).backlink = b;",
           "\t\t\t\th(sibling).backlink = b;\n\t\t\t\tFRG_ASSERT(h(sibling).backlink == a);", 1)]),
        ("P4", "sem", "_merge: h(b).child = a written before the old child was read (dependent swap)",
         [("\t\t\tauto sibling = h(b).child;\n", "\t\t\th(b).child = a;\n\t\t\tauto sibling = h(b).child;\n", 1),
          ("\t\t\th(a).backlink = b;\n\t\t\th(b).child = a;\n", "\t\t\th(a).backlink = b;\n", 1)]),
        ("P5", "sem", "_collapse: merged pair linked through .sibling instead of .backlink",
         [("\t\t\th(merged).backlink = paired;", "\t\t\th(merged).sibling = paired;", 1)]),
        ("P6", "sem", "_collapse: `next` read after partner.sibling was cleared (dependent swap)",
         [("\t\t\tauto next = h(partner).sibling;\n", "", 1),
          ("\t\t\th(partner).sibling = nullptr;\n", "\t\t\th(partner).sibling = nullptr;\n\t\t\tauto next = h(partner).sibling;\n", 1)]),
        ("P7", "sem", "_collapse: null check of `element` dropped from the loop condition",
         [("while(element && h(element).sibling)", "while(h(element).sibling)", 1)]),
        ("P8", "sem", "_collapse: arguments of the joining _merge swapped",
         [("joined = _merge(joined, paired);", "joined = _merge(paired, joined);", 1)]),
        ("P9", "sem", "_collapse: leftover's backlink cleared only if(paired)",
         [("\t\t\th(element).backlink = nullptr;\n\t\t\tjoined = element;", "\t\t\tif(paired) h(element).backlink = nullptr;\n\t\t\tjoined = element;", 1)]),
        ("P10", "sem", "push: FRG_ASSERT(!h(element).child) dropped",
         [("\t\tFRG_ASSERT(!h(element).child);\n\t\tFRG_ASSERT(!h(element).backlink && !h(element).sibling);\n\t\t\n\t\tif(_root)",
           "\t\tFRG_ASSERT(!h(element).backlink && !h(element).sibling);\n\t\t\n\t\tif(_root)", 1)]),
        ("P11", "sem", "push: arguments of _merge swapped",
         [("_root = _merge(_root, element);", "_root = _merge(element, _root);", 1)]),
        ("P12", "sem", "pop: root's child cleared before it is read (dependent swap)",
         [("\t\tauto child = h(_root).child;\n\t\t\n\t\t// Remove the root from the heap.\n\t\th(_root).child = nullptr;",
           "\t\th(_root).child = nullptr;\n\t\tauto child = h(_root).child;", 1)]),
        ("P13", "sem", "pop: child's backlink not cleared before _collapse",
         [("\t\t\th(child).backlink = nullptr;\n\t\t\t_root = _collapse(child);\n\t\t}else{\n\t\t\t_root = nullptr;",
           "\t\t\t_root = _collapse(child);\n\t\t}else{\n\t\t\t_root = nullptr;", 1)]),
        ("P14", "sem", "remove: predecessor.child set to the element's child instead of its sibling",
         [("h(predecessor).child = sibling;", "h(predecessor).child = child;", 1)]),
        ("P15", "sem", "remove: null check of sibling dropped",
         [("\t\t\tif(sibling)\n\t\t\t\th(sibling).backlink = predecessor;", "\t\t\th(sibling).backlink = predecessor;", 1)]),
        ("P16", "sem", "remove: element's child pointer not reset",
         [("\t\t\th(element).sibling = nullptr;\n\t\t\th(element).child = nullptr;", "\t\t\th(element).sibling = nullptr;", 1)]),
        ("P17", "sem", "remove: the three resets moved before collapse/merge (PM7 of comp/pairing: not seen by the scripts)",
         [("\t\t\th(element).backlink = nullptr;\n\t\t\th(element).sibling = nullptr;\n\t\t\th(element).child = nullptr;\n", "", 1),
          ("\t\t\tif(child) {\n\t\t\t\tFRG_ASSERT(h(child).backlink == element);",
           "\t\t\th(element).backlink = nullptr;\n\t\t\th(element).sibling = nullptr;\n\t\t\th(element).child = nullptr;\n"
           "\t\t\tif(child) {\n\t\t\t\tFRG_ASSERT(h(child).backlink == element);", 1)]),
        ("P18", "order", "remove: sibling.backlink fixed before the predecessor link (PM10: independent writes, order only; expected: breaks)",
         [("\t\t\tif(sibling)\n\t\t\t\th(sibling).backlink = predecessor;\n", "", 1),
          ("\t\t\tif(h(predecessor).child == element) {", "\t\t\tif(sibling)\n\t\t\t\th(sibling).backlink = predecessor;\n\t\t\tif(h(predecessor).child == element) {", 1)]),
        ("PH1", "harmless", "rename the local `sibling` of _merge (expected green)",
         [("\t\t\tauto sibling = h(b).child;\n\t\t\tif(sibling) {\n\t\t\t\tFRG_ASSERT(h(sibling).backlink == b);\n\t\t\t\th(sibling).backlink = a;\n\t\t\t}\n\t\t\th(a).sibling = sibling;",
           "\t\t\tauto old_first = h(b).child;\n\t\t\tif(old_first) {\n\t\t\t\tFRG_ASSERT(h(old_first).backlink == b);\n\t\t\t\th(old_first).backlink = a;\n\t\t\t}\n\t\t\th(a).sibling = old_first;", 1)]),
        ("PH2", "harmless", "add comments and blank lines (expected green)",
         [("\tT *_merge(T *a, T *b) {\n", "\tT *_merge(T *a, T *b) {\n\t\t// a comment\n\n\t\t/* another\n\t\t   one */\n", 1),
          ("\tvoid pop() {\n", "\n\n\tvoid pop() {\n", 1)]),
        ("PH3", "harmless", "reorder two INDEPENDENT assignments (two fields of one node) in _merge (expected: breaks, final heaps are "
         "equal only extensionally)",
         [("\t\t\th(a).sibling = sibling;\n\t\t\th(a).backlink = b;", "\t\t\th(a).backlink = b;\n\t\t\th(a).sibling = sibling;", 1)]),
        ("PH4", "harmless", "reorder two independent READS in remove (expected green)",
         [("\t\t\tauto predecessor = h(element).backlink;\n\t\t\tauto sibling = h(element).sibling;",
           "\t\t\tauto sibling = h(element).sibling;\n\t\t\tauto predecessor = h(element).backlink;", 1)]),
        ("PH5", "harmless", "if(sibling) -> if(sibling != nullptr), while(paired) -> while(paired != nullptr) (expected green)",
         [("\t\t\tauto sibling = h(a).child;\n\t\t\tif(sibling) {", "\t\t\tauto sibling = h(a).child;\n\t\t\tif(sibling != nullptr) {", 1),
          ("while(paired) {", "while(paired != nullptr) {", 1)]),
        ("PH6", "harmless", "name a subexpression in a new local in push (expected green)",
         [("\t\t\t_root = _merge(_root, element);", "\t\t\tT *r = _root;\n\t\t\t_root = _merge(r, element);", 1)]),
        ("PH7", "harmless", "if/else arms exchanged with the condition negated in pop (expected green)",
         [("\t\tif(child) {\n\t\t\tFRG_ASSERT(h(child).backlink == _root);\n\t\t\th(child).backlink = nullptr;\n\t\t\t_root = _collapse(child);\n\t\t}else{\n\t\t\t_root = nullptr;\n\t\t}",
           "\t\tif(!child) {\n\t\t\t_root = nullptr;\n\t\t}else{\n\t\t\tFRG_ASSERT(h(child).backlink == _root);\n\t\t\th(child).backlink = nullptr;\n\t\t\t_root = _collapse(child);\n\t\t}", 1)]),
        ("PX1", "subset", "a construct outside the subset: pointer arithmetic (expected: rejected, node named)",
         [("\t\t\t_root = element;\n", "\t\t\t_root = element + 1;\n", 1)]),
        ("PX2", "subset", "a construct outside the subset: do-while loop (expected: rejected, node named)",
         [("\t\twhile(paired) {", "\t\tdo {", 1), ("\t\t\tpaired = predecessor;\n\t\t}\n\n\t\treturn joined;", "\t\t\tpaired = predecessor;\n\t\t} while(paired);\n\n\t\treturn joined;", 1)]),
    ],
    "hashmap": [
        ("H1", "sem", "rehash: minimum capacity 12 instead of 10",
         [("\tif(new_capacity < 10)\n\t\tnew_capacity = 10;", "\tif(new_capacity < 10)\n\t\tnew_capacity = 12;", 1)]),
        ("H2", "sem", "rehash: `next` read after item->next was overwritten (dependent swap)",
         [("\t\t\tchain *next = item->next;\n\t\t\titem->next = new_table[bucket];", "\t\t\titem->next = new_table[bucket];\n\t\t\tchain *next = item->next;", 1)]),
        ("H3", "sem", "rehash: node not stored into the new table",
         [("\t\t\tnew_table[bucket] = item;\n", "", 1)]),
        ("H4", "sem", "rehash: old buckets walked up to new_capacity",
         [("\tfor(size_t i = 0; i < _capacity; i++) {\n\t\tchain *item = _table[i];\n\t\twhile(item != nullptr) {\n\t\t\tauto bucket",
           "\tfor(size_t i = 0; i < new_capacity; i++) {\n\t\tchain *item = _table[i];\n\t\twhile(item != nullptr) {\n\t\t\tauto bucket", 1)]),
        ("H5", "sem", "rehash: bucket computed modulo the OLD capacity",
         [("auto bucket = ((unsigned int)_hasher(item->entry.template get<0>())) % new_capacity;",
           "auto bucket = ((unsigned int)_hasher(item->entry.template get<0>())) % _capacity;", 1)]),
        ("H6", "sem", "insert: new node's next not linked to the old head",
         [("\tauto item = frg::construct<chain>(_allocator, key, value);\n\titem->next = _table[bucket];\n", "\tauto item = frg::construct<chain>(_allocator, key, value);\n", 1)]),
        ("H7", "sem", "insert: rehash only when _size > _capacity",
         [("void hash_map<Key, Value, Hash, Allocator>::insert(const Key &key, const Value &value) {\n\tif(_size >= _capacity)",
           "void hash_map<Key, Value, Hash, Allocator>::insert(const Key &key, const Value &value) {\n\tif(_size > _capacity)", 1)]),
        ("H8", "sem", "insert(Value&&): FRG_ASSERT(_capacity > 0) dropped",
         [("\tFRG_ASSERT(_capacity > 0);\n\tunsigned int bucket = ((unsigned int)_hasher(key)) % _capacity;\n\t\n\tauto item = frg::construct<chain>(_allocator, key, std::move(value));",
           "\tunsigned int bucket = ((unsigned int)_hasher(key)) % _capacity;\n\t\n\tauto item = frg::construct<chain>(_allocator, key, std::move(value));", 1)]),
        ("H9", "sem", "operator[]: _size not incremented on the empty-map path",
         [("\t\t_table[bucket] = item;\n\t\t_size++;\n\t}\n", "\t\t_table[bucket] = item;\n\t}\n", 1)]),
        ("H10", "sem", "operator[]: bucket not recomputed after the rehash",
         [("\t\trehash();\n\t\tbucket = ((unsigned int)_hasher(key)) % _capacity;\n", "\t\trehash();\n", 1)]),
        ("H11", "sem", "operator[]: key comparison negated",
         [("\t\tif (item->entry.template get<0>() == key)\n\t\t\treturn item->entry.template get<1>();",
           "\t\tif (item->entry.template get<0>() != key)\n\t\t\treturn item->entry.template get<1>();", 1)]),
        ("H12", "sem", "get: empty-map guard dropped (then % 0)",
         [("\tif(_size == 0)\n\t\treturn nullptr;\n", "", 1)]),
        ("H13", "sem", "get: walks from the node AFTER the bucket head (drops a null check)",
         [("\tfor(chain *item = _table[bucket]; item != nullptr; item = item->next) {\n\t\tif(item->entry.template get<0>() == key)\n\t\t\treturn &item",
           "\tfor(chain *item = _table[bucket]->next; item != nullptr; item = item->next) {\n\t\tif(item->entry.template get<0>() == key)\n\t\t\treturn &item", 1)]),
        ("H14", "sem", "find: iterator built with a null item",
         [("\t\t\t\treturn iterator(this, bucket, item);", "\t\t\t\treturn iterator(this, bucket, nullptr);", 1)]),
        ("H15", "sem", "find: empty-map guard dropped",
         [("\titerator find(const Key &key) {\n\t\tif (!_size)\n\t\t\treturn end();\n", "\titerator find(const Key &key) {\n", 1)]),
        ("H16", "sem", "begin: bucket walk starts at 1",
         [("\t\tfor(size_t bucket = 0; bucket < _capacity; bucket++) {", "\t\tfor(size_t bucket = 1; bucket < _capacity; bucket++) {", 1)]),
        ("H17", "sem", "begin: FRG_ASSERT(!\"hash_map corrupted\") dropped",
         [("\t\tFRG_ASSERT(!\"hash_map corrupted\");\n", "", 1)]),
        ("H18", "sem", "remove: previous not advanced",
         [("\t\tprevious = item;\n", "", 1)]),
        ("H19", "sem", "remove: unlink branches exchanged",
         [("\t\t\tif(previous == nullptr) {\n\t\t\t\t_table[bucket] = item->next;", "\t\t\tif(previous != nullptr) {\n\t\t\t\t_table[bucket] = item->next;", 1)]),
        ("H20", "sem", "remove: _size not decremented",
         [("\t\t\tfrg::destruct(_allocator, item);\n\t\t\t_size--;\n", "\t\t\tfrg::destruct(_allocator, item);\n", 1)]),
        ("H21", "sem", "remove: node not released",
         [("\t\t\tfrg::destruct(_allocator, item);\n\t\t\t_size--;\n", "\t\t\t_size--;\n", 1)]),
        ("H22", "sem", "remove: node released before it is unlinked (dependent swap: item->next read after destruct)",
         [("\t\t\tfrg::destruct(_allocator, item);\n\t\t\t_size--;\n", "\t\t\t_size--;\n", 1),
          ("\t\t\tValue value = std::move(item->entry.template get<1>());\n", "\t\t\tValue value = std::move(item->entry.template get<1>());\n\t\t\tfrg::destruct(_allocator, item);\n", 1)]),
        ("H23", "sem", "~hash_map: next read after the node was released (dependent swap)",
         [("\t\t\tchain *next = item->next;\n\t\t\tfrg::destruct(_allocator, item);\n\t\t\titem = next;\n\t\t}\n\t}\n\t_allocator.deallocate",
           "\t\t\tfrg::destruct(_allocator, item);\n\t\t\tchain *next = item->next;\n\t\t\titem = next;\n\t\t}\n\t}\n\t_allocator.deallocate", 1)]),
        ("H24", "sem", "~hash_map: only the first node of every chain released",
         [("\t\tchain *item = _table[i];\n\t\twhile(item != nullptr) {\n\t\t\tchain *next = item->next;\n\t\t\tfrg::destruct",
           "\t\tchain *item = _table[i];\n\t\tif(item != nullptr) {\n\t\t\tchain *next = item->next;\n\t\t\tfrg::destruct", 1)]),
        ("H25", "sem", "iterator::operator++: FRG_ASSERT(bucket < map->_capacity) dropped (both iterators)",
         [("\t\t\tFRG_ASSERT(bucket < map->_capacity);\n", "", 2)]),
        ("H26", "sem", "iterator::operator++: bucket incremented after the end test (both iterators)",
         [("\t\t\t\tbucket++;\n\t\t\t\tif(bucket == map->_capacity)\n\t\t\t\t\tbreak;\n", "\t\t\t\tif(bucket == map->_capacity)\n\t\t\t\t\tbreak;\n\t\t\t\tbucket++;\n", 2)]),
        ("H27", "sem", "iterator::operator++: FRG_ASSERT(item) dropped (null check; both iterators)",
         [("\t\t\tFRG_ASSERT(item);\n", "", 2)]),
        ("HH1", "harmless", "rename the local `previous` of remove (expected green)",
         [("previous", "prev_node", 4)]),
        ("HH2", "harmless", "add comments and blank lines (expected green)",
         [("void hash_map<Key, Value, Hash, Allocator>::rehash() {\n", "void hash_map<Key, Value, Hash, Allocator>::rehash() {\n\t// comment\n\n", 1),
          ("\titerator begin() {\n", "\n\t/* c */\n\titerator begin() {\n", 1)]),
        ("HH3", "harmless", "`item != nullptr` -> `item` in the loops of get and ~hash_map (expected green)",
         [("\tfor(chain *item = _table[bucket]; item != nullptr; item = item->next) {\n\t\tif(item->entry.template get<0>() == key)\n\t\t\treturn &item",
           "\tfor(chain *item = _table[bucket]; item; item = item->next) {\n\t\tif(item->entry.template get<0>() == key)\n\t\t\treturn &item", 1)]),
        ("HH4", "harmless", "reorder two INDEPENDENT member writes at the end of rehash (_capacity before _table; expected green: the "
         "state record is the same)",
         [("\t_table = new_table;\n\t_capacity = new_capacity;", "\t_capacity = new_capacity;\n\t_table = new_table;", 1)]),
        ("HH5", "harmless", "PM7 of comp/hashmap: _size++ before the link in insert (independent of the link; expected green)",
         [("\tauto item = frg::construct<chain>(_allocator, key, value);\n\titem->next = _table[bucket];\n\t_table[bucket] = item;\n\t_size++;",
           "\tauto item = frg::construct<chain>(_allocator, key, value);\n\t_size++;\n\titem->next = _table[bucket];\n\t_table[bucket] = item;", 1)]),
        ("HH6", "harmless", "PM3 of comp/hashmap: dead store `_table[i] = nullptr` into the OLD table in rehash (final state equal; "
         "expected: breaks, the tactic does not know that the index just read is in range)",
         [("\t\t\titem = next;\n\t\t}\n\t}\n\n\t_allocator.deallocate(_table, sizeof(chain *) * _capacity);\n\t_table = new_table;",
           "\t\t\titem = next;\n\t\t}\n\t\t_table[i] = nullptr;\n\t}\n\n\t_allocator.deallocate(_table, sizeof(chain *) * _capacity);\n\t_table = new_table;", 1)]),
        ("HH7", "harmless", "name a subexpression in a new local in get (expected green)",
         [("\tunsigned int bucket = ((unsigned int)_hasher(key)) % _capacity;\n\n\tfor(chain *item = _table[bucket];",
           "\tunsigned int bucket = ((unsigned int)_hasher(key)) % _capacity;\n\n\tchain *head = _table[bucket];\n\tfor(chain *item = head;", 1)]),
        ("HX1", "subset", "outside the subset: rehash walks the old buckets downwards with `i-- > 0` (expected: rejected)",
         [("\tfor(size_t i = 0; i < _capacity; i++) {\n\t\tchain *item = _table[i];\n\t\twhile(item != nullptr) {\n\t\t\tauto bucket",
           "\tfor(size_t i = _capacity; i-- > 0;) {\n\t\tchain *item = _table[i];\n\t\twhile(item != nullptr) {\n\t\t\tauto bucket", 1)]),
        ("HX2", "subset", "outside the subset: the new table escapes into a second pointer (expected: rejected)",
         [("\tfor(size_t i = 0; i < new_capacity; i++)\n\t\tnew_table[i] = nullptr;", "\tchain **alias = new_table;\n\tfor(size_t i = 0; i < new_capacity; i++)\n\t\talias[i] = nullptr;", 1)]),
    ],
    "rb": [
        ("R1", "sem", "rotateLeft: w read after u's parent was overwritten (dependent swap)",
         [("\t\tT *w = get_parent(u);\n\n\t\tif(v != nullptr)\n\t\t\th(v)->parent = u;\n\t\th(u)->right = v;\n\t\th(u)->parent = n;\n",
           "\n\t\tif(v != nullptr)\n\t\t\th(v)->parent = u;\n\t\th(u)->right = v;\n\t\th(u)->parent = n;\n\t\tT *w = get_parent(u);\n", 1)]),
        ("R2", "sem", "rotateLeft: null check of v dropped",
         [("\t\tif(v != nullptr)\n\t\t\th(v)->parent = u;\n\t\th(u)->right = v;", "\t\th(v)->parent = u;\n\t\th(u)->right = v;", 1)]),
        ("R3", "sem", "rotateLeft: u hung under n->right instead of n->left",
         [("\t\th(n)->left = u;\n\t\th(n)->parent = w;", "\t\th(n)->right = u;\n\t\th(n)->parent = w;", 1)]),
        ("R4", "sem", "rotateRight: _root = u instead of n",
         [("\t\th(n)->right = u;\n\t\th(n)->parent = w;\n\n\t\tif(w == nullptr) {\n\t\t\t_root = n;", "\t\th(n)->right = u;\n\t\th(n)->parent = w;\n\n\t\tif(w == nullptr) {\n\t\t\t_root = u;", 1)]),
        ("R5", "sem", "rotateRight: assertion checks the wrong child",
         [("FRG_ASSERT(u != nullptr && get_left(u) == n);", "FRG_ASSERT(u != nullptr && get_right(u) == n);", 1)]),
        ("R6", "sem", "rotateLeft: aggregate_node(n) before aggregate_node(u)",
         [("\t\th(w)->right = n;\n\t\t}\n\n\t\taggregate_node(u);\n\t\taggregate_node(n);\n\t}\n\n\t// Right rotation",
           "\t\th(w)->right = n;\n\t\t}\n\n\t\taggregate_node(n);\n\t\taggregate_node(u);\n\t}\n\n\t// Right rotation", 1)]),
        ("F1", "sem", "fix_insert: n coloured red only after the black-parent test",
         [("\t\th(n)->color = color_type::red;\n\t\tif(h(parent)->color == color_type::black)\n\t\t\treturn;\n",
           "\t\tif(h(parent)->color == color_type::black)\n\t\t\treturn;\n\t\th(n)->color = color_type::red;\n", 1)]),
        ("F2", "sem", "fix_insert: red-uncle test dropped from the first case",
         [("if(get_left(grand) == parent && isRed(get_right(grand))) {", "if(get_left(grand) == parent) {", 1)]),
        ("F3", "sem", "fix_insert: the two rotations of the inner case exchanged",
         [("\t\t\t\trotateLeft(n);\n\t\t\t\trotateRight(n);", "\t\t\t\trotateRight(n);\n\t\t\t\trotateLeft(n);", 1)]),
        ("F4", "sem", "fix_insert: grand not coloured red after the outer rotation",
         [("\t\t\t\th(parent)->color = color_type::black;\n\t\t\t}\n\t\t\th(grand)->color = color_type::red;\n\t\t}else{",
           "\t\t\t\th(parent)->color = color_type::black;\n\t\t\t}\n\t\t}else{", 1)]),
        ("F5", "sem", "fix_insert: no propagation to the grandparent in the red-uncle case",
         [("\t\t\th(get_right(grand))->color = color_type::black;\n\n\t\t\tfix_insert(grand);\n\t\t\treturn;",
           "\t\t\th(get_right(grand))->color = color_type::black;\n\n\t\t\treturn;", 1)]),
        ("F6", "sem", "fix_insert: FRG_ASSERT(grand && ...) weakened to the colour test only (null check dropped)",
         [("FRG_ASSERT(grand && h(grand)->color == color_type::black);", "FRG_ASSERT(h(grand)->color == color_type::black);", 1)]),
        ("I1", "sem", "insert_root: FRG_ASSERT(!_root) dropped",
         [("\t\tFRG_ASSERT(!_root);\n", "", 1)]),
        ("I2", "sem", "insert_left: node's predecessor set to parent instead of pred",
         [("\t\th(node)->predecessor = pred;", "\t\th(node)->predecessor = parent;", 1)]),
        ("I3", "sem", "insert_left: null check of pred dropped",
         [("\t\tif(pred)\n\t\t\th(pred)->successor = node;", "\t\th(pred)->successor = node;", 1)]),
        ("I4", "sem", "insert_left: aggregate_path(parent) before aggregate_node(node)",
         [("\t\th(parent)->predecessor = node;\n\n\t\taggregate_node(node);\n\t\taggregate_path(parent);",
           "\t\th(parent)->predecessor = node;\n\n\t\taggregate_path(parent);\n\t\taggregate_node(node);", 1)]),
        ("I5", "sem", "insert_right: successor(parent) read after it was overwritten (dependent swap)",
         [("\t\tT *succ = successor(parent);\n\t\th(parent)->successor = node;", "\t\th(parent)->successor = node;\n\t\tT *succ = successor(parent);", 1)]),
        ("I6", "sem", "insert_right: fix_insert not called",
         [("\t\tif(succ)\n\t\t\th(succ)->predecessor = node;\n\n\t\taggregate_node(node);\n\t\taggregate_path(parent);\n\t\tfix_insert(node);",
           "\t\tif(succ)\n\t\t\th(succ)->predecessor = node;\n\n\t\taggregate_node(node);\n\t\taggregate_path(parent);", 1)]),
        ("X1", "sem", "fix_remove: FRG_ASSERT(h(n)->color == black) dropped",
         [("\t\tFRG_ASSERT(h(n)->color == color_type::black);\n", "", 1)]),
        ("X2", "sem", "fix_remove: colours of parent and old sibling exchanged after the first rotation (left case)",
         [("\t\t\t\tFRG_ASSERT(n == get_left(parent));\n\n\t\t\t\th(parent)->color = color_type::red;\n\t\t\t\th(x)->color = color_type::black;",
           "\t\t\t\tFRG_ASSERT(n == get_left(parent));\n\n\t\t\t\th(parent)->color = color_type::black;\n\t\t\t\th(x)->color = color_type::red;", 1)]),
        ("X3", "sem", "fix_remove: sibling taken from the wrong side",
         [("\t\t\ts = get_right(parent);\n\t\t}else{", "\t\t\ts = get_left(parent);\n\t\t}else{", 1)]),
        ("X4", "sem", "fix_remove: `both children black` test weakened to `one child black`",
         [("if(isBlack(get_left(s)) && isBlack(get_right(s))) {", "if(isBlack(get_left(s)) || isBlack(get_right(s))) {", 1)]),
        ("X5", "sem", "fix_remove: sibling gets black instead of the parent's colour (left case)",
         [("\t\t\trotateLeft(s);\n\t\t\th(parent)->color = color_type::black;\n\t\t\th(s)->color = parent_color;",
           "\t\t\trotateLeft(s);\n\t\t\th(parent)->color = color_type::black;\n\t\t\th(s)->color = color_type::black;", 1)]),
        ("X6", "sem", "fix_remove: inner rotation in the wrong direction (left case)",
         [("\t\t\t\tT *child = get_left(s);\n\t\t\t\trotateRight(child);", "\t\t\t\tT *child = get_left(s);\n\t\t\t\trotateLeft(child);", 1)]),
        ("X7", "sem", "fix_remove: no recursion when parent and sibling subtree are black",
         [("\t\t\t\th(s)->color = color_type::red;\n\t\t\t\tfix_remove(parent);\n\t\t\t\treturn;", "\t\t\t\th(s)->color = color_type::red;\n\t\t\t\treturn;", 1)]),
        ("X8", "sem", "fix_remove: s not re-pointed to child after the inner rotation (right case)",
         [("\t\t\t\th(child)->color = color_type::black;\n\n\t\t\t\ts = child;\n\t\t\t}\n\t\t\tFRG_ASSERT(isRed(get_left(s)));",
           "\t\t\t\th(child)->color = color_type::black;\n\t\t\t}\n\t\t\tFRG_ASSERT(isRed(get_left(s)));", 1)]),
        ("L1", "sem", "remove_half_leaf: successor's predecessor link not repaired",
         [("\t\tif(succ)\n\t\t\th(succ)->predecessor = pred;\n\n\t\tif(h(node)->color", "\n\t\tif(h(node)->color", 1)]),
        ("L2", "sem", "remove_half_leaf: isRed(child) replaced by a null test",
         [("\t\t\tif(isRed(child)) {\n\t\t\t\th(child)->color = color_type::black;", "\t\t\tif(child) {\n\t\t\t\th(child)->color = color_type::black;", 1)]),
        ("L3", "sem", "remove_half_leaf: node's parent link not reset",
         [("\t\th(node)->right = nullptr;\n\t\th(node)->parent = nullptr;\n\t\th(node)->predecessor = nullptr;\n\t\th(node)->successor = nullptr;\n\n\t\tif(parent)",
           "\t\th(node)->right = nullptr;\n\t\th(node)->predecessor = nullptr;\n\t\th(node)->successor = nullptr;\n\n\t\tif(parent)", 1)]),
        ("L4", "sem", "remove_half_leaf: child hung under the wrong side of parent",
         [("\t\t}else if(get_left(parent) == node) {\n\t\t\th(parent)->left = child;", "\t\t}else if(get_left(parent) == node) {\n\t\t\th(parent)->right = child;", 1)]),
        ("P1", "sem", "replace_node: colour not copied",
         [("\t\th(replacement)->color = h(node)->color;\n", "", 1)]),
        ("P2", "sem", "replace_node: left child's parent set to the old node",
         [("\t\tif(left)\n\t\t\th(left)->parent = replacement;", "\t\tif(left)\n\t\t\th(left)->parent = node;", 1)]),
        ("P3", "sem", "replace_node: successor link of the replacement copied from predecessor(node)",
         [("\t\th(replacement)->successor = successor(node);", "\t\th(replacement)->successor = predecessor(node);", 1)]),
        ("M1", "sem", "remove: replace_node before the predecessor is unlinked",
         [("\t\t\tremove_half_leaf(pred, get_left(pred));\n\t\t\treplace_node(node, pred);", "\t\t\treplace_node(node, pred);\n\t\t\tremove_half_leaf(pred, get_left(pred));", 1)]),
        ("M2", "sem", "remove: the wrong child passed in the first case",
         [("\t\t\tremove_half_leaf(node, right_ptr);", "\t\t\tremove_half_leaf(node, left_ptr);", 1)]),
        ("A1", "sem", "aggregate_path: early stop dropped",
         [("\t\t\tif(!A::aggregate(current))\n\t\t\t\tbreak;\n", "\t\t\tA::aggregate(current);\n", 1)]),
        ("C1", "sem", "isRed(nullptr) returns true",
         [("\tstatic bool isRed(T *node) {\n\t\tif(!node)\n\t\t\treturn false;", "\tstatic bool isRed(T *node) {\n\t\tif(!node)\n\t\t\treturn true;", 1)]),
        ("G1", "sem", "get_left returns the right child (accessor inlined at every call site)",
         [("\t\treturn static_cast<T *>(h(item)->left);", "\t\treturn static_cast<T *>(h(item)->right);", 1)]),
        ("O1", "order", "replace_node: predecessor's successor link repaired AFTER the replacement's own links (independent writes; "
         "expected: breaks)",
         [("\t\tif(predecessor(node))\n\t\t\th(predecessor(node))->successor = replacement;\n\t\th(replacement)->predecessor = predecessor(node);\n\t\th(replacement)->successor = successor(node);\n",
           "\t\th(replacement)->predecessor = predecessor(node);\n\t\th(replacement)->successor = successor(node);\n\t\tif(predecessor(node))\n\t\t\th(predecessor(node))->successor = replacement;\n", 1)]),
        ("RH1", "harmless", "rename the locals u, v, w of rotateLeft (expected green)",
         [("\t\tT *u = get_parent(n);\n\t\tFRG_ASSERT(u != nullptr && get_right(u) == n);\n\t\tT *v = get_left(n);\n\t\tT *w = get_parent(u);\n\n\t\tif(v != nullptr)\n\t\t\th(v)->parent = u;\n\t\th(u)->right = v;\n\t\th(u)->parent = n;\n\t\th(n)->left = u;\n\t\th(n)->parent = w;\n\n\t\tif(w == nullptr) {\n\t\t\t_root = n;\n\t\t}else if(get_left(w) == u) {\n\t\t\th(w)->left = n;\n\t\t}else{\n\t\t\tFRG_ASSERT(get_right(w) == u);\n\t\t\th(w)->right = n;\n\t\t}\n\n\t\taggregate_node(u);",
           "\t\tT *up = get_parent(n);\n\t\tFRG_ASSERT(up != nullptr && get_right(up) == n);\n\t\tT *inner = get_left(n);\n\t\tT *top = get_parent(up);\n\n\t\tif(inner != nullptr)\n\t\t\th(inner)->parent = up;\n\t\th(up)->right = inner;\n\t\th(up)->parent = n;\n\t\th(n)->left = up;\n\t\th(n)->parent = top;\n\n\t\tif(top == nullptr) {\n\t\t\t_root = n;\n\t\t}else if(get_left(top) == up) {\n\t\t\th(top)->left = n;\n\t\t}else{\n\t\t\tFRG_ASSERT(get_right(top) == up);\n\t\t\th(top)->right = n;\n\t\t}\n\n\t\taggregate_node(up);", 1)]),
        ("RH2", "harmless", "three comment lines at the top of the header: EVERY line label moves (expected green: the tie is "
         "stated for the model's labels, not for the current lines)",
         [("#ifndef FRG_RBTREE_HPP\n", "// one\n// two\n// three\n#ifndef FRG_RBTREE_HPP\n", 1)]),
        ("RH3", "harmless", "`v != nullptr` -> `v`, `parent == nullptr` -> `!parent` (expected green)",
         [("\t\tT *w = get_parent(u);\n\n\t\tif(v != nullptr)\n\t\t\th(v)->parent = u;\n\t\th(u)->right = v;", "\t\tT *w = get_parent(u);\n\n\t\tif(v)\n\t\t\th(v)->parent = u;\n\t\th(u)->right = v;", 1),
          ("\t\tT *parent = get_parent(n);\n\t\tif(parent == nullptr) {\n\t\t\th(n)->color = color_type::black;", "\t\tT *parent = get_parent(n);\n\t\tif(!parent) {\n\t\t\th(n)->color = color_type::black;", 1)]),
        ("RH4", "harmless", "reorder two INDEPENDENT assignments (two fields of u) in rotateLeft (expected: breaks, heaps equal only "
         "extensionally, write log differs)",
         [("\t\th(u)->right = v;\n\t\th(u)->parent = n;\n\t\th(n)->left = u;", "\t\th(u)->parent = n;\n\t\th(u)->right = v;\n\t\th(n)->left = u;", 1)]),
        ("RH5", "harmless", "remove_half_leaf: aggregate_path(parent) called unconditionally (a no-op for nullptr; expected: breaks, "
         "the fuelled loop does not unfold for a variable fuel)",
         [("\t\tif(parent)\n\t\t\taggregate_path(parent);\n\t}\n\n\t// Situation", "\t\taggregate_path(parent);\n\t}\n\n\t// Situation", 1)]),
        ("RH6", "harmless", "name a subexpression in a new local in remove (expected green)",
         [("\t\t\tremove_half_leaf(pred, get_left(pred));", "\t\t\tT *pl = get_left(pred);\n\t\t\tremove_half_leaf(pred, pl);", 1)]),
        ("RX1", "subset", "outside the subset: an int counter in rotateLeft (expected: rejected, node named)",
         [("\t\tT *u = get_parent(n);\n\t\tFRG_ASSERT(u != nullptr && get_right(u) == n);", "\t\tint depth = 0;\n\t\tT *u = get_parent(n);\n\t\tFRG_ASSERT(u != nullptr && get_right(u) == n);", 1)]),
        ("RX2", "subset", "outside the subset: ternary operator (expected: rejected, node named)",
         [("\t\tT *v = get_left(n);\n\t\tT *w = get_parent(u);\n\n\t\tif(v != nullptr)", "\t\tT *v = n ? get_left(n) : nullptr;\n\t\tT *w = get_parent(u);\n\n\t\tif(v != nullptr)", 1)]),
    ],
}


TIES = {"pairing": ["PtrGen/Tie_pairing.v"], "hashmap": ["PtrGen/Tie_hashmap.v"],
        "rb": ["PtrGen/Tie_rb.v", "PtrGen/Tie_rb_remove.v", "PtrGen/Tie_rb_run.v"]}
WORKERS = int(os.environ.get("PTRGEN_SELFTEST_JOBS", "4"))


def sh(cmd, **kw):
    p = subprocess.run(cmd, capture_output=True, text=True, **kw)
    return p.returncode, p.stdout, p.stderr


class Worker:
    """one scratch worktree of /repo + one shadow of /verif/coq (symlinks to the compiled directories, private Gen/ PtrGen/)"""
    def __init__(self, work, k):
        self.wt = os.path.join(work, "repo%d" % k)
        rc, o, e = sh(["git", "-C", "/repo", "worktree", "add", "--detach", self.wt])
        if rc != 0:
            raise RuntimeError("cannot create the scratch worktree: " + e)
        self.shadow = os.path.join(work, "verif%d" % k)
        self.coq = os.path.join(self.shadow, "coq")
        os.makedirs(os.path.join(self.coq, "Gen"))
        os.makedirs(os.path.join(self.coq, "PtrGen"))
        for d in os.listdir(os.path.join(ROOT, "coq")):
            src = os.path.join(ROOT, "coq", d)
            if os.path.isdir(src) and d not in ("Gen", "PtrGen"):
                os.symlink(src, os.path.join(self.coq, d))
        for f in os.listdir(os.path.join(ROOT, "coq", "PtrGen")):
            if f.endswith(".v"):
                shutil.copy(os.path.join(ROOT, "coq", "PtrGen", f), os.path.join(self.coq, "PtrGen", f))
        self.prepared = set()

    def prepare(self, part):
        if part in self.prepared:
            return
        for f in ["PtrGen/PtrCtl.v", "PtrGen/TieTac.v", "PtrGen/Bind_%s.v" % part]:
            rc, o, e = sh(["timeout", "300", "coqc", "-Q", ".", "FV", f], cwd=self.coq)
            if rc != 0:
                raise RuntimeError("cannot compile %s: %s" % (f, e[-500:]))
        self.prepared.add(part)

    def run(self, part, orig, edit):
        eid, kind, desc, subs = edit
        self.prepare(part)
        hdr = os.path.join(self.wt, HDR[part])
        txt = orig
        for old, new, cnt in subs:
            if txt.count(old) != cnt:
                return eid, kind, desc, "PATCH DOES NOT APPLY (%d occurrences of %r)" % (txt.count(old), old[:50]), []
            txt = txt.replace(old, new)
        open(hdr, "w").write(txt)
        env = dict(os.environ, VERIF_REPO=self.wt, PTRGEN_ROOT=self.shadow)
        rc, o, e = sh([sys.executable, os.path.join(ROOT, "translator", "gen_ptrmodels.py"), part], env=env)
        rejected = [l for l in o.split("\n") if "FAILED" in l]
        verdict = ""
        if rejected:
            verdict = "rejected: " + rejected[0].split("FAILED", 1)[1].strip()[:230]
        rc1, o1, e1 = sh(["timeout", "600", "coqc", "-Q", ".", "FV", "Gen/Ptr_%s.v" % part], cwd=self.coq)
        if rc1 != 0:
            verdict += " | generated file does not compile: " + e1.strip().split("\n")[-1][:200]
        else:
            broke = None
            for tie in TIES[part]:
                rc2, o2, e2 = sh(["timeout", "900", "coqc", "-Q", ".", "FV", tie], cwd=self.coq)
                if rc2 != 0:
                    m = re.search(r'line (\d+), characters', e2)
                    broke = "? (%s)" % tie
                    if m:
                        src = open(os.path.join(self.coq, tie)).read().split("\n")[:int(m.group(1))]
                        names = re.findall(r"^\s*(?:Lemma|Theorem)\s+(\w+)", "\n".join(src), re.M)
                        broke = names[-1] if names else broke
                    if rc2 == 124:
                        broke += " (timeout)"
                    break
            if broke:
                verdict += (" | " if verdict else "") + "tie broke at %s" % broke
            elif not verdict:
                verdict = "green"
        open(hdr, "w").write(orig)
        return eid, kind, desc, verdict, rejected

    def close(self):
        sh(["git", "-C", "/repo", "worktree", "remove", "--force", self.wt])


def main(argv):
    import concurrent.futures, queue
    parts = argv or [p for p in EDITS]
    work = tempfile.mkdtemp(prefix="ptrgen-selftest-")
    workers = []
    bad = 0
    try:
        for k in range(WORKERS):
            workers.append(Worker(work, k))
        idle = queue.Queue()
        for w in workers:
            idle.put(w)

        def job(part, orig, edit):
            w = idle.get()
            try:
                return w.run(part, orig, edit)
            finally:
                idle.put(w)
        for part in parts:
            orig = open(os.path.join("/repo", HDR[part])).read()
            edits = [("%s0" % part[0].upper(), "none", "unchanged source (must be green)", [])] + EDITS[part]
            with concurrent.futures.ThreadPoolExecutor(WORKERS) as ex:
                for eid, kind, desc, verdict, rejected in ex.map(lambda e: job(part, orig, e), edits):
                    flag = ""
                    if "PATCH DOES NOT APPLY" in verdict:
                        flag = "  <-- EDIT TABLE OUT OF DATE"
                        bad += 1
                    elif kind == "none" and verdict != "green":
                        flag = "  <-- UNCHANGED SOURCE NOT GREEN"
                        bad += 1
                    elif kind == "sem" and verdict == "green":
                        flag = "  <-- MISSED"
                        bad += 1
                    elif kind == "subset" and not rejected:
                        flag = "  <-- NOT REJECTED"
                        bad += 1
                    print("%-5s %-8s %-100s %s%s" % (eid, kind, desc[:100], verdict, flag))
                    sys.stdout.flush()
    finally:
        for w in workers:
            w.close()
        shutil.rmtree(work, ignore_errors=True)
    return 1 if bad else 0


if __name__ == "__main__":
    sys.exit(main(sys.argv[1:]))
