"""ptrgen component (TIE_ptr): the POINTER-LEVEL models of the intrusive containers are re-translated from the clang AST of
/repo's current source on every run (translator/gen_ptrmodels.py + cxx2heap.py -> coq/Gen/Ptr_<part>.v);
coq/PtrGen/Tie_<part>.v proves the generated definitions EQUAL (same outcome, same final heap, all states / fuel /
arguments) to the hand-written pointer-level models (Pairing/PairingPtr.v, HashMap/HashMapPtr.v, Rb/RbPtr.v) that are
proved to refine the functional models.  run(c, parts) only regenerates and records one obligation per translated function;
the proof leg is `c.prove(prop_ids(parts))` in the caller (checks/tie_ptr.py, or the property check that owns the model:
e.g. C08: `ptrgen.run(c, ['pairing']); c.prove(['C08', 'C08_ptr'] + ptrgen.prop_ids(['pairing']))`)."""
import os, sys
import vlib

RULE = ("no sampling: each listed member function is re-translated from the current source (clang JSON AST of a concrete "
        "instantiation, heap-manipulating subset: nullable pointers, hook-field loads/stores, FRG_ASSERT, fuelled loops and "
        "recursion) and its equality with the hand-written pointer-level model definition is a Coq lemma over all states, "
        "fuel and arguments")
TRUSTED = ["translator/cxx2heap.py + translator/gen_ptrmodels.py (AST -> Gallina over the model's own state record, accessors "
           "and outcome type; fails on anything outside its subset) and the binding files coq/PtrGen/Bind_<part>.v (which C++ "
           "field / member / user functor is which accessor of the model)",
           "clang 14 front end (-std=c++20): the JSON AST of the instantiation with a concrete node type is taken as the "
           "meaning of the source (implicit conversions, resolved overloads, evaluation order as documented in "
           "comp/ptrgen/NOTES.md)"]
ASSUMPTIONS = ["the equalities are stated at non-null arguments where the hand-written model takes a node id (a null argument "
               "gives the null-dereference outcome on the generated side, which the model cannot express)",
               "the user's functors (Compare, hasher, aggregator) are the models' Section variables; the hook accessor h(x) "
               "is read as `the hook of node x`"]

ALL_PARTS = ["pairing", "hashmap", "rb"]


def prop_ids(parts=None):
    return ["TIE_ptr_" + p for p in (parts or available_parts())]


def available_parts():
    return [p for p in ALL_PARTS if os.path.exists(os.path.join(vlib.COQ, "Props", "Properties_TIE_ptr_%s.v" % p))]


def run(c, parts=None):
    """run the translator against vlib.REPO for the given parts; one c.gen_obligation("translate <f>", ok) per function."""
    parts = list(parts or available_parts())
    env = dict(os.environ)
    env["VERIF_REPO"] = vlib.REPO
    rc, out, err = vlib.sh([sys.executable, os.path.join(vlib.ROOT, "translator", "gen_ptrmodels.py")] + parts,
                           timeout=900, env=env)
    seen = 0
    for line in out.split("\n"):
        t = line.split(None, 4)
        if len(t) >= 4 and t[0] == "ptrgen":
            ok = t[3] == "ok"
            seen += 1
            c.count("ptrgen.translated" if ok else "ptrgen.rejected")
            c.gen_obligation("translate %s (%s)" % (t[2], t[1]), ok, "" if ok else "(" + line[:600] + ")")
    if seen == 0 or (rc != 0 and "FAILED" not in out):
        c.gen_obligation("translate (gen_ptrmodels.py ran)", False, "(rc=%d %s)" % (rc, (out + err)[-600:]))
    if "rb" in parts:
        _rb_line_labels(c)
    return rc == 0


def _rb_line_labels(c):
    """informational: RbPtr.v labels its failure outcomes with source lines.  The tie is stated for the model's labels
    (PtrGen/Tie_rb.model_lines, by failure site); the generated file also records the lines of the CURRENT source
    (Gen/Ptr_rb.src_lines).  A difference means rbtree.hpp moved lines (a comment, an edit elsewhere) -- not a broken tie."""
    import re

    def table(path, name):
        try:
            txt = open(path).read()
        except OSError:
            return None
        i = txt.find("Definition %s" % name)
        if i < 0:
            return None
        return dict((int(a), int(b)) for a, b in re.findall(r"\| (\d+)%nat => (\d+)%N", txt[i:]))
    src = table(os.path.join(vlib.COQ, "Gen", "Ptr_rb.v"), "src_lines")
    mod = table(os.path.join(vlib.COQ, "PtrGen", "Tie_rb.v"), "model_lines")
    if src is None or mod is None:
        return
    c.count("ptrgen.rb_failure_sites", len(src))
    diff = sorted(k for k in set(src) | set(mod) if src.get(k) != mod.get(k))
    if len(src) != len(mod):
        c.notes.append("ptrgen rb: the source has %d failure sites, the tie was written for %d (the tie lemmas decide)" % (len(src), len(mod)))
    elif diff:
        c.count("ptrgen.rb_line_labels_moved", len(diff))
        c.notes.append("ptrgen rb: %d failure sites of rbtree.hpp are on other lines than the labels of Rb/RbPtr.v (first: site %d, "
                       "source line %d, model label %d); labels only, the tie is stated for the model's labels" % (
                           len(diff), diff[0], src[diff[0]], mod[diff[0]]))
