// Shared harness support: case protocol, assertion hook, tracking allocator, tracked element.
// See lib/vlib.py (parse_output) for the protocol: "#case id" ... "#end id", "!ORACLE kind msg".
#pragma once
#include <cstdint>
#include <cstdio>
#include <cstdlib>
#include <cstring>
#include <cstdarg>
#include <functional>
#include <iostream>
#include <map>
#include <set>
#include <sstream>
#include <string>
#include <vector>
#include <csignal>
#include <sys/time.h>
#include <unistd.h>

namespace vh {

// Per-case CPU-time watchdog: a case that does not finish within VH_CASE_CPU_SECONDS of CPU time (a loop that a
// broken implementation never leaves) ends the process with a "[timeout ...]" line on stderr; lib/vlib.py attributes the
// crash to the running case and restarts the shard after it.  CPU time, not wall time, so machine load cannot trip it.
#ifndef VH_CASE_CPU_SECONDS
#define VH_CASE_CPU_SECONDS 60
#endif
inline int case_cpu_seconds() {
	const char *e = getenv("VH_CASE_CPU_SECONDS");   // set by lib/vlib.py run_cases (0 = no limit)
	return e ? atoi(e) : VH_CASE_CPU_SECONDS;
}
inline void watchdog_fire(int) {
	static const char msg[] = "\n[timeout: case exceeded its CPU-time limit (endless loop?)]\n";
	ssize_t r = write(2, msg, sizeof msg - 1); (void)r;
	_exit(95);
}
inline void watchdog_arm(int seconds) {
	struct itimerval it{};
	it.it_value.tv_sec = seconds;
	signal(SIGVTALRM, watchdog_fire);
	setitimer(ITIMER_VIRTUAL, &it, nullptr);
}


struct AssertStop { std::string where; };

inline bool g_in_case = false;
inline int g_oracle_count = 0;

inline void oracle(const char *kind, const char *fmt, ...) {
	char buf[1024];
	va_list ap; va_start(ap, fmt); vsnprintf(buf, sizeof buf, fmt, ap); va_end(ap);
	if(++g_oracle_count <= 20)
		printf("!ORACLE %s %s\n", kind, buf);
}

// ---- allocator that tracks every block (exact-size malloc blocks, so ASan redzones apply)
struct AllocRegistry {
	std::map<void *, size_t> blocks;
	long allocs = 0, frees = 0;
	bool fail_next = false;
	void reset() { for(auto &b : blocks) ::free(b.first); blocks.clear(); allocs = frees = 0; }
	void *allocate(size_t n) {
		void *p = ::malloc(n ? n : 1);
		blocks[p] = n; allocs++;
		return p;
	}
	void deallocate(void *p, size_t n) {
		if(!p) { if(n) oracle("dealloc-null", "deallocate(nullptr, %zu)", n); return; }
		auto it = blocks.find(p);
		if(it == blocks.end()) { oracle("bad-free", "deallocate of a block that is not allocated (size %zu)", n); return; }
		if(it->second != n) oracle("dealloc-size", "deallocate size %zu != allocation size %zu", n, it->second);
		blocks.erase(it); frees++; ::free(p);
	}
	void free(void *p) {
		if(!p) return;
		auto it = blocks.find(p);
		if(it == blocks.end()) { oracle("bad-free", "free of a block that is not allocated"); return; }
		blocks.erase(it); frees++; ::free(p);
	}
	void check_empty(const char *who) {
		if(!blocks.empty()) {
			size_t tot = 0; for(auto &b : blocks) tot += b.second;
			oracle("leak-block", "%s: %zu block(s) (%zu bytes) still allocated after the owner was destroyed", who, blocks.size(), tot);
		}
	}
};
inline AllocRegistry g_alloc;

struct TrackAlloc {
	void *allocate(size_t n) { return g_alloc.allocate(n); }
	void deallocate(void *p, size_t n) { g_alloc.deallocate(p, n); }
	void free(void *p) { g_alloc.free(p); }
};

// ---- element type that registers its own lifetime
struct LifeRegistry {
	std::set<const void *> live;
	long ctors = 0, dtors = 0;
	void reset() { live.clear(); ctors = dtors = 0; }
	void born(const void *p) {
		if(!live.insert(p).second) oracle("construct-over-live", "object constructed over a live object");
		ctors++;
	}
	void died(const void *p) {
		if(!live.erase(p)) oracle("destroy-dead", "destructor run on storage that holds no live object");
		dtors++;
	}
	void use(const void *p, const char *what) {
		if(!live.count(p)) oracle("use-dead", "%s of an object outside its lifetime", what);
	}
	void check_empty(const char *who) {
		if(!live.empty()) oracle("leak-object", "%s: %zu object(s) never destroyed", who, live.size());
	}
};
inline LifeRegistry g_life;

struct TV {   // tracked value
	uint64_t v;
	bool moved = false;
	TV() : v(0) { g_life.born(this); }
	TV(uint64_t x) : v(x) { g_life.born(this); }
	TV(const TV &o) : v(o.v) { g_life.use(&o, "copy"); g_life.born(this); }
	TV(TV &&o) : v(o.v) { g_life.use(&o, "move"); o.moved = true; g_life.born(this); }
	TV &operator=(const TV &o) { g_life.use(this, "assign-to"); g_life.use(&o, "assign-from"); v = o.v; moved = false; return *this; }
	TV &operator=(TV &&o) { g_life.use(this, "assign-to"); g_life.use(&o, "move-assign-from"); v = o.v; moved = false; o.moved = true; return *this; }
	~TV() { g_life.died(this); }
	uint64_t get() const { g_life.use(this, "read"); return v; }
	bool operator==(const TV &o) const { return get() == o.get(); }
};

// ---- case loop
using Lines = std::vector<std::string>;
inline std::vector<std::string> split(const std::string &s) {
	std::istringstream is(s); std::vector<std::string> t; std::string w;
	while(is >> w) t.push_back(w);
	return t;
}
inline uint64_t u64(const std::string &s) { return strtoull(s.c_str(), nullptr, 0); }
inline int64_t i64(const std::string &s) { return strtoll(s.c_str(), nullptr, 0); }

inline int run(const std::function<void(const Lines &)> &body) {
	std::ios::sync_with_stdio(true);
	setvbuf(stdout, nullptr, _IOFBF, 1 << 16);
	std::string line, id; Lines cur; bool have = false;
	auto flush_case = [&]() {
		if(!have) return;
		printf("#case %s\n", id.c_str()); fflush(stdout);
		g_oracle_count = 0; g_alloc.reset(); g_life.reset();
		watchdog_arm(case_cpu_seconds());
		try { body(cur); }
		catch(AssertStop &a) { printf("assert\n"); fprintf(stderr, "[case %s] %s\n", id.c_str(), a.where.c_str()); }
		watchdog_arm(0);
		printf("#end %s\n", id.c_str()); fflush(stdout);
	};
	while(std::getline(std::cin, line)) {
		if(line.rfind("#case ", 0) == 0) { flush_case(); id = line.substr(6); cur.clear(); have = true; }
		else if(!line.empty() && have) cur.push_back(line);
	}
	flush_case();
	return 0;
}

} // namespace vh

// FRG_ASSERT hook: the library calls frg_panic and then traps; we unwind instead so that the
// harness can report "assert" for the case (the documented stop through the assertion hook).
extern "C" void frg_panic(const char *msg) { throw vh::AssertStop{msg}; }
extern "C" void frg_log(const char *msg) { (void)msg; }
