"""Combined checks (C16 over all owning types, C19/C20 over printf+fmt+..): one vlib.Check, several components.
Each part = (properties-file suffix, component module name). A part is used only if BOTH
coq/Props/Properties_<PID>_<suffix>.v and comp/<module>/check.py exist (components are added as they are built;
the list of parts actually used is written into the evidence)."""
import importlib, inspect, os, sys
import vlib


def run_merged(pid, parts, kind_filter=None, rule_prefix="", extra_trusted=(), extra_assumptions=()):
    c = vlib.Check(pid)
    c.kind_filter = kind_filter
    used, props, rules = [], [], []
    mods = []
    for suffix, modname in parts:
        pf = os.path.join(vlib.COQ, "Props", "Properties_%s_%s.v" % (pid, suffix))
        cf = os.path.join(vlib.ROOT, "comp", modname, "check.py")
        if not (os.path.exists(pf) and os.path.exists(cf)):
            continue
        m = importlib.import_module("comp.%s.check" % modname)
        mods.append((suffix, modname, m))
        props.append("%s_%s" % (pid, suffix))
        used.append(modname)
        rules.append("[%s] %s" % (modname, getattr(m, "RULE", "")))
        for t in getattr(m, "TRUSTED", []):
            if t not in c.trusted:
                c.trusted.append(t)
        for a in getattr(m, "ASSUMPTIONS", []):
            if a not in c.assumptions:
                c.assumptions.append(a)
    c.trusted = ["Coq 8.16.1 kernel (coqc, full .vo build)"] + list(extra_trusted) + c.trusted
    c.assumptions += list(extra_assumptions)
    c.rule = rule_prefix + " ".join(rules)
    c.extra["components"] = used
    c.checker_cmd = "make -C coq " + " ".join("Props/Properties_%s.vo" % p for p in props) + " (coqc 8.16.1, full .vo build) + Print Assumptions"
    if not mods:
        c.broken.append("no component provides Properties_%s_*.v" % pid)
        sys.exit(c.finish())
    c.prove(props)
    for suffix, modname, m in mods:
        try:
            sig = inspect.signature(m.run)
            if len(sig.parameters) >= 2:
                m.run(c, pid)
            else:
                m.run(c)
        except SystemExit:
            raise
        except Exception as ex:
            import traceback
            c.broken.append("component %s: run() raised %r\n%s" % (modname, ex, traceback.format_exc()[-1500:]))
    sys.exit(c.finish())
