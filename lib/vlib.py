"""Shared machinery for the frigg verification checks (see DESIGN.md section 2).

Every check (checks/cNN.py) does three legs:
  P  proof obligations: build coq/Props/Properties_Cnn.vo, parse Print Assumptions
  C  correspondence: extracted Gallina model vs. the real frg code on the same scripts
  O  independent oracle evaluated on the real code (finds the failing input)
and then calls Check.finish(), which applies the outcome rules, writes the evidence file
and prints VIOLATION / KNOWN-FINDING lines.
"""
import fcntl, glob, hashlib, json, os, random, re, subprocess, sys, time
from concurrent.futures import ThreadPoolExecutor

ROOT = os.path.dirname(os.path.dirname(os.path.abspath(__file__)))
REPO = os.environ.get("VERIF_REPO", "/repo")
COQ = os.path.join(ROOT, "coq")
BUILD = os.path.join(ROOT, "build")
# Runs against a scratch copy of the repository (VERIF_REPO set: self-tests, seeded changes) must not
# overwrite the evidence of the real tree.
EVID = os.path.join(ROOT, "evidence") if REPO == "/repo" else os.path.join(BUILD, "scratch-evidence")
REPLAYS = os.path.join(EVID, "replays")
NCPU = os.cpu_count() or 4
GUARD = "MANAGARM_FRIGG_VERIF"
MAX_CRASHES_PER_SHARD = 4
MAX_SHARD_OUTPUT = int(os.environ.get("VERIF_MAX_SHARD_OUTPUT", str(768 * 1024 * 1024)))
MAX_SEEN_OUTPUT = 0
PER_FILE_TIMEOUT = int(os.environ.get("VERIF_COQC_TIMEOUT", "900"))

STD_AXIOMS = {  # axioms declared by the standard library itself; allowed if named in the trusted base
    "functional_extensionality_dep", "FunctionalExtensionality.functional_extensionality_dep",
    "Eqdep.Eq_rect_eq.eq_rect_eq", "eq_rect_eq", "Classical_Prop.classic", "classic",
    "ProofIrrelevance.proof_irrelevance", "proof_irrelevance", "JMeq.JMeq_eq", "JMeq_eq",
    "propositional_extensionality", "PropExtensionality.propositional_extensionality",
}

CXX_BASE = ["-std=c++20", "-fsized-deallocation", "-I", os.path.join(REPO, "include"),
            "-I", os.path.join(ROOT, "lib"), "-D" + GUARD, "-g", "-O1",
            "-fno-access-control", "-Wno-unused-result", "-w"]
SAN = {
    "asan": ["-fsanitize=address,undefined", "-fno-sanitize-recover=all",
             "-fno-sanitize=nonnull-attribute", "-fno-omit-frame-pointer"],
    "tsan": ["-fsanitize=thread", "-fno-omit-frame-pointer"],
    "none": [],
}
SAN_ENV = {
    "ASAN_OPTIONS": "detect_leaks=0:abort_on_error=0:exitcode=99:allocator_may_return_null=1:detect_stack_use_after_return=0",
    "UBSAN_OPTIONS": "print_stacktrace=1:halt_on_error=1:exitcode=98",
    "TSAN_OPTIONS": "halt_on_error=1:exitcode=97:second_deadlock_stack=1",
}


def sh(cmd, timeout=600, cwd=None, inp=None, env=None):
    """Run a command in its own process group; returns (rc, stdout, stderr). rc=-9 on timeout (the whole group is killed)."""
    import signal
    e = dict(os.environ)
    if env:
        e.update(env)
    p = subprocess.Popen(cmd, cwd=cwd, stdin=subprocess.PIPE if inp is not None else None, stdout=subprocess.PIPE,
                         stderr=subprocess.PIPE, text=True, env=e, errors="replace", start_new_session=True)
    try:
        out, err = p.communicate(inp, timeout=timeout)
        return p.returncode, out, err
    except subprocess.TimeoutExpired:
        try:
            os.killpg(p.pid, signal.SIGKILL)
        except OSError:
            pass
        try:
            out, err = p.communicate(timeout=10)
        except Exception:
            out, err = "", ""
        return -9, out or "", (err or "") + "\n[timeout after %ss]" % timeout


class _Lock:
    def __init__(self, name):
        os.makedirs(BUILD, exist_ok=True)
        self.path = os.path.join(BUILD, "." + name + ".lock")

    def __enter__(self):
        self.f = open(self.path, "w")
        fcntl.flock(self.f, fcntl.LOCK_EX)
        return self

    def __exit__(self, *a):
        fcntl.flock(self.f, fcntl.LOCK_UN)
        self.f.close()


_HELD = {}


def hold(name, shared=False):
    """Take a lock that is kept until this process exits (re-entrant per process). Used so that two check
    processes never rebuild/run the same harness binary at the same time, and so that runs against a scratch
    copy of the repository (VERIF_REPO) never overlap with runs against /repo (they share coq/Gen and build/)."""
    if name in _HELD:
        return
    os.makedirs(BUILD, exist_ok=True)
    f = open(os.path.join(BUILD, "." + name + ".hold"), "w")
    fcntl.flock(f, fcntl.LOCK_SH if shared else fcntl.LOCK_EX)
    _HELD[name] = f


# --------------------------------------------------------------------------------------------
# Coq
# --------------------------------------------------------------------------------------------

def coq_project():
    """(Re)generate coq/_CoqProject and coq/Makefile from the .v files present."""
    vs = sorted(os.path.relpath(p, COQ) for p in glob.glob(os.path.join(COQ, "**", "*.v"), recursive=True))
    txt = "-Q . FV\n-arg -w -arg -notation-overridden,-deprecated-hint-without-locality,-deprecated-instance-without-locality,-ambiguous-paths\n" + "\n".join(vs) + "\n"
    cp = os.path.join(COQ, "_CoqProject")
    old = open(cp).read() if os.path.exists(cp) else None
    if old != txt or not os.path.exists(os.path.join(COQ, "Makefile")):
        open(cp, "w").write(txt)
        rc, o, e = sh(["coq_makefile", "-f", "_CoqProject", "-o", "Makefile"], cwd=COQ)
        if rc != 0:
            raise RuntimeError("coq_makefile failed: " + o + e)


def coq_make(targets, timeout=3000, jobs=NCPU):
    """make -k the given .vo targets (paths relative to coq/). Returns (ok, log)."""
    os.makedirs(os.path.join(BUILD, "extract"), exist_ok=True)
    with _Lock("coq"):
        coq_project()
        # every coqc runs under a shell timeout: an edit that makes a tactic loop must fail the file, not hang the run
        rc, o, e = sh(["make", "-k", "-j%d" % jobs, "COQC=timeout %d coqc" % PER_FILE_TIMEOUT] + list(targets), cwd=COQ, timeout=timeout)
    return rc == 0, o + e


HYGIENE_RE = re.compile(r"\b(Admitted|admit|Axiom|Axioms|Parameter|Parameters|Conjecture|Conjectures|Admit Obligations|Unset Guard Checking|Unset Positivity Checking|Unset Universe Checking|bypass_check|type-in-type|impredicative-set)\b")


def coq_deps(rel_v):
    """Transitive .v dependencies (inside coq/) of a file, from coq/.Makefile.d."""
    dep = {}
    mf = os.path.join(COQ, ".Makefile.d")
    if os.path.exists(mf):
        for line in open(mf):
            if ":" not in line:
                continue
            lhs, rhs = line.split(":", 1)
            tg = [t for t in lhs.split() if t.endswith(".vo")]
            if not tg:
                continue
            dep[tg[0][:-1]] = [r[:-1] for r in rhs.split() if r.endswith(".vo")]
    seen, todo = set(), [rel_v]
    while todo:
        x = todo.pop()
        if x in seen:
            continue
        seen.add(x)
        todo += dep.get(x, [])
    return sorted(seen)


def coq_hygiene(files=None):
    """Forbidden vernacular in the given files (default: everything under coq/), comments stripped."""
    bad = []
    if files is None:
        files = glob.glob(os.path.join(COQ, "**", "*.v"), recursive=True)
    else:
        files = [os.path.join(COQ, f) for f in files]
    for p in files:
        if not os.path.exists(p):
            continue
        src = open(p, errors="replace").read()
        src = strip_coq_comments(src)
        for i, line in enumerate(src.split("\n"), 1):
            m = HYGIENE_RE.search(line)
            if m:
                bad.append("%s:%d: %s" % (os.path.relpath(p, ROOT), i, line.strip()[:120]))
    return bad


def strip_coq_comments(s):
    out, depth, i, n = [], 0, 0, len(s)
    while i < n:
        if s.startswith("(*", i):
            depth += 1; i += 2
        elif s.startswith("*)", i) and depth > 0:
            depth -= 1; i += 2
        else:
            if depth == 0:
                out.append(s[i])
            elif s[i] == "\n":
                out.append("\n")
            i += 1
    return "".join(out)


def coq_check_props(pid, extra_targets=(), timeout=3000):
    """Proof leg. Builds Props/Properties_<pid>.vo (re-running that file every time so that
    Print Assumptions output is fresh). Returns a dict:
      ok, obligations, discharged, theorems, failed (names), axioms (set), foreign_axioms, log
    """
    rel = "Props/Properties_%s.v" % pid
    path = os.path.join(COQ, rel)
    res = dict(ok=False, obligations=0, discharged=0, theorems=[], failed=[], axioms=[],
               foreign_axioms=[], log="", examples=0)
    if not os.path.exists(path):
        res["log"] = "missing " + rel
        return res
    src = strip_coq_comments(open(path).read())
    thms = [(m.start(), m.group(2)) for m in re.finditer(r"^\s*(Theorem|Lemma|Corollary)\s+(\w+)", src, re.M)]
    exs = re.findall(r"^\s*(Example)\s+(\w+)", src, re.M)
    res["theorems"] = [t for _, t in thms]
    res["examples"] = len(exs)
    res["obligations"] = len(thms) + len(exs)
    for ext in (".vo", ".glob", ".vos", ".vok"):
        try:
            os.unlink(path[:-2] + ext)
        except OSError:
            pass
    ok, log = coq_make([rel + "o"] + list(extra_targets), timeout=timeout)
    res["log"] = log
    closure = coq_deps(rel)
    res["files"] = closure
    hyg = coq_hygiene(closure)
    if hyg:
        res["log"] += "\nHYGIENE: " + "\n".join(hyg)
    if ok and os.path.exists(path + "o"):
        # parse Print Assumptions blocks
        axioms = set()
        for blk in re.split(r"(?=Closed under the global context|^Axioms:)", log, flags=re.M):
            if blk.startswith("Axioms:"):
                for line in blk.split("\n")[1:]:
                    m = re.match(r"^([A-Za-z_][\w.']*)\s*(:|$)", line)
                    if m and not line.startswith(" "):
                        axioms.add(m.group(1))
                    elif line.startswith("make") or line.startswith("COQC") or line.startswith("File "):
                        break
        n_pa = len(re.findall(r"Print Assumptions", src))
        res["axioms"] = sorted(axioms)
        res["foreign_axioms"] = sorted(a for a in axioms if a not in STD_AXIOMS and a.split(".")[-1] not in STD_AXIOMS)
        res["print_assumptions"] = n_pa
        if n_pa < len(thms):
            res["log"] += "\nMISSING Print Assumptions for some theorem in " + rel
        if not thms:
            res["log"] += "\nNO THEOREMS in " + rel
        res["ok"] = (not hyg) and (not res["foreign_axioms"]) and n_pa >= len(thms) and len(thms) > 0
        res["discharged"] = res["obligations"] if res["ok"] else 0
    else:
        # which theorem broke?  'File "./Props/Properties_C14.v", line 12, characters ...'
        m = re.search(r'File "\./' + re.escape(rel) + r'", line (\d+)', log)
        if m:
            ln = int(m.group(1))
            pos = sum(len(l) + 1 for l in src.split("\n")[:ln])
            before = [t for p, t in thms if p < pos]
            res["failed"] = before[-1:] if before else []
            res["discharged"] = max(0, len(before) - 1)
        else:
            res["failed"] = ["(dependency of %s failed to build)" % rel]
    return res


# --------------------------------------------------------------------------------------------
# OCaml (extracted model + driver), C++ harness
# --------------------------------------------------------------------------------------------

def ocaml_build(name, extracted, driver, out=None):
    """Compile build/extract/<extracted>.ml(+.mli) with comp driver into build/bin/<name>.
    extracted: list of module basenames under build/extract (in dependency order)."""
    hold("bin-" + name)
    bdir = os.path.join(BUILD, "ocaml_" + name)
    os.makedirs(bdir, exist_ok=True)
    os.makedirs(os.path.join(BUILD, "bin"), exist_ok=True)
    out = out or os.path.join(BUILD, "bin", name)
    files = []
    for m in extracted:
        for ext in (".mli", ".ml"):
            src = os.path.join(BUILD, "extract", m + ext)
            if os.path.exists(src):
                dst = os.path.join(bdir, m + ext)
                open(dst, "w").write(open(src).read())
                files.append(m + ext)
    dst = os.path.join(bdir, name + "_main.ml")
    pre = "".join("open %s\n" % (m[0].upper() + m[1:]) for m in extracted)
    pre += open(os.path.join(ROOT, "lib", "coqnum.ml.inc")).read()
    open(dst, "w").write(pre + "\n# 1 \"%s\"\n" % driver + open(driver).read())
    files.append(name + "_main.ml")
    rc, o, e = sh(["ocamlfind", "ocamlopt", "-O2", "-w", "-a", "-package", "str", "-linkpkg"] + files + ["-o", out],
                  cwd=bdir, timeout=600)
    if rc != 0:
        rc, o, e = sh(["ocamlfind", "ocamlopt", "-w", "-a", "-package", "str", "-linkpkg"] + files + ["-o", out],
                      cwd=bdir, timeout=600)
    return rc == 0, out, o + e


def cxx_build(name, src, san="asan", extra=(), compiler="g++", timeout=900):
    """Compile a harness against /repo's *current* headers. Always recompiles."""
    os.makedirs(os.path.join(BUILD, "bin"), exist_ok=True)
    hold("bin-" + name)
    out = os.path.join(BUILD, "bin", name)
    cmd = [compiler] + CXX_BASE + SAN[san] + list(extra) + [src, "-o", out]
    if san == "tsan" or "-pthread" in extra:
        cmd.append("-pthread")
    rc, o, e = sh(cmd, timeout=timeout)
    return rc == 0, out, o + e


# --------------------------------------------------------------------------------------------
# case files: "#case <id>" followed by op lines.  Executables echo "#case <id>", result
# lines, optional "!ORACLE <kind> <msg>" lines and "#end <id>".
# --------------------------------------------------------------------------------------------

def format_cases(cases):
    """cases: list of (id, [lines])"""
    out = []
    for cid, lines in cases:
        out.append("#case %s" % cid)
        out.extend(lines)
    return "\n".join(out) + "\n"


def parse_output(text):
    """-> (dict id -> dict(lines=[...], oracle=[...], ended=bool), order list)"""
    res, cur, order = {}, None, []
    for line in text.split("\n"):
        if line.startswith("#case "):
            cur = line[6:].strip()
            res[cur] = dict(lines=[], oracle=[], ended=False)
            order.append(cur)
        elif line.startswith("#end "):
            if cur is not None:
                res[cur]["ended"] = True
        elif cur is not None:
            if line.startswith("!ORACLE"):
                res[cur]["oracle"].append(line[8:].strip())
            elif line != "":
                res[cur]["lines"].append(line)
    return res, order


def _run_shard(exe, cases, timeout, args, env):
    """Run one process over `cases`; on a crash/timeout restart after the crashing case."""
    results = {}
    todo = list(cases)
    crashes = 0
    while todo:
        if crashes >= MAX_CRASHES_PER_SHARD:
            # an implementation that crashes/hangs on (almost) every case: the first ones are evidence enough
            break
        if crashes and _CURRENT is not None and not _CURRENT.replay:
            budget = float(os.environ.get("VERIF_FAIL_BUDGET_S", "240" if _CURRENT.tier == "quick" else "1200"))
            if time.time() - _CURRENT.t0 > budget:
                break   # this shard already has a crash/hang to report and the check's wall budget is used up
        # the harness's stdout is cut off after MAX_SHARD_OUTPUT bytes (the harness then dies of SIGPIPE and the case it
        # was running counts as crashed): a broken implementation must not be able to make the check buffer gigabytes
        rc, out, err = sh(["/bin/bash", "-c", 'set -o pipefail; "$0" "$@" 2> >(head -c 20000000 >&2) | head -c %d' % MAX_SHARD_OUTPUT, exe] + list(args),
                          inp=format_cases(todo), timeout=timeout, env=env)
        global MAX_SEEN_OUTPUT
        MAX_SEEN_OUTPUT = max(MAX_SEEN_OUTPUT, len(out))
        parsed, order = parse_output(out)
        done = 0
        for cid, _ in todo:
            if cid in parsed and parsed[cid]["ended"]:
                results[cid] = parsed[cid]
                results[cid]["crash"] = None
                done += 1
            else:
                break
        if done == len(todo):
            break
        cid, _ = todo[done]
        r = parsed.get(cid, dict(lines=[], oracle=[], ended=False))
        r["crash"] = "rc=%s\n%s" % (rc, err[-6000:])
        crashes += 1
        results[cid] = r
        todo = todo[done + 1:]
    return results


class Results(dict):
    """dict id -> result, remembering the executable that produced it (used for shrinking replays)."""
    exe = None; args = (); env = None; skipped = False


_CURRENT = None     # the Check object of this process (set by Check.__init__)


def over_budget():
    """True once this check has already recorded a failure (oracle failure, correspondence mismatch or broken
    obligation) AND has used up its wall-time budget: further exploration would only delay the report.  A broken
    implementation can make every remaining case hang until some watchdog fires; the first failures are enough."""
    c = _CURRENT
    if c is None or c.replay:
        return False
    budget = float(os.environ.get("VERIF_FAIL_BUDGET_S", "240" if c.tier == "quick" else "1200"))
    if c.oracle_fail or c.mismatches:
        return (time.time() - c.t0) > budget
    if c.broken:
        # only proof obligations are broken so far (no concrete input yet): the search for a failing input on the
        # implementation must still happen, however long the proof leg took (seed C06-r9-1: a tie proof that no longer
        # closes used up the budget and the check reported no-failing-input-found although `remove(max)` fails at
        # once).  The budget for that search starts at the first case run after the obligation broke.
        if not hasattr(c, "_search_t0"):
            c._search_t0 = time.time()
        return (time.time() - c._search_t0) > budget
    return False


def run_cases(exe, cases, shards=None, timeout=600, args=(), env=None):
    """Run all cases through exe in parallel shards. Returns dict id -> result."""
    if over_budget():
        _CURRENT.notes.append("skipped a run of %d cases through %s: failures already recorded and the wall-time budget is used up" % (len(cases), os.path.basename(exe)))
        _CURRENT.skipped_runs += 1
        r = Results(); r.exe, r.args, r.env, r.skipped = exe, tuple(args), env, True
        return r
    e = dict(SAN_ENV)
    # per-case CPU-time watchdog inside the harness (lib/vharness.hpp): short for ordinary script cases, effectively the
    # shard's wall timeout for runs whose caller announced long-running cases (stress, self-enumeration) by a long timeout
    e["VH_CASE_CPU_SECONDS"] = str(30 if timeout <= 600 else int(timeout) * 16)
    if env:
        e.update(env)
    shards = shards or min(NCPU, max(1, len(cases) // 8))
    parts = [cases[i::shards] for i in range(shards)]
    results = Results()
    results.exe, results.args, results.env = exe, tuple(args), e
    with ThreadPoolExecutor(max_workers=shards) as ex:
        for r in ex.map(lambda p: _run_shard(exe, p, timeout, args, e) if p else {}, parts):
            results.update(r)
    return results


def first_diff(a, b):
    for i in range(max(len(a), len(b))):
        x = a[i] if i < len(a) else "<missing>"
        y = b[i] if i < len(b) else "<missing>"
        if x != y:
            return i, x, y
    return None


def ddmin(lines, pred, budget=400):
    """Delta-debug a list of lines while pred(lines) stays true. pred is called at most budget times."""
    calls = [0]

    def ok(ls):
        if calls[0] >= budget:
            return False
        calls[0] += 1
        return pred(ls)
    n = 2
    cur = list(lines)
    while len(cur) >= 2:
        chunk = max(1, len(cur) // n)
        reduced = False
        for i in range(0, len(cur), chunk):
            cand = cur[:i] + cur[i + chunk:]
            if cand and ok(cand):
                cur = cand
                n = max(n - 1, 2)
                reduced = True
                break
        if not reduced:
            if chunk == 1:
                break
            n = min(len(cur), n * 2)
        if calls[0] >= budget:
            break
    return cur


# --------------------------------------------------------------------------------------------
# known findings
# --------------------------------------------------------------------------------------------

def known_findings(pid):
    """known_findings.txt lines:
       known: property=Cnn id=Dnn match=<python regex over 'kind msg'> :: description
       fixed: property=Cnn <commit> <what failed>"""
    out = []
    p = os.path.join(ROOT, "known_findings.txt")
    if not os.path.exists(p):
        return out
    for line in open(p):
        line = line.strip()
        m = re.match(r"known:\s+property=(\S+)\s+id=(\S+)\s+match=(.*?)\s+::\s+(.*)$", line)
        if m and m.group(1) == pid:
            out.append(dict(id=m.group(2), rx=re.compile(m.group(3)), desc=m.group(4)))
    return out


# --------------------------------------------------------------------------------------------
# the check object
# --------------------------------------------------------------------------------------------

LIFETIME_KINDS = {"leak-object", "leak-block", "use-dead", "construct-over-live", "destroy-dead",
                  "dealloc-size", "bad-free", "dealloc-null", "lifetime"}


class Check:
    def __init__(self, pid, argv=None):
        self.pid = pid
        global _CURRENT
        _CURRENT = self
        self.skipped_runs = 0
        hold("repo-mode", shared=(REPO == "/repo"))
        argv = sys.argv[1:] if argv is None else argv
        self.tier = os.environ.get("VERIF_TIER", "quick")
        self.replay = None
        i = 0
        while i < len(argv):
            if argv[i] == "--tier":
                self.tier = argv[i + 1]; i += 2
            elif argv[i] == "--replay":
                self.replay = argv[i + 1]; i += 2
            else:
                i += 1
        if self.tier not in ("quick", "thorough"):
            self.tier = "quick"
        try:
            self.seed = int(os.environ.get("VERIF_SEED", "20260927"))
        except ValueError:
            self.seed = 20260927
        self.rng = random.Random(self.seed)
        self.t0 = time.time()
        self.proof = None            # result of coq_check_props (merged if several)
        self.gen_obligations = 0     # generated (Gen/*.v) obligations
        self.gen_discharged = 0
        self.evaluations = 0
        self.nontrivial = set()
        self.samples = []
        self.rule = ""
        self.dist = {}               # input distribution counters
        self.mismatches = []         # correspondence failures: (case id, lines, description)
        self.oracle_fail = []        # (kind, msg, case id, lines)
        self.broken = []             # names of theorems / obligations / builds that no longer check
        self.notes = []
        self.trusted = []
        self.assumptions = []
        self.extra = {}
        self.kind_filter = None      # callable(kind) -> bool: which oracle kinds belong to this property
        self._impl_exe = None        # (exe, args, env) of the implementation harness, for shrinking replays
        self.ignored_oracle = 0
        self.checker_cmd = "make -C coq Props/Properties_%s.vo (coqc 8.16.1, full .vo build) + Print Assumptions" % pid
        os.makedirs(REPLAYS, exist_ok=True)

    # ---- leg P
    def prove(self, pids=None, extra_targets=(), timeout=3000):
        pids = pids or [self.pid]
        merged = dict(ok=True, obligations=0, discharged=0, theorems=[], failed=[], axioms=set(), log="")
        for p in pids:
            r = coq_check_props(p, extra_targets, timeout)
            merged["ok"] = merged["ok"] and r["ok"]
            merged["obligations"] += r["obligations"]
            merged["discharged"] += r["discharged"]
            merged["theorems"] += r["theorems"]
            merged["failed"] += r["failed"]
            merged["axioms"] |= set(r["axioms"])
            if not r["ok"]:
                merged["log"] += r["log"][-4000:]
                for f in (r["failed"] or ["Properties_%s.v" % p]):
                    self.broken.append("theorem %s (coq/Props/Properties_%s.v)" % (f, p))
                if r.get("foreign_axioms"):
                    self.broken.append("non-standard axioms: %s" % r["foreign_axioms"])
        merged["axioms"] = sorted(merged["axioms"])
        self.proof = merged
        if self.tier == "thorough" and merged["ok"] and os.environ.get("VERIF_COQCHK", "1") != "0":
            self.coqchk(pids)
        return merged["ok"]

    def coqchk(self, pids):
        """thorough tier: re-check the compiled property files and everything they depend on with the stand-alone
        checker coqchk and record the axioms it reports (all loaded libraries included)."""
        libs = ["FV.Props.Properties_%s" % p for p in pids]
        rc, o, e = sh(["coqchk", "-silent", "-o", "-Q", ".", "FV"] + libs, cwd=COQ, timeout=2400)
        txt = o + e
        m = re.search(r"\* Axioms:\s*(.*?)\n\s*\n", txt, re.S)
        ax = m.group(1).strip() if m else "?"
        names = [a.strip().split()[0] for a in ax.split("\n") if a.strip()] if ax not in ("<none>", "?") else []
        foreign = [a for a in names if a not in STD_AXIOMS and a.split(".")[-1] not in STD_AXIOMS]
        self.extra["coqchk"] = {"rc": rc, "axioms": ax[:2000], "libraries": libs}
        if rc != 0 or ax == "?" or foreign:
            self.broken.append("coqchk %s: rc=%s axioms=%s" % (" ".join(libs), rc, ax[:300]))

    def gen_obligation(self, name, ok, detail=""):
        self.gen_obligations += 1
        if ok:
            self.gen_discharged += 1
        else:
            self.broken.append("generated obligation %s %s" % (name, detail))

    # ---- bookkeeping for legs C and O
    def count(self, key, n=1):
        self.dist[key] = self.dist.get(key, 0) + n

    def add_case(self, cid, lines, nontrivial_key=None):
        self.evaluations += 1
        if nontrivial_key is not None:
            self.nontrivial.add(nontrivial_key)
        if len(self.samples) < 4 and lines:
            self.samples.append({"case": cid, "ops": lines[:40]})

    def mismatch(self, cid, lines, desc):
        self.mismatches.append((cid, lines, desc))

    def oracle(self, kind, msg, cid, lines):
        if self.kind_filter is not None and not self.kind_filter(kind):
            self.ignored_oracle += 1
            return
        self.oracle_fail.append((kind, msg, cid, lines))

    def compare(self, cases, impl, model, nontrivial=None):
        """Standard C+O leg over results of run_cases. cases: list of (id, lines).
        nontrivial(cid, lines, impl_result) -> hashable key or None."""
        if getattr(impl, "exe", None):
            self._impl_exe = (impl.exe, impl.args, impl.env)
        if getattr(impl, "skipped", False) or getattr(model, "skipped", False):
            return      # run skipped by over_budget(): nothing to compare, failures are already recorded
        for cid, lines in cases:
            ri = impl.get(cid)
            rm = model.get(cid)
            key = None
            if nontrivial and ri is not None:
                try:
                    key = nontrivial(cid, lines, ri)
                except Exception:
                    key = None
            self.add_case(cid, lines, key)
            if ri is None:
                self.mismatch(cid, lines, "implementation produced no output")
                continue
            if ri.get("crash"):
                self.oracle("crash", _crash_summary(ri["crash"]), cid, lines)
            for o in ri["oracle"]:
                k, _, m = o.partition(" ")
                self.oracle(k, m, cid, lines)
            if rm is None:
                self.mismatch(cid, lines, "model produced no output")
                continue
            if rm.get("crash"):
                self.mismatch(cid, lines, "model driver crashed: " + rm["crash"][-300:])
                continue
            if not ri.get("crash"):
                d = first_diff(ri["lines"], rm["lines"])
                if d:
                    self.mismatch(cid, lines, "line %d: impl=%r model=%r" % d)

    # ---- outcome rules (DESIGN 2.2)
    def finish(self, widen=None, level="proof"):
        """widen: optional callable() run when P or C broke but O passed; it should search for a
        failing input and call self.oracle(...) if it finds one."""
        known = known_findings(self.pid)
        if (self.broken or self.mismatches) and not self.oracle_fail and widen:
            try:
                widen()
            except Exception as ex:  # the search is best effort
                self.notes.append("widen search raised %r" % (ex,))
        violations = 0
        printed_known = set()
        new_fail = []
        for kind, msg, cid, lines in self.oracle_fail:
            text = kind + " " + msg
            kf = next((k for k in known if k["rx"].search(text)), None)
            if kf:
                if kf["id"] not in printed_known:
                    printed_known.add(kf["id"])
                    print("KNOWN-FINDING: property=%s %s: %s" % (self.pid, kf["id"], kf["desc"]))
            else:
                new_fail.append((kind, msg, cid, lines))
        if new_fail:
            seen = set()
            for kind, msg, cid, lines in new_fail:
                if kind in seen:
                    continue
                seen.add(kind)
                lines = self._shrink(kind, lines)
                path = self._write_replay(cid, lines, "oracle failure on the implementation: %s %s" % (kind, msg))
                print("VIOLATION property=%s replay=%s" % (self.pid, path))
                violations += 1
        elif self.broken or self.mismatches:
            what = []
            for b in self.broken:
                what.append("no longer checks: " + b)
            for cid, lines, desc in self.mismatches[:5]:
                what.append("correspondence differs on case %s: %s" % (cid, desc))
            cid, lines = ("none", [])
            if self.mismatches:
                cid, lines = self.mismatches[0][0], self.mismatches[0][1]
            path = self._write_replay(cid, lines, "\n".join(what) + ("\n--- build/proof log tail ---\n" + self.proof["log"][-3000:] if self.proof and not self.proof["ok"] else ""))
            print("VIOLATION property=%s replay=%s no-failing-input-found" % (self.pid, path))
            violations += 1
        self._evidence(level, violations, sorted(printed_known))
        sys.stdout.flush()
        return 1 if violations else 0

    def _shrink(self, kind, lines):
        """Delta-debug an oracle-failing script against the implementation harness (same oracle kind must persist)."""
        if not self._impl_exe or len(lines) < 3 or len(lines) > 4000 or self.replay:
            return lines
        exe, args, env = self._impl_exe
        t_end = time.time() + 25

        def pred(ls):
            if time.time() > t_end:
                return False
            r = _run_shard(exe, [("shrink", ls)], 20, args, env).get("shrink")
            if not r:
                return False
            if kind == "crash":
                return bool(r.get("crash"))
            return any(o.partition(" ")[0] == kind for o in r["oracle"])
        try:
            if not pred(lines):
                return lines
            return ddmin(lines, pred, budget=120)
        except Exception:
            return lines

    def _write_replay(self, cid, lines, why):
        h = hashlib.sha1(("\n".join(lines) + why).encode()).hexdigest()[:10]
        path = os.path.join(REPLAYS, "%s-%s.ops" % (self.pid, h))
        with open(path, "w") as f:
            f.write("# property %s  case %s  seed %d tier %s\n" % (self.pid, cid, self.seed, self.tier))
            for l in why.split("\n"):
                f.write("# " + l + "\n")
            f.write("#case %s\n" % cid)
            for l in lines:
                f.write(l + "\n")
        return path

    def _evidence(self, level, violations, known_hit):
        ob = (self.proof["obligations"] if self.proof else 0) + self.gen_obligations
        di = (self.proof["discharged"] if self.proof else 0) + self.gen_discharged
        cov = {
            "obligations": ob, "discharged": di,
            "checker_cmd": self.checker_cmd,
            "trusted_base": self.trusted + ["axioms reported by Print Assumptions: %s" % (
                ", ".join(self.proof["axioms"]) if self.proof and self.proof["axioms"] else "none (closed under the global context)")],
            "theorems": self.proof["theorems"] if self.proof else [],
            "evaluations": self.evaluations,
            "distinct_nontrivial": len(self.nontrivial),
            "rule": self.rule,
            "samples": self.samples or [{"note": "no cases generated"}],
            "input_distribution": self.dist,
            "correspondence_mismatches": len(self.mismatches),
            "oracle_failures": len(self.oracle_fail),
            "known_findings_hit": known_hit,
            "oracle_failures_belonging_to_other_properties": self.ignored_oracle,
            "broken": self.broken,
            "explanation": " ".join(self.notes),
        }
        cov["max_shard_output_bytes"] = MAX_SEEN_OUTPUT
        cov.update(self.extra)
        ev = {"property_id": self.pid, "tier": self.tier, "seed": self.seed, "level": level,
              "coverage": cov, "assumptions": self.assumptions, "wall_s": round(time.time() - self.t0, 2),
              "violations": violations}
        os.makedirs(EVID, exist_ok=True)
        with open(os.path.join(EVID, self.pid + ".json"), "w") as f:
            json.dump(ev, f, indent=1, sort_keys=True)
            f.write("\n")


def _crash_summary(text):
    m = re.search(r"(ERROR: \w+Sanitizer: [^\n]*|runtime error: [^\n]*|WARNING: ThreadSanitizer: [^\n]*|Assertion[^\n]*|terminate called[^\n]*|\[timeout[^\n]*)", text)
    s = m.group(1) if m else text.strip().split("\n")[0][:200]
    m2 = re.search(r"(/repo/include/frg/\w+\.hpp:\d+)", text)
    return s + (" at " + m2.group(1) if m2 else "")


def read_replay(path):
    cases, cur = [], None
    for line in open(path):
        line = line.rstrip("\n")
        if line.startswith("#case "):
            cur = (line[6:].strip(), [])
            cases.append(cur)
        elif line.startswith("#") or cur is None:
            continue
        else:
            cur[1].append(line)
    return cases
