(* C05 / slabconc: the control-model theorems instantiated with the GENERATED skeleton (Gen/SlabSkeleton.v).
   Everything here is parametric in the hypothesis [check_skeleton actual = true]; Props/Properties_C05.v
   discharges it by vm_compute (obligation skeleton_disciplined) on every run. *)
From Coq Require Import List String Bool Arith Lia.
From FV Require Import SlabConc.Skeleton SlabConc.SkeletonSound SlabConc.ConcModel SlabConc.ConcProofs.
From FV Require Import Gen.SlabSkeleton.
Import ListNotations.
Open Scope string_scope.
Open Scope list_scope.

(* ---- what the monitor's acceptance of one event means, spelled out ---- *)

Definition event_ok (s : mstate) (e : ev) : Prop :=
  match e with
  | ELock _ _ => held s = None                          (* never a second pool lock *)
  | EUnlock g => exists m, held s = Some (g, m)         (* unlock() only of the owning guard *)
  | EPolicy _ => held s = None                          (* every policy callback (map, unmap, poison, ...) without locks *)
  | EReturn => held s = None                            (* nothing left locked at return, including `return nullptr` *)
  | EAccess f md obj =>
      match field_class f with
      | Some PBucket => holds s MB = true
      | Some PSlab | Some PObj => mem obj (priv s) = true \/ holds s MB = true
      | Some PTree => holds s MT = true
      | Some PHeader => md = R \/ mem obj (priv s) = true
      | None => False
      end
  | _ => True
  end.

Lemma mon_event_ok s e s' : mon s e = Some s' -> event_ok s e.
Proof.
  destruct e as [g m|g|g|f|f md obj|v|v src|v obj|]; cbn [mon event_ok]; try (intros _; exact I).
  - destruct (held s); [discriminate|reflexivity].
  - destruct (held s) as [[g' m]|]; [|discriminate]. destruct (String.eqb_spec g g'); [|discriminate].
    subst. intros _. exists m. reflexivity.
  - destruct (held s); [discriminate|reflexivity].
  - unfold access_ok. destruct (field_class f) as [[| | | |]|]; try discriminate.
    + destruct (holds s MB); [reflexivity|discriminate].
    + destruct (mem obj (priv s)); [left; reflexivity|]. destruct (holds s MB); [right; reflexivity|discriminate].
    + destruct (mem obj (priv s)); [left; reflexivity|]. destruct (holds s MB); [right; reflexivity|discriminate].
    + destruct (holds s MT); [reflexivity|discriminate].
    + destruct md; [left; reflexivity|]. destruct (mem obj (priv s)); [right; reflexivity|discriminate].
  - destruct (held s); [discriminate|reflexivity].
Qed.

Lemma disciplined_event_ok s tr : disciplined s tr ->
  forall pre e post, tr = pre ++ e :: post -> exists s1, run_mon s pre = Some s1 /\ event_ok s1 e.
Proof.
  intros H pre e post Heq. destruct (H pre e post Heq) as (s1 & s2 & H1 & H2).
  exists s1. split; [assumption|]. eapply mon_event_ok; eassumption.
Qed.

(* ---- follow selects genuine paths ---- *)

Section Follow.
Variable fs : skeleton.

Definition fk_sound (ck : string -> list bool -> option (list ev * list bool)) : Prop :=
  forall f ch t ch', ck f ch = Some (t, ch') -> exists b o, lookup fs f = Some b /\ paths fs b t o.

Lemma follow_paths ck k : fk_sound ck ->
  forall c ch t o ch', follow ck k c ch = Some (t, o, ch') -> paths fs c t o.
Proof.
  intros Hck c. induction c as [ |e|a IHa b IHb|a IHa b IHb|b IHb| |f]; intros ch t o ch' H; cbn [follow] in H.
  - injection H as <- <- _. constructor.
  - injection H as <- <- _. constructor.
  - destruct (follow ck k a ch) as [[[t1 o1] ch1]|] eqn:Ha; [|discriminate].
    destruct o1.
    + destruct (follow ck k b ch1) as [[[t2 o2] ch2]|] eqn:Hb; [|discriminate].
      injection H as <- <- _. eapply P_seq; [eapply IHa|eapply IHb]; eassumption.
    + injection H as <- <- _. apply P_seq_ret. eapply IHa; eassumption.
  - destruct (pick ch) as [x ch0]. destruct x; [apply P_if_l; eapply IHa|apply P_if_r; eapply IHb]; eassumption.
  - revert ch t o ch' H. generalize k at 2. intro n. induction n as [|n IHn]; intros ch t o ch' H.
    + injection H as <- <- _. constructor.
    + destruct (follow ck k b ch) as [[[t1 o1] ch1]|] eqn:Hb; [|discriminate].
      destruct o1.
      * match type of H with match ?X with _ => _ end = _ => destruct X as [[[t2 o2] ch2]|] eqn:Hi; [|discriminate] end.
        injection H as <- <- _. eapply P_loop_s; [eapply IHb; eassumption|eapply IHn; eassumption].
      * injection H as <- <- _. apply P_loop_ret. eapply IHb; eassumption.
  - injection H as <- <- _. constructor.
  - destruct (ck f ch) as [[t1 ch1]|] eqn:Hc; [|discriminate]. injection H as <- <- _.
    destruct (Hck _ _ _ _ Hc) as (b & o' & Hl & Hp). eapply P_call; eassumption.
Qed.

Lemma followk_sound fuel k : fk_sound (followk fuel fs k).
Proof.
  induction fuel as [|n IH]; intros f ch t ch' H; cbn [followk] in H; [discriminate|].
  destruct (lookup fs f) as [b|] eqn:Hl; [|discriminate].
  destruct (follow (followk n fs k) k b ch) as [[[t1 o1] ch1]|] eqn:Hf; [|discriminate].
  injection H as <- <-. exists b, o1. split; [reflexivity|]. eapply follow_paths; eassumption.
Qed.

Lemma follow_api_trace k f ch tr : follow_api fs k f ch = Some tr -> api_trace fs f tr.
Proof.
  unfold follow_api. destruct (followk (S call_depth) fs k f ch) as [[t ch']|] eqn:H; [|discriminate].
  intro E; injection E as <-. destruct (followk_sound _ _ _ _ _ _ H) as (b & o & Hl & Hp).
  exists b, t, o. repeat split; assumption.
Qed.
End Follow.

(* ---- scripts made of skeleton path-traces ---- *)

(* one operation = the micro-op projection (for some assignment of bucket indices) of a complete path-trace of
   an API function of the generated skeleton *)
Definition is_api_op (o : list mop) : Prop :=
  exists f tr idx, In f api /\ api_trace actual f tr /\ o = project_api idx tr.

(* a thread's script = any finite sequence of such operations *)
Definition script_ok (p : list mop) : Prop :=
  exists ops, Forall is_api_op ops /\ p = List.concat ops.

Section Instantiated.
Hypothesis Hchk : check_skeleton actual = true.

Lemma lock_discipline_events f tr : In f api -> api_trace actual f tr ->
  forall pre e post, tr = pre ++ e :: post -> exists s1, run_mon s0 pre = Some s1 /\ event_ok s1 e.
Proof.
  intros Hf Ht. apply disciplined_event_ok. exact (check_skeleton_sound actual Hchk f tr Hf Ht).
Qed.

Lemma lock_discipline_mops f tr idx : In f api -> api_trace actual f tr -> mdisc None (project_api idx tr) = true.
Proof.
  intros Hf Ht.
  assert (Hc : check_fun actual f = true).
  { unfold check_skeleton in Hchk. rewrite forallb_forall in Hchk. apply Hchk, Hf. }
  destruct (check_fun_sound _ _ _ Hc Ht) as (s' & Hr).
  destruct Ht as (b & t & o & _ & _ & ->). eapply project_disciplined; eassumption.
Qed.

Lemma script_ok_mdisc p : script_ok p -> mdisc None p = true.
Proof.
  intros (ops & Hops & ->). apply mdisc_concat.
  eapply Forall_impl; [|exact Hops]. intros o (f & tr & idx & Hf & Ht & ->). exact (lock_discipline_mops f tr idx Hf Ht).
Qed.

Lemma reachable_inv prog sched : (forall t, script_ok (prog t)) -> Inv (run sched (init prog)).
Proof. intro H. apply Inv_reachable. intro t. apply script_ok_mdisc, H. Qed.

End Instantiated.

(* ---- concrete witnesses used by the Examples of Props/Properties_C05.v ---- *)

Definition or_nil (o : option (list ev)) : list ev := match o with Some t => t | None => [] end.

(* allocate, small size: slow path (class empty: unlock, _construct_slab with an aligned map, accounting under
   _tree_mutex, re-lock, attach) and fast path (pop from head_slb under the bucket lock) *)
Definition ch_alloc_slow : list bool := [false; false; true; false; false; false; true].
Definition ch_alloc_fast : list bool := [false; false; true; false; false; true].
Definition tr_alloc_slow : list ev := or_nil (follow_api actual 1 "allocate" ch_alloc_slow).
Definition tr_alloc_fast : list ev := or_nil (follow_api actual 1 "allocate" ch_alloc_fast).

(* two threads running the fast path of allocate on bucket 3, everybody else idle *)
Definition ex_prog (t : tid) : list mop :=
  if Nat.ltb t 2 then project_api (fun _ => 3) tr_alloc_fast else [].

(* hand-made broken skeletons (the shapes of the self-test mutations) *)
Definition all_api (b : sk) : skeleton := map (fun f => (f, b)) api.
Definition bad_map_under_lock : skeleton :=
  all_api (Lock "g" MB ;; Access "head_slb" R "bkt" ;; PolicyCall "map" ;; Unlock "g" ;; Return).
Definition bad_unmap_in_tree_scope : skeleton :=
  all_api (Lock "g" MT ;; Access "_usedPages" W "this" ;; PolicyCall "unmap" ;; ScopeEnd "g").
Definition bad_no_relock : skeleton :=
  all_api (Lock "g" MB ;; Unlock "g" ;; PolicyCall "map" ;; Access "partial_tree" W "bkt" ;; ScopeEnd "g").
Definition bad_touch_after_unlock : skeleton :=
  all_api (Lock "g" MB ;; Access "head_slb" R "bkt" ;; Unlock "g" ;; Access "head_slb" R "bkt").
Definition bad_no_tree_guard : skeleton :=
  all_api (Access "_usedPages" R "this" ;; Access "_usedPages" W "this").
Definition bad_two_locks : skeleton :=
  all_api (Lock "g" MB ;; Lock "h" MT ;; Unlock "h" ;; Unlock "g").
Definition bad_locked_at_early_return : skeleton :=
  all_api (Lock "g" MB ;; If (Unlock "g" ;; Return) (Else (Return))).
Definition bad_loop_leaks_lock : skeleton :=
  all_api (Loop (Lock "g" MB) ;; Return).
Definition good_private_slab : skeleton :=
  all_api (Fresh "slb" ;; Access "available" W "slb" ;; Lock "g" MB ;; Access "partial_tree" W "bkt" ;;
           Store "slb" "bkt" ;; Unlock "g" ;; Return).
Definition bad_published_slab : skeleton :=
  all_api (Fresh "slb" ;; Lock "g" MB ;; Access "partial_tree" W "bkt" ;; Store "slb" "bkt" ;; Unlock "g" ;;
           Access "available" W "slb" ;; Return).
