(* C05 / slabconc over the concrete pool: what ONE segment of one thread does, as a summary that the thread-pool
   induction (ConcSlabProofs.v) can use without looking at pcs again:
   the shared invariant is kept, the thread's own local facts are re-established, and everything another thread
   relies on changes only in ways that thread cannot notice (live blocks it works on stay live and keep their frame
   kind, mapped regions only grow by the stepping thread's own private region, ...). *)
From Coq Require Import List NArith Bool Arith Lia ZifyBool ZifyNat ZifyN.
From FV Require Import SlabConc.ConcModel.
From FV Require Import Slab.SlabModel Slab.SlabArith Slab.SlabBasics Slab.SlabFail Slab.SlabInv Slab.SlabInvAlloc
  Slab.SlabInvFree Slab.SlabInvStep Slab.SlabC01 SlabConc.ConcSlabModel SlabConc.ConcSlabState.
Import ListNotations.
Local Open Scope N_scope.

(* ---------- thread-local facts that do not depend on the shared state ---------- *)
Definition fits (c : cfg) (idx nreq : N) : Prop := idx < nbuckets c /\ N.max nreq 1 <= b2s idx.
Definition ok_res (r : result) : Prop := is_stop r = false.

Definition plarge (c : cfg) (nreq : N) (x : large) : Prop :=
  exists r, x = fst (construct_large c (N.max nreq 1) r)
            /\ region_ok c r (large_map_len c (align_up (N.max nreq 1) (page c))).

Definition aloc (c : cfg) (a : apc) : Prop :=
  match a with
  | AS0 idx _ nreq _ | AS1 idx _ nreq _ | AS3 idx _ nreq _ | AS4 idx _ nreq _ => fits c idx nreq
  | AS2 _ r _ => ok_res r
  | AS5 idx _ nreq r => fits c idx nreq /\ region_ok c r (slab_map_len c)
  | AS6 idx _ nreq x o | AS7 idx _ nreq x o | AS8 idx _ nreq x o | AS9 idx _ nreq x o | AS10 idx _ nreq x o =>
      fits c idx nreq /\ pslab c idx x o
  | AL0 n' nreq _ => n' = N.max nreq 1
  | AL1 n' nreq r => n' = N.max nreq 1 /\ region_ok c r (large_map_len c (align_up n' (page c)))
  | AL2 nreq x | AL3 nreq x => plarge c nreq x
  | AL4 _ => True
  | ARet r => ok_res r
  end.
Definition floc (f : fpc) : Prop :=
  match f with FS3 _ r | FL3 r _ | FL4 r _ | FRet r => ok_res r | _ => True end.
Definition loc (c : cfg) (p : cpc) : Prop :=
  match p with Idle => True | PA a _ => aloc c a | PF f rv => floc f /\ ok_res rv | PRet r => ok_res r end.

(* the frame kind read at the call entry is still the kind of the block when the locked body runs *)
Definition kind_ok (c : cfg) (s : state) (p : cpc) : Prop :=
  match p with
  | PF (FS1 idx q) _ | PF (FS2 idx q) _ => kind c s q = Some (Some idx)
  | PF (FL1 q) _ | PF (FL2 q) _ => kind c s q = Some None
  | _ => True
  end.

(* ---------- local forms of the environment hypotheses ---------- *)
Definition lptr_ok (s : state) (p : N) : Prop := p = 0 \/ In p (live_ptrs s).
Definition lop_ok (c : cfg) (s : state) (o : op) : Prop :=
  match o with
  | Alloc _ _ => True
  | Free p => lptr_ok s p
  | Dealloc p n => lptr_ok s p /\ (p <> 0 -> n <= cur_size c s p)
  | Realloc p _ _ => lptr_ok s p
  | GetSize p => lptr_ok s p
  | Write p off len _ =>
      lptr_ok s p /\ match find_blk p (live s) with Some b => off + len <= N.max (bk_req b) 1 | None => False end
  end.
Definition lans_ok (c : cfg) (s : state) (len : N) (e : env) : Prop :=
  env_ret e <> 0 ->
  region_ok c (env_ret e) len /\ forall rg, In rg (mapped s) -> rdisj (env_ret e, len) rg = true.
Definition lstep_ok (c : cfg) (s : state) (th : cthread) : Prop :=
  match pc th with
  | Idle => match todo th with o :: _ => lop_ok c s o | [] => True end
  | PA (AS4 _ _ _ e) _ => lans_ok c s (slab_map_len c) e
  | PA (AL0 n' _ e) _ => lans_ok c s (large_map_len c (align_up n' (page c))) e
  | _ => True
  end.

Definition fresh_map (c : cfg) (p : cpc) (rg : N * N) : Prop :=
  match p with
  | PA (AS4 _ _ _ e) _ => rg = (env_ret e, slab_map_len c) /\ env_ret e <> 0
  | PA (AL0 n' _ e) _ => rg = (env_ret e, large_map_len c (align_up n' (page c))) /\ env_ret e <> 0
  | _ => False
  end.

Definition ptr_of (o : op) : option N :=
  match o with
  | Alloc _ _ => None
  | Free p | Dealloc p _ | Realloc p _ _ | GetSize p | Write p _ _ _ => Some p
  end.
Definition op_ptr (th : cthread) (q : N) : Prop :=
  pc th = Idle /\ exists o rest, todo th = o :: rest /\ ptr_of o = Some q /\ q <> 0.

Record summary (c : cfg) (s : state) (th : cthread) (s' : state) (th' : cthread) : Prop := {
  sm_inv : ShInv c s';
  sm_loc : loc c (pc th');
  sm_kind_own : kind_ok c s' (pc th');
  sm_claims : forall q, In q (claims (pc th')) -> In q (live_ptrs s');
  sm_nodup : NoDup (claims (pc th'));
  sm_mapped : forall rg, In rg (mapped s') -> In rg (mapped s) \/ region_of c (pc th) = Some rg;
  sm_region : forall rg, region_of c (pc th') = Some rg -> region_of c (pc th) = Some rg \/ fresh_map c (pc th) rg;
  sm_region_disj : forall rg, region_of c (pc th') = Some rg -> forall rg', In rg' (mapped s') -> rdisj rg rg' = true;
  sm_live : forall q, In q (live_ptrs s) -> In q (live_ptrs s') \/ In q (claims (pc th));
  sm_new : forall q, In q (claims (pc th')) -> In q (claims (pc th)) \/ ~ In q (live_ptrs s) \/ op_ptr th q;
  sm_kind : forall q, In q (live_ptrs s) -> In q (live_ptrs s') -> kind c s' q = kind c s q;
  sm_acct : forall P0, used s = pages c s + pend_of c (pc th) + P0 -> used s' = pages c s' + pend_of c (pc th') + P0;
  sm_outs : forall r cbs, In (r, cbs) (outs th') -> In (r, cbs) (outs th) \/ is_stop r = false
}.

(* ---------- helpers ---------- *)
Lemma ShInv_account c s d : ShInv c s -> ShInv c (account_add s d).
Proof. intros (S & (E1 & E2 & E3 & E4 & E5) & I). exists S. split; [|exact I]. unfold sim, account_add. cbn. auto. Qed.

Lemma ShInv_nodup c s : ShInv c s -> NoDup (live_ptrs s).
Proof. intros (S & Hsim & I). rewrite <- (sim_live_ptrs _ _ Hsim). apply (I_live_nodup _ _ _ I). Qed.

Lemma find_blk_live s p : In p (live_ptrs s) -> exists b, find_blk p (live s) = Some b.
Proof.
  unfold live_ptrs. induction (live s) as [|b l IH]; cbn; [intros []|].
  intros [E|H]; [rewrite E, N.eqb_refl; eauto|]. destruct (bk_p b =? p); eauto.
Qed.

Lemma live_nonzero_sh c s p : cfg_facts c -> ShInv c s -> In p (live_ptrs s) -> p <> 0.
Proof.
  intros F (S & Hsim & I) Hp. rewrite <- (sim_live_ptrs _ _ Hsim) in Hp. apply in_map_iff in Hp.
  destruct Hp as (b & <- & Hb). apply (live_nonzero c F 0 S I b Hb).
Qed.

Lemma a_entry_loc c n e : cfg_facts c ->
  aloc c (a_entry c n e) /\ aclaims (a_entry c n e) = []
  /\ (forall k, region_of c (PA (a_entry c n e) k) = None) /\ (forall k, pend_of c (PA (a_entry c n e) k) = 0).
Proof.
  intros F. unfold a_entry. fold (norm_req n).
  pose proof (norm_req_pos n) as Hpos. pose proof (norm_req_max n) as Hmax.
  destruct (norm_req n <=? max_bucket_size c) eqn:Hs.
  - apply N.leb_le in Hs.
    assert (Hidx : s2b (norm_req n) < nbuckets c) by (apply s2b_bound; [apply (cf_nb_pos c F)|assumption|exact Hs]).
    assert (Hle : (s2b (norm_req n) <=? nbuckets c) = true) by (apply N.leb_le; lia).
    rewrite Hle. cbn [negb aloc aclaims]. repeat split; auto.
    rewrite <- Hmax. apply s2b_fits. assumption.
  - cbn [aloc aclaims]. repeat split; auto.
Qed.

Lemma summary_same c s th th' :
  ShInv c s -> (forall q, In q (claims (pc th)) -> In q (live_ptrs s)) ->
  (forall rg, region_of c (pc th) = Some rg -> forall rg', In rg' (mapped s) -> rdisj rg rg' = true) ->
  loc c (pc th') -> kind_ok c s (pc th') ->
  (forall q, In q (claims (pc th')) -> In q (claims (pc th))) -> NoDup (claims (pc th')) ->
  (forall rg, region_of c (pc th') = Some rg -> region_of c (pc th) = Some rg) ->
  pend_of c (pc th') = pend_of c (pc th) ->
  (forall r cbs, In (r, cbs) (outs th') -> In (r, cbs) (outs th) \/ is_stop r = false) ->
  summary c s th s th'.
Proof.
  intros HS HC HR HL HK Hcl Hnd Hrg Hpe Ho. constructor.
  - exact HS.
  - exact HL.
  - exact HK.
  - intros q Hq. apply HC, Hcl, Hq.
  - exact Hnd.
  - intros rg H. left. exact H.
  - intros rg H. left. apply Hrg, H.
  - intros rg H. apply HR. apply Hrg. exact H.
  - intros q Hq. left. exact Hq.
  - intros q Hq. left. apply Hcl, Hq.
  - reflexivity.
  - intros P0 H. rewrite Hpe. exact H.
  - exact Ho.
Qed.

(* a step that only changes ghost fields of live blocks / nothing shared, and may start working on the pointer
   argument of the call *)
Lemma summary_entry c s th s' th' :
  ShInv c s' -> live_ptrs s' = live_ptrs s -> mapped s' = mapped s -> used s' = used s -> pages c s' = pages c s ->
  (forall q, kind c s' q = kind c s q) ->
  pc th = Idle ->
  loc c (pc th') -> kind_ok c s' (pc th') ->
  (forall q, In q (claims (pc th')) -> In q (live_ptrs s) /\ op_ptr th q) -> NoDup (claims (pc th')) ->
  region_of c (pc th') = None -> pend_of c (pc th') = 0 ->
  outs th' = outs th ->
  summary c s th s' th'.
Proof.
  intros HS HL HM HU HP HKd Hpc Hloc HK Hcl Hnd Hrg Hpe Ho. constructor.
  - exact HS.
  - exact Hloc.
  - exact HK.
  - intros q Hq. rewrite HL. apply Hcl. exact Hq.
  - exact Hnd.
  - intros rg. rewrite HM. auto.
  - intros rg. rewrite Hrg. discriminate.
  - intros rg. rewrite Hrg. discriminate.
  - intros q. rewrite HL. auto.
  - intros q Hq. right. right. apply Hcl. exact Hq.
  - intros q _ _. apply HKd.
  - intros P0. rewrite Hpc, Hpe, HU, HP. cbn. auto.
  - intros r cbs. rewrite Ho. auto.
Qed.

(* ---------- the call entry ---------- *)
Lemma f_entry_live c s p sz : cfg_facts c -> ShInv c s -> In p (live_ptrs s) ->
  match sz with Some n => n <= cur_size c s p | None => True end ->
  exists f cbs, f_entry c s p sz = (f, cbs) /\ fclaims f = [p] /\ floc f
                /\ forall rv, kind_ok c s (PF f rv).
Proof.
  intros F HS Hp Hsz. unfold f_entry.
  destruct (free_lookup c s p F HS Hp) as [(x & L & _ & _ & Hcs & _)|(x & L & _ & Hcs & _)].
  - rewrite L. rewrite Hcs in Hsz.
    assert (K : kind c s p = Some (Some (sl_idx x))) by (unfold kind; rewrite L; reflexivity).
    destruct sz as [n|]; [apply N.leb_le in Hsz; rewrite Hsz|]; eexists _, _; (split; [reflexivity|]); cbn; auto.
  - rewrite L. rewrite Hcs in Hsz.
    assert (K : kind c s p = Some None) by (unfold kind; rewrite L; reflexivity).
    destruct sz as [n|]; [apply N.leb_le in Hsz; rewrite Hsz|]; eexists _, _; (split; [reflexivity|]); cbn; auto.
Qed.

Lemma kind_with_live c s l q : kind c (with_live s l) q = kind c s q.
Proof. reflexivity. Qed.

Lemma entry_summary c s th o rest :
  cfg_facts c -> ShInv c s -> pc th = Idle -> todo th = o :: rest -> lop_ok c s o ->
  forall s' p cbs, entry c s o = (s', p, cbs) ->
  summary c s th s' (mkThr p rest cbs (outs th)).
Proof.
  intros F HS Hpc Htd Hop s' p cbs He.
  assert (Hptr : forall q, ptr_of o = Some q -> q <> 0 -> op_ptr th q).
  { intros q Hq Hq0. split; [exact Hpc|]. exists o, rest. auto. }
  assert (HA : forall n e k cbs, (forall q, In q (match k with Some (p, _) => [p] | None => [] end) -> In q (live_ptrs s) /\ op_ptr th q) ->
             summary c s th s (mkThr (PA (a_entry c n e) k) rest cbs (outs th))).
  { intros n e k cbs1 Hcl0. destruct (a_entry_loc c n e F) as (L1 & L2 & L3 & L4).
    assert (Hcl : forall q, In q (claims (PA (a_entry c n e) k)) -> In q (live_ptrs s) /\ op_ptr th q).
    { intros q. cbn [claims]. rewrite L2, app_nil_r. apply Hcl0. }
    apply summary_entry; [exact HS|reflexivity|reflexivity|reflexivity|reflexivity|reflexivity|exact Hpc| | | | | | |reflexivity]; cbn [pc]; auto.
    - exact Logic.I.
    - cbn [claims]. rewrite L2, app_nil_r. destruct k as [[p0 c0]|]; repeat constructor. intros []. }
  assert (HP : forall r cbs1, ok_res r -> res_ptr r = [] -> summary c s th s (mkThr (PRet r) rest cbs1 (outs th))).
  { intros r cbs1 Hr Hrp.
    apply summary_entry; [exact HS|reflexivity|reflexivity|reflexivity|reflexivity|reflexivity|exact Hpc| | | | | | |reflexivity]; cbn [pc claims loc kind_ok region_of pend_of]; auto.
    - rewrite Hrp. intros q [].
    - rewrite Hrp. constructor. }
  assert (HF : forall q sz rv, ptr_of o = Some q -> In q (live_ptrs s) -> ok_res rv -> res_ptr rv = [] ->
             match sz with Some n => n <= cur_size c s q | None => True end ->
             forall f cbs0, f_entry c s q sz = (f, cbs0) ->
             summary c s th s (mkThr (PF f rv) rest cbs0 (outs th))).
  { intros q sz rv Hq Hl Hrv Hrp Hsz f cbs0 Hf.
    destruct (f_entry_live c s q sz F HS Hl Hsz) as (f' & cbs' & Hf' & Hfc & Hfl & Hfk).
    rewrite Hf in Hf'. injection Hf' as <- <-.
    apply summary_entry; [exact HS|reflexivity|reflexivity|reflexivity|reflexivity|reflexivity|exact Hpc| | | | | | |reflexivity]; cbn [pc].
    - cbn. auto.
    - apply Hfk.
    - cbn [claims]. rewrite Hfc, Hrp. intros q' [<-|[]]. split; [exact Hl|].
      apply Hptr; [exact Hq|]. apply (live_nonzero_sh c s q F HS Hl).
    - cbn [claims]. rewrite Hfc, Hrp. repeat constructor. intros [].
    - destruct f; reflexivity.
    - destruct f; reflexivity. }
  destruct o as [n e|q|q n|q n e|q|q off len tag]; cbn [entry] in He.
  - injection He as <- <- <-. apply HA. intros q [].
  - destruct (q =? 0) eqn:Hq0.
    + injection He as <- <- <-. apply HP; reflexivity.
    + apply N.eqb_neq in Hq0. destruct Hop as [Hop|Hop]; [contradiction|].
      destruct (f_entry c s q None) as [f cbs0] eqn:Hf. injection He as <- <- <-.
      eapply HF; eauto; reflexivity.
  - destruct (q =? 0) eqn:Hq0.
    + injection He as <- <- <-. apply HP; reflexivity.
    + apply N.eqb_neq in Hq0. destruct Hop as [[Hop|Hop] Hsz]; [contradiction|].
      destruct (f_entry c s q (Some n)) as [f cbs0] eqn:Hf. injection He as <- <- <-.
      eapply HF; eauto; try reflexivity. cbn. auto.
  - destruct (q =? 0) eqn:Hq0.
    + injection He as <- <- <-. apply HA. intros q' [].
    + apply N.eqb_neq in Hq0. destruct Hop as [Hop|Hop]; [contradiction|].
      destruct (n =? 0) eqn:Hn0.
      * destruct (f_entry c s q None) as [f cbs0] eqn:Hf. injection He as <- <- <-.
        eapply HF; eauto; reflexivity.
      * destruct (find_blk_live s q Hop) as (b & Hb). rewrite Hb in He.
        assert (Hgo : forall hdr fr cur, cur_size c s q = cur ->
                  (if n <=? cur then (set_req s q n, PRet (RPtr q), CAccess false fr hdr :: inplace_cbs c q cur n)
                   else (s, PA (a_entry c n e) (Some (q, cur)), [CAccess false fr hdr])) = (s', p, cbs) ->
                  summary c s th s' (mkThr p rest cbs (outs th))).
        { intros hdr fr cur Hcur Hgo. destruct (n <=? cur) eqn:Hle.
          - injection Hgo as <- <- <-. apply N.leb_le in Hle. apply N.eqb_neq in Hn0.
            rewrite set_req_eq.
            destruct (ShInv_upd_blk c s q (fun b => mkBlk (bk_p b) n (bk_size0 b) n (clip_log n (bk_log b)))) as [A B]; auto.
            + intros S0 b0 Hsim0 I0 Hb0 Hb0p. cbn.
              destruct (live_size c F 0 S0 I0 b0 Hb0) as [Z _]. unfold size_of in Z. rewrite Hb0p in Z.
              assert (Ecs : cur_size c S0 q = cur_size c s q).
              { unfold cur_size, get_size_of. rewrite (sim_lookup c s S0 q Hsim0). reflexivity. }
              lia.
            + apply summary_entry; [exact A|exact B|reflexivity|reflexivity|reflexivity|reflexivity|exact Hpc| | | | | | |reflexivity];
                cbn [pc claims loc kind_ok region_of pend_of res_ptr]; auto; try reflexivity.
              ++ intros q' [<-|[]]. split; [exact Hop|]. apply Hptr; [reflexivity|exact Hq0].
              ++ repeat constructor. intros [].
          - injection Hgo as <- <- <-. apply HA. intros q' [<-|[]]. split; [exact Hop|].
            apply Hptr; [reflexivity|exact Hq0]. }
        cbv zeta in He.
        destruct (free_lookup c s q F HS Hop) as [(x & L & _ & Hct & Hcs & _)|(x & L & Hla & Hcs & _)]; rewrite L in He.
        -- rewrite Hct in He. cbn [negb] in He. eapply Hgo; eauto.
        -- rewrite Hla, N.eqb_refl in He. cbn [negb] in He. eapply Hgo; eauto.
  - injection He as <- <- <-.
    assert (Hg : exists z, get_size_of c s q = RSize z).
    { unfold get_size_of. destruct (q =? 0) eqn:Hq0; [eauto|]. apply N.eqb_neq in Hq0.
      destruct Hop as [Hop|Hop]; [contradiction|].
      destruct (free_lookup c s q F HS Hop) as [(x & L & _)|(x & L & _)]; rewrite L; eauto. }
    destruct Hg as [z ->]. apply HP; reflexivity.
  - destruct Hop as [Hop Hw]. unfold write_ in He. destruct (find_blk q (live s)) as [b|] eqn:Hb; [|contradiction].
    injection He as <- <- <-.
    change (mkState (slabs s) (larges s) (partial s) (used s)
              (upd_blk q (fun b0 => mkBlk (bk_p b0) (bk_req b0) (bk_size0 b0) (bk_unp b0) ((off, len, tag) :: bk_log b0)) (live s))
              (nlive s) (peak s))
      with (with_live s (upd_blk q (fun b0 => mkBlk (bk_p b0) (bk_req b0) (bk_size0 b0) (bk_unp b0) ((off, len, tag) :: bk_log b0)) (live s))).
    destruct (ShInv_upd_blk c s q (fun b0 => mkBlk (bk_p b0) (bk_req b0) (bk_size0 b0) (bk_unp b0) ((off, len, tag) :: bk_log b0))) as [A B]; auto.
    + intros S0 b0 _ I0 Hb0 _. cbn. destruct (I_live _ _ _ I0 b0 Hb0) as [(x & _ & _ & Z & R)|(x & _ & _ & Z & R)]; congruence.
    + apply summary_entry; [exact A|exact B|reflexivity|reflexivity|reflexivity|reflexivity|exact Hpc| | | | | | |reflexivity];
        cbn [pc claims loc kind_ok region_of pend_of res_ptr]; auto; try reflexivity.
      * intros q' [].
      * constructor.
Qed.

(* ---------- every other segment ---------- *)
Lemma NoDup_app_intro {A} (l1 l2 : list A) :
  NoDup l1 -> NoDup l2 -> (forall q, In q l1 -> In q l2 -> False) -> NoDup (l1 ++ l2).
Proof.
  induction l1 as [|a l1 IH]; cbn; intros H1 H2 H; [exact H2|].
  inversion H1; subst. constructor.
  - rewrite in_app_iff. intros [Q|Q]; [contradiction|]. apply (H a); auto.
  - apply IH; auto. intros q Hq. apply H. right. exact Hq.
Qed.

Lemma triv c s th p' cbs :
  ShInv c s -> (forall q, In q (claims (pc th)) -> In q (live_ptrs s)) -> NoDup (claims (pc th)) ->
  (forall rg, region_of c (pc th) = Some rg -> forall rg', In rg' (mapped s) -> rdisj rg rg' = true) ->
  loc c p' -> kind_ok c s p' -> claims p' = claims (pc th) -> region_of c p' = region_of c (pc th) ->
  pend_of c p' = pend_of c (pc th) -> summary c s th s (goto th p' cbs).
Proof.
  intros HS HC HN HR H1 H2 H3 H4 H5. apply summary_same; cbn [goto pc outs]; auto.
  - rewrite H3. auto.
  - rewrite H3. exact HN.
  - rewrite H4. auto.
Qed.

Lemma fin c s th r :
  ShInv c s -> (forall q, In q (claims (pc th)) -> In q (live_ptrs s)) ->
  (forall rg, region_of c (pc th) = Some rg -> forall rg', In rg' (mapped s) -> rdisj rg rg' = true) ->
  ok_res r -> pend_of c (pc th) = 0 -> summary c s th s (finish th r).
Proof.
  intros HS HC HR Hr Hp. apply summary_same; cbn [finish pc outs claims loc kind_ok region_of pend_of]; auto.
  - intros q [].
  - constructor.
  - discriminate.
  - intros r0 cbs [E|H]; [injection E as <- <-; right; exact Hr|left; exact H].
Qed.

Theorem dstep_summary c s th :
  cfg_facts c -> ShInv c s -> loc c (pc th) -> kind_ok c s (pc th) ->
  (forall q, In q (claims (pc th)) -> In q (live_ptrs s)) -> NoDup (claims (pc th)) ->
  (forall rg, region_of c (pc th) = Some rg -> forall rg', In rg' (mapped s) -> rdisj rg rg' = true) ->
  lstep_ok c s th ->
  summary c s th (fst (dstep c s th)) (snd (dstep c s th)).
Proof.
  intros F HS HL HK HC HN HR HO.
  assert (TR : forall p' cbs, loc c p' -> kind_ok c s p' -> claims p' = claims (pc th) -> region_of c p' = region_of c (pc th) ->
                 pend_of c p' = pend_of c (pc th) -> summary c s th s (goto th p' cbs)).
  { intros p' cbs. apply triv; assumption. }
  assert (FI : forall r, ok_res r -> pend_of c (pc th) = 0 -> summary c s th s (finish th r)).
  { intros r. apply fin; assumption. }
  destruct (pc th) as [|a k|f rv|r] eqn:Hpc.
  - (* Idle *)
    unfold dstep. rewrite ?Hpc. destruct (todo th) as [|o rest] eqn:Htd.
    + cbn [fst snd]. apply summary_same; rewrite ?Hpc; cbn; auto; try constructor.
    + unfold lstep_ok in HO. rewrite ?Hpc, ?Htd in HO.
      destruct (entry c s o) as [[s' p] cbs] eqn:He. cbn [fst snd].
      apply (entry_summary c s th o rest F HS Hpc Htd HO s' p cbs He).
  - (* in allocate *)
    set (kcl := match k with Some (p, _) => [p] | None => [] end).
    assert (Hkl : forall q, In q kcl -> In q (live_ptrs s)) by (intros q Hq; apply HC; cbn [claims]; apply in_or_app; left; exact Hq).
    destruct a as [idx n' nreq e|idx n' nreq e|idx r cbs|idx n' nreq e|idx n' nreq e|idx n' nreq r|idx n' nreq x o
                  |idx n' nreq x o|idx n' nreq x o|idx n' nreq x o|idx n' nreq x o|n' nreq e|n' nreq r|nreq x|nreq x|p|r];
      unfold dstep; rewrite ?Hpc; cbn [astep loc aloc] in *.
    + (* AS0 *) cbn [fst snd]. apply TR; rewrite ?Hpc; cbn; auto.
    + (* AS1 *)
      destruct HL as [Hidx Hfit].
      destruct (bucket s idx) as [|h t] eqn:Hb.
      { cbn [fst snd]. apply TR; rewrite ?Hpc; cbn; auto. split; assumption. }
      destruct (fast_inv c s idx n' nreq e h t F HS Hidx Hb Hfit) as (o & Hres & HS' & Hlive & Hno & Hmap & Hused & Hpages & Hkind).
      destruct (alloc_small c s n' nreq idx e) as [[s1 r] cbs] eqn:E. cbn [st_of res_of fst snd] in *. subst r.
      constructor; cbn [goto pc outs claims aclaims res_ptr loc aloc kind_ok region_of pend_of]; fold kcl.
      * exact HS'.
      * reflexivity.
      * exact Logic.I.
      * intros q Hq. rewrite Hlive. apply in_app_iff in Hq. destruct Hq as [Hq|[<-|[]]]; [right; apply Hkl; exact Hq|left; reflexivity].
      * apply NoDup_app_intro; [rewrite ?Hpc in HN; cbn [claims aclaims] in HN; rewrite app_nil_r in HN; exact HN|repeat constructor; intros []|].
        intros q Hq [<-|[]]. apply Hno, Hkl, Hq.
      * intros rg. rewrite Hmap. auto.
      * discriminate.
      * discriminate.
      * intros q Hq. left. rewrite Hlive. right. exact Hq.
      * intros q Hq. apply in_app_iff in Hq. destruct Hq as [Hq|[<-|[]]]; [left; rewrite ?Hpc; cbn [claims]; apply in_or_app; left; exact Hq|right; left; exact Hno].
      * intros q _ _. apply Hkind.
      * intros P0. rewrite ?Hpc, ?Hused, ?Hpages. auto.
      * auto.
    + (* AS2 *) cbn [fst snd]. apply TR; rewrite ?Hpc; cbn; auto.
    + (* AS3 *) cbn [fst snd]. apply TR; rewrite ?Hpc; cbn; auto.
    + (* AS4: Policy::map *)
      unfold lstep_ok in HO. rewrite ?Hpc in HO.
      destruct (env_ret e =? 0) eqn:He; cbn [fst snd].
      { apply TR; rewrite ?Hpc; cbn; auto. reflexivity. }
      apply N.eqb_neq in He. destruct (HO He) as [Hreg Hdj].
      constructor; cbn [goto pc outs claims aclaims res_ptr loc aloc kind_ok region_of pend_of].
      * exact HS.
      * split; assumption.
      * exact Logic.I.
      * exact HC.
      * exact HN.
      * auto.
      * intros rg E. injection E as <-. right. rewrite ?Hpc. cbn. auto.
      * intros rg E. injection E as <-. exact Hdj.
      * auto.
      * rewrite ?Hpc. auto.
      * reflexivity.
      * intros P0. rewrite ?Hpc. auto.
      * auto.
    + (* AS5: _construct_slab *)
      destruct HL as [[Hidx Hfit] Hreg]. pose proof Hreg as (R0 & R1 & Hal).
      pose proof (overhead_lt_slabsz c idx F Hidx) as Ho. apply N.ltb_lt in Ho. rewrite Ho. cbn [negb].
      destruct (carve_two c F idx r Hidx Hal) as (o & a2 & av' & Hc).
      unfold construct_slab. cbn [sl_avail]. unfold carve in Hc. rewrite Hc. cbn [fst snd].
      apply TR; rewrite ?Hpc; cbn [loc aloc kind_ok claims aclaims region_of pend_of]; auto.
      split; [split; assumption|]. exists r, (a2 :: av'). split; [exact Hreg|]. split; [reflexivity|]. split; [exact Hc|discriminate].
    + (* AS6 *) cbn [fst snd]. apply TR; rewrite ?Hpc; cbn; auto.
    + (* AS7: account_add *)
      cbn [fst snd].
      constructor; cbn [goto pc outs claims aclaims res_ptr loc aloc kind_ok region_of pend_of].
      * apply ShInv_account. exact HS.
      * exact HL.
      * exact Logic.I.
      * exact HC.
      * exact HN.
      * auto.
      * intros rg E. left. rewrite ?Hpc. exact E.
      * intros rg E. apply HR. exact E.
      * auto.
      * rewrite ?Hpc. auto.
      * reflexivity.
      * intros P0. rewrite ?Hpc. cbn [pend_of account_add used]. unfold pages, account_add. cbn [slabs larges]. fold (pages c s). lia.
      * auto.
    + (* AS8 *) cbn [fst snd]. apply TR; rewrite ?Hpc; cbn; auto.
    + (* AS9 *) cbn [fst snd]. apply TR; rewrite ?Hpc; cbn; auto.
    + (* AS10: attach_slab + hand_out *)
      destruct HL as [[Hidx Hfit] Hps].
      assert (Hdj : forall rg, In rg (mapped s) -> rdisj (sl_region x) rg = true) by (apply HR; rewrite ?Hpc; reflexivity).
      pose proof (attach_inv c s idx n' nreq x o F HS Hidx Hfit Hps Hdj) as A. cbv zeta in A. unfold attach_state in A.
      destruct (hand_out c (attach_slab s idx x) o n' nreq idx) as [s3 cbs] eqn:E. cbn [fst snd] in *.
      destruct A as (HS' & Hlive & Hno & Hmap & Hused & Hpages & Hkind).
      constructor; cbn [goto pc outs claims aclaims res_ptr loc aloc kind_ok region_of pend_of]; fold kcl.
      * exact HS'.
      * reflexivity.
      * exact Logic.I.
      * intros q Hq. rewrite Hlive. apply in_app_iff in Hq. destruct Hq as [Hq|[<-|[]]]; [right; apply Hkl; exact Hq|left; reflexivity].
      * apply NoDup_app_intro; [rewrite ?Hpc in HN; cbn [claims aclaims] in HN; rewrite app_nil_r in HN; exact HN|repeat constructor; intros []|].
        intros q Hq [<-|[]]. apply Hno, Hkl, Hq.
      * intros rg. rewrite Hmap. intros [<-|H]; [right; rewrite ?Hpc; reflexivity|left; exact H].
      * discriminate.
      * discriminate.
      * intros q Hq. left. rewrite Hlive. right. exact Hq.
      * intros q Hq. apply in_app_iff in Hq. destruct Hq as [Hq|[<-|[]]]; [left; rewrite ?Hpc; cbn [claims]; apply in_or_app; left; exact Hq|right; left; exact Hno].
      * intros q Hq _. apply Hkind. exact Hq.
      * intros P0. rewrite ?Hpc, ?Hused, ?Hpages. cbn [pend_of]. lia.
      * auto.
    + (* AL0: Policy::map *)
      unfold lstep_ok in HO. rewrite ?Hpc in HO.
      destruct (env_ret e =? 0) eqn:He; cbn [fst snd].
      { apply TR; rewrite ?Hpc; cbn; auto. reflexivity. }
      apply N.eqb_neq in He. destruct (HO He) as [Hreg Hdj].
      constructor; cbn [goto pc outs claims aclaims res_ptr loc aloc kind_ok region_of pend_of].
      * exact HS.
      * split; assumption.
      * exact Logic.I.
      * exact HC.
      * exact HN.
      * auto.
      * intros rg E. injection E as <-. right. rewrite ?Hpc. cbn. auto.
      * intros rg E. injection E as <-. exact Hdj.
      * auto.
      * rewrite ?Hpc. auto.
      * reflexivity.
      * intros P0. rewrite ?Hpc. auto.
      * auto.
    + (* AL1: construct the frame *)
      destruct HL as [Hn' Hreg]. unfold construct_large. cbn [fst snd].
      apply TR; rewrite ?Hpc; cbn [loc aloc kind_ok claims aclaims region_of pend_of lg_region lg_base lg_res]; auto.
      exists r. subst n'. split; [reflexivity|exact Hreg].
    + (* AL2 *) cbn [fst snd]. apply TR; rewrite ?Hpc; cbn; auto.
    + (* AL3: publish *)
      destruct HL as (r & Hx & Hreg). cbn [fst snd].
      assert (Hdj : forall rg, In rg (mapped s) -> rdisj (r, large_map_len c (align_up (N.max nreq 1) (page c))) rg = true).
      { apply HR. rewrite ?Hpc, ?Hx. reflexivity. }
      pose proof (publish_inv c s (N.max nreq 1) nreq r F HS eq_refl Hreg Hdj) as A. cbv zeta in A.
      assert (Ep : publish_large c s nreq x = newlarge_state c s (N.max nreq 1) nreq r) by (rewrite Hx; reflexivity).
      rewrite Ep. destruct A as (HS' & Hlive & Hno & Hmap & Hpages & Hkind).
      assert (Efr : lg_frame x + page c = lfr c r + page c) by (rewrite Hx; reflexivity). rewrite Efr.
      constructor; cbn [goto pc outs claims aclaims res_ptr loc aloc kind_ok region_of pend_of]; fold kcl.
      * exact HS'.
      * exact Logic.I.
      * exact Logic.I.
      * intros q Hq. rewrite Hlive. apply in_app_iff in Hq. destruct Hq as [Hq|[<-|[]]]; [right; apply Hkl; exact Hq|left; reflexivity].
      * apply NoDup_app_intro; [rewrite ?Hpc in HN; cbn [claims aclaims] in HN; rewrite app_nil_r in HN; exact HN|repeat constructor; intros []|].
        intros q Hq [<-|[]]. apply Hno, Hkl, Hq.
      * intros rg. rewrite Hmap. unfold mapped. rewrite !in_app_iff. cbn [In].
        intros [H|[<-|H]]; [left; left; exact H|right; rewrite ?Hpc, ?Hx; reflexivity|left; right; exact H].
      * discriminate.
      * discriminate.
      * intros q Hq. left. rewrite Hlive. right. exact Hq.
      * intros q Hq. apply in_app_iff in Hq. destruct Hq as [Hq|[<-|[]]]; [left; rewrite ?Hpc; cbn [claims]; apply in_or_app; left; exact Hq|right; left; exact Hno].
      * intros q Hq _. apply Hkind. exact Hq.
      * intros P0. rewrite ?Hpc, ?Hpages. cbn [pend_of newlarge_state used]. unfold area. lia.
      * auto.
    + (* AL4 *) cbn [fst snd]. apply TR; rewrite ?Hpc; cbn; auto. reflexivity.
    + (* ARet *)
      destruct k as [[p cur]|].
      2:{ cbn [fst snd]. apply FI; [exact HL|rewrite ?Hpc; reflexivity]. }
      destruct r as [q| | | | |]; try (cbn [fst snd]; apply FI; [exact HL|rewrite ?Hpc; reflexivity]).
      destruct (move_log_ShInv c s p q HS) as (HS2 & Hlive & Hmap & Hused & Hpages & Hkind).
      assert (Hp : In p (live_ptrs s)) by (apply HC; rewrite ?Hpc; cbn; auto).
      assert (Hq : In q (live_ptrs s)) by (apply HC; rewrite ?Hpc; cbn; auto).
      assert (Hp2 : In p (live_ptrs (move_log s p q))) by (rewrite Hlive; exact Hp).
      destruct (f_entry_live c (move_log s p q) p None F HS2 Hp2 Logic.I) as (f & cbs0 & Hf & Hfc & Hfl & Hfk).
      rewrite Hf. cbn [fst snd].
      constructor; cbn [goto pc outs claims res_ptr loc region_of pend_of].
      * exact HS2.
      * split; [exact Hfl|reflexivity].
      * exact (Hfk (RPtr q)).
      * rewrite Hfc, Hlive. intros q' [<-|[<-|[]]]; assumption.
      * rewrite Hfc. rewrite ?Hpc in HN. exact HN.
      * intros rg. rewrite Hmap. auto.
      * discriminate.
      * discriminate.
      * intros q'. rewrite Hlive. auto.
      * rewrite Hfc, Hpc. cbn. auto.
      * intros q' _ _. apply Hkind.
      * intros P0. rewrite ?Hpc, ?Hused, ?Hpages. cbn. auto.
      * auto.
  - (* in free *)
    destruct f as [idx p|idx p|idx r|p|p|r cbs|r cbs|r]; unfold dstep; rewrite ?Hpc; cbn [fstep loc floc] in *.
    + (* FS1 *) cbn [fst snd]. apply TR; rewrite ?Hpc; cbn [loc floc kind_ok]; auto.
    + (* FS2: free_in_slab_ *)
      assert (Hp : In p (live_ptrs s)) by (apply HC; rewrite ?Hpc; cbn; auto).
      cbn [kind_ok] in HK.
      destruct (free_lookup c s p F HS Hp) as [(x & L & _ & _ & _ & Hres & (HS' & Hlive & Hmap & Hkind) & Hused & Hpages)
                                              |(x & L & _)].
      2:{ unfold kind in HK. rewrite L in HK. discriminate. }
      rewrite L. destruct (free_small c s x p) as [[s1 r] cbs] eqn:E. cbn [st_of res_of fst snd] in *. subst r.
      assert (Hrv : forall q, In q (res_ptr rv) -> q <> p).
      { intros q Hq ->. rewrite ?Hpc in HN. cbn [claims fclaims] in HN. inversion HN as [|? ? Hni _]. apply Hni. exact Hq. }
      constructor; cbn [goto pc outs claims fclaims res_ptr loc floc kind_ok region_of pend_of app].
      * exact HS'.
      * split; [reflexivity|apply HL].
      * exact Logic.I.
      * intros q Hq. apply Hlive. split; [apply HC; rewrite ?Hpc; cbn; auto|apply Hrv; exact Hq].
      * rewrite ?Hpc in HN. cbn [claims fclaims app] in HN. inversion HN; assumption.
      * intros rg H. left. apply Hmap. exact H.
      * discriminate.
      * discriminate.
      * intros q Hq. destruct (N.eq_dec q p) as [->|Hne]; [right; rewrite ?Hpc; cbn; auto|left; apply Hlive; auto].
      * intros q Hq. left. rewrite ?Hpc. cbn. auto.
      * intros q _ Hq. apply Hkind. exact Hq.
      * intros P0. rewrite ?Hpc, ?Hused, ?Hpages. auto.
      * auto.
    + (* FS3 *) cbn [fst snd]. apply TR; rewrite ?Hpc; cbn [loc floc kind_ok]; auto.
    + (* FL1 *) cbn [fst snd]. apply TR; rewrite ?Hpc; cbn [loc floc kind_ok]; auto.
    + (* FL2: free_huge_ *)
      assert (Hp : In p (live_ptrs s)) by (apply HC; rewrite ?Hpc; cbn; auto).
      cbn [kind_ok] in HK.
      destruct (free_lookup c s p F HS Hp) as [(x & L & _)
                                              |(x & L & _ & _ & Hres & (HS' & Hlive & Hmap & Hkind) & Hused & Hpages)].
      { unfold kind in HK. rewrite L in HK. discriminate. }
      rewrite L. destruct (free_large c s x p) as [[s1 r] cbs] eqn:E. cbn [st_of res_of fst snd] in *. subst r.
      assert (Hrv : forall q, In q (res_ptr rv) -> q <> p).
      { intros q Hq ->. rewrite ?Hpc in HN. cbn [claims fclaims] in HN. inversion HN as [|? ? Hni _]. apply Hni. exact Hq. }
      constructor; cbn [goto pc outs claims fclaims res_ptr loc floc kind_ok region_of pend_of app].
      * exact HS'.
      * split; [reflexivity|apply HL].
      * exact Logic.I.
      * intros q Hq. apply Hlive. split; [apply HC; rewrite ?Hpc; cbn; auto|apply Hrv; exact Hq].
      * rewrite ?Hpc in HN. cbn [claims fclaims app] in HN. inversion HN; assumption.
      * intros rg H. left. apply Hmap. exact H.
      * discriminate.
      * discriminate.
      * intros q Hq. destruct (N.eq_dec q p) as [->|Hne]; [right; rewrite ?Hpc; cbn; auto|left; apply Hlive; auto].
      * intros q Hq. left. rewrite ?Hpc. cbn. auto.
      * intros q _ Hq. apply Hkind. exact Hq.
      * intros P0. rewrite ?Hpc, ?Hused. cbn [pend_of]. lia.
      * auto.
    + (* FL3 *) cbn [fst snd]. apply TR; rewrite ?Hpc; cbn [loc floc kind_ok]; auto.
    + (* FL4 *) cbn [fst snd]. apply TR; rewrite ?Hpc; cbn [loc floc kind_ok]; auto.
    + (* FRet *)
      cbn [fst snd]. apply FI; [|rewrite ?Hpc; reflexivity]. destruct HL as [Hr Hrv]. destruct r; assumption.
  - (* PRet *)
    unfold dstep. rewrite ?Hpc. cbn [fst snd]. apply FI; [exact HL|rewrite ?Hpc; reflexivity].
Qed.
