(* C05 / slabconc: the concurrent system over the CONCRETE pool state of coq/Slab/SlabModel.v (definitions only;
   proofs in ConcSlabProofs.v).

   An arbitrary thread pool (tid -> thread), every thread runs a script of API calls (the [op]s of SlabModel.v, the
   policy's answer to map() being part of the op exactly as there), an arbitrary scheduler (list tid).  Every call is
   executed as the sequence of segments the source has at LOCK granularity (the path shapes of the generated
   skeleton, obligation [conc_slab_shapes_match] in Props/Properties_C05_slab.v):

     allocate, small, fast   LockB i ; [pop_head + hand_out]            ; UnlockB i ; return
     allocate, small, slow   LockB i ; (no head_slb) ; UnlockB i ; Policy::map ; construct_slab (private) ;
                             LockT ; [account_add] ; UnlockT ; LockB i ; [attach_slab + hand_out] ; UnlockB i ; return
     allocate, large         Policy::map ; construct the frame (private) ; LockT ; [publish: account + frame] ; UnlockT
     free / deallocate       frame lookup (immutable header fields) ; LockB i ; [free_small] ; UnlockB i
                             frame lookup ; LockT ; [free_large] ; UnlockT ; poison + Policy::unmap
     realloc                 frame lookup, in place if it fits, else allocate ; memcpy ; free

   The bracketed bodies are the functions of SlabModel.v themselves (alloc_small on a non-empty bucket IS
   pop_head + hand_out; account_add, attach_slab, hand_out, free_small, free_large, move_log, set_req, write_ are
   called as they are); the only function that had to be cut here is alloc_large (map / private frame / publish under
   _tree_mutex): [construct_large] + [publish_large].  ConcSlabSolo.solo_run_is_step / ConcSlabSoloRun.solo_schedule_is_step prove that running one
   call alone to completion is SlabModel.step (state, result and callback list).

   Granularity: one scheduler step = one segment; a locked body is ONE step.  This is justified by the control layer:
   every access to bucket state is a Body of its bucket lock and two threads are never at bodies of the same lock
   (C05_mutual_exclusion_of_bodies / C05_lock_discipline over the generated skeleton), and the read/write-split
   version of the bodies is covered at the abstract data level by AllocModel.v (snapshots).  Here the same two facts
   are re-proved for this system (ConcSlabProofs: every step is a micro-op that ConcModel.mstep allows in the lock
   state of its pc; the mutex state always equals what the pcs say).
   A lock step is enabled only while the mutex is free (otherwise the thread stutters). *)
From Coq Require Import List NArith Bool Arith String.
From FV Require Import SlabConc.Skeleton SlabConc.ConcModel Slab.SlabModel.
Import ListNotations.
Open Scope list_scope.
Local Open Scope N_scope.

Definition lb (idx : N) : lockid := LB (N.to_nat idx).

(* ------------------------------------------------------------------------------------------------ *)
(* program counters                                                                                  *)
(* ------------------------------------------------------------------------------------------------ *)
Inductive apc :=                                      (* inside allocate *)
| AS0 (idx n' nreq : N) (e : env)                     (* about to LockB idx *)
| AS1 (idx n' nreq : N) (e : env)                     (* holds LB idx: head_slb? pop + hand_out : nothing *)
| AS2 (idx : N) (r : result) (cbs : list callback)    (* holds LB idx: unlock; cbs = accesses/poison calls of the body *)
| AS3 (idx n' nreq : N) (e : env)                     (* holds LB idx, class empty: unlock before calling the policy *)
| AS4 (idx n' nreq : N) (e : env)                     (* no lock: Policy::map *)
| AS5 (idx n' nreq r : N)                             (* private: _construct_slab on the region r, pop the first object *)
| AS6 (idx n' nreq : N) (x : slab) (o : N)            (* private slab x, object o: about to LockT *)
| AS7 (idx n' nreq : N) (x : slab) (o : N)            (* holds LT: account_add *)
| AS8 (idx n' nreq : N) (x : slab) (o : N)            (* holds LT: unlock *)
| AS9 (idx n' nreq : N) (x : slab) (o : N)            (* about to LockB idx again *)
| AS10 (idx n' nreq : N) (x : slab) (o : N)           (* holds LB idx: attach_slab + hand_out *)
| AL0 (n' nreq : N) (e : env)                         (* no lock: Policy::map for a large frame *)
| AL1 (n' nreq r : N)                                 (* private: construct the frame header *)
| AL2 (nreq : N) (x : large)                          (* about to LockT *)
| AL3 (nreq : N) (x : large)                          (* holds LT: publish (account + frame + block) *)
| AL4 (p : N)                                         (* holds LT: unlock *)
| ARet (r : result).                                  (* allocate returns r *)

Inductive fpc :=                                      (* inside free / deallocate, after the frame lookup *)
| FS1 (idx p : N)                                     (* about to LockB idx *)
| FS2 (idx p : N)                                     (* holds LB idx: free_in_slab_ body *)
| FS3 (idx : N) (r : result)                          (* holds LB idx: unlock *)
| FL1 (p : N)                                         (* about to LockT *)
| FL2 (p : N)                                         (* holds LT: free_huge_ body *)
| FL3 (r : result) (cbs : list callback)              (* holds LT: unlock *)
| FL4 (r : result) (cbs : list callback)              (* no lock: poison + Policy::unmap *)
| FRet (r : result).

Inductive cpc :=
| Idle
| PA (a : apc) (k : option (N * N))                   (* in allocate; k = Some (p, cur): the allocate of a copying realloc of p *)
| PF (f : fpc) (rv : result)                          (* in free; rv = what the API call returns when the free succeeds *)
| PRet (r : result).                                  (* the call returns r *)

Record cthread := mkThr {
  pc : cpc;
  todo : list op;                                     (* the script *)
  acc : list callback;                                (* callbacks of the call in progress *)
  outs : list (result * list callback)                (* completed calls, newest first *)
}.

(* ------------------------------------------------------------------------------------------------ *)
(* the one function that had to be cut: alloc_large                                                  *)
(* ------------------------------------------------------------------------------------------------ *)
Definition construct_large (c : cfg) (n' r : N) : large * list callback :=
  let area := align_up n' (page c) in
  let fr := frame_of_map c r in
  (mkLarge fr r (large_map_len c area) area,
   pcb c [CUnpoison fr (hdr_frame c); CUnpoison (fr + page c) area] ++ [CAccess true fr (hdr_frame c)]).

Definition publish_large (c : cfg) (s : state) (nreq : N) (x : large) : state :=
  mkState (slabs s) (x :: larges s) (partial s) (used s + (lg_len x + page c) / page c)
          (mkBlk (lg_frame x + page c) nreq (lg_len x) (lg_len x) [] :: live s) (nlive s) (peak s).

(* ------------------------------------------------------------------------------------------------ *)
(* one segment of allocate / free                                                                    *)
(* ------------------------------------------------------------------------------------------------ *)
Definition a_entry (c : cfg) (n : N) (e : env) : apc :=
  let n' := if n =? 0 then 1 else n in
  if n' <=? max_bucket_size c then
    let idx := s2b n' in
    if negb (idx <=? nbuckets c) then ARet (RAssert 5) else AS0 idx n' n e
  else AL0 n' n e.

Definition astep (c : cfg) (s : state) (a : apc) : state * apc * list callback :=
  match a with
  | AS0 idx n' nreq e => (s, AS1 idx n' nreq e, [])
  | AS1 idx n' nreq e =>
      match bucket s idx with
      | _ :: _ => let '(s', r, cbs) := alloc_small c s n' nreq idx e in (s', AS2 idx r cbs, [])
      | [] => (s, AS3 idx n' nreq e, [])
      end
  | AS2 idx r cbs => (s, ARet r, cbs)
  | AS3 idx n' nreq e => (s, AS4 idx n' nreq e, [])
  | AS4 idx n' nreq e =>
      let mc := map_call c (slab_map_len c) e in
      if env_ret e =? 0 then (s, ARet RNull, [mc]) else (s, AS5 idx n' nreq (env_ret e), [mc])
  | AS5 idx n' nreq r =>
      if negb (overhead c (b2s idx) <? slabsz c) then (s, ARet (RAssert 3), []) else
      let '(x, ccbs) := construct_slab c idx r in
      match sl_avail x with
      | [] => (s, ARet (RAssert 1), ccbs)
      | o :: av =>
        match av with
        | [] => (s, ARet (RAssert 4), ccbs)
        | _ => (s, AS6 idx n' nreq (set_avail x av 1) o,
                ccbs ++ [CAccess false o 8; CAccess true (sl_frame x) (hdr_slab c)])
        end
      end
  | AS6 idx n' nreq x o => (s, AS7 idx n' nreq x o, [])
  | AS7 idx n' nreq x o => (account_add s ((sl_len c x + page c) / page c), AS8 idx n' nreq x o, [])
  | AS8 idx n' nreq x o => (s, AS9 idx n' nreq x o, [])
  | AS9 idx n' nreq x o => (s, AS10 idx n' nreq x o, [])
  | AS10 idx n' nreq x o =>
      let s2 := attach_slab s idx x in
      let '(s3, cbs) := hand_out c s2 o n' nreq idx in
      (s3, AS2 idx (RPtr o) cbs, [])
  | AL0 n' nreq e =>
      let mc := map_call c (large_map_len c (align_up n' (page c))) e in
      if env_ret e =? 0 then (s, ARet RNull, [mc]) else (s, AL1 n' nreq (env_ret e), [mc])
  | AL1 n' nreq r => let '(x, cbs) := construct_large c n' r in (s, AL2 nreq x, cbs)
  | AL2 nreq x => (s, AL3 nreq x, [])
  | AL3 nreq x => (publish_large c s nreq x, AL4 (lg_frame x + page c), [])
  | AL4 p => (s, ARet (RPtr p), [])
  | ARet r => (s, ARet r, [])
  end.

(* frame lookup of free / deallocate: only immutable header fields are read (type, index, length) *)
Definition f_entry (c : cfg) (s : state) (p : N) (sz : option N) : fpc * list callback :=
  match lookup c s p with
  | FSlab x =>
    let go := (FS1 (sl_idx x) p, [CAccess false (sl_frame x) (hdr_slab c)]) in
    match sz with
    | Some n => if n <=? sl_item x then go else (FRet (RAssert 11), [])
    | None => go
    end
  | FLarge x =>
    match sz with
    | Some n => if n <=? lg_len x then (FL1 p, []) else (FRet (RAssert 12), [])
    | None => (FL1 p, [])
    end
  | FNone => (FRet (RUB 10), [])
  end.

Definition fstep (c : cfg) (s : state) (f : fpc) : state * fpc * list callback :=
  match f with
  | FS1 idx p => (s, FS2 idx p, [])
  | FS2 idx p =>
      match lookup c s p with                          (* the slab_frame at (p-1) & ~(sb-1), read under the lock *)
      | FSlab x => let '(s', r, cbs) := free_small c s x p in (s', FS3 idx r, cbs)
      | _ => (s, FS3 idx (RUB 10), [])
      end
  | FS3 idx r => (s, FRet r, [])
  | FL1 p => (s, FL2 p, [])
  | FL2 p =>
      match lookup c s p with
      | FLarge x => let '(s', r, cbs) := free_large c s x p in (s', FL3 r cbs, [])
      | _ => (s, FL3 (RUB 10) [], [])
      end
  | FL3 r cbs => (s, FL4 r cbs, [])
  | FL4 r cbs => (s, FRet r, cbs)
  | FRet r => (s, FRet r, [])
  end.

(* the call entry: dispatch + frame lookup of the pointer argument *)
Definition entry (c : cfg) (s : state) (o : op) : state * cpc * list callback :=
  match o with
  | Alloc n e => (s, PA (a_entry c n e) None, [])
  | Free p =>
      if p =? 0 then (s, PRet RUnit, []) else
      let '(f, cbs) := f_entry c s p None in (s, PF f RUnit, cbs)
  | Dealloc p n =>
      if p =? 0 then (s, PRet RUnit, []) else
      let '(f, cbs) := f_entry c s p (Some n) in (s, PF f RUnit, cbs)
  | Realloc p n e =>
      if p =? 0 then (s, PA (a_entry c n e) None, []) else
      if n =? 0 then let '(f, cbs) := f_entry c s p None in (s, PF f RNull, cbs) else
      match find_blk p (live s) with
      | None => (s, PRet (RUB 2), [])
      | Some _ =>
        let go (hdr fr cur : N) :=
          if n <=? cur then (set_req s p n, PRet (RPtr p), CAccess false fr hdr :: inplace_cbs c p cur n)
          else (s, PA (a_entry c n e) (Some (p, cur)), [CAccess false fr hdr]) in
        match lookup c s p with
        | FSlab x => if negb (sl_contains c x p) then (s, PRet (RAssert 6), [])
                     else go (hdr_slab c) (sl_frame x) (sl_item x)
        | FLarge x => if negb (lg_addr c x =? p) then (s, PRet (RAssert 9), [])
                      else go (hdr_frame c) (lg_frame x) (lg_len x)
        | FNone => (s, PRet (RUB 10), [])
        end
      end
  | GetSize p =>
      (s, PRet (get_size_of c s p),
       if p =? 0 then [] else
       match lookup c s p with
       | FSlab x => [CAccess false (sl_frame x) (hdr_slab c)]
       | FLarge x => [CAccess false (lg_frame x) (hdr_frame c)]
       | FNone => [] end)
  | Write p off len tag => let '(s', r, cbs) := write_ s p off len tag in (s', PRet r, cbs)
  end.

Definition goto (th : cthread) (p : cpc) (cbs : list callback) : cthread :=
  mkThr p (todo th) (acc th ++ cbs) (outs th).
Definition finish (th : cthread) (r : result) : cthread :=
  mkThr Idle (todo th) [] ((r, acc th) :: outs th).

(* one segment of thread th on the shared state s (lock acquisition / release is done by cstep) *)
Definition dstep (c : cfg) (s : state) (th : cthread) : state * cthread :=
  match pc th with
  | Idle =>
      match todo th with
      | [] => (s, th)
      | o :: rest =>
        let '(s', p, cbs) := entry c s o in (s', mkThr p rest cbs (outs th))
      end
  | PA (ARet r) None => (s, finish th r)
  | PA (ARet r) (Some (p, cur)) =>
      match r with
      | RPtr q =>                                       (* memcpy(new_p, p, current_size); then free(p) *)
        let s2 := move_log s p q in
        let '(f, cbs) := f_entry c s2 p None in
        (s2, goto th (PF f (RPtr q))
                  (pcb c [CUnpoisonExpand p cur] ++ [CAccess false p cur; CAccess true q cur] ++ cbs))
      | _ => (s, finish th r)
      end
  | PA a k => let '(s', a', cbs) := astep c s a in (s', goto th (PA a' k) cbs)
  | PF (FRet r) rv => (s, finish th (match r with RUnit => rv | _ => r end))
  | PF f rv => let '(s', f', cbs) := fstep c s f in (s', goto th (PF f' rv) cbs)
  | PRet r => (s, finish th r)
  end.

(* ------------------------------------------------------------------------------------------------ *)
(* the thread pool                                                                                   *)
(* ------------------------------------------------------------------------------------------------ *)
Record cstate := mkC {
  sh : state;                              (* the pool: slabs, large frames, partial trees, _usedPages, ghost live map *)
  lk : lockid -> option tid;               (* the mutexes *)
  thr : tid -> cthread
}.

(* the lock the next step of a thread acquires / releases / holds *)
Definition lock_of (p : cpc) : option lockid :=
  match p with
  | PA (AS0 idx _ _ _) _ | PA (AS9 idx _ _ _ _) _ => Some (lb idx)
  | PA (AS6 _ _ _ _ _) _ | PA (AL2 _ _) _ => Some LT
  | PF (FS1 idx _) _ => Some (lb idx)
  | PF (FL1 _) _ => Some LT
  | _ => None
  end.
Definition unlock_of (p : cpc) : option lockid :=
  match p with
  | PA (AS2 idx _ _) _ | PA (AS3 idx _ _ _) _ => Some (lb idx)
  | PA (AS8 _ _ _ _ _) _ | PA (AL4 _) _ => Some LT
  | PF (FS3 idx _) _ => Some (lb idx)
  | PF (FL3 _ _) _ => Some LT
  | _ => None
  end.
Definition hold_of (p : cpc) : option lockid :=
  match p with
  | PA (AS1 idx _ _ _) _ | PA (AS2 idx _ _) _ | PA (AS3 idx _ _ _) _ | PA (AS10 idx _ _ _ _) _ => Some (lb idx)
  | PA (AS7 _ _ _ _ _) _ | PA (AS8 _ _ _ _ _) _ | PA (AL3 _ _) _ | PA (AL4 _) _ => Some LT
  | PF (FS2 idx _) _ | PF (FS3 idx _) _ => Some (lb idx)
  | PF (FL2 _) _ | PF (FL3 _ _) _ => Some LT
  | _ => None
  end.

Definition cinit (c : cfg) (scripts : tid -> list op) : cstate :=
  mkC (init c) (fun _ => None) (fun t => mkThr Idle (scripts t) [] []).

(* a thread whose script is finished *)
Definition idle_done (th : cthread) : bool :=
  match pc th, todo th with Idle, [] => true | _, _ => false end.

Definition cstep (c : cfg) (g : cstate) (t : tid) : cstate :=
  let th := thr g t in
  if idle_done th then g else                         (* finished: stutter *)
  match lock_of (pc th) with
  | Some l =>
      match lk g l with
      | Some _ => g                                    (* blocked: stutter *)
      | None => let '(s', th') := dstep c (sh g) th in
                mkC s' (updl (lk g) l (Some t)) (updt (thr g) t th')
      end
  | None =>
      let '(s', th') := dstep c (sh g) th in
      mkC s' (match unlock_of (pc th) with Some l => updl (lk g) l None | None => lk g end) (updt (thr g) t th')
  end.

Definition crun (c : cfg) (sched : list tid) (g : cstate) : cstate := fold_left (cstep c) sched g.

(* ------------------------------------------------------------------------------------------------ *)
(* what an in-flight call owns                                                                       *)
(* ------------------------------------------------------------------------------------------------ *)
(* live blocks the call works on: the block it frees / reallocates (until the locked body has run) and the block
   it is about to return *)
Definition res_ptr (r : result) : list N := match r with RPtr p => [p] | _ => [] end.
Definition aclaims (a : apc) : list N :=
  match a with AS2 _ r _ => res_ptr r | AL4 p => [p] | ARet r => res_ptr r | _ => [] end.
Definition fclaims (f : fpc) : list N :=
  match f with FS1 _ p | FS2 _ p | FL1 p | FL2 p => [p] | _ => [] end.
Definition claims (p : cpc) : list N :=
  match p with
  | Idle => []
  | PA a k => (match k with Some (p, _) => [p] | None => [] end) ++ aclaims a
  | PF f rv => fclaims f ++ res_ptr rv
  | PRet r => res_ptr r
  end.

(* the region obtained from Policy::map that is still private to the call (not yet in any tree / frame list) *)
Definition region_of (c : cfg) (p : cpc) : option (N * N) :=
  match p with
  | PA (AS5 _ _ _ r) _ => Some (r, slab_map_len c)
  | PA (AS6 _ _ _ x _) _ | PA (AS7 _ _ _ x _) _ | PA (AS8 _ _ _ x _) _ | PA (AS9 _ _ _ x _) _
  | PA (AS10 _ _ _ x _) _ => Some (sl_region x)
  | PA (AL1 n' _ r) _ => Some (r, large_map_len c (align_up n' (page c)))
  | PA (AL2 _ x) _ | PA (AL3 _ x) _ => Some (lg_region x)
  | _ => None
  end.

(* pages already added to _usedPages for a slab that is not attached yet *)
Definition pend_of (c : cfg) (p : cpc) : N :=
  match p with
  | PA (AS8 _ _ _ x _) _ | PA (AS9 _ _ _ x _) _ | PA (AS10 _ _ _ x _) _ => (sl_len c x + page c) / page c
  | _ => 0
  end.

(* ------------------------------------------------------------------------------------------------ *)
(* hypotheses on the environment, per step (api_ok / policy_ok of C01, stated for the thread pool)   *)
(* ------------------------------------------------------------------------------------------------ *)
Definition live_ptrs_of (s : state) : list N := map bk_p (live s).

(* a pointer argument must be a live block that no OTHER in-flight call works on (ownership may have been handed
   over from the thread that allocated it) *)
Definition ptr_ok (g : cstate) (p : N) : Prop :=
  p = 0 \/ (In p (live_ptrs_of (sh g)) /\ forall t, ~ In p (claims (pc (thr g t)))).

Definition op_ok (c : cfg) (g : cstate) (o : op) : Prop :=
  match o with
  | Alloc n _ => n < req_bound
  | Free p => ptr_ok g p
  | Dealloc p n => ptr_ok g p /\ (p <> 0 -> n <= cur_size c (sh g) p)
  | Realloc p n _ => ptr_ok g p /\ n < req_bound
  | GetSize p => ptr_ok g p
  | Write p off len _ =>
      ptr_ok g p /\ match find_blk p (live (sh g)) with Some b => off + len <= N.max (bk_req b) 1 | None => False end
  end.

(* the answer of Policy::map: non-zero answers are inside the address space, disjoint from every region the pool
   still owns (mapped frames and the private regions of all in-flight calls), sb-aligned for the aligned map *)
Definition answer_ok (c : cfg) (g : cstate) (len : N) (e : env) : Prop :=
  env_ret e <> 0 ->
  0 < env_ret e /\ env_ret e + len <= two64
  /\ (forall rg, In rg (mapped (sh g)) -> rdisj (env_ret e, len) rg = true)
  /\ (forall t rg, region_of c (pc (thr g t)) = Some rg -> rdisj (env_ret e, len) rg = true)
  /\ (aligned c = true -> env_ret e mod sb c = 0).

Definition step_ok (c : cfg) (g : cstate) (t : tid) : Prop :=
  match pc (thr g t) with
  | Idle => match todo (thr g t) with o :: _ => op_ok c g o | [] => True end
  | PA (AS4 _ _ _ e) _ => answer_ok c g (slab_map_len c) e
  | PA (AL0 n' _ e) _ => answer_ok c g (large_map_len c (align_up n' (page c))) e
  | _ => True
  end.

Fixpoint sched_ok (c : cfg) (g : cstate) (sched : list tid) : Prop :=
  match sched with
  | [] => True
  | t :: r => step_ok c g t /\ sched_ok c (cstep c g t) r
  end.

(* ------------------------------------------------------------------------------------------------ *)
(* the tie to the control model: the micro-op a pc performs                                          *)
(* ------------------------------------------------------------------------------------------------ *)
Definition mop_of (p : cpc) : option mop :=
  match p with
  | Idle => Some MPrivate
  | PA a k =>
    match a with
    | AS0 idx _ _ _ | AS9 idx _ _ _ _ => Some (MLock (lb idx))
    | AS1 idx _ _ _ | AS10 idx _ _ _ _ => Some (MBody (lb idx))
    | AS2 idx _ _ | AS3 idx _ _ _ => Some (MUnlock (lb idx))
    | AS4 _ _ _ _ | AL0 _ _ _ => Some (MPolicy "map")
    | AS5 _ _ _ _ | AL1 _ _ _ => Some MPrivate
    | AS6 _ _ _ _ _ | AL2 _ _ => Some (MLock LT)
    | AS7 _ _ _ _ _ | AL3 _ _ => Some (MBody LT)
    | AS8 _ _ _ _ _ | AL4 _ => Some (MUnlock LT)
    | ARet _ => match k with None => Some MRet | Some _ => Some MPrivate end
    end
  | PF f _ =>
    match f with
    | FS1 idx _ => Some (MLock (lb idx))
    | FS2 idx _ => Some (MBody (lb idx))
    | FS3 idx _ => Some (MUnlock (lb idx))
    | FL1 _ => Some (MLock LT)
    | FL2 _ => Some (MBody LT)
    | FL3 _ _ => Some (MUnlock LT)
    | FL4 _ _ => Some (MPolicy "unmap")
    | FRet _ => Some MRet
    end
  | PRet _ => Some MRet
  end.

(* the pc paths of the model and their observable lock shapes (compared with Shapes.shapes of the generated
   skeleton by the obligation conc_slab_shapes_match) *)
Definition cobs_of_mop (m : mop) : list string :=
  match m with
  | MLock (LB _) => ["LB"%string] | MUnlock (LB _) => ["UB"%string]
  | MLock LT => ["LT"%string] | MUnlock LT => ["UT"%string]
  | MPolicy f => [String.append "P:" f]
  | _ => []
  end.
Definition cshape_of_path (p : list cpc) : list string :=
  flat_map (fun q => match mop_of q with Some m => cobs_of_mop m | None => [] end) p.

Definition x0 : slab := mkSlab 0 0 0 0 [] 0.
Definition l0 : large := mkLarge 0 0 0 0.
Definition cmodel_paths : list (string * list cpc) :=
  let a k := fun a => PA a k in
  [ ("allocate", map (a None) [AS0 0 1 1 MapFail; AS1 0 1 1 MapFail; AS2 0 RNull []; ARet RNull]);
    ("allocate", map (a None) [AS0 0 1 1 MapFail; AS1 0 1 1 MapFail; AS3 0 1 1 MapFail; AS4 0 1 1 MapFail; AS5 0 1 1 1;
                               AS6 0 1 1 x0 0; AS7 0 1 1 x0 0; AS8 0 1 1 x0 0; AS9 0 1 1 x0 0; AS10 0 1 1 x0 0;
                               AS2 0 RNull []; ARet RNull]);
    ("allocate", map (a None) [AS0 0 1 1 MapFail; AS1 0 1 1 MapFail; AS3 0 1 1 MapFail; AS4 0 1 1 MapFail; ARet RNull]);
    ("allocate", map (a None) [AL0 1 1 MapFail; AL1 1 1 1; AL2 1 l0; AL3 1 l0; AL4 0; ARet RNull]);
    ("allocate", map (a None) [AL0 1 1 MapFail; ARet RNull]);
    ("free", [PF (FS1 0 0) RUnit; PF (FS2 0 0) RUnit; PF (FS3 0 RUnit) RUnit; PF (FRet RUnit) RUnit]);
    ("free", [PF (FL1 0) RUnit; PF (FL2 0) RUnit; PF (FL3 RUnit []) RUnit; PF (FL4 RUnit []) RUnit; PF (FRet RUnit) RUnit]);
    ("deallocate", [PF (FS1 0 0) RUnit; PF (FS2 0 0) RUnit; PF (FS3 0 RUnit) RUnit; PF (FRet RUnit) RUnit]);
    ("deallocate", [PF (FL1 0) RUnit; PF (FL2 0) RUnit; PF (FL3 RUnit []) RUnit; PF (FL4 RUnit []) RUnit; PF (FRet RUnit) RUnit]) ].

(* realloc: in place (no lock), and copying = allocate ; memcpy ; free.  [shapes actual "realloc"] is too large for
   vm_compute inside coqc (minutes); these paths are matched by the EXTRACTED shape enumerator on every run of the
   check (comp/slabconc/check.py, obligation "concrete model realloc shapes"). *)
Definition cmodel_paths_realloc : list (string * list cpc) :=
  let a k := fun a => PA a k in
  [ ("realloc", [PRet RNull]);
    ("realloc", map (a (Some (0, 0))) [AS0 0 1 1 MapFail; AS1 0 1 1 MapFail; AS2 0 RNull []; ARet RNull]
                ++ [PF (FS1 0 0) RUnit; PF (FS2 0 0) RUnit; PF (FS3 0 RUnit) RUnit; PF (FRet RUnit) RUnit]);
    ("realloc", map (a (Some (0, 0))) [AL0 1 1 MapFail; AL1 1 1 1; AL2 1 l0; AL3 1 l0; AL4 0; ARet RNull]
                ++ [PF (FL1 0) RUnit; PF (FL2 0) RUnit; PF (FL3 RUnit []) RUnit; PF (FL4 RUnit []) RUnit; PF (FRet RUnit) RUnit]);
    ("realloc", map (a (Some (0, 0))) [AS0 0 1 1 MapFail; AS1 0 1 1 MapFail; AS3 0 1 1 MapFail; AS4 0 1 1 MapFail; ARet RNull]) ].

Definition cshapes (l : list (string * list cpc)) : list (string * list string) :=
  map (fun x => (fst x, cshape_of_path (snd x))) l.
