(* C05 / slabconc over the concrete pool: scheduling ONE thread from a state in which all mutexes are free executes its
   next call as SlabModel.step: the thread pool with its locks (cstep) and the lock-free iteration of segments (diter,
   ConcSlabSolo.solo_run_is_step) agree. *)
From Coq Require Import List NArith Bool Arith Lia.
From FV Require Import SlabConc.ConcModel SlabConc.ConcProofs.
From FV Require Import Slab.SlabModel SlabConc.ConcSlabModel SlabConc.ConcSlabSolo SlabConc.ConcSlabState SlabConc.ConcSlabStep
  SlabConc.ConcSlabProofs.
Import ListNotations.
Open Scope list_scope.

(* only thread t holds locks, and exactly the one its pc says *)
Definition solo_locks (g : cstate) (t : tid) : Prop :=
  forall l, lk g l = match hold_of (pc (thr g t)) with
                     | Some l' => if lockid_eqb l l' then Some t else None
                     | None => None
                     end.

Lemma dstep_idle_done c s th : idle_done th = true -> dstep c s th = (s, th).
Proof.
  unfold idle_done, dstep. destruct (pc th); try discriminate. destruct (todo th); [reflexivity|discriminate].
Qed.

Lemma cstep_solo c g t : solo_locks g t ->
  solo_locks (cstep c g t) t
  /\ (sh (cstep c g t), thr (cstep c g t) t) = dstep c (sh g) (thr g t).
Proof.
  intros HL. pose proof (dstep_hold c (sh g) (thr g t)) as HH. unfold cstep.
  destruct (idle_done (thr g t)) eqn:Hid.
  { rewrite (dstep_idle_done c (sh g) (thr g t) Hid). split; [exact HL|reflexivity]. }
  destruct (lock_of (pc (thr g t))) as [l|] eqn:Hlock.
  - destruct (lock_hold _ _ Hlock) as [Hh _].
    assert (Hfree : lk g l = None) by (rewrite (HL l), Hh; reflexivity). rewrite Hfree.
    destruct (dstep c (sh g) (thr g t)) as [s' th'] eqn:Hd. cbn [snd] in HH. cbn [sh thr lk]. rewrite updt_same. split; [|reflexivity].
    intros l0. cbn [lk thr]. rewrite updt_same, HH. unfold updl. rewrite (HL l0), Hh. reflexivity.
  - destruct (dstep c (sh g) (thr g t)) as [s' th'] eqn:Hd. cbn [snd] in HH. cbn [sh thr lk]. rewrite updt_same. split; [|reflexivity].
    intros l0. cbn [lk thr]. rewrite updt_same, HH.
    destruct (unlock_of (pc (thr g t))) as [l|] eqn:Hul.
    + pose proof (unlock_hold _ _ Hul) as Hh. unfold updl. rewrite (HL l0), Hh. destruct (lockid_eqb l0 l); reflexivity.
    + apply HL.
Qed.

Lemma crun_solo c t k : forall g, solo_locks g t ->
  let g' := crun c (repeat t k) g in
  solo_locks g' t /\ (sh g', thr g' t) = diter c k (sh g) (thr g t) /\ forall t', t' <> t -> thr g' t' = thr g t'.
Proof.
  induction k as [|k IH]; intros g HL; cbn [repeat crun fold_left diter].
  - split; [exact HL|]. split; reflexivity.
  - destruct (cstep_solo c g t HL) as [HL1 E1].
    destruct (IH (cstep c g t) HL1) as (HL2 & E2 & O2). unfold crun in *.
    split; [exact HL2|]. split.
    + rewrite E2. rewrite <- E1. reflexivity.
    + intros t' Hne. rewrite (O2 t' Hne). apply cstep_other. exact Hne.
Qed.

(* with all mutexes free, scheduling thread t alone for at most 24 steps executes its next call exactly as the
   sequential model does, leaves all mutexes free and every other thread untouched *)
Theorem solo_schedule_is_step c g t o rest :
  (forall l, lk g l = None) -> pc (thr g t) = Idle -> todo (thr g t) = o :: rest -> acc (thr g t) = [] ->
  exists j, (j <= 24)%nat /\
    let g' := crun c (repeat t j) g in
    sh g' = st_of (step c (sh g) o)
    /\ thr g' t = mkThr Idle rest [] ((res_of (step c (sh g) o), cbs_of (step c (sh g) o)) :: outs (thr g t))
    /\ (forall l, lk g' l = None)
    /\ (forall t', t' <> t -> thr g' t' = thr g t').
Proof.
  intros Hfree Hpc Htd Hacc.
  assert (HL : solo_locks g t) by (intros l; rewrite Hpc; apply Hfree).
  destruct (solo_run_is_step c (sh g) o rest (outs (thr g t))) as (j & Hj & E).
  exists j. split; [exact Hj|]. destruct (crun_solo c t j g HL) as (HL' & E' & O').
  assert (Eth : thr g t = mkThr Idle (o :: rest) [] (outs (thr g t))).
  { destruct (thr g t) as [p td ac ou]. cbn in *. subst. reflexivity. }
  assert (E'' : (sh (crun c (repeat t j) g), thr (crun c (repeat t j) g) t)
                = diter c j (sh g) (mkThr Idle (o :: rest) [] (outs (thr g t)))) by (rewrite <- Eth; exact E').
  rewrite E in E''. injection E'' as E1 E2.
  split; [exact E1|]. split; [exact E2|]. split; [|exact O'].
  intros l. rewrite (HL' l), E2. reflexivity.
Qed.
