(* C05 / slabconc: lock skeletons of frg::slab_pool member functions.

   The skeleton of a member function is the TREE of its lock operations, policy callbacks, accesses to
   shared pool fields, control structure, returns and calls to other member functions, in source order.
   translator/gen_slabconc.py regenerates coq/Gen/SlabSkeleton.v (a value [actual : skeleton]) from the clang
   AST of /repo/include/frg/slab.hpp on every check run.

   This file defines
     - the event-tree datatype [sk], the function table [skeleton];
     - the path semantics [paths] (all paths through If/Loop, early returns, calls inlined) and the
       small-step semantics [sstep]/[ssteps] over stacks of frames;
     - the lock-discipline monitor [mon] (a partial function on monitor states: [None] = violation);
     - the executable checker [check_skeleton];
   Definitions only.  SOUNDNESS ([check_skeleton sk = true] implies that on every path-trace of every API
   function the monitor accepts every event) is proved in SlabConc/SkeletonSound.v (big-step [api_trace]) and
   SlabConc/SmallStepSound.v (every partial small-step execution); the obligation `skeleton_disciplined` about
   the generated value is in Props/Properties_C05.v. *)
From Coq Require Import List String Bool Arith Lia.
Import ListNotations.
Open Scope string_scope.
Open Scope list_scope.

(* ------------------------------------------------------------------------------------------------ *)
(* Events and skeleton trees                                                                         *)
(* ------------------------------------------------------------------------------------------------ *)

Inductive mtx := MB (* bucket::bucket_mutex of the bucket the function works on *) | MT (* _tree_mutex *).
Inductive mode := R | W.

Inductive ev :=
| ELock (g : string) (m : mtx)        (* unique_lock g(m) constructed, or g.lock() *)
| EUnlock (g : string)                (* g.unlock() *)
| EScopeEnd (g : string)              (* g goes out of scope (~unique_lock releases iff it owns the mutex) *)
| EPolicy (f : string)                (* _plcy.f(...) *)
| EAccess (fld : string) (md : mode) (obj : string)  (* obj->fld read / written; obj = root variable *)
| EFresh (v : string)                 (* v = placement-new / result of _construct_*: object private to this thread *)
| EAlias (v src : string)             (* pointer v assigned from (a field of) src: inherits src's privacy *)
| EStore (v obj : string)             (* pointer v stored into a field of obj / inserted into obj's tree *)
| EReturn.                            (* the API call returns to the user *)

Inductive sk :=
| Skip
| Ev (e : ev)
| Seq (a b : sk)
| If (a b : sk)          (* both branches; conditions are abstracted, their accesses precede the If *)
| Loop (b : sk)          (* zero or more iterations *)
| Return                 (* return from the current member function *)
| Call (f : string).     (* call of another slab_pool member function (inlined by checker and semantics) *)

Definition skeleton := list (string * sk).

(* names used by the generated file *)
Notation Lock g m := (Ev (ELock g m)).
Notation Unlock g := (Ev (EUnlock g)).
Notation ScopeEnd g := (Ev (EScopeEnd g)).
Notation PolicyCall f := (Ev (EPolicy f)).
Notation Access f md o := (Ev (EAccess f md o)).
Notation Fresh v := (Ev (EFresh v)).
Notation Alias v s := (Ev (EAlias v s)).
Notation Store v o := (Ev (EStore v o)).
Notation Else := (fun x : sk => x) (only parsing).
Notation "a ;; b" := (Seq a b) (at level 61, right associativity).

Fixpoint lookup (fs : skeleton) (f : string) : option sk :=
  match fs with
  | [] => None
  | (g, b) :: r => if String.eqb f g then Some b else lookup r f
  end.

(* The API of the property: "any concurrent mix of allocate/free/deallocate/realloc" (+ get_size). *)
Definition api : list string := ["allocate"; "realloc"; "free"; "deallocate"; "get_size"].

(* ------------------------------------------------------------------------------------------------ *)
(* Path semantics (big-step: complete paths of one function body)                                    *)
(* ------------------------------------------------------------------------------------------------ *)

Inductive out := Fall | Ret.

Inductive paths (fs : skeleton) : sk -> list ev -> out -> Prop :=
| P_skip : paths fs Skip [] Fall
| P_ev e : paths fs (Ev e) [e] Fall
| P_seq_ret a b t : paths fs a t Ret -> paths fs (Seq a b) t Ret
| P_seq a b t1 t2 o : paths fs a t1 Fall -> paths fs b t2 o -> paths fs (Seq a b) (t1 ++ t2) o
| P_if_l a b t o : paths fs a t o -> paths fs (If a b) t o
| P_if_r a b t o : paths fs b t o -> paths fs (If a b) t o
| P_loop_0 b : paths fs (Loop b) [] Fall
| P_loop_ret b t : paths fs b t Ret -> paths fs (Loop b) t Ret
| P_loop_s b t1 t2 o : paths fs b t1 Fall -> paths fs (Loop b) t2 o -> paths fs (Loop b) (t1 ++ t2) o
| P_return : paths fs Return [] Ret
| P_call f b t o : lookup fs f = Some b -> paths fs b t o -> paths fs (Call f) t Fall.

(* A complete trace of the API call f: a path through its body followed by the return to the user. *)
Definition api_trace (fs : skeleton) (f : string) (tr : list ev) : Prop :=
  exists b t o, lookup fs f = Some b /\ paths fs b t o /\ tr = t ++ [EReturn].

(* ------------------------------------------------------------------------------------------------ *)
(* Small-step semantics: a configuration is a stack of frames, a frame is a list of pending trees     *)
(* ------------------------------------------------------------------------------------------------ *)

Definition frame := list sk.
Definition config := list frame.          (* innermost call first; [] = the API call has returned *)

Inductive sstep (fs : skeleton) : config -> option ev -> config -> Prop :=
| S_skip k st : sstep fs ((Skip :: k) :: st) None (k :: st)
| S_ev e k st : sstep fs ((Ev e :: k) :: st) (Some e) (k :: st)
| S_seq a b k st : sstep fs ((Seq a b :: k) :: st) None ((a :: b :: k) :: st)
| S_if_l a b k st : sstep fs ((If a b :: k) :: st) None ((a :: k) :: st)
| S_if_r a b k st : sstep fs ((If a b :: k) :: st) None ((b :: k) :: st)
| S_loop_exit b k st : sstep fs ((Loop b :: k) :: st) None (k :: st)
| S_loop_iter b k st : sstep fs ((Loop b :: k) :: st) None ((b :: Loop b :: k) :: st)
| S_call f b k st : lookup fs f = Some b -> sstep fs ((Call f :: k) :: st) None ([b] :: k :: st)
| S_return_inner k k' st : sstep fs ((Return :: k) :: k' :: st) None (k' :: st)
| S_end_inner k' st : sstep fs ([] :: k' :: st) None (k' :: st)
| S_return_api k : sstep fs [Return :: k] (Some EReturn) []
| S_end_api : sstep fs [[]] (Some EReturn) [].

Inductive ssteps (fs : skeleton) : config -> list ev -> config -> Prop :=
| SS_refl c : ssteps fs c [] c
| SS_tau c c' c'' t : sstep fs c None c' -> ssteps fs c' t c'' -> ssteps fs c t c''
| SS_ev c e c' c'' t : sstep fs c (Some e) c' -> ssteps fs c' t c'' -> ssteps fs c (e :: t) c''.

(* ------------------------------------------------------------------------------------------------ *)
(* The discipline monitor                                                                            *)
(* ------------------------------------------------------------------------------------------------ *)

(* Which lock protects which field (hand-written table; an unknown field name is a violation). *)
Inductive prot :=
| PBucket    (* bucket::head_slb, bucket::partial_tree: bucket lock *)
| PSlab      (* slab_frame::available/num_reserved/partial_hook: bucket lock, or slab still private *)
| PObj       (* freelist::link of a free object: bucket lock, or object/slab private *)
| PTree      (* _usedPages, _frame_tree (and frame_hook): _tree_mutex *)
| PHeader.   (* frame::type/index/address/length/sb_base/sb_reservation: written only while the frame
                is private (before publication), read anywhere *)

Definition field_class (f : string) : option prot :=
  if String.eqb f "head_slb" then Some PBucket else
  if String.eqb f "partial_tree" then Some PBucket else
  if String.eqb f "available" then Some PSlab else
  if String.eqb f "num_reserved" then Some PSlab else
  if String.eqb f "partial_hook" then Some PSlab else
  if String.eqb f "link" then Some PObj else
  if String.eqb f "_usedPages" then Some PTree else
  if String.eqb f "_frame_tree" then Some PTree else
  if String.eqb f "frame_hook" then Some PTree else
  if String.eqb f "type" then Some PHeader else
  if String.eqb f "index" then Some PHeader else
  if String.eqb f "address" then Some PHeader else
  if String.eqb f "length" then Some PHeader else
  if String.eqb f "sb_base" then Some PHeader else
  if String.eqb f "sb_reservation" then Some PHeader else
  None.

Record mstate := MS { held : option (string * mtx); priv : list string }.

Definition mtx_eqb (a b : mtx) : bool :=
  match a, b with MB, MB => true | MT, MT => true | _, _ => false end.

Definition holds (s : mstate) (m : mtx) : bool :=
  match held s with Some (_, m') => mtx_eqb m m' | None => false end.

Fixpoint mem (v : string) (l : list string) : bool :=
  match l with [] => false | x :: r => String.eqb v x || mem v r end.
Fixpoint del (v : string) (l : list string) : list string :=
  match l with [] => [] | x :: r => if String.eqb v x then del v r else x :: del v r end.
Definition add (v : string) (l : list string) : list string := if mem v l then l else v :: l.

Definition access_ok (s : mstate) (f : string) (md : mode) (obj : string) : bool :=
  match field_class f with
  | None => false
  | Some PBucket => holds s MB
  | Some PSlab => mem obj (priv s) || holds s MB
  | Some PObj => mem obj (priv s) || holds s MB
  | Some PTree => holds s MT
  | Some PHeader => match md with R => true | W => mem obj (priv s) end
  end.

Definition mon (s : mstate) (e : ev) : option mstate :=
  match e with
  | ELock g m =>
      match held s with
      | None => Some (MS (Some (g, m)) (priv s))
      | Some _ => None                                   (* a second pool lock *)
      end
  | EUnlock g =>
      match held s with
      | Some (g', _) => if String.eqb g g' then Some (MS None (priv s)) else None
      | None => None                                     (* unlock() of a guard that does not own *)
      end
  | EScopeEnd g =>
      match held s with
      | Some (g', _) => if String.eqb g g' then Some (MS None (del g (priv s))) else Some (MS (held s) (del g (priv s)))
      | None => Some (MS None (del g (priv s)))
      end
  | EPolicy _ => match held s with None => Some s | Some _ => None end
  | EAccess f md obj => if access_ok s f md obj then Some s else None
  | EFresh v => Some (MS (held s) (add v (priv s)))
  | EAlias v src => Some (MS (held s) (if mem src (priv s) then add v (priv s) else del v (priv s)))
  | EStore v obj => Some (MS (held s) (if mem obj (priv s) then priv s else del v (priv s)))
  | EReturn => match held s with None => Some s | Some _ => None end
  end.

Fixpoint run_mon (s : mstate) (t : list ev) : option mstate :=
  match t with
  | [] => Some s
  | e :: r => match mon s e with Some s' => run_mon s' r | None => None end
  end.

Definition s0 : mstate := MS None [].

(* "discipline holds at every event of tr": every event is accepted in the state reached before it *)
Definition disciplined (s : mstate) (tr : list ev) : Prop :=
  forall pre e post, tr = pre ++ e :: post ->
    exists s1 s2, run_mon s pre = Some s1 /\ mon s1 e = Some s2.

(* ------------------------------------------------------------------------------------------------ *)
(* The checker                                                                                       *)
(* ------------------------------------------------------------------------------------------------ *)

Definition mstate_eq_dec (a b : mstate) : {a = b} + {a <> b}.
Proof. repeat decide equality. Defined.

Definition union (a b : list mstate) : list mstate := nodup mstate_eq_dec (a ++ b).

(* run k on every state of F, uniting fall-through and return states; None if any run fails *)
Fixpoint bind (F : list mstate) (k : mstate -> option (list mstate * list mstate))
  : option (list mstate * list mstate) :=
  match F with
  | [] => Some ([], [])
  | s :: r =>
      match k s, bind r k with
      | Some (f1, r1), Some (f2, r2) => Some (union f1 f2, union r1 r2)
      | _, _ => None
      end
  end.

Definition all_eq (s : mstate) (l : list mstate) : bool :=
  forallb (fun x => if mstate_eq_dec x s then true else false) l.

(* go ck c s = Some (F, Rs): every path of c from monitor state s is accepted by the monitor; F = the states
   in which c can fall through, Rs = the states at its Return statements.  ck handles calls. *)
Definition result := option (list mstate * list mstate).

Fixpoint go (ck : string -> mstate -> result) (c : sk) (s : mstate) {struct c} : result :=
  match c with
  | Skip => Some ([s], [])
  | Ev e => match mon s e with Some s' => Some ([s'], []) | None => None end
  | Seq a b =>
      match go ck a s with
      | Some (fa, ra) =>
          match bind fa (go ck b) with
          | Some (fb, rb) => Some (fb, union ra rb)
          | None => None
          end
      | None => None
      end
  | If a b =>
      match go ck a s, go ck b s with
      | Some (fa, ra), Some (fb, rb) => Some (union fa fb, union ra rb)
      | _, _ => None
      end
  | Loop b =>
      match go ck b s with
      | Some (fb, rb) => if all_eq s fb then Some ([s], rb) else None   (* the body must restore the state *)
      | None => None
      end
  | Return => Some ([], [s])
  | Call f => ck f s
  end.

(* calls are inlined; fuel bounds the call depth (running out of fuel is a failure) *)
Fixpoint callk (fuel : nat) (fs : skeleton) (f : string) (s : mstate) {struct fuel} : result :=
  match fuel with
  | 0 => None
  | S n =>
      match lookup fs f with
      | Some b => match go (callk n fs) b s with
                  | Some (fb, rb) => Some (union fb rb, [])
                  | None => None
                  end
      | None => None
      end
  end.

Definition exec (fuel : nat) (fs : skeleton) (c : sk) (s : mstate) : result := go (callk fuel fs) c s.

Definition ret_ok (s : mstate) : bool := match mon s EReturn with Some _ => true | None => false end.

Definition call_depth : nat := 16.

Definition check_fun (fs : skeleton) (f : string) : bool :=
  match lookup fs f with
  | Some b =>
      match exec call_depth fs b s0 with
      | Some (F, Rs) => forallb ret_ok F && forallb ret_ok Rs
      | None => false
      end
  | None => false
  end.

Definition check_skeleton (fs : skeleton) : bool := forallb (check_fun fs) api.

(* ------------------------------------------------------------------------------------------------ *)
(* A deterministic path chooser (used to exhibit concrete path-traces in Examples)                   *)
(* ------------------------------------------------------------------------------------------------ *)

(* one boolean per If (true = first branch; false when the list is exhausted); every loop iterates k times *)
Definition pick (ch : list bool) : bool * list bool :=
  match ch with [] => (false, []) | b :: r => (b, r) end.

Fixpoint follow (ck : string -> list bool -> option (list ev * list bool)) (k : nat) (c : sk) (ch : list bool)
  {struct c} : option (list ev * out * list bool) :=
  match c with
  | Skip => Some ([], Fall, ch)
  | Ev e => Some ([e], Fall, ch)
  | Seq a b =>
      match follow ck k a ch with
      | Some (t1, Fall, ch1) =>
          match follow ck k b ch1 with
          | Some (t2, o, ch2) => Some (t1 ++ t2, o, ch2)
          | None => None
          end
      | r => r
      end
  | If a b => let (x, ch') := pick ch in if x then follow ck k a ch' else follow ck k b ch'
  | Loop b =>
      (fix iter (n : nat) (ch : list bool) : option (list ev * out * list bool) :=
         match n with
         | 0 => Some ([], Fall, ch)
         | S n' =>
             match follow ck k b ch with
             | Some (t1, Fall, ch1) =>
                 match iter n' ch1 with
                 | Some (t2, o, ch2) => Some (t1 ++ t2, o, ch2)
                 | None => None
                 end
             | r => r
             end
         end) k ch
  | Return => Some ([], Ret, ch)
  | Call f => match ck f ch with Some (t, ch') => Some (t, Fall, ch') | None => None end
  end.

Fixpoint followk (fuel : nat) (fs : skeleton) (k : nat) (f : string) (ch : list bool) {struct fuel}
  : option (list ev * list bool) :=
  match fuel with
  | 0 => None
  | S n =>
      match lookup fs f with
      | Some b => match follow (followk n fs k) k b ch with
                  | Some (t, _, ch') => Some (t, ch')
                  | None => None
                  end
      | None => None
      end
  end.

(* the complete API trace selected by the choices *)
Definition follow_api (fs : skeleton) (k : nat) (f : string) (ch : list bool) : option (list ev) :=
  match followk (S call_depth) fs k f ch with
  | Some (t, _) => Some (t ++ [EReturn])
  | None => None
  end.
