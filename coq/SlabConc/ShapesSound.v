(* Every word computed by Shapes.shapes is the observation of a genuine path-trace of the skeleton: the matcher
   used for the model-vs-implementation tie never accepts a log that is not (modulo the run-length collapse of
   identical consecutive callbacks built into obs_ev) the lock/unlock/callback projection of an api_trace. *)
From Coq Require Import List String Bool Arith.
From FV Require Import SlabConc.Skeleton SlabConc.Shapes.
Import ListNotations.
Open Scope string_scope.
Open Scope list_scope.

Lemma obs_run_app st t1 t2 : obs_run st (t1 ++ t2) = obs_run (obs_run st t1) t2.
Proof. unfold obs_run. apply fold_left_app. Qed.

Lemma sunion_In x a b : In x (sunion a b) <-> In x a \/ In x b.
Proof. unfold sunion. rewrite nodup_In, in_app_iff. tauto. Qed.

Lemma sbind_sound F k F' R' : sbind F k = (F', R') ->
  (forall x, In x F' -> exists s, In s F /\ In x (fst (k s))) /\
  (forall x, In x R' -> exists s, In s F /\ In x (snd (k s))).
Proof.
  revert F' R'. induction F as [|a F IH]; intros F' R' H; cbn [sbind] in H.
  - injection H as <- <-. split; intros x [].
  - destruct (k a) as [f1 r1] eqn:Hk. destruct (sbind F k) as [f2 r2] eqn:Hb. injection H as <- <-.
    destruct (IH _ _ eq_refl) as [IHf IHr]. split; intros x Hx; apply sunion_In in Hx as [Hx|Hx].
    + exists a. rewrite Hk. split; [left; reflexivity|exact Hx].
    + destruct (IHf x Hx) as (s & Hs & Hin). exists s. split; [right; exact Hs|exact Hin].
    + exists a. rewrite Hk. split; [left; reflexivity|exact Hx].
    + destruct (IHr x Hx) as (s & Hs & Hin). exists s. split; [right; exact Hs|exact Hin].
Qed.

Section Sound.
Variable fs : skeleton.

Definition sck_sound (ck : string -> sst -> list sst) : Prop :=
  forall f st x, In x (ck f st) -> exists b t o, lookup fs f = Some b /\ paths fs b t o /\ obs_run st t = x.

Lemma sgo_sound ck : sck_sound ck -> forall c st F R, sgo ck c st = (F, R) ->
  (forall x, In x F -> exists t, paths fs c t Fall /\ obs_run st t = x) /\
  (forall x, In x R -> exists t, paths fs c t Ret /\ obs_run st t = x).
Proof.
  intros Hck c. induction c as [ |e|a IHa b IHb|a IHa b IHb|b IHb| |f]; intros st F R H; cbn [sgo] in H.
  - injection H as <- <-. split; [|intros x []]. intros x [<-|[]]. exists []. split; [constructor|reflexivity].
  - injection H as <- <-. split; [|intros x []]. intros x [<-|[]]. exists [e]. split; [constructor|reflexivity].
  - destruct (sgo ck a st) as [fa ra] eqn:Ha. destruct (sbind fa (sgo ck b)) as [fb rb] eqn:Hb. injection H as <- <-.
    destruct (IHa _ _ _ Ha) as [IHaf IHar]. destruct (sbind_sound _ _ _ _ Hb) as [Hbf Hbr]. split.
    + intros x Hx. destruct (Hbf x Hx) as (s1 & Hs1 & Hin). destruct (IHaf s1 Hs1) as (t1 & Hp1 & <-).
      destruct (sgo ck b (obs_run st t1)) as [f' r'] eqn:Hg. destruct (IHb _ _ _ Hg) as [IHbf _].
      destruct (IHbf x Hin) as (t2 & Hp2 & <-). exists (t1 ++ t2). split; [eapply P_seq; eassumption|apply obs_run_app].
    + intros x Hx. apply sunion_In in Hx as [Hx|Hx].
      * destruct (IHar x Hx) as (t1 & Hp1 & <-). exists t1. split; [apply P_seq_ret; assumption|reflexivity].
      * destruct (Hbr x Hx) as (s1 & Hs1 & Hin). destruct (IHaf s1 Hs1) as (t1 & Hp1 & <-).
        destruct (sgo ck b (obs_run st t1)) as [f' r'] eqn:Hg. destruct (IHb _ _ _ Hg) as [_ IHbr].
        destruct (IHbr x Hin) as (t2 & Hp2 & <-). exists (t1 ++ t2). split; [eapply P_seq; eassumption|apply obs_run_app].
  - destruct (sgo ck a st) as [fa ra] eqn:Ha. destruct (sgo ck b st) as [fb rb] eqn:Hb. injection H as <- <-.
    destruct (IHa _ _ _ Ha) as [IHaf IHar]. destruct (IHb _ _ _ Hb) as [IHbf IHbr].
    split; intros x Hx; apply sunion_In in Hx as [Hx|Hx].
    + destruct (IHaf x Hx) as (t & Hp & <-). exists t. split; [apply P_if_l; assumption|reflexivity].
    + destruct (IHbf x Hx) as (t & Hp & <-). exists t. split; [apply P_if_r; assumption|reflexivity].
    + destruct (IHar x Hx) as (t & Hp & <-). exists t. split; [apply P_if_l; assumption|reflexivity].
    + destruct (IHbr x Hx) as (t & Hp & <-). exists t. split; [apply P_if_r; assumption|reflexivity].
  - destruct (sgo ck b st) as [f1 r1] eqn:H1. destruct (sbind f1 (sgo ck b)) as [f2 r2] eqn:H2. injection H as <- <-.
    destruct (IHb _ _ _ H1) as [IH1f IH1r]. destruct (sbind_sound _ _ _ _ H2) as [H2f H2r]. split.
    + intros x Hx. apply sunion_In in Hx as [[<-|[]]|Hx]; [exists []; split; [constructor|reflexivity]|].
      apply sunion_In in Hx as [Hx|Hx].
      * destruct (IH1f x Hx) as (t1 & Hp1 & <-). exists (t1 ++ []). split; [eapply P_loop_s; [eassumption|constructor]|].
        rewrite app_nil_r. reflexivity.
      * destruct (H2f x Hx) as (s1 & Hs1 & Hin). destruct (IH1f s1 Hs1) as (t1 & Hp1 & <-).
        destruct (sgo ck b (obs_run st t1)) as [f' r'] eqn:Hg. destruct (IHb _ _ _ Hg) as [IHf _].
        destruct (IHf x Hin) as (t2 & Hp2 & <-). exists (t1 ++ (t2 ++ [])). split.
        -- eapply P_loop_s; [eassumption|]. eapply P_loop_s; [eassumption|constructor].
        -- rewrite app_nil_r. apply obs_run_app.
    + intros x Hx. apply sunion_In in Hx as [Hx|Hx].
      * destruct (IH1r x Hx) as (t1 & Hp1 & <-). exists t1. split; [apply P_loop_ret; assumption|reflexivity].
      * destruct (H2r x Hx) as (s1 & Hs1 & Hin). destruct (IH1f s1 Hs1) as (t1 & Hp1 & <-).
        destruct (sgo ck b (obs_run st t1)) as [f' r'] eqn:Hg. destruct (IHb _ _ _ Hg) as [_ IHr].
        destruct (IHr x Hin) as (t2 & Hp2 & <-). exists (t1 ++ t2). split.
        -- eapply P_loop_s; [eassumption|]. apply P_loop_ret. assumption.
        -- apply obs_run_app.
  - injection H as <- <-. split; [intros x []|]. intros x [<-|[]]. exists []. split; [constructor|reflexivity].
  - injection H as <- <-. split; [|intros x []]. intros x Hx.
    destruct (Hck f st x Hx) as (b & t & o & Hl & Hp & <-). exists t. split; [eapply P_call; eassumption|reflexivity].
Qed.

Lemma scall_sound fuel : sck_sound (scall fuel fs).
Proof.
  induction fuel as [|n IH]; intros f st x Hx; cbn [scall] in Hx; [destruct Hx|].
  destruct (lookup fs f) as [b|] eqn:Hl; [|destruct Hx].
  destruct (sgo (scall n fs) b st) as [fb rb] eqn:Hg. destruct (sgo_sound _ IH _ _ _ _ Hg) as [Hf Hr].
  apply sunion_In in Hx as [Hx|Hx].
  - destruct (Hf x Hx) as (t & Hp & <-). exists b, t, Fall. repeat split; assumption.
  - destruct (Hr x Hx) as (t & Hp & <-). exists b, t, Ret. repeat split; assumption.
Qed.

Lemma obs_run_return st t : obs_run st (t ++ [EReturn]) = obs_run st t.
Proof. rewrite obs_run_app. unfold obs_run at 1. cbn [fold_left obs_ev]. destruct (obs_run st t). reflexivity. Qed.

(* every shape is the observation of a complete API path-trace *)
Theorem shapes_sound f w : In w (shapes fs f) ->
  exists tr, api_trace fs f tr /\ rev (fst (obs_run ([], None) tr)) = w.
Proof.
  unfold shapes. rewrite nodup_In, in_map_iff. intros (x & <- & Hx).
  destruct (scall_sound _ _ _ _ Hx) as (b & t & o & Hl & Hp & <-).
  exists (t ++ [EReturn]). split; [exists b, t, o; repeat split; assumption|]. rewrite obs_run_return. reflexivity.
Qed.

End Sound.
