(* Soundness of the skeleton checker for the SMALL-STEP semantics (Skeleton.sstep): every partial execution of
   an API function of a checked skeleton is accepted by the discipline monitor at every event. *)
From Coq Require Import List String Bool Arith Lia.
From FV Require Import SlabConc.Skeleton SlabConc.SkeletonSound.
Import ListNotations.
Open Scope string_scope.
Open Scope list_scope.

(* wp-style reading of the checker: all fall-through states satisfy Pf, all return states satisfy Pr *)
Definition ok (ck : string -> mstate -> result) (c : sk) (s : mstate) (Pf Pr : mstate -> Prop) : Prop :=
  exists F R, go ck c s = Some (F, R) /\ (forall x, In x F -> Pf x) /\ (forall x, In x R -> Pr x).

Lemma ok_mono ck c s (Pf Pr Pf' Pr' : mstate -> Prop) :
  (forall x, Pf x -> Pf' x) -> (forall x, Pr x -> Pr' x) -> ok ck c s Pf Pr -> ok ck c s Pf' Pr'.
Proof. intros H1 H2 (F & R & Hg & HF & HR). exists F, R. split; [exact Hg|]. split; auto. Qed.

Lemma ok_skip ck s Pf Pr : ok ck Skip s Pf Pr <-> Pf s.
Proof.
  split.
  - intros (F & R & Hg & HF & _). cbn [go] in Hg. injection Hg as <- <-. apply HF. left; reflexivity.
  - intro H. exists [s], []. split; [reflexivity|]. split; [intros x [<-|[]]; exact H|intros x []].
Qed.

Lemma ok_ret ck s Pf Pr : ok ck Return s Pf Pr <-> Pr s.
Proof.
  split.
  - intros (F & R & Hg & _ & HR). cbn [go] in Hg. injection Hg as <- <-. apply HR. left; reflexivity.
  - intro H. exists [], [s]. split; [reflexivity|]. split; [intros x []|intros x [<-|[]]; exact H].
Qed.

Lemma ok_ev ck e s Pf Pr : ok ck (Ev e) s Pf Pr <-> exists s', mon s e = Some s' /\ Pf s'.
Proof.
  split.
  - intros (F & R & Hg & HF & _). cbn [go] in Hg. destruct (mon s e) as [s'|]; [|discriminate].
    injection Hg as <- <-. exists s'. split; [reflexivity|]. apply HF. left; reflexivity.
  - intros (s' & Hm & H). exists [s'], []. cbn [go]. rewrite Hm. split; [reflexivity|]. split; [intros x [<-|[]]; exact H|intros x []].
Qed.

Lemma bind_complete F k (Pf Pr : mstate -> Prop) :
  (forall x, In x F -> exists f r, k x = Some (f, r) /\ (forall y, In y f -> Pf y) /\ (forall y, In y r -> Pr y)) ->
  exists F' R', bind F k = Some (F', R') /\ (forall y, In y F' -> Pf y) /\ (forall y, In y R' -> Pr y).
Proof.
  induction F as [|a F IH]; intro H.
  - exists [], []. split; [reflexivity|]. split; intros y [].
  - destruct (H a (or_introl eq_refl)) as (f1 & r1 & Hk & Hf1 & Hr1).
    destruct IH as (F2 & R2 & Hb & HF2 & HR2); [intros x Hx; apply H; right; exact Hx|].
    exists (union f1 F2), (union r1 R2). cbn [bind]. rewrite Hk, Hb. split; [reflexivity|]. split.
    + intros y Hy. apply union_In in Hy as [Hy|Hy]; auto.
    + intros y Hy. apply union_In in Hy as [Hy|Hy]; auto.
Qed.

Lemma ok_seq ck a b s Pf Pr :
  ok ck (Seq a b) s Pf Pr <-> ok ck a s (fun s1 => ok ck b s1 Pf Pr) Pr.
Proof.
  split.
  - intros (F & R & Hg & HF & HR). cbn [go] in Hg.
    destruct (go ck a s) as [[fa ra]|] eqn:Ha; [|discriminate].
    destruct (bind fa (go ck b)) as [[fb rb]|] eqn:Hb; [|discriminate]. injection Hg as <- <-.
    exists fa, ra. split; [exact Ha|]. split.
    + intros x Hx. destruct (bind_sound _ _ _ _ Hb x Hx) as (f & r & Hk & Hf & Hr).
      exists f, r. split; [exact Hk|]. split.
      * intros y Hy. apply HF, Hf, Hy.
      * intros y Hy. apply HR, union_In. right. apply Hr, Hy.
    + intros x Hx. apply HR, union_In. left. exact Hx.
  - intros (fa & ra & Ha & Hfa & Hra).
    destruct (bind_complete fa (go ck b) Pf Pr Hfa) as (fb & rb & Hb & Hfb & Hrb).
    exists fb, (union ra rb). cbn [go]. rewrite Ha, Hb. split; [reflexivity|]. split; [exact Hfb|].
    intros y Hy. apply union_In in Hy as [Hy|Hy]; auto.
Qed.

Lemma ok_if ck a b s Pf Pr : ok ck (If a b) s Pf Pr <-> ok ck a s Pf Pr /\ ok ck b s Pf Pr.
Proof.
  split.
  - intros (F & R & Hg & HF & HR). cbn [go] in Hg.
    destruct (go ck a s) as [[fa ra]|] eqn:Ha; [|discriminate].
    destruct (go ck b s) as [[fb rb]|] eqn:Hb; [|discriminate]. injection Hg as <- <-.
    split; [exists fa, ra; split; [exact Ha|]|exists fb, rb; split; [exact Hb|]]; split;
      intros x Hx; (apply HF || apply HR); apply union_In; auto.
  - intros [(fa & ra & Ha & Hfa & Hra) (fb & rb & Hb & Hfb & Hrb)].
    exists (union fa fb), (union ra rb). cbn [go]. rewrite Ha, Hb. split; [reflexivity|]. split;
      intros x Hx; apply union_In in Hx as [Hx|Hx]; auto.
Qed.

Lemma ok_loop ck b s Pf Pr :
  ok ck (Loop b) s Pf Pr -> Pf s /\ ok ck b s (fun s1 => ok ck (Loop b) s1 Pf Pr) Pr.
Proof.
  intros (F & R & Hg & HF & HR). pose proof Hg as Hg0. cbn [go] in Hg.
  destruct (go ck b s) as [[fb rb]|] eqn:Hb; [|discriminate].
  destruct (all_eq s fb) eqn:Hall; [|discriminate]. injection Hg as <- <-.
  split; [apply HF; left; reflexivity|].
  exists fb, rb. split; [exact Hb|]. split; [|exact HR].
  intros x Hx. rewrite (all_eq_sound _ _ Hall x Hx). exists [s], rb. split; [exact Hg0|]. split; assumption.
Qed.

Lemma ok_call fs n f s Pf Pr :
  ok (callk n fs) (Call f) s Pf Pr ->
  exists m b, n = S m /\ lookup fs f = Some b /\ ok (callk m fs) b s Pf Pf.
Proof.
  intros (F & R & Hg & HF & _). cbn [go] in Hg. destruct n as [|m]; cbn [callk] in Hg; [discriminate|].
  destruct (lookup fs f) as [b|]; [|discriminate].
  destruct (go (callk m fs) b s) as [[fb rb]|] eqn:Hb; [|discriminate]. injection Hg as <- <-.
  exists m, b. split; [reflexivity|]. split; [reflexivity|].
  exists fb, rb. split; [exact Hb|]. split; intros x Hx; apply HF, union_In; auto.
Qed.

Section SmallStep.
Variable fs : skeleton.

Definition seqs (k : frame) : sk := fold_right Seq Skip k.

(* every frame of the stack passes the checker from the current monitor state (innermost) resp. from every state
   in which the frames above it can hand back control *)
Fixpoint cfg_ok (c : config) (s : mstate) : Prop :=
  match c with
  | [] => True
  | k :: rest =>
      exists n, ok (callk n fs) (seqs k) s
                   (fun x => match rest with [] => ret_ok x = true | _ :: _ => cfg_ok rest x end)
                   (fun x => match rest with [] => ret_ok x = true | _ :: _ => cfg_ok rest x end)
  end.

Definition post (rest : config) (x : mstate) : Prop :=
  match rest with [] => ret_ok x = true | _ :: _ => cfg_ok rest x end.

Lemma cfg_ok_cons k rest s : cfg_ok (k :: rest) s <-> exists n, ok (callk n fs) (seqs k) s (post rest) (post rest).
Proof. reflexivity. Qed.

Lemma ret_ok_mon s : ret_ok s = true -> exists s', mon s EReturn = Some s'.
Proof. unfold ret_ok. destruct (mon s EReturn) as [s'|]; [exists s'; reflexivity|discriminate]. Qed.

Lemma sstep_sound c oe c' s : sstep fs c oe c' -> cfg_ok c s ->
  match oe with
  | None => cfg_ok c' s
  | Some e => exists s', mon s e = Some s' /\ cfg_ok c' s'
  end.
Proof.
  intros Hst. destruct Hst as [k st|e k st|a b k st|a b k st|a b k st|b k st|b k st|f b k st Hl|k k' st|k' st|k| ];
    rewrite ?cfg_ok_cons; cbn [seqs fold_right].
  - (* skip *) intros [n H]. exists n. apply -> ok_seq in H. apply -> ok_skip in H. exact H.
  - (* ev *) intros [n H]. apply -> ok_seq in H. apply -> ok_ev in H. destruct H as (s' & Hm & H).
    exists s'. split; [exact Hm|]. apply cfg_ok_cons. exists n. exact H.
  - (* seq *) intros [n H]. exists n. apply -> ok_seq in H. apply -> ok_seq in H. apply <- ok_seq.
    eapply ok_mono; [| |exact H]; [|auto]. intros x Hx. apply <- ok_seq. exact Hx.
  - (* if l *) intros [n H]. exists n. apply -> ok_seq in H. apply -> ok_if in H. destruct H as [H _]. apply <- ok_seq. exact H.
  - (* if r *) intros [n H]. exists n. apply -> ok_seq in H. apply -> ok_if in H. destruct H as [_ H]. apply <- ok_seq. exact H.
  - (* loop exit *) intros [n H]. exists n. apply -> ok_seq in H. apply ok_loop in H as [H _]. exact H.
  - (* loop iter *) intros [n H]. exists n. apply -> ok_seq in H. apply ok_loop in H as [_ H]. apply <- ok_seq.
    eapply ok_mono; [| |exact H]; [|auto]. intros x Hx. apply <- ok_seq. exact Hx.
  - (* call *) intros [n H]. apply -> ok_seq in H. apply ok_call in H as (m & b' & -> & Hl' & H).
    rewrite Hl in Hl'. injection Hl' as <-.
    exists m. apply <- ok_seq. eapply ok_mono; [| |exact H].
    + intros x Hx. apply <- ok_skip. cbn [post]. apply cfg_ok_cons. exists (S m). exact Hx.
    + intros x Hx. cbn [post]. apply cfg_ok_cons. exists (S m). exact Hx.
  - (* return inner *) intros [n H]. apply -> ok_seq in H. apply -> ok_ret in H. exact H.
  - (* end inner *) intros [n H]. apply -> ok_skip in H. exact H.
  - (* return api *) intros [n H]. apply -> ok_seq in H. apply -> ok_ret in H. cbn [post] in H.
    destruct (ret_ok_mon _ H) as (s' & Hm). exists s'. split; [exact Hm|exact I].
  - (* end api *) intros [n H]. apply -> ok_skip in H. cbn [post] in H.
    destruct (ret_ok_mon _ H) as (s' & Hm). exists s'. split; [exact Hm|exact I].
Qed.

Lemma ssteps_sound c t c' : ssteps fs c t c' -> forall s, cfg_ok c s ->
  exists s', run_mon s t = Some s' /\ cfg_ok c' s'.
Proof.
  induction 1 as [c|c c1 c2 t Hst _ IH|c e c1 c2 t Hst _ IH]; intros s Hok.
  - exists s. split; [reflexivity|exact Hok].
  - apply IH. exact (sstep_sound _ _ _ _ Hst Hok).
  - destruct (sstep_sound _ _ _ _ Hst Hok) as (s1 & Hm & Hok1).
    destruct (IH _ Hok1) as (s' & Hr & Hok'). exists s'. cbn [run_mon]. rewrite Hm. split; assumption.
Qed.

Lemma check_fun_cfg_ok f b : check_fun fs f = true -> lookup fs f = Some b -> cfg_ok [[b]] s0.
Proof.
  unfold check_fun. intros Hc Hl. rewrite Hl in Hc.
  destruct (exec call_depth fs b s0) as [[F R]|] eqn:He; [|discriminate].
  apply andb_true_iff in Hc as [HF HR]. rewrite forallb_forall in HF, HR.
  apply cfg_ok_cons. exists call_depth. cbn [seqs fold_right]. apply <- ok_seq.
  exists F, R. split; [exact He|]. split; [|exact HR].
  intros x Hx. apply <- ok_skip. cbn [post]. apply HF, Hx.
Qed.

(* SOUNDNESS (small-step form): every event of every partial execution of a checked API function is accepted *)
Theorem check_skeleton_sound_small_step :
  check_skeleton fs = true ->
  forall f b t c', In f api -> lookup fs f = Some b -> ssteps fs [[b]] t c' -> disciplined s0 t.
Proof.
  unfold check_skeleton. rewrite forallb_forall. intros H f b t c' Hf Hl Hs.
  destruct (ssteps_sound _ _ _ Hs s0 (check_fun_cfg_ok f b (H f Hf) Hl)) as (s' & Hr & _).
  eapply run_mon_disciplined; eassumption.
Qed.

End SmallStep.
