(* C05 / slabconc: the concurrent control model (definitions only; proofs in ConcProofs.v).

   An arbitrary thread pool (tid -> remaining micro-ops), an arbitrary scheduler (list tid); one step = one
   micro-op.  A lock step is disabled (stutters) while the mutex is held; "correct mutex" = this semantics.
   Each operation of a thread's script is the projection of a path-trace of the lock skeleton
   (Skeleton.v / Gen/SlabSkeleton.v) onto micro-ops:

       LockB i | UnlockB i | LockT | UnlockT | Body l | PolicyMap | PolicyUnmap | Policy f | Private | Ret

   What is abstracted: data.  A [MBody l] stands for any read/write of pool state protected by lock l
   (head_slb, partial_tree and hooks, available, num_reserved, free-object links of bucket i; _usedPages for
   LT); [MPrivate] for accesses to memory private to the thread (frame under construction, the block being
   handed out, read-only header fields).  The data layer is AllocModel.v. *)
From Coq Require Import List String Bool Arith Lia.
From FV Require Import SlabConc.Skeleton.
Import ListNotations.
Open Scope string_scope.
Open Scope list_scope.

Inductive lockid := LB (i : nat) | LT.

Definition lockid_eqb (a b : lockid) : bool :=
  match a, b with
  | LB i, LB j => Nat.eqb i j
  | LT, LT => true
  | _, _ => false
  end.

Inductive mop :=
| MLock (l : lockid)
| MUnlock (l : lockid)
| MBody (l : lockid)        (* an access to state protected by l *)
| MPolicy (f : string)      (* a policy callback *)
| MPrivate                  (* thread-private computation / memory *)
| MRet.                     (* the API call returns *)

Notation LockB i := (MLock (LB i)).
Notation UnlockB i := (MUnlock (LB i)).
Notation LockT := (MLock LT).
Notation UnlockT := (MUnlock LT).
Notation PolicyMap := (MPolicy "map").
Notation PolicyUnmap := (MPolicy "unmap").

(* ------------------------------------------------------------------------------------------------ *)
(* Projection of skeleton event traces to micro-ops                                                  *)
(* ------------------------------------------------------------------------------------------------ *)

(* idx k = the bucket index used by the k-th bucket-lock acquisition of the operation (realloc touches two
   buckets; the slow path of allocate acquires the same bucket twice).  Every assignment is allowed. *)
Definition lock_of (m : mtx) (idx : nat -> nat) (n : nat) : lockid :=
  match m with MB => LB (idx n) | MT => LT end.

Definition access_mop (s : mstate) (hl : option lockid) (f : string) (obj : string) : mop :=
  match field_class f with
  | Some PBucket => match hl with Some l => MBody l | None => MBody (LB 0) end
  | Some PSlab | Some PObj =>
      if mem obj (priv s) then MPrivate
      else match hl with Some l => MBody l | None => MBody (LB 0) end
  | Some PTree => MBody LT
  | Some PHeader => MPrivate
  | None => MBody LT
  end.

Fixpoint project (idx : nat -> nat) (n : nat) (s : mstate) (hl : option lockid) (tr : list ev) : list mop :=
  match tr with
  | [] => []
  | e :: r =>
      let s' := match mon s e with Some x => x | None => s end in
      match e with
      | ELock g m =>
          let l := lock_of m idx n in
          MLock l :: project idx (match m with MB => S n | MT => n end) s' (Some l) r
      | EUnlock g =>
          match hl with
          | Some l => MUnlock l :: project idx n s' None r
          | None => MUnlock LT :: project idx n s' None r
          end
      | EScopeEnd g =>
          match held s, hl with
          | Some (g', _), Some l =>
              if String.eqb g g' then MUnlock l :: project idx n s' None r else project idx n s' hl r
          | _, _ => project idx n s' hl r
          end
      | EPolicy f => MPolicy f :: project idx n s' hl r
      | EAccess f md obj => access_mop s hl f obj :: project idx n s' hl r
      | EFresh _ | EAlias _ _ | EStore _ _ => project idx n s' hl r
      | EReturn => MRet :: project idx n s' hl r
      end
  end.

Definition project_api (idx : nat -> nat) (tr : list ev) : list mop := project idx 0 s0 None tr.

(* ------------------------------------------------------------------------------------------------ *)
(* Lock discipline on micro-op programs                                                              *)
(* ------------------------------------------------------------------------------------------------ *)

Definition mstep (h : option lockid) (m : mop) : option (option lockid) :=
  match m, h with
  | MLock l, None => Some (Some l)
  | MLock _, Some _ => None
  | MUnlock l, Some l' => if lockid_eqb l l' then Some None else None
  | MUnlock _, None => None
  | MBody l, Some l' => if lockid_eqb l l' then Some h else None
  | MBody _, None => None
  | MPolicy _, None => Some None
  | MPolicy _, Some _ => None
  | MPrivate, _ => Some h
  | MRet, None => Some None
  | MRet, Some _ => None
  end.

Fixpoint mrun (h : option lockid) (p : list mop) : option (option lockid) :=
  match p with
  | [] => Some h
  | m :: r => match mstep h m with Some h' => mrun h' r | None => None end
  end.

(* a program is disciplined from h: every micro-op is allowed in the state before it, and it ends holding
   no lock *)
Definition mdisc (h : option lockid) (p : list mop) : bool :=
  match mrun h p with Some None => true | _ => false end.

(* ------------------------------------------------------------------------------------------------ *)
(* The thread pool                                                                                   *)
(* ------------------------------------------------------------------------------------------------ *)

Definition tid := nat.

Record state := ST {
  owner : lockid -> option tid;        (* the mutexes *)
  rest : tid -> list mop;              (* remaining micro-ops of each thread (its whole script) *)
  hold : tid -> option lockid          (* ghost: what the thread believes it holds (never read by [step]) *)
}.

Definition updl {A} (f : lockid -> A) (l : lockid) (v : A) : lockid -> A :=
  fun x => if lockid_eqb x l then v else f x.
Definition updt {A} (f : tid -> A) (t : tid) (v : A) : tid -> A :=
  fun x => if Nat.eqb x t then v else f x.

Definition init (prog : tid -> list mop) : state :=
  ST (fun _ => None) prog (fun _ => None).

(* one step of thread t; a disabled or finished thread stutters *)
Definition step (s : state) (t : tid) : state :=
  match rest s t with
  | [] => s
  | MLock l :: r =>
      match owner s l with
      | None => ST (updl (owner s) l (Some t)) (updt (rest s) t r) (updt (hold s) t (Some l))
      | Some _ => s                                   (* blocked *)
      end
  | MUnlock l :: r => ST (updl (owner s) l None) (updt (rest s) t r) (updt (hold s) t None)
  | _ :: r => ST (owner s) (updt (rest s) t r) (hold s)
  end.

Definition run (sched : list tid) (s : state) : state := fold_left step sched s.

Definition enabled (s : state) (t : tid) : Prop :=
  match rest s t with
  | [] => False
  | MLock l :: _ => owner s l = None
  | _ => True
  end.

Definition at_body (s : state) (t : tid) (l : lockid) : Prop := exists r, rest s t = MBody l :: r.
Definition at_policy (s : state) (t : tid) (f : string) : Prop := exists r, rest s t = MPolicy f :: r.
Definition at_ret (s : state) (t : tid) : Prop := exists r, rest s t = MRet :: r.
Definition holds_lock (s : state) (t : tid) (l : lockid) : Prop := owner s l = Some t.

(* number of own steps after which the thread has released what it holds: position of the next MUnlock *)
Fixpoint to_unlock (p : list mop) : nat :=
  match p with
  | [] => 0
  | MUnlock _ :: _ => 1
  | _ :: r => S (to_unlock r)
  end.
