(* Soundness of the skeleton checker (SlabConc/Skeleton.v):
     check_skeleton fs = true  ->  for every API function f and every path-trace tr of f (big-step [api_trace]
     or any partial small-step execution [ssteps]) the discipline monitor accepts every event of tr. *)
From Coq Require Import List String Bool Arith Lia.
From FV Require Import SlabConc.Skeleton.
Import ListNotations.
Open Scope string_scope.
Open Scope list_scope.

(* ---- the monitor on concatenated traces ---- *)

Lemma run_mon_app s t1 t2 :
  run_mon s (t1 ++ t2) = match run_mon s t1 with Some s' => run_mon s' t2 | None => None end.
Proof.
  revert s; induction t1 as [|e t1 IH]; intro s; cbn [run_mon app]; [reflexivity|].
  destruct (mon s e) as [s'|]; [apply IH|reflexivity].
Qed.

Lemma run_mon_disciplined s tr s' : run_mon s tr = Some s' -> disciplined s tr.
Proof.
  intros Hrun pre e post ->.
  rewrite run_mon_app in Hrun.
  destruct (run_mon s pre) as [s1|] eqn:Hpre; [|discriminate].
  cbn [run_mon] in Hrun.
  destruct (mon s1 e) as [s2|] eqn:He; [|discriminate].
  exists s1, s2; split; [reflexivity|assumption].
Qed.

Lemma disciplined_run_mon s tr : disciplined s tr -> exists s', run_mon s tr = Some s'.
Proof.
  revert s; induction tr as [|e tr IH] using rev_ind; intros s H.
  - exists s; reflexivity.
  - destruct (H tr e [] eq_refl) as (s1 & s2 & H1 & H2).
    exists s2. rewrite run_mon_app, H1. cbn [run_mon]. rewrite H2. reflexivity.
Qed.

(* ---- state sets ---- *)

Lemma union_In x a b : In x (union a b) <-> In x a \/ In x b.
Proof. unfold union. rewrite nodup_In, in_app_iff. tauto. Qed.

Lemma all_eq_sound s l : all_eq s l = true -> forall x, In x l -> x = s.
Proof.
  unfold all_eq. rewrite forallb_forall. intros H x Hx. specialize (H x Hx).
  destruct (mstate_eq_dec x s); [assumption|discriminate].
Qed.

Lemma bind_sound F k F' R' :
  bind F k = Some (F', R') ->
  forall s, In s F -> exists f r, k s = Some (f, r) /\ incl f F' /\ incl r R'.
Proof.
  revert F' R'; induction F as [|x F IH]; intros F' R' Hb s Hs; [destruct Hs|].
  cbn [bind] in Hb.
  destruct (k x) as [[f1 r1]|] eqn:Hk; [|discriminate].
  destruct (bind F k) as [[f2 r2]|] eqn:Hb2; [|discriminate].
  injection Hb as <- <-.
  destruct Hs as [->|Hs].
  - exists f1, r1. split; [assumption|]. split; intros y Hy; apply union_In; left; assumption.
  - destruct (IH _ _ eq_refl s Hs) as (f & r & Hks & Hf & Hr).
    exists f, r. split; [assumption|]. split; intros y Hy; apply union_In; right; auto.
Qed.

(* ---- big-step soundness ---- *)

Section Sound.
Variable fs : skeleton.

Definition ck_sound (ck : string -> mstate -> result) : Prop :=
  forall f s F R, ck f s = Some (F, R) ->
  forall b t o, lookup fs f = Some b -> paths fs b t o ->
  exists s', run_mon s t = Some s' /\ In s' F.

Lemma go_sound ck : ck_sound ck ->
  forall c t o, paths fs c t o ->
  forall s F R, go ck c s = Some (F, R) ->
  exists s', run_mon s t = Some s' /\ match o with Fall => In s' F | Ret => In s' R end.
Proof.
  intros Hck c t o Hp.
  induction Hp as [ | e | a b t Ha IHa | a b t1 t2 o Ha IHa Hb IHb | a b t o Ha IHa | a b t o Hb IHb
                  | b | b t Hb IHb | b t1 t2 o Hb IHb Hl IHl | | f b t o Hf Hb IHb ];
    intros s F R Hgo; cbn [go] in Hgo.
  - injection Hgo as <- <-. exists s. split; [reflexivity|left; reflexivity].
  - destruct (mon s e) as [s'|] eqn:He; [|discriminate]. injection Hgo as <- <-.
    exists s'. cbn [run_mon]. rewrite He. split; [reflexivity|left; reflexivity].
  - destruct (go ck a s) as [[fa ra]|] eqn:Hga; [|discriminate].
    destruct (bind fa (go ck b)) as [[fb rb]|] eqn:Hbd; [|discriminate]. injection Hgo as <- <-.
    destruct (IHa _ _ _ Hga) as (s' & Hr & Hin). exists s'. split; [assumption|].
    apply union_In; left; assumption.
  - destruct (go ck a s) as [[fa ra]|] eqn:Hga; [|discriminate].
    destruct (bind fa (go ck b)) as [[fb rb]|] eqn:Hbd; [|discriminate]. injection Hgo as <- <-.
    destruct (IHa _ _ _ Hga) as (s1 & Hr1 & Hin1).
    destruct (bind_sound _ _ _ _ Hbd s1 Hin1) as (f & r & Hk & Hf & Hr).
    destruct (IHb _ _ _ Hk) as (s2 & Hr2 & Hin2).
    exists s2. rewrite run_mon_app, Hr1. split; [assumption|].
    destruct o; [apply Hf; assumption|apply union_In; right; apply Hr; assumption].
  - destruct (go ck a s) as [[fa ra]|] eqn:Hga; [|discriminate].
    destruct (go ck b s) as [[fb rb]|] eqn:Hgb; [|discriminate]. injection Hgo as <- <-.
    destruct (IHa _ _ _ Hga) as (s' & Hr & Hin). exists s'. split; [assumption|].
    destruct o; apply union_In; left; assumption.
  - destruct (go ck a s) as [[fa ra]|] eqn:Hga; [|discriminate].
    destruct (go ck b s) as [[fb rb]|] eqn:Hgb; [|discriminate]. injection Hgo as <- <-.
    destruct (IHb _ _ _ Hgb) as (s' & Hr & Hin). exists s'. split; [assumption|].
    destruct o; apply union_In; right; assumption.
  - destruct (go ck b s) as [[fb rb]|] eqn:Hgb; [|discriminate].
    destruct (all_eq s fb) eqn:Hall; [|discriminate]. injection Hgo as <- <-.
    exists s. split; [reflexivity|left; reflexivity].
  - destruct (go ck b s) as [[fb rb]|] eqn:Hgb; [|discriminate].
    destruct (all_eq s fb) eqn:Hall; [|discriminate]. injection Hgo as <- <-.
    destruct (IHb _ _ _ Hgb) as (s' & Hr & Hin). exists s'. split; assumption.
  - destruct (go ck b s) as [[fb rb]|] eqn:Hgb; [|discriminate].
    destruct (all_eq s fb) eqn:Hall; [|discriminate]. injection Hgo as <- <-.
    destruct (IHb _ _ _ Hgb) as (s1 & Hr1 & Hin1).
    assert (s1 = s) as -> by (eapply all_eq_sound; eassumption).
    assert (Hgo' : go ck (Loop b) s = Some ([s], rb)) by (cbn [go]; rewrite Hgb, Hall; reflexivity).
    destruct (IHl _ _ _ Hgo') as (s2 & Hr2 & Hin2).
    exists s2. rewrite run_mon_app, Hr1. split; assumption.
  - injection Hgo as <- <-. exists s. split; [reflexivity|left; reflexivity].
  - destruct (Hck _ _ _ _ Hgo _ _ _ Hf Hb) as (s' & Hr & Hin). exists s'. split; assumption.
Qed.

Lemma callk_sound fuel : ck_sound (callk fuel fs).
Proof.
  induction fuel as [|n IH]; intros f s F R Hc b t o Hf Hp; cbn [callk] in Hc; [discriminate|].
  rewrite Hf in Hc.
  destruct (go (callk n fs) b s) as [[fb rb]|] eqn:Hg; [|discriminate]. injection Hc as <- <-.
  destruct (go_sound _ IH _ _ _ Hp _ _ _ Hg) as (s' & Hr & Hin).
  exists s'. split; [assumption|]. apply union_In. destruct o; [left|right]; assumption.
Qed.

Lemma exec_sound fuel c s F R t o :
  exec fuel fs c s = Some (F, R) -> paths fs c t o ->
  exists s', run_mon s t = Some s' /\ match o with Fall => In s' F | Ret => In s' R end.
Proof. intros He Hp. eapply go_sound; [apply callk_sound|eassumption|exact He]. Qed.

Lemma check_fun_sound f tr :
  check_fun fs f = true -> api_trace fs f tr -> exists s', run_mon s0 tr = Some s'.
Proof.
  unfold check_fun. intros Hc (b & t & o & Hf & Hp & ->). rewrite Hf in Hc.
  destruct (exec call_depth fs b s0) as [[F R]|] eqn:He; [|discriminate].
  apply andb_true_iff in Hc as [HF HR]. rewrite forallb_forall in HF, HR.
  destruct (exec_sound _ _ _ _ _ _ _ He Hp) as (s' & Hr & Hin).
  assert (Hok : ret_ok s' = true) by (destruct o; [apply HF|apply HR]; assumption).
  unfold ret_ok in Hok. destruct (mon s' EReturn) as [s''|] eqn:Hm; [|discriminate].
  exists s''. rewrite run_mon_app, Hr. cbn [run_mon]. rewrite Hm. reflexivity.
Qed.

(* SOUNDNESS (big-step form) *)
Theorem check_skeleton_sound :
  check_skeleton fs = true ->
  forall f tr, In f api -> api_trace fs f tr -> disciplined s0 tr.
Proof.
  unfold check_skeleton. rewrite forallb_forall. intros H f tr Hf Ht.
  destruct (check_fun_sound f tr (H f Hf) Ht) as (s' & Hr).
  eapply run_mon_disciplined; eassumption.
Qed.

End Sound.
