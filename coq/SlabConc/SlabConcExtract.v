From FV Require Import Common.ExtractTypes SlabConc.Skeleton SlabConc.Shapes Gen.SlabSkeleton.
From FV Require Import Slab.SlabModel SlabConc.ConcSlabModel SlabConc.ConcSlabCheck.
From Coq Require Extraction.
From Coq Require Import ExtrOcamlBasic.
Extraction "../build/extract/slabconc_model.ml" types_witness api actual check_skeleton check_fun shapes
  cshapes cmodel_paths cmodel_paths_realloc.
(* the concrete concurrent model (no Coq strings in it: built with vlib.ocaml_build + comp/slabconc/cdriver.ml) *)
Extraction "../build/extract/slabconc_cmodel.ml" types_witness cinit cstep step_okb lock_of unlock_of
  idle_done cfg_ok.
