From FV Require Import Common.ExtractTypes SlabConc.Skeleton SlabConc.Shapes Gen.SlabSkeleton.
From Coq Require Extraction.
From Coq Require Import ExtrOcamlBasic.
Extraction "../build/extract/slabconc_model.ml" types_witness api actual check_skeleton check_fun shapes.
