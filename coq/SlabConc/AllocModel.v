(* C05 / slabconc: the abstract allocator under concurrency (data layer; definitions only).

   Threads run scripts of API operations (AAlloc / AFree); which path an allocate takes is decided AT RUN TIME by
   the data it reads under the bucket lock, and the micro-steps follow the lock shapes of the skeleton
   (fast path: LockB, read, write, UnlockB; slow path: LockB, read, UnlockB, PolicyMap, private pop, LockT,
   read, write, UnlockT, LockB, read, write, UnlockB; free: LockB, read, write, UnlockB).
   Every access to shared state is a separate step and every read-modify-write of a lock-protected location is
   SPLIT into a read into a thread-local snapshot and a later write computed from the snapshot -- so that, without
   the locks, two threads could pop the same object (double hand-out) or lose an update of the page counter; the
   model can express the failure the property excludes.

   Abstracted: a bucket's free objects across all of its slabs are one list avail i (their lock is the same);
   blocks are abstract names (bucket, serial); Policy::map returns fresh names (policy_ok of C01/C03); frame
   headers, poisoning, large blocks and the partial tree's order are not represented (C01-C04 / C06). *)
From Coq Require Import List String Bool Arith Lia.
From FV Require Import SlabConc.ConcModel.
Import ListNotations.
Open Scope string_scope.
Open Scope list_scope.

Definition block := (nat * nat)%type.          (* (bucket index, serial number) *)

Definition block_eq_dec (a b : block) : {a = b} + {a <> b}.
Proof. decide equality; apply Nat.eq_dec. Defined.

Inductive aop :=
| AAlloc (i : nat) (mapok : bool) (k : nat)    (* allocate from class i; if a slab is needed, map succeeds iff mapok
                                                  and the slab has k+1 objects *)
| AFree (b : block).                           (* free(b): precondition b is live and owned by the caller *)

Inductive pcs :=
| Idle
| A0 (i : nat) (ok : bool) (k : nat)   (* about to LockB i *)
| A1 (i : nat) (ok : bool) (k : nat)   (* holds LB i: read head_slb / available *)
| A2 (i : nat)                         (* holds LB i: write available (pop) *)
| A3 (i : nat)                         (* holds LB i: unlock *)
| ARet                                 (* return the block (or null) to the caller *)
| S0 (i : nat) (ok : bool) (k : nat)   (* holds LB i, class empty: unlock before calling the policy *)
| S1 (i : nat) (ok : bool) (k : nat)   (* no lock: Policy::map *)
| S2 (i : nat)                         (* private slab: pop one object *)
| S3 (i : nat)                         (* about to LockT *)
| S4 (i : nat)                         (* holds LT: read _usedPages *)
| S5 (i : nat)                         (* holds LT: write _usedPages *)
| S6 (i : nat)                         (* holds LT: unlock *)
| S7 (i : nat)                         (* about to LockB i again *)
| S8 (i : nat)                         (* holds LB i: read the bucket *)
| S9 (i : nat)                         (* holds LB i: attach the slab (write) *)
| F1 (i : nat)                         (* about to LockB i *)
| F2 (i : nat)                         (* holds LB i: read available *)
| F3 (i : nat)                         (* holds LB i: write available (push) *)
| F4 (i : nat).                        (* holds LB i: unlock *)

Inductive hev := HAlloc (t : tid) (b : block) | HFree (t : tid) (b : block).

Record tstate := TS {
  pc : pcs;
  snap : list block;        (* snapshot of avail i taken under the lock *)
  usnap : nat;              (* snapshot of the page counter *)
  slab : list block;        (* free objects of a slab under construction (private) *)
  cur : option block;       (* the object being handed out / freed *)
  mine : list block;        (* blocks this thread owns (returned to it, not freed since) *)
  todo : list aop
}.

Record astate := AS {
  aowner : lockid -> option tid;
  avail : nat -> list block;
  used : nat;               (* _usedPages in units of slabs *)
  acc : nat;                (* ghost: number of accounting updates performed *)
  next : nat;               (* policy: next fresh serial *)
  hist : list hev;          (* ghost: commit log, newest first *)
  thr : tid -> tstate
}.

Definition set_pc (ts : tstate) (p : pcs) : tstate := TS p (snap ts) (usnap ts) (slab ts) (cur ts) (mine ts) (todo ts).

Definition ainit (scripts : tid -> list aop) : astate :=
  AS (fun _ => None) (fun _ => []) 0 0 0 [] (fun t => TS Idle [] 0 [] None [] (scripts t)).

Definition with_thr (s : astate) (t : tid) (ts : tstate) : astate :=
  AS (aowner s) (avail s) (used s) (acc s) (next s) (hist s) (updt (thr s) t ts).

Definition try_lock (s : astate) (t : tid) (l : lockid) (p : pcs) : astate :=
  match aowner s l with
  | None => AS (updl (aowner s) l (Some t)) (avail s) (used s) (acc s) (next s) (hist s)
               (updt (thr s) t (set_pc (thr s t) p))
  | Some _ => s                                        (* blocked: stutter *)
  end.

Definition unlock (s : astate) (t : tid) (l : lockid) (p : pcs) : astate :=
  AS (updl (aowner s) l None) (avail s) (used s) (acc s) (next s) (hist s) (updt (thr s) t (set_pc (thr s t) p)).

Definition opt_list {A} (o : option A) : list A := match o with Some x => [x] | None => [] end.

Definition fresh_slab (i n k : nat) : list block := map (fun j => (i, n + j)) (seq 0 (S k)).

Definition astep (s : astate) (t : tid) : astate :=
  let ts := thr s t in
  match pc ts with
  | Idle =>
      match todo ts with
      | [] => s
      | AAlloc i ok k :: r => with_thr s t (TS (A0 i ok k) (snap ts) (usnap ts) (slab ts) (cur ts) (mine ts) r)
      | AFree b :: r =>
          if in_dec block_eq_dec b (mine ts)
          then AS (aowner s) (avail s) (used s) (acc s) (next s) (HFree t b :: hist s)
                  (updt (thr s) t (TS (F1 (fst b)) (snap ts) (usnap ts) (slab ts) (Some b)
                                      (remove block_eq_dec b (mine ts)) r))
          else with_thr s t (TS Idle (snap ts) (usnap ts) (slab ts) (cur ts) (mine ts) r)   (* not ours: outside the API contract, skipped *)
      end
  | A0 i ok k => try_lock s t (LB i) (A1 i ok k)
  | A1 i ok k =>
      match avail s i with
      | [] => with_thr s t (set_pc ts (S0 i ok k))
      | _ :: _ => with_thr s t (TS (A2 i) (avail s i) (usnap ts) (slab ts) (cur ts) (mine ts) (todo ts))
      end
  | A2 i =>
      AS (aowner s) (updt (avail s) i (tl (snap ts))) (used s) (acc s) (next s) (hist s)
         (updt (thr s) t (TS (A3 i) (snap ts) (usnap ts) (slab ts) (hd_error (snap ts)) (mine ts) (todo ts)))
  | A3 i => unlock s t (LB i) ARet
  | ARet =>
      AS (aowner s) (avail s) (used s) (acc s) (next s)
         (match cur ts with Some b => HAlloc t b :: hist s | None => hist s end)
         (updt (thr s) t (TS Idle (snap ts) (usnap ts) (slab ts) None (opt_list (cur ts) ++ mine ts) (todo ts)))
  | S0 i ok k => unlock s t (LB i) (S1 i ok k)
  | S1 i ok k =>
      if ok
      then AS (aowner s) (avail s) (used s) (acc s) (next s + S k) (hist s)
              (updt (thr s) t (TS (S2 i) (snap ts) (usnap ts) (fresh_slab i (next s) k) (cur ts) (mine ts) (todo ts)))
      else with_thr s t (TS ARet (snap ts) (usnap ts) (slab ts) None (mine ts) (todo ts))
  | S2 i => with_thr s t (TS (S3 i) (snap ts) (usnap ts) (tl (slab ts)) (hd_error (slab ts)) (mine ts) (todo ts))
  | S3 i => try_lock s t LT (S4 i)
  | S4 i => with_thr s t (TS (S5 i) (snap ts) (used s) (slab ts) (cur ts) (mine ts) (todo ts))
  | S5 i =>
      AS (aowner s) (avail s) (S (usnap ts)) (S (acc s)) (next s) (hist s) (updt (thr s) t (set_pc ts (S6 i)))
  | S6 i => unlock s t LT (S7 i)
  | S7 i => try_lock s t (LB i) (S8 i)
  | S8 i => with_thr s t (TS (S9 i) (avail s i) (usnap ts) (slab ts) (cur ts) (mine ts) (todo ts))
  | S9 i =>
      AS (aowner s) (updt (avail s) i (slab ts ++ snap ts)) (used s) (acc s) (next s) (hist s)
         (updt (thr s) t (TS (A3 i) (snap ts) (usnap ts) [] (cur ts) (mine ts) (todo ts)))
  | F1 i => try_lock s t (LB i) (F2 i)
  | F2 i => with_thr s t (TS (F3 i) (avail s i) (usnap ts) (slab ts) (cur ts) (mine ts) (todo ts))
  | F3 i =>
      AS (aowner s) (updt (avail s) i (opt_list (cur ts) ++ snap ts)) (used s) (acc s) (next s) (hist s)
         (updt (thr s) t (TS (F4 i) (snap ts) (usnap ts) (slab ts) None (mine ts) (todo ts)))
  | F4 i => unlock s t (LB i) Idle
  end.

Definition arun (sched : list tid) (s : astate) : astate := fold_left astep sched s.

(* which lock a thread holds, as a function of its pc *)
Definition lock_of_pc (p : pcs) : option lockid :=
  match p with
  | A1 i _ _ | A2 i | A3 i | S0 i _ _ | S8 i | S9 i | F2 i | F3 i | F4 i => Some (LB i)
  | S4 _ | S5 _ | S6 _ => Some LT
  | _ => None
  end.

(* the micro-op the thread performs next (the tie to the control model / the skeleton's lock shapes) *)
Definition mop_of_pc (p : pcs) : option mop :=
  match p with
  | Idle => None
  | A0 i _ _ | S7 i | F1 i => Some (MLock (LB i))
  | A1 i _ _ | A2 i | S8 i | S9 i | F2 i | F3 i => Some (MBody (LB i))
  | A3 i | S0 i _ _ | F4 i => Some (MUnlock (LB i))
  | ARet => Some MRet
  | S1 _ _ _ => Some (MPolicy "map")
  | S2 _ => Some MPrivate
  | S3 _ => Some (MLock LT)
  | S4 _ | S5 _ => Some (MBody LT)
  | S6 _ => Some (MUnlock LT)
  end.

(* blocks a thread holds privately: owned blocks, the object in transit, the slab under construction *)
Definition hb (ts : tstate) : list block := opt_list (cur ts) ++ slab ts ++ mine ts.

(* the abstract allocator: a history is legal if every allocation hands out a block that is not live and every
   free releases a live block *)
Fixpoint live (h : list hev) : list block :=
  match h with
  | [] => []
  | HAlloc _ b :: r => b :: live r
  | HFree _ b :: r => remove block_eq_dec b (live r)
  end.

Fixpoint legal (h : list hev) : Prop :=
  match h with
  | [] => True
  | HAlloc _ b :: r => ~ In b (live r) /\ legal r
  | HFree _ b :: r => In b (live r) /\ legal r
  end.

(* without the locks the same step function DOES hand a block out twice: a lock() that does not exclude anybody
   (used only by the Example in Props/Properties_C05.v that shows the theorem is not vacuous) *)
Definition astep_nolock (s : astate) (t : tid) : astate :=
  match pc (thr s t) with
  | A0 i ok k => with_thr s t (set_pc (thr s t) (A1 i ok k))
  | _ => astep s t
  end.

(* the pc paths of the data model and their observable lock shapes (compared with Shapes.shapes of the generated
   skeleton by the obligation skeleton_matches_model) *)
Definition obs_of_mop (m : mop) : list string :=
  match m with
  | MLock (LB _) => ["LB"] | MUnlock (LB _) => ["UB"] | MLock LT => ["LT"] | MUnlock LT => ["UT"]
  | MPolicy f => [String.append "P:" f]
  | _ => []
  end.

Definition shape_of_path (p : list pcs) : list string :=
  flat_map (fun q => match mop_of_pc q with Some m => obs_of_mop m | None => [] end) p.

Definition model_paths : list (string * list pcs) :=
  [ ("allocate", [A0 0 true 0; A1 0 true 0; A2 0; A3 0; ARet]);                                  (* fast path *)
    ("allocate", [A0 0 true 0; A1 0 true 0; S0 0 true 0; S1 0 true 0; S2 0; S3 0; S4 0; S5 0; S6 0; S7 0; S8 0; S9 0; A3 0; ARet]);
    ("allocate", [A0 0 false 0; A1 0 false 0; S0 0 false 0; S1 0 false 0; ARet]);               (* map fails: return nullptr *)
    ("free", [F1 0; F2 0; F3 0; F4 0]);
    ("deallocate", [F1 0; F2 0; F3 0; F4 0]) ].

(* witnesses for the Examples of Props/Properties_C05.v: three threads allocate from class 3; thread 0 runs first
   (maps a slab of three objects, keeps one), then threads 1 and 2 interleave step by step *)
Definition ex_scripts (t : tid) : list aop :=
  match t with 0 | 1 | 2 => [AAlloc 3 true 2] | _ => [] end.
Definition ex_first : list tid := repeat 0 16.
Definition ex_racy : list tid := [1; 2; 1; 2; 1; 2; 1; 2; 1; 2; 1; 2; 1; 2].
