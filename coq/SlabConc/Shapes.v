(* C05 / slabconc: observable lock shapes of the skeleton (executable, extracted).

   The instrumented mutex + policy of comp/slabconc/harness.cpp log, per API call, the sequence of
       LB UB (bucket mutex lock/unlock)   LT UT (_tree_mutex)   P:<callback>
   with identical consecutive callbacks collapsed.  [shapes fs f] computes the set of such words over all paths
   of the skeleton of f (calls inlined, loops unrolled 0, 1 and 2 times, which is exhaustive modulo the collapse
   when a loop body emits at most one distinct observable).  The check requires every logged word to be in the
   set: the single-threaded lock/unlock/policy log of every API call equals a path-trace of the generated
   skeleton (modulo the run-length collapse).  ShapesSound.v proves that every word of [shapes fs f] is the
   observation of a genuine path-trace of f. *)


From Coq Require Import List String Bool Arith.
From FV Require Import SlabConc.Skeleton.
Import ListNotations.
Open Scope string_scope.
Open Scope list_scope.

Definition hst := option (string * mtx).
Definition word := list string.          (* REVERSED: most recent observable first *)
Definition sst := (word * hst)%type.

Definition is_policy (o : string) : bool := String.prefix "P:" o.

Definition push (o : string) (w : word) : word :=
  match w with
  | x :: _ => if String.eqb x o && is_policy o then w else o :: w
  | [] => [o]
  end.

Definition kind (m : mtx) : string := match m with MB => "B" | MT => "T" end.

(* observable of one event, and the new guard state *)
Definition obs_ev (e : ev) (st : sst) : sst :=
  let (w, h) := st in
  match e with
  | ELock g m => (push ("L" ++ kind m) w, Some (g, m))
  | EUnlock g =>
      match h with
      | Some (_, m) => (push ("U" ++ kind m) w, None)
      | None => (push "U?" w, None)
      end
  | EScopeEnd g =>
      match h with
      | Some (g', m) => if String.eqb g g' then (push ("U" ++ kind m) w, None) else st
      | None => st
      end
  | EPolicy f => (push ("P:" ++ f) w, h)
  | _ => st
  end.

Definition sst_eq_dec (a b : sst) : {a = b} + {a <> b}.
Proof. repeat decide equality. Defined.

Definition sunion (a b : list sst) : list sst := nodup sst_eq_dec (a ++ b).

Fixpoint sbind (F : list sst) (k : sst -> list sst * list sst) : list sst * list sst :=
  match F with
  | [] => ([], [])
  | s :: r => let (f1, r1) := k s in let (f2, r2) := sbind r k in (sunion f1 f2, sunion r1 r2)
  end.

Fixpoint sgo (ck : string -> sst -> list sst) (c : sk) (st : sst) {struct c} : list sst * list sst :=
  match c with
  | Skip => ([st], [])
  | Ev e => ([obs_ev e st], [])
  | Seq a b =>
      let (fa, ra) := sgo ck a st in
      let (fb, rb) := sbind fa (sgo ck b) in
      (fb, sunion ra rb)
  | If a b =>
      let (fa, ra) := sgo ck a st in
      let (fb, rb) := sgo ck b st in
      (sunion fa fb, sunion ra rb)
  | Loop b =>
      let (f1, r1) := sgo ck b st in
      let (f2, r2) := sbind f1 (sgo ck b) in
      (sunion [st] (sunion f1 f2), sunion r1 r2)
  | Return => ([], [st])
  | Call f => (ck f st, [])
  end.

Fixpoint scall (fuel : nat) (fs : skeleton) (f : string) (st : sst) {struct fuel} : list sst :=
  match fuel with
  | 0 => []                                    (* out of fuel: no shape (every logged call then mismatches) *)
  | S n =>
      match lookup fs f with
      | Some b => let (fb, rb) := sgo (scall n fs) b st in sunion fb rb
      | None => []
      end
  end.

Definition shapes (fs : skeleton) (f : string) : list (list string) :=
  nodup (list_eq_dec string_dec)
        (map (fun st : sst => rev (fst st)) (scall (S call_depth) fs f ([], None))).

(* the observation of a whole event trace *)
Definition obs_run (st : sst) (t : list ev) : sst := fold_left (fun st e => obs_ev e st) t st.
