(* C05 / slabconc over the concrete pool: the segments of one call, run to completion without interference, ARE
   SlabModel.step -- same state, same result, same callback list.  (Holds in every state, not only under the
   invariant: the UB / FRG_ASSERT outcomes agree as well.)  This is what makes the sequential correspondence of
   comp/slab (exact addresses, policy log, dumps) a validation of the bodies used here. *)
From Coq Require Import List NArith Bool Lia.
From FV Require Import SlabConc.ConcModel Slab.SlabModel SlabConc.ConcSlabModel.
Import ListNotations.
Local Open Scope N_scope.

Fixpoint diter (c : cfg) (k : nat) (s : state) (th : cthread) : state * cthread :=
  match k with
  | O => (s, th)
  | S k' => let '(s', th') := dstep c s th in diter c k' s' th'
  end.

Lemma diter_app c a b s th :
  diter c (a + b) s th = let '(s1, th1) := diter c a s th in diter c b s1 th1.
Proof.
  revert s th. induction a as [|a IH]; intros s th; cbn [Nat.add diter]; [reflexivity|].
  destruct (dstep c s th) as [s' th']. apply IH.
Qed.

Ltac norm_app := unfold goto, finish; cbn [pc todo acc outs]; rewrite <- ?app_assoc; rewrite ?app_nil_r; cbn [app]; rewrite <- ?app_assoc; cbn [app].

(* ---------- allocate ---------- *)
Lemma solo_alloc c s n e k td ac ou :
  exists j, (j <= 12)%nat /\
    diter c j s (mkThr (PA (a_entry c n e) k) td ac ou)
    = (st_of (alloc c s n e),
       mkThr (PA (ARet (res_of (alloc c s n e))) k) td (ac ++ cbs_of (alloc c s n e)) ou).
Proof.
  unfold a_entry, alloc. set (n' := if n =? 0 then 1 else n).
  destruct (n' <=? max_bucket_size c).
  - destruct (negb (s2b n' <=? nbuckets c)).
    + exists 0%nat. split; [lia|]. cbn. rewrite app_nil_r. reflexivity.
    + set (idx := s2b n'). unfold alloc_small at 1 2 3. destruct (bucket s idx) as [|h t] eqn:Hb.
      * (* slow path *)
        destruct (env_ret e =? 0) eqn:He.
        { exists 4%nat. split; [lia|]. cbn [diter dstep pc astep goto todo acc outs]. rewrite Hb.
          cbn [diter dstep pc astep goto todo acc outs]. rewrite He.
          cbn [st_of res_of cbs_of fst snd]. norm_app. reflexivity. }
        destruct (negb (overhead c (b2s idx) <? slabsz c)) eqn:Ho.
        { exists 5%nat. split; [lia|]. cbn [diter dstep pc astep goto todo acc outs]. rewrite Hb.
          cbn [diter dstep pc astep goto todo acc outs]. rewrite He.
          cbn [diter dstep pc astep goto todo acc outs]. rewrite Ho.
          cbn [st_of res_of cbs_of fst snd]. norm_app. reflexivity. }
        destruct (construct_slab c idx (env_ret e)) as [x ccbs] eqn:Hc.
        destruct (sl_avail x) as [|o [|a2 av]] eqn:Ha.
        { exists 5%nat. split; [lia|]. cbn [diter dstep pc astep goto todo acc outs]. rewrite Hb.
          cbn [diter dstep pc astep goto todo acc outs]. rewrite He.
          cbn [diter dstep pc astep goto todo acc outs]. rewrite Ho, Hc, Ha.
          cbn [st_of res_of cbs_of fst snd]. norm_app. reflexivity. }
        { exists 5%nat. split; [lia|]. cbn [diter dstep pc astep goto todo acc outs]. rewrite Hb.
          cbn [diter dstep pc astep goto todo acc outs]. rewrite He.
          cbn [diter dstep pc astep goto todo acc outs]. rewrite Ho, Hc, Ha.
          cbn [st_of res_of cbs_of fst snd]. norm_app. reflexivity. }
        exists 11%nat. split; [lia|]. cbn [diter dstep pc astep goto todo acc outs]. rewrite Hb.
        cbn [diter dstep pc astep goto todo acc outs]. rewrite He.
        cbn [diter dstep pc astep goto todo acc outs]. rewrite Ho, Hc, Ha.
        cbn [diter dstep pc astep goto todo acc outs].
        replace (sl_len c (set_avail x (a2 :: av) 1)) with (sl_len c x) by reflexivity.
        destruct (hand_out c (attach_slab (account_add s ((sl_len c x + page c) / page c)) idx (set_avail x (a2 :: av) 1))
                           o n' n idx) as [s3 cbs] eqn:Hh.
        cbn [diter dstep pc astep goto todo acc outs st_of res_of cbs_of fst snd]. norm_app. reflexivity.
      * (* fast path: the body is alloc_small itself *)
        exists 3%nat. split; [lia|]. cbn [diter dstep pc astep goto todo acc outs]. rewrite Hb.
        assert (E : alloc_small c s n' n idx e =
                    match pop_head c s idx h with
                    | inl (s1, o) =>
                      let '(s2, cbs) := hand_out c s1 o n' n idx in
                      (s2, RPtr o, [CAccess false h (hdr_slab c); CAccess false o 8; CAccess true h (hdr_slab c)] ++ cbs)
                    | inr r => (s, r, [])
                    end) by (unfold alloc_small; rewrite Hb; reflexivity).
        rewrite <- E. destruct (alloc_small c s n' n idx e) as [[s' r] cbs].
        cbn [diter dstep pc astep goto todo acc outs st_of res_of cbs_of fst snd]. norm_app. reflexivity.
  - unfold alloc_large. destruct (env_ret e =? 0) eqn:He.
    + exists 1%nat. split; [lia|]. cbn [diter dstep pc astep goto todo acc outs]. rewrite He.
      cbn [st_of res_of cbs_of fst snd]. reflexivity.
    + exists 5%nat. split; [lia|]. cbn [diter dstep pc astep goto todo acc outs]. rewrite He.
      cbn [diter dstep pc astep goto todo acc outs construct_large publish_large lg_frame lg_len
           st_of res_of cbs_of fst snd]. norm_app. reflexivity.
Qed.

(* ---------- free / deallocate ---------- *)
Lemma solo_free c s p sz rv td ac ou : p <> 0 ->
  exists j, (j <= 4)%nat /\
    diter c j s (mkThr (PF (fst (f_entry c s p sz)) rv) td (ac ++ snd (f_entry c s p sz)) ou)
    = (st_of (free_ c s p sz),
       mkThr (PF (FRet (res_of (free_ c s p sz))) rv) td (ac ++ cbs_of (free_ c s p sz)) ou).
Proof.
  intros Hp. apply N.eqb_neq in Hp. unfold f_entry, free_. rewrite Hp.
  destruct (lookup c s p) as [x|x|] eqn:L.
  - assert (G : exists j, (j <= 4)%nat /\
               diter c j s (mkThr (PF (FS1 (sl_idx x) p) rv) td (ac ++ [CAccess false (sl_frame x) (hdr_slab c)]) ou)
               = (st_of (let '(s', r, cbs) := free_small c s x p in (s', r, CAccess false (sl_frame x) (hdr_slab c) :: cbs)),
                  mkThr (PF (FRet (res_of (let '(s', r, cbs) := free_small c s x p in
                                            (s', r, CAccess false (sl_frame x) (hdr_slab c) :: cbs)))) rv) td
                        (ac ++ cbs_of (let '(s', r, cbs) := free_small c s x p in
                                       (s', r, CAccess false (sl_frame x) (hdr_slab c) :: cbs))) ou)).
    { exists 3%nat. split; [lia|]. cbn [diter dstep pc fstep goto todo acc outs]. rewrite L.
      destruct (free_small c s x p) as [[s' r] cbs].
      cbn [diter dstep pc fstep goto todo acc outs st_of res_of cbs_of fst snd]. norm_app. reflexivity. }
    destruct sz as [n|]; [destruct (n <=? sl_item x)|]; cbn [fst snd]; try exact G.
    exists 0%nat. split; [lia|]. cbn. reflexivity.
  - assert (G : exists j, (j <= 4)%nat /\
               diter c j s (mkThr (PF (FL1 p) rv) td (ac ++ []) ou)
               = (st_of (free_large c s x p),
                  mkThr (PF (FRet (res_of (free_large c s x p))) rv) td (ac ++ cbs_of (free_large c s x p)) ou)).
    { exists 4%nat. split; [lia|]. cbn [diter dstep pc fstep goto todo acc outs]. rewrite L.
      destruct (free_large c s x p) as [[s' r] cbs].
      cbn [diter dstep pc fstep goto todo acc outs st_of res_of cbs_of fst snd]. norm_app. reflexivity. }
    destruct sz as [n|]; [destruct (n <=? lg_len x)|]; cbn [fst snd]; try exact G.
    exists 0%nat. split; [lia|]. cbn. reflexivity.
  - exists 0%nat. split; [lia|]. cbn. reflexivity.
Qed.

(* ---------- a whole call ---------- *)
Definition done (th : cthread) (rest : list op) (r : result) (cbs : list callback) (ou : list (result * list callback)) :=
  th = mkThr Idle rest [] ((r, cbs) :: ou).

Lemma f_entry_pair c s p sz : f_entry c s p sz = (fst (f_entry c s p sz), snd (f_entry c s p sz)).
Proof. destruct (f_entry c s p sz); reflexivity. Qed.

Lemma res_unit_id r : match r with RUnit => RUnit | _ => r end = r.
Proof. destruct r; reflexivity. Qed.

Theorem solo_run_is_step c s o rest ou :
  exists j, (j <= 24)%nat /\
    diter c j s (mkThr Idle (o :: rest) [] ou)
    = (st_of (step c s o), mkThr Idle rest [] ((res_of (step c s o), cbs_of (step c s o)) :: ou)).
Proof.
  assert (HA : forall n e, exists j, (j <= 13)%nat /\
             diter c j s (mkThr (PA (a_entry c n e) None) rest [] ou)
             = (st_of (alloc c s n e), mkThr Idle rest [] ((res_of (alloc c s n e), cbs_of (alloc c s n e)) :: ou))).
  { intros n e. destruct (solo_alloc c s n e None rest [] ou) as (j & Hj & E).
    exists (j + 1)%nat. split; [lia|]. rewrite diter_app, E. reflexivity. }
  assert (HF : forall p sz rv, p <> 0 -> exists j, (j <= 5)%nat /\
             diter c j s (mkThr (PF (fst (f_entry c s p sz)) rv) rest (snd (f_entry c s p sz)) ou)
             = (st_of (free_ c s p sz),
                mkThr Idle rest [] ((match res_of (free_ c s p sz) with RUnit => rv | _ => res_of (free_ c s p sz) end, cbs_of (free_ c s p sz)) :: ou))).
  { intros p sz rv Hp. destruct (solo_free c s p sz rv rest [] ou Hp) as (j & Hj & E).
    exists (j + 1)%nat. split; [lia|]. rewrite diter_app. cbn [app] in E. rewrite E.
    reflexivity. }
  destruct o as [n e|p|p n|p n e|p|p off len tag].
  - (* Alloc *)
    destruct (HA n e) as (j & Hj & E). exists (S j). split; [lia|]. cbn [diter dstep pc todo entry outs]. exact E.
  - (* Free *)
    cbn [step]. destruct (p =? 0) eqn:Hp.
    + exists 2%nat. split; [lia|]. unfold free_. cbn [diter dstep pc todo entry outs]. rewrite Hp. reflexivity.
    + assert (Hp' : p <> 0) by (apply N.eqb_neq; exact Hp).
      destruct (HF p None RUnit Hp') as (j & Hj & E). exists (S j). split; [lia|].
      cbn [diter dstep pc todo entry outs]. rewrite Hp, (f_entry_pair c s p None). rewrite E, res_unit_id. reflexivity.
  - (* Dealloc *)
    cbn [step]. destruct (p =? 0) eqn:Hp.
    + exists 2%nat. split; [lia|]. unfold free_. cbn [diter dstep pc todo entry outs]. rewrite Hp. reflexivity.
    + assert (Hp' : p <> 0) by (apply N.eqb_neq; exact Hp).
      destruct (HF p (Some n) RUnit Hp') as (j & Hj & E). exists (S j). split; [lia|].
      cbn [diter dstep pc todo entry outs]. rewrite Hp, (f_entry_pair c s p (Some n)). rewrite E, res_unit_id. reflexivity.
  - (* Realloc *)
    cbn [step]. unfold realloc. destruct (p =? 0) eqn:Hp.
    + destruct (HA n e) as (j & Hj & E). exists (S j). split; [lia|]. cbn [diter dstep pc todo entry outs]. rewrite Hp. exact E.
    + assert (Hp' : p <> 0) by (apply N.eqb_neq; exact Hp).
      destruct (n =? 0) eqn:Hn.
      * destruct (HF p None RNull Hp') as (j & Hj & E). exists (S j). split; [lia|].
        cbn [diter dstep pc todo entry outs]. rewrite Hp, Hn, (f_entry_pair c s p None). rewrite E.
        destruct (free_ c s p None) as [[s' r] cbs]. reflexivity.
      * destruct (find_blk p (live s)) as [b|] eqn:Hfb.
        2:{ exists 2%nat. split; [lia|]. cbn [diter dstep pc todo entry outs]. rewrite Hp, Hn, Hfb. reflexivity. }
        (* the common part *)
        assert (G : forall hdr fr cur, exists j, (j <= 23)%nat /\
                   (let '(s', p', cbs) :=
                      (if n <=? cur then (set_req s p n, PRet (RPtr p), CAccess false fr hdr :: inplace_cbs c p cur n)
                       else (s, PA (a_entry c n e) (Some (p, cur)), [CAccess false fr hdr])) in
                    diter c j s' (mkThr p' rest cbs ou))
                   = let x := (if n <=? cur
                               then (set_req s p n, RPtr p, CAccess false fr hdr :: inplace_cbs c p cur n)
                               else
                                 let '(s1, r, cbs) := alloc c s n e in
                                 match r with
                                 | RPtr q =>
                                   let s2 := move_log s1 p q in
                                   let '(s3, r3, cbs3) := free_ c s2 p None in
                                   (s3, match r3 with RUnit => RPtr q | _ => r3 end,
                                    CAccess false fr hdr :: cbs ++ pcb c [CUnpoisonExpand p cur]
                                    ++ [CAccess false p cur; CAccess true q cur] ++ cbs3)
                                 | _ => (s1, r, CAccess false fr hdr :: cbs)
                                 end) in
                     (st_of x, mkThr Idle rest [] ((res_of x, cbs_of x) :: ou))).
        { intros hdr fr cur. destruct (n <=? cur).
          - exists 1%nat. split; [lia|]. reflexivity.
          - destruct (solo_alloc c s n e (Some (p, cur)) rest [CAccess false fr hdr] ou) as (j1 & Hj1 & E1).
            destruct (alloc c s n e) as [[s1 r] cbs] eqn:Ea. cbn [st_of res_of cbs_of fst snd] in E1.
            assert (Hstop : forall r', (forall q, r' <> RPtr q) ->
                      dstep c s1 (mkThr (PA (ARet r') (Some (p, cur))) rest ([CAccess false fr hdr] ++ cbs) ou)
                      = (s1, mkThr Idle rest [] ((r', CAccess false fr hdr :: cbs) :: ou))).
            { intros r' Hr'. destruct r'; try reflexivity. exfalso. eapply Hr'. reflexivity. }
            destruct r as [q| | | | |].
            2-6: (exists (j1 + 1)%nat; split; [lia|]; rewrite diter_app, E1; cbn [diter]; rewrite Hstop by discriminate; reflexivity).
            destruct (solo_free c (move_log s1 p q) p None (RPtr q) rest
                        (([CAccess false fr hdr] ++ cbs) ++ pcb c [CUnpoisonExpand p cur] ++ [CAccess false p cur; CAccess true q cur])
                        ou Hp') as (j2 & Hj2 & E2).
            exists (j1 + (1 + (j2 + 1)))%nat. split; [lia|]. rewrite diter_app, E1, diter_app.
            cbn [diter dstep pc]. rewrite (f_entry_pair c (move_log s1 p q) p None).
            unfold goto. cbn [todo acc outs].
            replace (([CAccess false fr hdr] ++ cbs) ++
                     pcb c [CUnpoisonExpand p cur] ++ [CAccess false p cur; CAccess true q cur] ++ snd (f_entry c (move_log s1 p q) p None))
              with ((([CAccess false fr hdr] ++ cbs) ++ pcb c [CUnpoisonExpand p cur] ++ [CAccess false p cur; CAccess true q cur])
                    ++ snd (f_entry c (move_log s1 p q) p None))
              by (rewrite <- !app_assoc; reflexivity).
            rewrite diter_app, E2. destruct (free_ c (move_log s1 p q) p None) as [[s3 r3] cbs3].
            cbn [diter dstep pc finish todo acc outs st_of res_of cbs_of fst snd]. norm_app. reflexivity. }
        destruct (lookup c s p) as [x|x|] eqn:L.
        -- destruct (negb (sl_contains c x p)) eqn:Hc.
           ++ exists 2%nat. split; [lia|]. cbn [diter dstep pc todo entry outs]. rewrite Hp, Hn, Hfb, L, Hc. reflexivity.
           ++ destruct (G (hdr_slab c) (sl_frame x) (sl_item x)) as (j & Hj & E). exists (S j). split; [lia|].
              cbn [diter dstep pc todo entry outs]. rewrite Hp, Hn, Hfb, L, Hc. cbv zeta in E |- *.
              destruct (n <=? sl_item x); exact E.
        -- destruct (negb (lg_addr c x =? p)) eqn:Hc.
           ++ exists 2%nat. split; [lia|]. cbn [diter dstep pc todo entry outs]. rewrite Hp, Hn, Hfb, L, Hc. reflexivity.
           ++ destruct (G (hdr_frame c) (lg_frame x) (lg_len x)) as (j & Hj & E). exists (S j). split; [lia|].
              cbn [diter dstep pc todo entry outs]. rewrite Hp, Hn, Hfb, L, Hc. cbv zeta in E |- *.
              destruct (n <=? lg_len x); exact E.
        -- exists 2%nat. split; [lia|]. cbn [diter dstep pc todo entry outs]. rewrite Hp, Hn, Hfb, L. reflexivity.
  - (* GetSize *)
    exists 2%nat. split; [lia|]. reflexivity.
  - (* Write *)
    exists 2%nat. split; [lia|]. cbn [step diter dstep pc todo entry outs]. destruct (write_ s p off len tag) as [[s' r] cbs]. reflexivity.
Qed.
