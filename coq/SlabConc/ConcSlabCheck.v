(* C05 / slabconc over the concrete pool: executable forms of the per-step environment hypotheses (api / policy) for a
   pool of nthr threads, and their soundness.  Used by the Examples of Props/Properties_C05_slab.v (vm_compute) and,
   extracted, by the replay of the harness's multi-threaded logs (the hypotheses of the theorems are CHECKED on every
   replayed interleaving, not assumed). *)
From Coq Require Import List NArith Bool Arith Lia ZifyBool ZifyNat ZifyN.
From FV Require Import SlabConc.ConcModel SlabConc.ConcProofs.
From FV Require Import Slab.SlabModel Slab.SlabFail Slab.SlabInv SlabConc.ConcSlabModel SlabConc.ConcSlabState
  SlabConc.ConcSlabStep SlabConc.ConcSlabProofs.
Import ListNotations.
Open Scope list_scope.
Local Open Scope N_scope.

Definition memN (p : N) (l : list N) : bool := existsb (N.eqb p) l.

Definition ptr_okb (nthr : nat) (g : cstate) (p : N) : bool :=
  (p =? 0) || (memN p (live_ptrs_of (sh g))
               && forallb (fun t => negb (memN p (claims (pc (thr g t))))) (seq 0 nthr)).

Definition op_okb (c : cfg) (nthr : nat) (g : cstate) (o : op) : bool :=
  match o with
  | Alloc n _ => n <? req_bound
  | Free p => ptr_okb nthr g p
  | Dealloc p n => ptr_okb nthr g p && ((p =? 0) || (n <=? cur_size c (sh g) p))
  | Realloc p n _ => ptr_okb nthr g p && (n <? req_bound)
  | GetSize p => ptr_okb nthr g p
  | Write p off len _ =>
      ptr_okb nthr g p && match find_blk p (live (sh g)) with Some b => off + len <=? N.max (bk_req b) 1 | None => false end
  end.

Definition answer_okb (c : cfg) (nthr : nat) (g : cstate) (len : N) (e : env) : bool :=
  let r := env_ret e in
  (r =? 0) ||
  ((0 <? r) && (r + len <=? two64)
   && forallb (rdisj (r, len)) (mapped (sh g))
   && forallb (fun t => match region_of c (pc (thr g t)) with Some rg => rdisj (r, len) rg | None => true end) (seq 0 nthr)
   && (if aligned c then r mod sb c =? 0 else true)).

Definition step_okb (c : cfg) (nthr : nat) (g : cstate) (t : tid) : bool :=
  match pc (thr g t) with
  | Idle => match todo (thr g t) with o :: _ => op_okb c nthr g o | [] => true end
  | PA (AS4 _ _ _ e) _ => answer_okb c nthr g (slab_map_len c) e
  | PA (AL0 n' _ e) _ => answer_okb c nthr g (large_map_len c (align_up n' (page c))) e
  | _ => true
  end.

Fixpoint sched_okb (c : cfg) (nthr : nat) (g : cstate) (sched : list tid) : bool :=
  match sched with
  | [] => true
  | t :: r => step_okb c nthr g t && sched_okb c nthr (cstep c g t) r
  end.

(* ---------- soundness ---------- *)
Lemma memN_spec p l : memN p l = true <-> In p l.
Proof.
  unfold memN. rewrite existsb_exists. split.
  - intros (x & Hx & E). apply N.eqb_eq in E. subst. exact Hx.
  - intros H. exists p. split; [exact H|apply N.eqb_refl].
Qed.

Section Sound.
Variables (c : cfg) (nthr : nat) (g : cstate).
Hypothesis Hidle : forall t, (nthr <= t)%nat -> idle_done (thr g t) = true.

Lemma idle_pc t : (nthr <= t)%nat -> pc (thr g t) = Idle.
Proof.
  intros H. specialize (Hidle t H). unfold idle_done in Hidle. destruct (pc (thr g t)); try discriminate. reflexivity.
Qed.

Lemma ptr_okb_sound p : ptr_okb nthr g p = true -> ptr_ok g p.
Proof.
  unfold ptr_okb, ptr_ok. intros H. apply orb_prop in H. destruct H as [H|H]; [left; apply N.eqb_eq; exact H|right].
  apply andb_prop in H. destruct H as [H1 H2]. split; [apply memN_spec; exact H1|].
  intros t Hin. destruct (Nat.lt_ge_cases t nthr) as [L|L].
  - rewrite forallb_forall in H2. specialize (H2 t). rewrite in_seq in H2. specialize (H2 ltac:(lia)).
    apply negb_true_iff in H2. apply memN_spec in Hin. congruence.
  - rewrite (idle_pc t L) in Hin. destruct Hin.
Qed.

Lemma op_okb_sound o : op_okb c nthr g o = true -> op_ok c g o.
Proof.
  destruct o as [n e|p|p n|p n e|p|p off len tag]; cbn [op_okb op_ok]; intros H.
  - apply N.ltb_lt. exact H.
  - apply ptr_okb_sound. exact H.
  - apply andb_prop in H. destruct H as [H1 H2]. split; [apply ptr_okb_sound; exact H1|].
    intros Hp. apply orb_prop in H2. destruct H2 as [H2|H2]; [apply N.eqb_eq in H2; contradiction|apply N.leb_le; exact H2].
  - apply andb_prop in H. destruct H as [H1 H2]. split; [apply ptr_okb_sound; exact H1|apply N.ltb_lt; exact H2].
  - apply ptr_okb_sound. exact H.
  - apply andb_prop in H. destruct H as [H1 H2]. split; [apply ptr_okb_sound; exact H1|].
    destruct (find_blk p (live (sh g))); [apply N.leb_le; exact H2|discriminate].
Qed.

Lemma answer_okb_sound len e : answer_okb c nthr g len e = true -> answer_ok c g len e.
Proof.
  unfold answer_okb, answer_ok. intros H Hne. apply orb_prop in H. destruct H as [H|H]; [apply N.eqb_eq in H; contradiction|].
  repeat (apply andb_prop in H; let H' := fresh "H" in destruct H as [H H']).
  split; [apply N.ltb_lt; exact H|]. split; [apply N.leb_le; exact H3|].
  split; [rewrite forallb_forall in H2; exact H2|]. split.
  - intros t rg Hr. destruct (Nat.lt_ge_cases t nthr) as [L|L].
    + rewrite forallb_forall in H1. specialize (H1 t). rewrite in_seq in H1. specialize (H1 ltac:(lia)). rewrite Hr in H1. exact H1.
    + rewrite (idle_pc t L) in Hr. discriminate.
  - intros Ha. rewrite Ha in H0. apply N.eqb_eq. exact H0.
Qed.

Lemma step_okb_sound t : step_okb c nthr g t = true -> step_ok c g t.
Proof.
  unfold step_okb, step_ok. destruct (pc (thr g t)) as [|a k|f rv|r]; auto.
  - destruct (todo (thr g t)); auto. apply op_okb_sound.
  - destruct a; auto; apply answer_okb_sound.
Qed.
End Sound.

Theorem sched_okb_sound c nthr sched : cfg_facts c ->
  forall g, Inv_conc c nthr g -> sched_okb c nthr g sched = true -> sched_ok c g sched.
Proof.
  intros F. induction sched as [|t r IH]; intros g I H; cbn [sched_okb sched_ok] in *; [exact Logic.I|].
  apply andb_prop in H. destruct H as [H1 H2].
  pose proof (step_okb_sound c nthr g (ic_idle _ _ _ I) t H1) as S1.
  split; [exact S1|]. apply IH; [apply cstep_inv; assumption|exact H2].
Qed.

(* the packaged form used by the Examples and by the replay: check, then the invariant holds *)
Corollary checked_run_inv c nthr scripts sched :
  cfg_ok c = true -> (forall t, (nthr <= t)%nat -> scripts t = []) ->
  sched_okb c nthr (cinit c scripts) sched = true ->
  sched_ok c (cinit c scripts) sched /\ Inv_conc c nthr (crun c sched (cinit c scripts)).
Proof.
  intros Hc Hs H. pose proof (cfg_ok_facts c Hc) as F.
  assert (S : sched_ok c (cinit c scripts) sched) by (apply (sched_okb_sound c nthr); [exact F|apply init_conc; assumption|exact H]).
  split; [exact S|apply reachable_inv_conc; assumption].
Qed.
