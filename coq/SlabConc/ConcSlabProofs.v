(* C05 / slabconc over the concrete pool: the invariant of the thread pool in every interleaving, and its
   consequences (C01 across threads, no block live twice, accounting at quiescence, lock discipline). *)
From Coq Require Import List NArith Bool Arith Lia ZifyBool ZifyNat ZifyN String.
From FV Require Import SlabConc.ConcModel SlabConc.ConcProofs.
From FV Require Import Slab.SlabModel Slab.SlabArith Slab.SlabBasics Slab.SlabFail Slab.SlabInv Slab.SlabInvAlloc
  Slab.SlabInvFree Slab.SlabInvStep Slab.SlabC01 SlabConc.ConcSlabModel SlabConc.ConcSlabState SlabConc.ConcSlabStep.
Import ListNotations.
Open Scope list_scope.
Local Open Scope N_scope.

(* ------------------------------------------------------------------------------------------------ *)
(* control: which lock a thread holds is a function of its pc                                        *)
(* ------------------------------------------------------------------------------------------------ *)
Lemma hold_a_entry c n e k : hold_of (PA (a_entry c n e) k) = None.
Proof. unfold a_entry. destruct (_ <=? max_bucket_size c); [destruct (negb _)|]; reflexivity. Qed.

Lemma hold_f_entry c s p sz rv : hold_of (PF (fst (f_entry c s p sz)) rv) = None.
Proof.
  unfold f_entry. destruct (lookup c s p); [| |reflexivity];
    (destruct sz as [n|]; [match goal with |- context [if ?b then _ else _] => destruct b end|]; reflexivity).
Qed.

Lemma hold_entry c s o : hold_of (snd (fst (entry c s o))) = None.
Proof.
  destruct o as [n e|p|p n|p n e|p|p off len tag]; cbn [entry].
  - apply hold_a_entry.
  - destruct (p =? 0); [reflexivity|]. pose proof (hold_f_entry c s p None RUnit) as H.
    destruct (f_entry c s p None). exact H.
  - destruct (p =? 0); [reflexivity|]. pose proof (hold_f_entry c s p (Some n) RUnit) as H.
    destruct (f_entry c s p (Some n)). exact H.
  - destruct (p =? 0); [apply hold_a_entry|]. destruct (n =? 0).
    + pose proof (hold_f_entry c s p None RNull) as H. destruct (f_entry c s p None). exact H.
    + destruct (find_blk p (live s)); [|reflexivity].
      destruct (lookup c s p) as [x|x|]; [| |reflexivity].
      * destruct (negb (sl_contains c x p)); [reflexivity|]. destruct (n <=? sl_item x); [reflexivity|apply hold_a_entry].
      * destruct (negb (lg_addr c x =? p)); [reflexivity|]. destruct (n <=? lg_len x); [reflexivity|apply hold_a_entry].
  - reflexivity.
  - destruct (write_ s p off len tag) as [[s' r] cbs]. reflexivity.
Qed.

Lemma dstep_hold c s th :
  hold_of (pc (snd (dstep c s th))) =
  match lock_of (pc th) with
  | Some l => Some l
  | None => match unlock_of (pc th) with Some _ => None | None => hold_of (pc th) end
  end.
Proof.
  unfold dstep. destruct (pc th) as [|a k|f rv|r] eqn:Hpc.
  - destruct (todo th) as [|o rest]; [cbn; rewrite Hpc; reflexivity|].
    pose proof (hold_entry c s o) as H. destruct (entry c s o) as [[s' p] cbs]. exact H.
  - destruct a as [idx n' nreq e|idx n' nreq e|idx r cbs|idx n' nreq e|idx n' nreq e|idx n' nreq r|idx n' nreq x o
                  |idx n' nreq x o|idx n' nreq x o|idx n' nreq x o|idx n' nreq x o|n' nreq e|n' nreq r|nreq x|nreq x|p|r];
      cbn [astep]; try reflexivity.
    + destruct (bucket s idx); [reflexivity|]. destruct (alloc_small c s n' nreq idx e) as [[s' r] cbs]. reflexivity.
    + destruct (env_ret e =? 0); reflexivity.
    + destruct (negb (overhead c (b2s idx) <? slabsz c)); [reflexivity|].
      destruct (construct_slab c idx r) as [x ccbs]. destruct (sl_avail x) as [|o [|a2 av]]; reflexivity.
    + destruct (env_ret e =? 0); reflexivity.
    + destruct k as [[p cur]|]; [|reflexivity]. destruct r as [q| | | | |]; try reflexivity.
      pose proof (hold_f_entry c (move_log s p q) p None (RPtr q)) as H.
      destruct (f_entry c (move_log s p q) p None). exact H.
  - destruct f as [idx p|idx p|idx r|p|p|r cbs|r cbs|r]; cbn [fstep]; try reflexivity.
    + destruct (lookup c s p) as [x|x|]; try reflexivity. destruct (free_small c s x p) as [[s' r] cbs]. reflexivity.
    + destruct (lookup c s p) as [x|x|]; try reflexivity. destruct (free_large c s x p) as [[s' r] cbs]. reflexivity.
  - reflexivity.
Qed.

Lemma lock_hold p l : lock_of p = Some l -> hold_of p = None /\ unlock_of p = None.
Proof.
  destruct p as [|a k|f rv|r]; [discriminate| | |discriminate].
  - destruct a; try discriminate; intros _; split; reflexivity.
  - destruct f; try discriminate; intros _; split; reflexivity.
Qed.
Lemma unlock_hold p l : unlock_of p = Some l -> hold_of p = Some l.
Proof.
  destruct p as [|a k|f rv|r]; [discriminate| | |discriminate].
  - destruct a; try discriminate; intros E; injection E as <-; reflexivity.
  - destruct f; try discriminate; intros E; injection E as <-; reflexivity.
Qed.

(* every step is a micro-op that the lock discipline of the control model (ConcModel.mstep) allows in the lock state
   of its pc, and leads to the lock state of the next pc *)
Lemma dstep_disciplined c s th m :
  mop_of (pc th) = Some m -> mstep (hold_of (pc th)) m = Some (hold_of (pc (snd (dstep c s th)))).
Proof.
  rewrite dstep_hold. destruct (pc th) as [|a k|f rv|r].
  - intros E; injection E as <-. reflexivity.
  - destruct a; cbn [mop_of lock_of unlock_of hold_of]; try (destruct k); intros E; injection E as <-; cbn [mstep];
      rewrite ?lockid_eqb_refl; reflexivity.
  - destruct f; cbn [mop_of lock_of unlock_of hold_of]; intros E; injection E as <-; cbn [mstep];
      rewrite ?lockid_eqb_refl; reflexivity.
  - intros E; injection E as <-. reflexivity.
Qed.

(* ------------------------------------------------------------------------------------------------ *)
(* sums over the thread pool                                                                         *)
(* ------------------------------------------------------------------------------------------------ *)
Lemma sum_upd_list (G G' : nat -> N) t l :
  NoDup l -> (forall t', t' <> t -> G' t' = G t') ->
  (In t l -> exists P0, sumN (map G l) = G t + P0 /\ sumN (map G' l) = G' t + P0)
  /\ (~ In t l -> sumN (map G' l) = sumN (map G l)).
Proof.
  intros Hnd Hext. induction l as [|a l IH]; cbn [map sumN In].
  - split; [intros []|reflexivity].
  - inversion Hnd as [|? ? Hni Hnd']; subst. destruct (IH Hnd') as [IH1 IH2]. split.
    + intros [->|Hin].
      * exists (sumN (map G l)). rewrite (IH2 Hni). split; reflexivity.
      * destruct (IH1 Hin) as (P0 & E1 & E2). assert (a <> t) by (intros ->; contradiction).
        exists (G a + P0). rewrite E1, E2, (Hext a H). lia.
    + intros Hn. rewrite IH2 by tauto. rewrite (Hext a); [reflexivity|]. intros ->. apply Hn. left. reflexivity.
Qed.

Lemma sum_zero (G : nat -> N) l : (forall t, G t = 0) -> sumN (map G l) = 0.
Proof. intros H. induction l as [|a l IH]; cbn; [reflexivity|]. rewrite H, IH. reflexivity. Qed.

(* ------------------------------------------------------------------------------------------------ *)
(* the invariant                                                                                     *)
(* ------------------------------------------------------------------------------------------------ *)
Definition pend_sum (c : cfg) (nthr : nat) (g : cstate) : N :=
  sumN (map (fun t => pend_of c (pc (thr g t))) (seq 0 nthr)).

Record Inv_conc (c : cfg) (nthr : nat) (g : cstate) : Prop := {
  (* C01's invariant of the pool state (up to _usedPages and C02's ghost footprint counter, see ConcSlabState.v):
     per slab the free list, per bucket the sorted partial tree, frames in pairwise disjoint mapped regions, live
     blocks = objects handed out, pairwise distinct *)
  ic_sh : ShInv c (sh g);
  (* _usedPages = pages of the attached slabs and live large frames + the slabs already accounted but not attached *)
  ic_acct : used (sh g) = pages c (sh g) + pend_sum c nthr g;
  ic_idle : forall t, (nthr <= t)%nat -> idle_done (thr g t) = true;
  (* the private slab / large frame / region of an in-flight allocation is well formed *)
  ic_loc : forall t, loc c (pc (thr g t));
  ic_kind : forall t, kind_ok c (sh g) (pc (thr g t));
  (* in-flight frees / reallocs / returns: the block is live until the locked body runs, resp. until it is returned *)
  ic_claims : forall t q, In q (claims (pc (thr g t))) -> In q (live_ptrs (sh g));
  ic_nodup : forall t, NoDup (claims (pc (thr g t)));
  ic_claims_disj : forall t1 t2 q, t1 <> t2 -> In q (claims (pc (thr g t1))) -> In q (claims (pc (thr g t2))) -> False;
  (* private regions: disjoint from every mapped frame region (hence from every live block, header and free object)
     and from each other *)
  ic_region : forall t rg, region_of c (pc (thr g t)) = Some rg ->
                forall rg', In rg' (mapped (sh g)) -> rdisj rg rg' = true;
  ic_region_disj : forall t1 t2 r1 r2, t1 <> t2 -> region_of c (pc (thr g t1)) = Some r1 ->
                     region_of c (pc (thr g t2)) = Some r2 -> rdisj r1 r2 = true;
  (* the mutexes: held exactly by the thread whose pc is inside the critical section *)
  ic_locks : forall l t, lk g l = Some t <-> hold_of (pc (thr g t)) = Some l;
  (* no call ended in undefined behaviour or in an FRG_ASSERT *)
  ic_outs : forall t r cbs, In (r, cbs) (outs (thr g t)) -> is_stop r = false
}.

Lemma init_conc c nthr scripts :
  cfg_facts c -> (forall t, (nthr <= t)%nat -> scripts t = []) -> Inv_conc c nthr (cinit c scripts).
Proof.
  intros F Hs. constructor; cbn [cinit sh lk thr pc todo outs claims loc kind_ok region_of hold_of].
  - exists (init c). split; [apply sim_refl|apply init_inv; exact F].
  - unfold pend_sum. cbn [cinit thr pc pend_of]. rewrite sum_zero by reflexivity. reflexivity.
  - intros t Ht. unfold idle_done. cbn. rewrite (Hs t Ht). reflexivity.
  - intros t. exact Logic.I.
  - intros t. exact Logic.I.
  - intros t q [].
  - intros t. constructor.
  - intros t1 t2 q _ [].
  - discriminate.
  - discriminate.
  - intros l t. split; discriminate.
  - intros t r cbs [].
Qed.

(* ---------- the global hypotheses give the local ones ---------- *)
Lemma op_ok_ptr c g o q : op_ok c g o -> ptr_of o = Some q -> ptr_ok g q.
Proof.
  destruct o as [n e|p|p n|p n e|p|p off len tag]; cbn [op_ok ptr_of]; intros H E; try discriminate;
    injection E as <-; tauto.
Qed.

Lemma step_ok_local c g t : step_ok c g t -> lstep_ok c (sh g) (thr g t).
Proof.
  unfold step_ok, lstep_ok. destruct (pc (thr g t)) as [|a k|f rv|r]; auto.
  - destruct (todo (thr g t)) as [|o rest]; auto.
    assert (P : forall p, ptr_ok g p -> lptr_ok (sh g) p) by (intros p [H|[H _]]; [left|right]; assumption).
    destruct o as [n e|p|p n|p n e|p|p off len tag]; cbn [op_ok lop_ok]; auto; try tauto.
    + intros [H1 H2]. split; auto.
    + intros [H1 H2]. auto.
    + intros [H1 H2]. split; auto.
  - destruct a; auto; unfold answer_ok, lans_ok, region_ok; intros H Hne; destruct (H Hne) as (A & B & C & D & E); auto.
Qed.

Lemma fresh_map_disj c g t r1 : step_ok c g t -> fresh_map c (pc (thr g t)) r1 ->
  forall t2 r2, region_of c (pc (thr g t2)) = Some r2 -> rdisj r1 r2 = true.
Proof.
  unfold step_ok, fresh_map. destruct (pc (thr g t)) as [|a k|f rv|r]; try contradiction.
  destruct a; try contradiction; intros H [-> Hne] t2 r2 Hr; destruct (H Hne) as (_ & _ & _ & D & _); eapply D; eauto.
Qed.

Lemma kind_ok_stable c s s' p :
  (forall q, In q (claims p) -> kind c s' q = kind c s q) -> kind_ok c s p -> kind_ok c s' p.
Proof.
  destruct p as [|a k|f rv|r]; auto. destruct f; cbn [kind_ok claims fclaims]; auto; intros H K; rewrite H; auto; left; reflexivity.
Qed.

Lemma idle_done_false_lt c nthr g t : Inv_conc c nthr g -> idle_done (thr g t) = false -> (t < nthr)%nat.
Proof.
  intros I H. destruct (Nat.lt_ge_cases t nthr) as [L|L]; [exact L|]. rewrite (ic_idle _ _ _ I t L) in H. discriminate.
Qed.

(* ---------- preservation ---------- *)
Theorem cstep_inv c nthr g t :
  cfg_facts c -> Inv_conc c nthr g -> step_ok c g t -> Inv_conc c nthr (cstep c g t).
Proof.
  intros F I Hok. unfold cstep. set (th := thr g t).
  destruct (idle_done th) eqn:Hid; [exact I|].
  pose proof (idle_done_false_lt c nthr g t I Hid) as Hlt.
  (* what the segment does *)
  pose proof (dstep_summary c (sh g) th F (ic_sh _ _ _ I) (ic_loc _ _ _ I t) (ic_kind _ _ _ I t) (ic_claims _ _ _ I t)
                (ic_nodup _ _ _ I t) (ic_region _ _ _ I t) (step_ok_local c g t Hok)) as SM.
  pose proof (dstep_hold c (sh g) th) as HH.
  destruct (dstep c (sh g) th) as [s' th'] eqn:Hd. cbn [fst snd] in SM, HH.
  (* the new state, whatever happens to the mutexes *)
  assert (G : forall lk',
             (forall l t0, lk' l = Some t0 <-> hold_of (pc (updt (thr g) t th' t0)) = Some l) ->
             Inv_conc c nthr (mkC s' lk' (updt (thr g) t th'))).
  { intros lk' Hlk.
    assert (Hother : forall t', t' <> t -> updt (thr g) t th' t' = thr g t') by (intros t' Hne; apply updt_other; exact Hne).
    assert (Hsame : updt (thr g) t th' t = th') by apply updt_same.
    assert (Hol : forall t' q, t' <> t -> In q (claims (pc (thr g t'))) -> In q (live_ptrs s')).
    { intros t' q Hne Hq. destruct (sm_live _ _ _ _ _ SM q (ic_claims _ _ _ I t' q Hq)) as [H|H]; [exact H|].
      exfalso. apply (ic_claims_disj _ _ _ I t' t q Hne Hq H). }
    assert (Hnew : forall t' q, t' <> t -> In q (claims (pc th')) -> In q (claims (pc (thr g t'))) -> False).
    { intros t' q Hne Hq Hq'. destruct (sm_new _ _ _ _ _ SM q Hq) as [H|[H|H]].
      - apply (ic_claims_disj _ _ _ I t t' q); auto.
      - apply H. apply (ic_claims _ _ _ I t' q Hq').
      - destruct H as (Hpc & o & rest & Htd & Hpt & Hq0). unfold step_ok in Hok. fold th in Hok. rewrite Hpc, Htd in Hok.
        destruct (op_ok_ptr c g o q Hok Hpt) as [E|[_ E]]; [contradiction|]. apply (E t' Hq'). }
    constructor; cbn [sh lk thr].
    - exact (sm_inv _ _ _ _ _ SM).
    - destruct (sum_upd_list (fun t0 : tid => pend_of c (pc (thr g t0))) (fun t0 : tid => pend_of c (pc (updt (thr g) t th' t0))) t
                  (seq 0 nthr) (seq_NoDup nthr 0)) as [S1 _].
      { intros t' Hne. rewrite (Hother t' Hne). reflexivity. }
      destruct S1 as (P0 & E1 & E2); [apply in_seq; lia|]. rewrite Hsame in E2.
      assert (Eg : pend_sum c nthr (mkC s' lk' (updt (thr g) t th')) = pend_of c (pc th') + P0) by exact E2.
      assert (Ea : pend_sum c nthr g = pend_of c (pc th) + P0) by exact E1.
      rewrite Eg. pose proof (ic_acct _ _ _ I) as A. rewrite Ea in A.
      rewrite (sm_acct _ _ _ _ _ SM P0); [lia|]. lia.
    - intros t' Ht'. rewrite Hother by lia. apply (ic_idle _ _ _ I t' Ht').
    - intros t'. destruct (Nat.eq_dec t' t) as [->|Hne]; [rewrite Hsame; exact (sm_loc _ _ _ _ _ SM)|].
      rewrite (Hother t' Hne). apply (ic_loc _ _ _ I).
    - intros t'. destruct (Nat.eq_dec t' t) as [->|Hne]; [rewrite Hsame; exact (sm_kind_own _ _ _ _ _ SM)|].
      rewrite (Hother t' Hne). apply (kind_ok_stable c (sh g)); [|apply (ic_kind _ _ _ I)].
      intros q Hq. apply (sm_kind _ _ _ _ _ SM); [apply (ic_claims _ _ _ I t' q Hq)|apply (Hol t' q Hne Hq)].
    - intros t' q. destruct (Nat.eq_dec t' t) as [->|Hne]; [rewrite Hsame; apply (sm_claims _ _ _ _ _ SM)|].
      rewrite (Hother t' Hne). apply (Hol t' q Hne).
    - intros t'. destruct (Nat.eq_dec t' t) as [->|Hne]; [rewrite Hsame; exact (sm_nodup _ _ _ _ _ SM)|].
      rewrite (Hother t' Hne). apply (ic_nodup _ _ _ I).
    - intros t1 t2 q Hne. destruct (Nat.eq_dec t1 t) as [->|H1], (Nat.eq_dec t2 t) as [->|H2].
      + contradiction.
      + rewrite Hsame, (Hother t2 H2). apply Hnew. exact H2.
      + rewrite Hsame, (Hother t1 H1). intros A B. apply (Hnew t1 q H1 B A).
      + rewrite (Hother t1 H1), (Hother t2 H2). apply (ic_claims_disj _ _ _ I t1 t2 q Hne).
    - intros t' rg. destruct (Nat.eq_dec t' t) as [->|Hne]; [rewrite Hsame; apply (sm_region_disj _ _ _ _ _ SM)|].
      rewrite (Hother t' Hne). intros Hrg rg' Hm. destruct (sm_mapped _ _ _ _ _ SM rg' Hm) as [H|H].
      + apply (ic_region _ _ _ I t' rg Hrg rg' H).
      + apply (ic_region_disj _ _ _ I t' t rg rg' Hne Hrg H).
    - intros t1 t2 r1 r2 Hne. destruct (Nat.eq_dec t1 t) as [->|H1], (Nat.eq_dec t2 t) as [->|H2].
      + contradiction.
      + rewrite Hsame, (Hother t2 H2). intros A B. destruct (sm_region _ _ _ _ _ SM r1 A) as [H|H].
        * apply (ic_region_disj _ _ _ I t t2 r1 r2 Hne H B).
        * apply (fresh_map_disj c g t r1 Hok H t2 r2 B).
      + rewrite Hsame, (Hother t1 H1). intros A B. rewrite rdisj_sym. destruct (sm_region _ _ _ _ _ SM r2 B) as [H|H].
        * apply (ic_region_disj _ _ _ I t t1 r2 r1); auto.
        * apply (fresh_map_disj c g t r2 Hok H t1 r1 A).
      + rewrite (Hother t1 H1), (Hother t2 H2). apply (ic_region_disj _ _ _ I t1 t2 r1 r2 Hne).
    - exact Hlk.
    - intros t' r cbs. destruct (Nat.eq_dec t' t) as [->|Hne].
      + rewrite Hsame. intros H. destruct (sm_outs _ _ _ _ _ SM r cbs H) as [H'|H']; [|exact H'].
        apply (ic_outs _ _ _ I t r cbs H').
      + rewrite (Hother t' Hne). apply (ic_outs _ _ _ I t' r cbs). }
  (* the mutexes *)
  pose proof (ic_locks _ _ _ I) as Ho.
  destruct (lock_of (pc th)) as [l|] eqn:Hlock.
  - destruct (lk g l) as [t0|] eqn:Hl; [exact I|].
    destruct (lock_hold _ _ Hlock) as [Hh _].
    apply G. intros l' t'. destruct (lockid_eqb_spec l' l) as [->|Hnl].
    + rewrite updl_same. destruct (Nat.eq_dec t' t) as [->|Hne].
      * rewrite updt_same, HH. tauto.
      * rewrite updt_other by assumption. split; [intro H; injection H as ->; contradiction|].
        intro H. apply Ho in H. congruence.
    + rewrite updl_other by assumption. destruct (Nat.eq_dec t' t) as [->|Hne].
      * rewrite updt_same, HH. split; [|intro H; injection H as ->; contradiction].
        intro H. apply Ho in H. fold th in H. congruence.
      * rewrite updt_other by assumption. apply Ho.
  - destruct (unlock_of (pc th)) as [l|] eqn:Hul.
    + pose proof (unlock_hold _ _ Hul) as Hh.
      apply G. intros l' t'. destruct (lockid_eqb_spec l' l) as [->|Hnl].
      * rewrite updl_same. split; [discriminate|]. destruct (Nat.eq_dec t' t) as [->|Hne].
        -- rewrite updt_same, HH. discriminate.
        -- rewrite updt_other by assumption. intro H. apply Ho in H. fold th in Hh. apply Ho in Hh. congruence.
      * rewrite updl_other by assumption. destruct (Nat.eq_dec t' t) as [->|Hne].
        -- rewrite updt_same, HH. split; [|discriminate]. intro H. apply Ho in H. fold th in H. congruence.
        -- rewrite updt_other by assumption. apply Ho.
    + apply G. intros l' t'. destruct (Nat.eq_dec t' t) as [->|Hne].
      * rewrite updt_same, HH. apply Ho.
      * rewrite updt_other by assumption. apply Ho.
Qed.

Theorem crun_inv c nthr sched : cfg_facts c ->
  forall g, Inv_conc c nthr g -> sched_ok c g sched -> Inv_conc c nthr (crun c sched g).
Proof.
  intros F. induction sched as [|t sched IH]; intros g I H; [exact I|].
  cbn [crun fold_left sched_ok] in *. destruct H as [H1 H2]. apply IH; [apply cstep_inv; assumption|exact H2].
Qed.

Theorem reachable_inv_conc c nthr scripts sched :
  cfg_ok c = true -> (forall t, (nthr <= t)%nat -> scripts t = []) -> sched_ok c (cinit c scripts) sched ->
  Inv_conc c nthr (crun c sched (cinit c scripts)).
Proof.
  intros Hc Hs Hok. pose proof (cfg_ok_facts c Hc) as F. apply crun_inv; [exact F|apply init_conc; assumption|exact Hok].
Qed.

(* ------------------------------------------------------------------------------------------------ *)
(* consequences                                                                                      *)
(* ------------------------------------------------------------------------------------------------ *)
Section Consequences.
Variables (c : cfg) (nthr : nat) (g : cstate).
Hypothesis F : cfg_facts c.
Hypothesis I : Inv_conc c nthr g.

(* no address is live twice -- whoever allocated it *)
Lemma no_block_live_twice : NoDup (live_ptrs (sh g)).
Proof. apply (ShInv_nodup c). apply (ic_sh _ _ _ I). Qed.

(* C01's conclusions for every live block, in the shared pool state *)
Lemma c01_across_threads b : In b (live (sh g)) ->
  N.max (bk_req b) 1 <= bk_size0 b
  /\ size_of c (sh g) (bk_p b) = bk_size0 b
  /\ inside_mapped (sh g) (bk_p b) (bk_size0 b)
  /\ (forall b', In b' (live (sh g)) -> bk_p b' <> bk_p b -> disjoint (bk_p b) (bk_size0 b) (bk_p b') (bk_size0 b'))
  /\ disjoint_from_bookkeeping c (sh g) (bk_p b) (bk_size0 b)
  /\ N.divide (align_of c (N.max (bk_req b) 1)) (bk_p b).
Proof.
  destruct (ic_sh _ _ _ I) as (S & Hsim & IS). pose proof Hsim as (E1 & E2 & E3 & E4 & E5).
  intros Hb. rewrite <- E4 in Hb.
  destruct (live_size c F 0 S IS b Hb) as [Z R].
  split; [exact R|]. split.
  { unfold size_of, cur_size, get_size_of in *. rewrite <- (sim_lookup c _ _ (bk_p b) Hsim). exact Z. }
  split.
  { destruct (live_inside c F 0 S IS b Hb) as (rg & Hrg & A). exists rg. rewrite <- (sim_mapped _ _ Hsim). auto. }
  split.
  { intros b' Hb' Hne. rewrite <- E4 in Hb'. apply (live_disjoint c F 0 S IS b b' Hb Hb'). congruence. }
  split.
  { destruct (live_bookkeeping c F 0 S IS b Hb) as (A & B & C). unfold disjoint_from_bookkeeping. rewrite <- E1, <- E2. auto. }
  apply (live_aligned c F 0 S IS b Hb).
Qed.

(* a private region of an in-flight allocation contains no live block *)
Lemma private_region_unused t rg b : region_of c (pc (thr g t)) = Some rg -> In b (live (sh g)) ->
  bk_p b + bk_size0 b <= fst rg \/ fst rg + snd rg <= bk_p b.
Proof.
  intros Hr Hb. destruct (c01_across_threads b Hb) as (_ & _ & (rg' & Hrg' & A1 & A2) & _).
  pose proof (ic_region _ _ _ I t rg Hr rg' Hrg') as D. apply rdisj_spec in D. lia.
Qed.

(* the block a call is about to return is live (and by c01_across_threads satisfies C01's conclusions) *)
Definition returning (p : cpc) (r : result) : Prop :=
  p = PA (ARet r) None \/ p = PRet r \/ exists rv, p = PF (FRet RUnit) rv /\ r = rv.

Lemma returned_block_live t o : returning (pc (thr g t)) (RPtr o) -> In o (live_ptrs (sh g)).
Proof.
  intros [E|[E|(rv & E & Er)]]; apply (ic_claims _ _ _ I t o); rewrite E; cbn; auto. rewrite <- Er. cbn. auto.
Qed.

(* at quiescence the page counter is exact: no update of _usedPages was lost *)
Lemma accounting_quiescent : (forall t, pc (thr g t) = Idle) -> used (sh g) = pages c (sh g).
Proof.
  intros H. rewrite (ic_acct _ _ _ I). unfold pend_sum. rewrite sum_zero; [lia|]. intros t. rewrite H. reflexivity.
Qed.

(* mutual exclusion: the pcs inside the critical sections of a lock belong to its holder *)
Lemma holder_unique t1 t2 l : hold_of (pc (thr g t1)) = Some l -> hold_of (pc (thr g t2)) = Some l -> t1 = t2.
Proof. intros H1 H2. apply (ic_locks _ _ _ I) in H1, H2. congruence. Qed.

Lemma body_under_lock_conc t l : mop_of (pc (thr g t)) = Some (MBody l) -> lk g l = Some t.
Proof.
  intros H. apply (ic_locks _ _ _ I). destruct (pc (thr g t)) as [|a k|f rv|r]; try discriminate.
  - destruct a; try discriminate; try (destruct k; discriminate); injection H as <-; reflexivity.
  - destruct f; try discriminate; injection H as <-; reflexivity.
Qed.

Lemma policy_without_locks_conc t fn l : mop_of (pc (thr g t)) = Some (MPolicy fn) -> lk g l <> Some t.
Proof.
  intros H Hl. apply (ic_locks _ _ _ I) in Hl. destruct (pc (thr g t)) as [|a k|f rv|r]; try discriminate.
  - destruct a; try discriminate; destruct k; discriminate.
  - destruct f; discriminate.
Qed.

Lemma no_call_stopped t r cbs : In (r, cbs) (outs (thr g t)) -> is_stop r = false.
Proof. apply (ic_outs _ _ _ I). Qed.

(* no deadlock: if some thread is not finished, some thread can take a step that is not a stutter *)
Definition cenabled (t : tid) : Prop :=
  idle_done (thr g t) = false /\ forall l, lock_of (pc (thr g t)) = Some l -> lk g l = None.

Lemma no_deadlock_conc : (exists t, idle_done (thr g t) = false) -> exists t, cenabled t.
Proof.
  intros [t Ht]. destruct (lock_of (pc (thr g t))) as [l|] eqn:Hl.
  - destruct (lk g l) as [t0|] eqn:Hk.
    + exists t0. pose proof Hk as Hh. apply (ic_locks _ _ _ I) in Hh. split.
      * unfold idle_done. destruct (pc (thr g t0)); try reflexivity. discriminate.
      * intros l' Hl'. destruct (lock_hold _ _ Hl') as [E _]. congruence.
    + exists t. split; [exact Ht|]. intros l' E. congruence.
  - exists t. split; [exact Ht|]. intros l' E. congruence.
Qed.

End Consequences.

(* ------------------------------------------------------------------------------------------------ *)
(* the reduction to the control model: in EVERY interleaving, the sequence of micro-ops a thread has    *)
(* executed (lock / unlock / body-of-lock / policy / private / return, ConcModel.mop) is accepted by    *)
(* the lock-discipline monitor of the control model from "no lock held", and ends in the lock state of *)
(* the thread's pc.  Hence every access to bucket state (a Body of LB i) and to _usedPages (a Body of   *)
(* LT) happens inside its lock, and, the mutexes being exclusive (ic_locks), the sub-steps of a locked  *)
(* body cannot be interleaved with another body of the same lock: taking a whole locked body as ONE     *)
(* scheduler step loses no behaviour that the lock holder or any other thread could observe             *)
(* (the read/write-split bodies are AllocModel.v's; the generated skeleton's access table is            *)
(* C05_lock_discipline / C05_mutual_exclusion_of_bodies).                                               *)
(* ------------------------------------------------------------------------------------------------ *)
Definition stutters (g : cstate) (t : tid) : bool :=
  idle_done (thr g t) ||
  match lock_of (pc (thr g t)) with
  | Some l => match lk g l with Some _ => true | None => false end
  | None => false
  end.

Lemma cstep_stutter c g t : stutters g t = true -> cstep c g t = g.
Proof.
  unfold stutters, cstep. destruct (idle_done (thr g t)); [reflexivity|]. cbn [orb].
  destruct (lock_of (pc (thr g t))) as [l|]; [|discriminate]. destruct (lk g l); [reflexivity|discriminate].
Qed.

Lemma cstep_taken c g t : stutters g t = false ->
  thr (cstep c g t) t = snd (dstep c (sh g) (thr g t)).
Proof.
  unfold stutters, cstep. destruct (idle_done (thr g t)); [discriminate|]. cbn [orb].
  destruct (lock_of (pc (thr g t))) as [l|].
  - destruct (lk g l); [discriminate|]. intros _. destruct (dstep c (sh g) (thr g t)) as [s' th']. cbn [thr snd]. apply updt_same.
  - intros _. destruct (dstep c (sh g) (thr g t)) as [s' th']. cbn [thr snd]. apply updt_same.
Qed.

Lemma cstep_other c g t t' : t' <> t -> thr (cstep c g t) t' = thr g t'.
Proof.
  intros Hne. unfold cstep. destruct (idle_done (thr g t)); [reflexivity|].
  destruct (lock_of (pc (thr g t))) as [l|].
  - destruct (lk g l); [reflexivity|]. destruct (dstep c (sh g) (thr g t)) as [s' th']. cbn [thr]. apply updt_other. exact Hne.
  - destruct (dstep c (sh g) (thr g t)) as [s' th']. cbn [thr]. apply updt_other. exact Hne.
Qed.

Definition opt_list {A} (o : option A) : list A := match o with Some x => [x] | None => [] end.

(* the micro-ops thread t0 executes along a schedule *)
Fixpoint ctrace (c : cfg) (sched : list tid) (g : cstate) (t0 : tid) : list mop :=
  match sched with
  | [] => []
  | t :: r =>
    (if Nat.eqb t t0 && negb (stutters g t) then opt_list (mop_of (pc (thr g t))) else [])
    ++ ctrace c r (cstep c g t) t0
  end.

Theorem trace_disciplined c sched : forall g t0,
  mrun (hold_of (pc (thr g t0))) (ctrace c sched g t0) = Some (hold_of (pc (thr (crun c sched g) t0))).
Proof.
  induction sched as [|t r IH]; intros g t0; cbn [ctrace crun fold_left mrun]; [reflexivity|].
  rewrite mrun_app. destruct (Nat.eqb_spec t t0) as [->|Hne].
  - destruct (stutters g t0) eqn:Hst; cbn [andb negb].
    + cbn [mrun]. rewrite (cstep_stutter c g t0 Hst). apply IH.
    + assert (Hm : exists m, mop_of (pc (thr g t0)) = Some m).
      { destruct (pc (thr g t0)) as [|a k|f rv|r0]; cbn; eauto. - destruct a; eauto. destruct k; eauto. - destruct f; eauto. }
      destruct Hm as [m Hm]. rewrite Hm. cbn [opt_list mrun].
      rewrite (dstep_disciplined c (sh g) (thr g t0) m Hm), <- (cstep_taken c g t0 Hst). apply IH.
  - cbn [andb mrun]. specialize (IH (cstep c g t) t0). rewrite (cstep_other c g t t0) in IH by congruence. exact IH.
Qed.
