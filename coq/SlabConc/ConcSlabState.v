(* C05 / slabconc over the concrete pool: what each locked body does to the SHARED pool state.

   [ShInv c s]: the sequential invariant [Inv] of coq/Slab/SlabInv.v holds of s up to the two components that are
   legitimately different while calls of several threads are in flight:
     - [used] (_usedPages): a slow-path allocate has already added the pages of a slab it has not attached yet
       (the exact relation is ConcSlabProofs.Inv_conc's accounting clause);
     - the ghost [peak] (C02's footprint counter): two threads that both find a class empty both map a slab, so
       C02's bound  slabs * per_slab < peak + per_slab  does NOT hold concurrently and is not claimed.
   Everything C01 talks about (slabs, free lists, partial trees, large frames, live blocks, mapped regions) is the
   state itself.  Each lemma below transports the per-path lemma of the sequential proof
   (pop_state_inv, free_small_state_inv, free_large_state_inv, newlarge_state_inv) through [sim]; the only new
   invariant proof is [attach_inv]: attaching a privately constructed slab to a bucket that need NOT be empty any
   more (another thread may have attached its slab in between). *)
From Coq Require Import List NArith Bool Lia ZifyBool ZifyNat ZifyN.
From FV Require Import Slab.SlabModel Slab.SlabArith Slab.SlabBasics Slab.SlabFail Slab.SlabInv Slab.SlabInvAlloc
  Slab.SlabInvFree Slab.SlabInvStep.
Import ListNotations.
Local Open Scope N_scope.

(* ---------- equality up to _usedPages and the ghost peak ---------- *)
Definition sim (s S : state) : Prop :=
  slabs S = slabs s /\ larges S = larges s /\ partial S = partial s /\ live S = live s /\ nlive S = nlive s.

Definition ShInv (c : cfg) (s : state) : Prop := exists S, sim s S /\ Inv c 0 S.

Lemma sim_refl s : sim s s.
Proof. repeat split. Qed.

Lemma sim_live_ptrs s S : sim s S -> live_ptrs S = live_ptrs s.
Proof. intros (_ & _ & _ & E & _). unfold live_ptrs. rewrite E. reflexivity. Qed.
Lemma sim_mapped s S : sim s S -> mapped S = mapped s.
Proof. intros (E1 & E2 & _). unfold mapped. rewrite E1, E2. reflexivity. Qed.
Lemma sim_pages c s S : sim s S -> pages c S = pages c s.
Proof. intros (E1 & E2 & _). unfold pages. rewrite E1, E2. reflexivity. Qed.
Lemma sim_bucket s S i : sim s S -> bucket S i = bucket s i.
Proof. intros (_ & _ & E & _). unfold bucket. rewrite E. reflexivity. Qed.
Lemma sim_lookup c s S p : sim s S -> lookup c S p = lookup c s p.
Proof. intros (E1 & E2 & _). unfold lookup. rewrite E1, E2. reflexivity. Qed.
Lemma sim_find_blk s S p : sim s S -> find_blk p (live S) = find_blk p (live s).
Proof. intros (_ & _ & _ & E & _). rewrite E. reflexivity. Qed.

(* ---------- the frame a pointer belongs to: slab of class i / large / none.  Read by free, deallocate and realloc
   WITHOUT a lock (header fields type, index); stable while the block is live (kind_stable below) ---------- *)
Definition kind (c : cfg) (s : state) (q : N) : option (option N) :=
  match lookup c s q with FSlab x => Some (Some (sl_idx x)) | FLarge _ => Some None | FNone => None end.

Lemma kind_sim c s S q : sim s S -> kind c S q = kind c s q.
Proof. intros H. unfold kind. rewrite (sim_lookup c s S q H). reflexivity. Qed.

Lemma find_slab_upd_idx a h x' l :
  sl_frame x' = h -> (forall z, In z l -> sl_frame z = h -> sl_idx x' = sl_idx z) ->
  match find_slab a (upd_slab h (fun _ => x') l), find_slab a l with
  | Some y', Some y => sl_idx y' = sl_idx y
  | None, None => True
  | _, _ => False
  end.
Proof.
  intros Hf. induction l as [|z r IH]; intros Hi; cbn [upd_slab find_slab]; [exact Logic.I|].
  destruct (sl_frame z =? h) eqn:E.
  - apply N.eqb_eq in E. cbn [find_slab]. rewrite Hf, E. destruct (h =? a); [apply Hi; [left; reflexivity|exact E]|].
    destruct (find_slab a r); auto.
  - cbn [find_slab]. destruct (sl_frame z =? a); [reflexivity|]. apply IH. intros z0 Hz0. apply Hi. right. exact Hz0.
Qed.

Lemma kind_upd_slab c s s' h x' :
  slabs s' = upd_slab h (fun _ => x') (slabs s) -> larges s' = larges s -> sl_frame x' = h ->
  (forall z, In z (slabs s) -> sl_frame z = h -> sl_idx x' = sl_idx z) ->
  forall q, kind c s' q = kind c s q.
Proof.
  intros Hs Hl Hf Hi q. unfold kind, lookup. rewrite Hs, Hl. set (a := align_down (q - 1) (sb c)).
  pose proof (find_slab_upd_idx a h x' (slabs s) Hf Hi) as G.
  destruct (find_slab a (upd_slab h (fun _ => x') (slabs s))), (find_slab a (slabs s)); try contradiction.
  - rewrite G. reflexivity.
  - reflexivity.
Qed.

Lemma find_large_remove_other a f l : a <> f -> find_large a (remove_large f l) = find_large a l.
Proof.
  intros Hne. induction l as [|z r IH]; cbn [remove_large find_large]; [reflexivity|].
  destruct (lg_frame z =? f) eqn:E.
  - apply N.eqb_eq in E. assert (Q : (lg_frame z =? a) = false) by (apply N.eqb_neq; congruence). rewrite Q. reflexivity.
  - cbn [find_large]. destruct (lg_frame z =? a); [reflexivity|exact IH].
Qed.

(* the frame address of a live pointer is the address of its frame *)
Lemma live_frame c s q : cfg_facts c -> Inv c 0 s -> In q (live_ptrs s) ->
  In (align_down (q - 1) (sb c)) (map sl_frame (slabs s) ++ map lg_frame (larges s)).
Proof.
  intros F I Hq. apply in_map_iff in Hq. destruct Hq as (b & <- & Hb).
  destruct (live_lookup c F 0 s I b Hb) as [(x & Hx & L & _)|(x & Hx & L & _)]; unfold lookup in L; apply in_or_app.
  - left. destruct (find_slab (align_down (bk_p b - 1) (sb c)) (slabs s)) as [y|] eqn:E.
    + apply find_slab_some in E. destruct E as [Hy <-]. apply in_map. exact Hy.
    + destruct (find_large (align_down (bk_p b - 1) (sb c)) (larges s)); discriminate.
  - destruct (find_slab (align_down (bk_p b - 1) (sb c)) (slabs s)) as [y|] eqn:E; [discriminate|].
    right. destruct (find_large (align_down (bk_p b - 1) (sb c)) (larges s)) as [y|] eqn:E2; [|discriminate].
    apply find_large_some in E2. destruct E2 as [Hy <-]. apply in_map. exact Hy.
Qed.

Lemma kind_cons_slab c s s' x q : slabs s' = x :: slabs s -> larges s' = larges s ->
  sl_frame x <> align_down (q - 1) (sb c) -> kind c s' q = kind c s q.
Proof.
  intros Hs Hl Hne. unfold kind, lookup. rewrite Hs, Hl. cbn [find_slab].
  assert (Q : (sl_frame x =? align_down (q - 1) (sb c)) = false) by (apply N.eqb_neq; exact Hne). rewrite Q. reflexivity.
Qed.
Lemma kind_cons_large c s s' x q : slabs s' = slabs s -> larges s' = x :: larges s ->
  lg_frame x <> align_down (q - 1) (sb c) -> kind c s' q = kind c s q.
Proof.
  intros Hs Hl Hne. unfold kind, lookup. rewrite Hs, Hl. cbn [find_large].
  assert (Q : (lg_frame x =? align_down (q - 1) (sb c)) = false) by (apply N.eqb_neq; exact Hne). rewrite Q. reflexivity.
Qed.

Ltac sim_destruct :=
  repeat match goal with
         | |- context [match ?x with _ => _ end] => destruct x
         | |- context [if ?x then _ else _] => destruct x
         end.

(* the bodies treat [used] and [peak] parametrically *)
Lemma sim_alloc_small c s S n' nreq idx e : sim s S -> bucket s idx <> [] ->
  sim (st_of (alloc_small c s n' nreq idx e)) (st_of (alloc_small c S n' nreq idx e))
  /\ res_of (alloc_small c S n' nreq idx e) = res_of (alloc_small c s n' nreq idx e)
  /\ cbs_of (alloc_small c S n' nreq idx e) = cbs_of (alloc_small c s n' nreq idx e).
Proof.
  destruct s as [sl lg pa us lv nl pk], S as [sl' lg' pa' us' lv' nl' pk']. unfold sim. cbn [slabs larges partial live nlive].
  intros (-> & -> & -> & -> & ->) Hb. unfold alloc_small, bucket in *. cbn [partial] in *.
  destruct (nth (N.to_nat idx) pa []) as [|h t]; [contradiction|].
  unfold pop_head. cbn [slabs]. destruct (find_slab h sl) as [x|]; [|repeat split].
  destruct (sl_avail x) as [|o av]; [repeat split|].
  destruct (negb (sl_contains c x o)); [repeat split|].
  unfold hand_out. cbn. repeat split.
Qed.

Lemma sim_free_small c s S x p : sim s S ->
  sim (st_of (free_small c s x p)) (st_of (free_small c S x p))
  /\ res_of (free_small c S x p) = res_of (free_small c s x p)
  /\ cbs_of (free_small c S x p) = cbs_of (free_small c s x p).
Proof.
  destruct s as [sl lg pa us lv nl pk], S as [sl' lg' pa' us' lv' nl' pk']. unfold sim. cbn [slabs larges partial live nlive].
  intros (-> & -> & -> & -> & ->). unfold free_small. cbn [live].
  destruct (negb (sl_contains c x p)); [repeat split|].
  destruct (find_blk p lv); [|repeat split].
  destruct (sl_nres x =? 0); [repeat split|].
  destruct (match sl_avail x with [] => false | a :: _ => negb (sl_contains c x a) end); [repeat split|].
  unfold drop_live. cbn. repeat split.
Qed.

Lemma sim_free_large c s S x p : sim s S ->
  sim (st_of (free_large c s x p)) (st_of (free_large c S x p))
  /\ res_of (free_large c S x p) = res_of (free_large c s x p)
  /\ cbs_of (free_large c S x p) = cbs_of (free_large c s x p).
Proof.
  destruct s as [sl lg pa us lv nl pk], S as [sl' lg' pa' us' lv' nl' pk']. unfold sim. cbn [slabs larges partial live nlive].
  intros (-> & -> & -> & -> & ->). unfold free_large. cbn [live].
  destruct (negb (lg_addr c x =? p)); [repeat split|].
  destruct (find_blk p lv); [|repeat split].
  unfold drop_live. cbn. repeat split.
Qed.

Lemma sim_with_live s S l : sim s S -> sim (with_live s l) (with_live S l).
Proof. unfold sim, with_live. cbn. intros (-> & -> & -> & _ & ->). repeat split. Qed.

(* ---------- the fast path: pop_head + hand_out on a non-empty bucket ---------- *)
Lemma alloc_small_used c s n' nreq idx e : used (st_of (alloc_small c s n' nreq idx e)) = used s \/ bucket s idx = [].
Proof.
  unfold alloc_small. destruct (bucket s idx) as [|h t]; [right; reflexivity|left].
  unfold pop_head. destruct (find_slab h (slabs s)) as [x|]; [|reflexivity].
  destruct (sl_avail x) as [|o av]; [reflexivity|].
  destruct (negb (sl_contains c x o)); reflexivity.
Qed.

Lemma fast_inv c s idx n' nreq e h t :
  cfg_facts c -> ShInv c s -> idx < nbuckets c -> bucket s idx = h :: t -> N.max nreq 1 <= b2s idx ->
  exists o, res_of (alloc_small c s n' nreq idx e) = RPtr o
    /\ ShInv c (st_of (alloc_small c s n' nreq idx e))
    /\ live_ptrs (st_of (alloc_small c s n' nreq idx e)) = o :: live_ptrs s
    /\ ~ In o (live_ptrs s)
    /\ mapped (st_of (alloc_small c s n' nreq idx e)) = mapped s
    /\ used (st_of (alloc_small c s n' nreq idx e)) = used s
    /\ pages c (st_of (alloc_small c s n' nreq idx e)) = pages c s
    /\ (forall q, kind c (st_of (alloc_small c s n' nreq idx e)) q = kind c s q).
Proof.
  intros F (S & Hsim & I) Hidx Hb Hfit.
  assert (HbS : bucket S idx = h :: t) by (rewrite (sim_bucket s S idx Hsim); exact Hb).
  destruct (alloc_small_pop c F 0 S I idx h t Hidx HbS n' nreq e) as (x & o & av & Hx & Hf & Hi & Ha & Hst & Hres).
  pose proof (pop_state_inv c F 0 S I idx h Hidx x o av nreq n' Hx Hf Hi Ha Hfit) as I'. rewrite <- Hst in I'.
  assert (Hne : bucket s idx <> []) by (rewrite Hb; discriminate).
  destruct (sim_alloc_small c s S n' nreq idx e Hsim Hne) as (Hsim' & Hr' & _).
  exists o. split; [rewrite <- Hr'; exact Hres|].
  assert (HL : live_ptrs (st_of (alloc_small c s n' nreq idx e)) = o :: live_ptrs s).
  { rewrite <- (sim_live_ptrs _ _ Hsim'), Hst, <- (sim_live_ptrs _ _ Hsim). reflexivity. }
  split; [exists (st_of (alloc_small c S n' nreq idx e)); split; [exact Hsim'|exact (Inv_any c _ 0 _ I')]|].
  split; [exact HL|].
  split.
  { pose proof (I_live_nodup _ _ _ I') as Hnd. rewrite (sim_live_ptrs _ _ Hsim'), HL in Hnd. inversion Hnd; assumption. }
  split.
  { rewrite <- (sim_mapped _ _ Hsim'), Hst, <- (sim_mapped _ _ Hsim). unfold mapped, pop_state. cbn [slabs larges].
    rewrite map_upd_slab_const; [reflexivity|].
    intros z Hz Hzf. rewrite (slab_by_frame c 0 S I z x Hz Hx) by congruence. reflexivity. }
  split.
  { destruct (alloc_small_used c s n' nreq idx e) as [E|E]; [exact E|congruence]. }
  split.
  { rewrite <- (sim_pages c _ _ Hsim'), <- (sim_pages c _ _ Hsim).
    rewrite <- (I_used _ _ _ I'), <- (I_used _ _ _ I), Hst. reflexivity. }
  intros q. rewrite <- (kind_sim c _ _ q Hsim'), <- (kind_sim c _ _ q Hsim).
  apply (kind_upd_slab c S _ h (set_avail x av (wrap32 (sl_nres x + 1)))); [rewrite Hst; reflexivity|rewrite Hst; reflexivity|exact Hf|].
  intros z Hz Hzf. rewrite (slab_by_frame c 0 S I z x Hz Hx) by congruence. reflexivity.
Qed.

(* ---------- free_in_slab_ / free_huge_ of a live block ---------- *)
Lemma in_live_ptrs s p : In p (live_ptrs s) -> exists b, In b (live s) /\ bk_p b = p.
Proof. unfold live_ptrs. intros H. apply in_map_iff in H. destruct H as (b & E & Hb). eauto. Qed.

Definition free_post (c : cfg) (s s' : state) (p : N) : Prop :=
  ShInv c s'
  /\ (forall q, In q (live_ptrs s') <-> In q (live_ptrs s) /\ q <> p)
  /\ (forall rg, In rg (mapped s') -> In rg (mapped s))
  /\ (forall q, In q (live_ptrs s') -> kind c s' q = kind c s q).

Lemma live_ptrs_remove s p : NoDup (live_ptrs s) ->
  forall q, In q (map bk_p (remove_blk p (live s))) <-> In q (live_ptrs s) /\ q <> p.
Proof.
  intros Hnd q. split.
  - intros H. split; [eapply live_ptrs_remove_sub; eauto|].
    intros ->. apply in_map_iff in H. destruct H as (b & E & Hb). apply (remove_blk_notin p (live s) Hnd b Hb E).
  - intros [H Hne]. apply in_live_ptrs in H. destruct H as (b & Hb & <-). apply in_map. apply remove_blk_keeps; assumption.
Qed.

Lemma free_lookup c s p : cfg_facts c -> ShInv c s -> In p (live_ptrs s) ->
  (exists x, lookup c s p = FSlab x /\ sl_idx x < nbuckets c /\ sl_contains c x p = true
     /\ cur_size c s p = sl_item x
     /\ res_of (free_small c s x p) = RUnit
     /\ free_post c s (st_of (free_small c s x p)) p
     /\ used (st_of (free_small c s x p)) = used s
     /\ pages c (st_of (free_small c s x p)) = pages c s)
  \/ (exists x, lookup c s p = FLarge x /\ lg_addr c x = p
     /\ cur_size c s p = lg_len x
     /\ res_of (free_large c s x p) = RUnit
     /\ free_post c s (st_of (free_large c s x p)) p
     /\ used (st_of (free_large c s x p)) = used s - (lg_len x + page c) / page c
     /\ pages c (st_of (free_large c s x p)) + (lg_len x + page c) / page c = pages c s).
Proof.
  intros F (S & Hsim & I) Hp. rewrite <- (sim_live_ptrs _ _ Hsim) in Hp.
  destruct (in_live_ptrs S p Hp) as (b & Hb & Hbp).
  assert (Hp0 : p <> 0) by (rewrite <- Hbp; apply (live_nonzero c F 0 S I b Hb)).
  pose proof (I_live_nodup _ _ _ I) as Hnd.
  destruct (live_lookup c F 0 S I b Hb) as [(x & Hx & L & O & Z & R)| (x & Hx & L & E & Z & R)]; rewrite Hbp in *.
  - left. exists x. rewrite (sim_lookup c s S p Hsim) in L. split; [exact L|].
    pose proof (I_slab _ _ _ I x Hx) as Sx.
    split; [apply (so_idx _ _ _ _ Sx)|]. split; [apply (obj_contains c F _ _ x p Sx O)|].
    split; [rewrite (get_size_lookup c s p Hp0), L; reflexivity|].
    destruct (free_small_ok c F 0 S I x p b Hx Hb Hbp O) as [E1 E2].
    pose proof (free_small_state_inv c F 0 S I x p b Hx Hb Hbp O) as I'. rewrite <- E1 in I'.
    destruct (sim_free_small c s S x p Hsim) as (Hsim' & Hr' & _).
    split; [rewrite <- Hr'; exact E2|].
    split; [split; [exists (st_of (free_small c S x p)); split; assumption|split; [|split]]|].
    + intros q. rewrite <- (sim_live_ptrs _ _ Hsim'), <- (sim_live_ptrs s S Hsim), E1. unfold live_ptrs at 1, free_small_state. cbn [live].
      apply (live_ptrs_remove S p Hnd).
    + intros rg. rewrite <- (sim_mapped _ _ Hsim'), <- (sim_mapped _ _ Hsim), E1. unfold mapped, free_small_state. cbn [slabs larges].
      rewrite map_upd_slab_const; [auto|].
      intros z Hz Hzf. rewrite (slab_by_frame c 0 S I z x Hz Hx) by congruence. reflexivity.
    + intros q _. rewrite <- (kind_sim c _ _ q Hsim'), <- (kind_sim c _ _ q Hsim).
      apply (kind_upd_slab c S _ (sl_frame x) (set_avail x (p :: sl_avail x) (sl_nres x - 1))); [rewrite E1; reflexivity|rewrite E1; reflexivity|reflexivity|].
      intros z Hz Hzf. rewrite (slab_by_frame c 0 S I z x Hz Hx) by congruence. reflexivity.
    + split.
      * unfold free_small. destruct (negb (sl_contains c x p)); [reflexivity|].
        destruct (find_blk p (live s)); [|reflexivity]. destruct (sl_nres x =? 0); [reflexivity|].
        destruct (match sl_avail x with [] => false | a :: _ => negb (sl_contains c x a) end); reflexivity.
      * rewrite <- (sim_pages c _ _ Hsim'), <- (sim_pages c _ _ Hsim), <- (I_used _ _ _ I'), <- (I_used _ _ _ I), E1. reflexivity.
  - right. exists x. rewrite (sim_lookup c s S p Hsim) in L. split; [exact L|]. split; [auto|].
    split; [rewrite (get_size_lookup c s p Hp0), L; reflexivity|].
    destruct (free_large_ok c 0 S I x p b Hb Hbp E) as [E1 E2].
    pose proof (free_large_state_inv c 0 S I x p b Hx Hbp E) as I'. rewrite <- E1 in I'.
    destruct (sim_free_large c s S x p Hsim) as (Hsim' & Hr' & _).
    split; [rewrite <- Hr'; exact E2|].
    split; [split; [exists (st_of (free_large c S x p)); split; assumption|split; [|split]]|].
    + intros q. rewrite <- (sim_live_ptrs _ _ Hsim'), <- (sim_live_ptrs s S Hsim), E1. unfold live_ptrs at 1, free_large_state. cbn [live].
      apply (live_ptrs_remove S p Hnd).
    + intros rg. rewrite <- (sim_mapped _ _ Hsim'), <- (sim_mapped _ _ Hsim), E1. unfold mapped, free_large_state. cbn [slabs larges].
      rewrite !in_app_iff, !in_map_iff. intros [H|(y & Ey & Hy)]; [left; exact H|right].
      exists y. split; [exact Ey|eapply in_remove_large; eauto].
    + intros q Hq. rewrite <- (sim_live_ptrs _ _ Hsim'), E1 in Hq. unfold live_ptrs at 1, free_large_state in Hq. cbn [live] in Hq.
      apply (live_ptrs_remove S p Hnd) in Hq. destruct Hq as [Hq Hqp].
      rewrite <- (kind_sim c _ _ q Hsim'), <- (kind_sim c _ _ q Hsim), E1.
      destruct (in_live_ptrs S q Hq) as (bq & Hbq & Hbqp).
      unfold kind, lookup, free_large_state. cbn [slabs larges].
      destruct (find_slab (align_down (q - 1) (sb c)) (slabs S)) as [y|] eqn:Efs; [reflexivity|].
      rewrite find_large_remove_other; [reflexivity|].
      intros Ea.
      destruct (live_lookup c F 0 S I bq Hbq) as [(y & Hy & Ly & _)|(y & Hy & Ly & Ey & _)]; rewrite Hbqp in *; unfold lookup in Ly; rewrite Efs in Ly.
      * destruct (find_large (align_down (q - 1) (sb c)) (larges S)); discriminate.
      * destruct (find_large (align_down (q - 1) (sb c)) (larges S)) as [y'|] eqn:Efl; [|discriminate].
        injection Ly as ->. apply find_large_some in Efl. destruct Efl as [_ Efl].
        assert (y = x) by (apply (large_by_frame c 0 S I); congruence). subst y. congruence.
    + split.
      * unfold free_large. rewrite <- E, N.eqb_refl. cbn [negb].
        rewrite <- (sim_find_blk s S p Hsim), (find_blk_in p (live S) b Hnd Hb Hbp). reflexivity.
      * rewrite <- (sim_pages c _ _ Hsim'), <- (sim_pages c _ _ Hsim), E1. unfold pages, free_large_state. cbn [slabs larges].
        pose proof (sumN_remove_large (large_pages c) x (larges S) (large_frames_nodup c 0 S I) Hx) as U.
        unfold large_pages at 2 in U. lia.
Qed.

(* ---------- ghost-only updates of one live block (set_req, move_log, write_) ---------- *)
Lemma ShInv_upd_blk c s p f :
  (forall b, bk_p (f b) = bk_p b) -> (forall b, bk_size0 (f b) = bk_size0 b) ->
  (forall S b, sim s S -> Inv c 0 S -> In b (live S) -> bk_p b = p -> N.max (bk_req (f b)) 1 <= bk_size0 b) ->
  ShInv c s -> ShInv c (with_live s (upd_blk p f (live s)))
  /\ live_ptrs (with_live s (upd_blk p f (live s))) = live_ptrs s.
Proof.
  intros Hp Hz Hreq (S & Hsim & I). split.
  - exists (with_live S (upd_blk p f (live S))). split.
    + destruct Hsim as (E1 & E2 & E3 & E4 & E5). unfold sim, with_live. cbn. rewrite E4. auto.
    + apply Inv_upd_blk; [exact Hp| |exact I].
      intros b Hb Hbp. pose proof (I_live _ _ _ I b Hb) as B. specialize (Hreq S b Hsim I Hb Hbp).
      unfold blk_ok in *. rewrite Hp, Hz.
      destruct B as [(x & Hx & O & Z & R)|(x & Hx & E & Z & R)]; [left|right]; exists x; repeat split; auto; congruence.
  - unfold live_ptrs, with_live. cbn. apply map_bk_p_upd_blk. exact Hp.
Qed.

Lemma move_log_ShInv c s p q : ShInv c s ->
  ShInv c (move_log s p q) /\ live_ptrs (move_log s p q) = live_ptrs s /\ mapped (move_log s p q) = mapped s
  /\ used (move_log s p q) = used s /\ pages c (move_log s p q) = pages c s
  /\ (forall a, kind c (move_log s p q) a = kind c s a).
Proof.
  intros H. rewrite move_log_eq. destruct (find_blk p (live s)) as [b|]; [|repeat split; auto].
  destruct (ShInv_upd_blk c s q (fun b' => mkBlk (bk_p b') (bk_req b') (bk_size0 b') (bk_unp b') (bk_log b)) ) as [A B]; auto.
  - intros S b0 _ I Hb0 _. cbn. destruct (I_live _ _ _ I b0 Hb0) as [(x & _ & _ & Z & R)|(x & _ & _ & Z & R)]; congruence.
  - repeat split; auto.
Qed.

(* ---------- publishing a large frame ---------- *)
Definition region_ok (c : cfg) (r len : N) : Prop :=
  0 < r /\ r + len <= two64 /\ (aligned c = true -> r mod sb c = 0).

Lemma publish_inv c s n' nreq r :
  cfg_facts c -> ShInv c s -> n' = N.max nreq 1 ->
  region_ok c r (large_map_len c (align_up n' (page c))) ->
  (forall rg, In rg (mapped s) -> rdisj (r, large_map_len c (align_up n' (page c))) rg = true) ->
  let s' := newlarge_state c s n' nreq r in
  ShInv c s'
  /\ live_ptrs s' = (lfr c r + page c) :: live_ptrs s
  /\ ~ In (lfr c r + page c) (live_ptrs s)
  /\ mapped s' = map sl_region (slabs s) ++ (r, large_map_len c (align_up n' (page c))) :: map lg_region (larges s)
  /\ pages c s' = pages c s + (align_up n' (page c) + page c) / page c
  /\ (forall q, In q (live_ptrs s) -> kind c s' q = kind c s q).
Proof.
  intros F (S & Hsim & I) Hn' (R0 & R1 & Hal) Hdisj s'.
  assert (Hfresh : fresh_region S r (large_map_len c (align_up n' (page c)))).
  { split; [exact R0|]. split; [exact R1|]. rewrite (sim_mapped _ _ Hsim). exact Hdisj. }
  pose proof (newlarge_state_inv c F 0 S I n' nreq r Hn' Hfresh Hal) as I'.
  assert (Hsim' : sim s' (newlarge_state c S n' nreq r)).
  { destruct Hsim as (E1 & E2 & E3 & E4 & E5). unfold sim, s', newlarge_state. cbn. rewrite E1, E2, E3, E4, E5. auto. }
  split; [exists (newlarge_state c S n' nreq r); split; assumption|].
  split; [reflexivity|].
  split.
  { pose proof (I_live_nodup _ _ _ I') as Hnd. rewrite (sim_live_ptrs _ _ Hsim') in Hnd.
    change (live_ptrs s') with ((lfr c r + page c) :: live_ptrs s) in Hnd. inversion Hnd; assumption. }
  split; [reflexivity|].
  split; [unfold pages, s', newlarge_state; cbn [slabs larges map sumN]; unfold large_pages at 1; cbn [lg_len]; unfold area; lia|].
  intros q Hq. apply (kind_cons_large c s s' (mkLarge (lfr c r) r (large_map_len c (area c n')) (area c n'))); [reflexivity|reflexivity|].
  cbn [lg_frame]. intros Ea.
  rewrite <- (sim_live_ptrs _ _ Hsim) in Hq. pose proof (live_frame c S q F I Hq) as Hin. rewrite <- Ea in Hin.
  pose proof (I_frames _ _ _ I') as Hnd. unfold newlarge_state in Hnd. cbn [slabs larges map lg_frame] in Hnd.
  apply NoDup_remove_2 in Hnd. exact (Hnd Hin).
Qed.

(* ---------- attaching a privately constructed slab ---------- *)
(* the private slab of a slow-path allocate after _construct_slab and the pop of its first object o *)
Definition pslab (c : cfg) (idx : N) (x : slab) (o : N) : Prop :=
  exists r av,
    region_ok c r (slab_map_len c)
    /\ x = mkSlab (frame_of_map c r) r (slab_map_len c) idx av 1
    /\ carve (frame_of_map c r + overhead c (b2s idx)) (b2s idx) (N.to_nat (nobj c (b2s idx))) = o :: av
    /\ av <> [].

Definition attach_state (c : cfg) (s : state) (idx n' nreq : N) (x : slab) (o : N) : state :=
  fst (hand_out c (attach_slab s idx x) o n' nreq idx).

Lemma attach_inv c s idx n' nreq x o :
  cfg_facts c -> ShInv c s -> idx < nbuckets c -> N.max nreq 1 <= b2s idx -> pslab c idx x o ->
  (forall rg, In rg (mapped s) -> rdisj (sl_region x) rg = true) ->
  let s' := attach_state c s idx n' nreq x o in
  ShInv c s'
  /\ live_ptrs s' = o :: live_ptrs s
  /\ ~ In o (live_ptrs s)
  /\ mapped s' = sl_region x :: mapped s
  /\ used s' = used s
  /\ pages c s' = pages c s + (sl_len c x + page c) / page c
  /\ (forall q, In q (live_ptrs s) -> kind c s' q = kind c s q).
Proof.
  intros F (S & Hsim & I) Hidx Hreq (r & av & (R0 & R1 & Hal) & Hx & Hc & Hav) Hdisj s'.
  set (item := b2s idx) in *. set (fr := frame_of_map c r) in *.
  set (base := fr + overhead c item) in *. set (cnt := N.to_nat (nobj c item)) in *.
  assert (Hfresh : fresh_region S r (slab_map_len c)).
  { split; [exact R0|]. split; [exact R1|]. rewrite (sim_mapped _ _ Hsim). intros rg Hrg. specialize (Hdisj rg Hrg).
    rewrite Hx in Hdisj. exact Hdisj. }
  pose proof (fr_spec c F idx r Hidx Hal) as (A & B & C). fold fr in A, B, C.
  pose proof Hfresh as (_ & _ & R2).
  assert (Hnd : NoDup (o :: av)) by (rewrite <- Hc; apply NoDup_carve; apply b2s_pos).
  assert (Hobj : forall a, In a (o :: av) -> obj_of c x a /\ r <= a /\ a < r + slab_map_len c).
  { intros a Ha. rewrite <- Hc in Ha. destruct (new_objs c F idx r Hidx Hal a Ha) as (O & Q). split; [|exact Q].
    rewrite Hx. destruct O as (i & Hi & E). exists i. split; [exact Hi|exact E]. }
  assert (Hold_live : forall a, r <= a -> a < r + slab_map_len c -> ~ In a (live_ptrs S)).
  { intros a A1 A2 Hin. unfold live_ptrs in Hin. apply in_map_iff in Hin. destruct Hin as (b & <- & Hb').
    destruct (live_in_frames c 0 S b F I Hb') as (f & rg & Hf & L1 & L2 & L3).
    assert (In rg (mapped S)) as Hm by (apply (mapped_frames S); eauto).
    apply (fresh_not_in_old S r (slab_map_len c) rg (bk_p b) (bk_p b) Hfresh Hm); auto; lia. }
  assert (Hold_avail : forall y a, In y (slabs S) -> In a (sl_avail y) -> r <= a -> a < r + slab_map_len c -> False).
  { intros y a Hy Ha A1 A2. destruct (avail_in_frames c 0 S y a F I Hy Ha) as (L1 & L2).
    apply (fresh_not_in_old S r (slab_map_len c) (sl_region y) a a Hfresh); auto.
    apply (mapped_frames S). exists (sl_frame y). apply in_frames_slab. assumption. }
  assert (Hfr_new : forall f rg, In (f, rg) (frames S) -> f <> fr).
  { intros f rg Hf ->. destruct (frame_in_region c F 0 S I fr rg Hf) as (L1 & L2 & _).
    assert (In rg (mapped S)) as Hm by (apply (mapped_frames S); eauto).
    specialize (R2 rg Hm). apply rdisj_spec in R2. cbn in R2. pose proof (cf_slabsz_pos c F). lia. }
  assert (Hlen0 : N.of_nat (Datatypes.S (length av)) = nobj c item).
  { pose proof (length_carve base item cnt) as L. rewrite Hc in L. cbn [length] in L. unfold cnt in L. lia. }
  assert (Sx' : slab_ok c 0 (o :: live_ptrs S) x).
  { rewrite Hx. constructor; unfold sl_item; cbn [sl_idx sl_base sl_frame sl_res sl_avail sl_nres]; auto; try (fold item; fold fr; lia).
    - inversion Hnd; assumption.
    - intros a Ha. destruct (Hobj a (or_intror Ha)) as (O & A1 & A2). split; [rewrite <- Hx; exact O|].
      intros [<- |Hl]; [inversion Hnd; contradiction|]. apply (Hold_live a A1 A2 Hl). }
  destruct (Hobj o (or_introl eq_refl)) as (Oo & O1 & O2).
  destruct (I_cnt_len _ _ _ I) as [L1 L2].
  (* the witness: the attached state over S, with the pages accounted and the footprint counter reset *)
  set (b := mkBlk o nreq item n' []).
  set (S' := mkState (x :: slabs S) (larges S) (upd_nth (partial S) (N.to_nat idx) (ins_sorted fr))
                     (used S + (payload c item + page c) / page c) (b :: live S)
                     (upd_nth (nlive S) (N.to_nat idx) (fun _ => N.succ (nth (N.to_nat idx) (nlive S) 0)))
                     (upd_nth (peak S) (N.to_nat idx) (fun _ => (cnum S idx + 1) * nobj c item))).
  assert (Hsfr : sl_frame x = fr) by (rewrite Hx; reflexivity).
  assert (Hsidx : sl_idx x = idx) by (rewrite Hx; reflexivity).
  assert (Hsim' : sim s' S').
  { destruct Hsim as (E1 & E2 & E3 & E4 & E5). unfold sim, s', S', attach_state, hand_out, attach_slab. cbn.
    rewrite E1, E2, E3, E4, E5, Hsfr. auto. }
  assert (I' : Inv c 0 S').
  { constructor; unfold S'; cbn [slabs larges partial live used nlive peak].
    - rewrite upd_nth_length. apply (I_len _ _ _ I).
    - cbn [map app]. rewrite Hsfr. constructor; [|apply (I_frames _ _ _ I)].
      intros Hin. apply in_app_iff in Hin. rewrite !in_map_iff in Hin.
      destruct Hin as [(y & E & Hy)| (y & E & Hy)].
      + apply (Hfr_new (sl_frame y) (sl_region y)); [apply in_frames_slab; assumption|assumption].
      + apply (Hfr_new (lg_frame y) (lg_region y)); [apply in_frames_large; assumption|assumption].
    - intros y [<- |Hy]; [exact Sx'|].
      unfold live_ptrs. cbn [live map bk_p b].
      apply (slab_ok_lv c 0 (live_ptrs S)); [|apply (I_slab _ _ _ I y Hy)].
      intros a Hay Hnl [<- |Hl]; [|contradiction]. apply (Hold_avail y o Hy Hay O1 O2).
    - apply (I_large _ _ _ I).
    - intros f1 r1 f2 r2 H1 H2 Hne. unfold frames in H1, H2. cbn [slabs larges map app] in H1, H2.
      assert (Hk : sl_key x = (fr, (r, slab_map_len c))) by (rewrite Hx; reflexivity). rewrite Hk in H1, H2.
      destruct H1 as [E1|H1], H2 as [E2|H2].
      + injection E1 as <- <-. injection E2 as <- <-. contradiction.
      + injection E1 as <- <-. apply R2. apply (mapped_frames S). exists f2. exact H2.
      + injection E2 as <- <-. rewrite rdisj_sym. apply R2. apply (mapped_frames S). exists f1. exact H1.
      + apply (I_disj _ _ _ I f1 r1 f2 r2); assumption.
    - unfold live_ptrs. cbn. constructor; [apply (Hold_live o O1 O2)|apply (I_live_nodup _ _ _ I)].
    - intros b0 [<- |Hb'].
      + left. exists x. split; [left; reflexivity|]. cbn [bk_p bk_size0 bk_req b]. split; [exact Oo|].
        unfold sl_item. rewrite Hsidx. split; [reflexivity|exact Hreq].
      + destruct (I_live _ _ _ I b0 Hb') as [(y & Hy & O & Z & R)| (y & Hy & E & Z & R)].
        * left. exists y. split; [right; assumption|auto].
        * right. exists y. auto.
    - intros i Hi'. destruct (I_partial _ _ _ I i Hi') as [Bs Bm].
      unfold bucket_ok, bucket. cbn [partial slabs].
      destruct (N.eq_dec i idx) as [-> |Hne].
      + rewrite nth_upd_nth_same by (rewrite (I_len _ _ _ I); lia). fold (bucket S idx).
        assert (Hnotin : ~ In fr (bucket S idx)).
        { intros H. apply Bm in H. destruct H as (y & Hy & Hyf & _).
          apply (Hfr_new (sl_frame y) (sl_region y)); [apply in_frames_slab; assumption|assumption]. }
        split; [apply sorted_ins; assumption|].
        intros a. rewrite in_ins_sorted, Bm. split.
        * intros [-> | (y & Hy & Q)].
          -- exists x. split; [left; reflexivity|]. rewrite Hx. cbn. repeat split; auto.
          -- exists y. split; [right; assumption|exact Q].
        * intros (y & [<- |Hy] & Hyf & Hyi & Hya); [left; congruence|]. right. exists y. auto.
      + rewrite nth_upd_nth_other by lia. fold (bucket S i). split; [assumption|].
        intros a. rewrite Bm. split.
        * intros (y & Hy & Q). exists y. split; [right; assumption|exact Q].
        * intros (y & [<- |Hy] & Hyf & Hyi & Hya); [congruence|exists y; auto].
    - intros y Hy. unfold live_ptrs. cbn. right. apply (I_large_live _ _ _ I y Hy).
    - unfold pages. cbn [slabs larges map sumN]. rewrite (I_used _ _ _ I). unfold pages.
      assert (Ex : slab_pages c x = (payload c item + page c) / page c) by (unfold slab_pages, sl_len, sl_item; rewrite Hsidx; reflexivity).
      rewrite Ex. lia.
    - rewrite !upd_nth_length. exact (conj L1 L2).
    - intros i Hi'. destruct (I_foot _ _ _ I i Hi') as (E1 & E2 & E3).
      unfold foot_ok, nlive_of, peak_of, cfree, cnum in *. cbn [slabs nlive peak map sumN].
      assert (G3 : g_free i x = if idx =? i then N.of_nat (length av) else 0) by (rewrite Hx; reflexivity).
      assert (G4 : g_cnt i x = if idx =? i then 1 else 0) by (rewrite Hx; reflexivity).
      rewrite G3, G4.
      destruct (N.eq_dec i idx) as [-> |Hne].
      + rewrite (nth_upd_same_N (nlive S) idx _ 0 (nbuckets c) L1 Hidx).
        rewrite (nth_upd_same_N (peak S) idx _ 0 (nbuckets c) L2 Hidx).
        rewrite N.eqb_refl. fold item in E1, E3 |- *. unfold cnum. pose proof (nobj_ge2 c idx F Hidx). fold item in H. nia.
      + rewrite !nth_upd_other_N by congruence.
        assert (Q : (idx =? i) = false) by (apply N.eqb_neq; congruence). rewrite Q. lia. }
  split; [exists S'; split; assumption|].
  split; [reflexivity|].
  split; [rewrite <- (sim_live_ptrs _ _ Hsim); apply (Hold_live o O1 O2)|].
  split; [reflexivity|]. split; [reflexivity|].
  split; [unfold pages, s', attach_state, hand_out, attach_slab; cbn [fst slabs larges map sumN]; unfold slab_pages at 1; lia|].
  intros q Hq. apply (kind_cons_slab c s s' x); [reflexivity|reflexivity|].
  rewrite Hsfr. intros Ea.
  rewrite <- (sim_live_ptrs _ _ Hsim) in Hq. pose proof (live_frame c S q F I Hq) as Hin. rewrite <- Ea in Hin.
  apply in_app_iff in Hin. rewrite !in_map_iff in Hin. destruct Hin as [(y & E & Hy)| (y & E & Hy)].
  - apply (Hfr_new (sl_frame y) (sl_region y)); [apply in_frames_slab; assumption|assumption].
  - apply (Hfr_new (lg_frame y) (lg_region y)); [apply in_frames_large; assumption|assumption].
Qed.
