(* Proofs about the concurrent control model (ConcModel.v):
   - project_disciplined: the micro-op projection of a monitor-accepted event trace is a disciplined program;
   - the invariant of the thread pool under every scheduler, and from it: bodies only under their lock,
     mutual exclusion, policy callbacks without locks, no deadlock, progress, holders never block. *)
From Coq Require Import List String Bool Arith Lia.
From FV Require Import SlabConc.Skeleton SlabConc.SkeletonSound SlabConc.ConcModel.
Import ListNotations.
Open Scope string_scope.
Open Scope list_scope.

Lemma lockid_eqb_spec a b : reflect (a = b) (lockid_eqb a b).
Proof.
  destruct a as [i|], b as [j|]; cbn [lockid_eqb]; try (constructor; congruence).
  destruct (Nat.eqb_spec i j); constructor; congruence.
Qed.

Lemma lockid_eqb_refl a : lockid_eqb a a = true.
Proof. destruct (lockid_eqb_spec a a); congruence. Qed.

(* ------------------------------------------------------------------------------------------------ *)
(* Projection preserves discipline                                                                   *)
(* ------------------------------------------------------------------------------------------------ *)

Definition rel (s : mstate) (hl : option lockid) : Prop :=
  match held s, hl with
  | None, None => True
  | Some (_, MB), Some (LB _) => True
  | Some (_, MT), Some LT => True
  | _, _ => False
  end.

Lemma holds_MB_rel s hl : holds s MB = true -> rel s hl -> exists i, hl = Some (LB i).
Proof.
  unfold holds, rel. destruct (held s) as [[g m]|]; [|discriminate].
  destruct m; cbn [mtx_eqb]; [|discriminate]. intros _.
  destruct hl as [[i|]|]; try contradiction. exists i; reflexivity.
Qed.

Lemma holds_MT_rel s hl : holds s MT = true -> rel s hl -> hl = Some LT.
Proof.
  unfold holds, rel. destruct (held s) as [[g m]|]; [|discriminate].
  destruct m; cbn [mtx_eqb]; [discriminate|]. intros _.
  destruct hl as [[i|]|]; try contradiction. reflexivity.
Qed.

Lemma mstep_body l : mstep (Some l) (MBody l) = Some (Some l).
Proof. cbn [mstep]. rewrite lockid_eqb_refl. reflexivity. Qed.

Lemma access_mop_ok s hl f md obj :
  access_ok s f md obj = true -> rel s hl -> mstep hl (access_mop s hl f obj) = Some hl.
Proof.
  unfold access_ok, access_mop. intros Hok Hrel.
  destruct (field_class f) as [[| | | |]|]; [| | | | |discriminate].
  - destruct (holds_MB_rel _ _ Hok Hrel) as [i ->]. apply mstep_body.
  - destruct (mem obj (priv s)); [destruct hl; reflexivity|]. cbn [orb] in Hok.
    destruct (holds_MB_rel _ _ Hok Hrel) as [i ->]. apply mstep_body.
  - destruct (mem obj (priv s)); [destruct hl; reflexivity|]. cbn [orb] in Hok.
    destruct (holds_MB_rel _ _ Hok Hrel) as [i ->]. apply mstep_body.
  - rewrite (holds_MT_rel _ _ Hok Hrel). apply mstep_body.
  - destruct hl; reflexivity.
Qed.

Lemma project_mrun tr : forall idx n s hl s',
  run_mon s tr = Some s' -> rel s hl ->
  exists hl', mrun hl (project idx n s hl tr) = Some hl' /\ rel s' hl'.
Proof.
  induction tr as [|e tr IH]; intros idx n s hl s' Hrun Hrel.
  - cbn [run_mon] in Hrun. injection Hrun as <-. exists hl. split; [reflexivity|assumption].
  - cbn [run_mon] in Hrun. destruct (mon s e) as [s1|] eqn:Hm; [|discriminate].
    cbn [project]. rewrite Hm.
    destruct e as [g m|g|g|f|f md obj|v|v src|v obj|]; cbn [mon] in Hm.
    + (* ELock *)
      unfold rel in Hrel. destruct (held s) as [[g' m']|] eqn:Hh; [discriminate|].
      destruct hl as [l|]; [contradiction|]. injection Hm as <-.
      cbn [mrun mstep].
      apply IH; [assumption|]. unfold rel; cbn [held]. destruct m; exact I.
    + (* EUnlock *)
      unfold rel in Hrel. destruct (held s) as [[g' m']|] eqn:Hh; [|discriminate].
      destruct (String.eqb g g'); [|discriminate]. injection Hm as <-.
      destruct hl as [l|]; [|destruct m'; contradiction].
      cbn [mrun mstep]. rewrite lockid_eqb_refl.
      apply IH; [assumption|]. unfold rel; cbn [held]. exact I.
    + (* EScopeEnd *)
      unfold rel in Hrel. destruct (held s) as [[g' m']|] eqn:Hh.
      * destruct hl as [l|]; [|destruct m'; contradiction].
        destruct (String.eqb g g').
        -- injection Hm as <-. cbn [mrun mstep]. rewrite lockid_eqb_refl.
           apply IH; [assumption|]. unfold rel; cbn [held]. exact I.
        -- injection Hm as <-. apply IH; [assumption|]. unfold rel; cbn [held]. exact Hrel.
      * destruct hl as [l|]; [contradiction|]. injection Hm as <-.
        apply IH; [assumption|]. unfold rel; cbn [held]. exact I.
    + (* EPolicy *)
      unfold rel in Hrel. destruct (held s) as [[g' m']|] eqn:Hh; [discriminate|].
      destruct hl as [l|]; [contradiction|]. injection Hm as <-.
      cbn [mrun mstep]. apply IH; [assumption|]. unfold rel; rewrite Hh; exact I.
    + (* EAccess *)
      destruct (access_ok s f md obj) eqn:Hok; [|discriminate]. injection Hm as <-.
      cbn [mrun]. rewrite (access_mop_ok _ _ _ _ _ Hok Hrel). apply IH; assumption.
    + injection Hm as <-. apply IH; [assumption|]. exact Hrel.
    + injection Hm as <-. apply IH; [assumption|]. exact Hrel.
    + injection Hm as <-. apply IH; [assumption|]. exact Hrel.
    + (* EReturn *)
      unfold rel in Hrel. destruct (held s) as [[g' m']|] eqn:Hh; [discriminate|].
      destruct hl as [l|]; [contradiction|]. injection Hm as <-.
      cbn [mrun mstep]. apply IH; [assumption|]. unfold rel; rewrite Hh; exact I.
Qed.

Lemma run_mon_ends_return s t s' : run_mon s (t ++ [EReturn]) = Some s' -> held s' = None.
Proof.
  rewrite run_mon_app. destruct (run_mon s t) as [s1|]; [|discriminate].
  cbn [run_mon mon]. destruct (held s1) eqn:Hh; [discriminate|]. intro H; injection H as <-. assumption.
Qed.

(* the projection (for any assignment idx of bucket indices to acquisitions) of a monitor-accepted complete
   API trace is a disciplined micro-op program *)
Lemma project_disciplined idx t s' :
  run_mon s0 (t ++ [EReturn]) = Some s' -> mdisc None (project_api idx (t ++ [EReturn])) = true.
Proof.
  intro Hrun. unfold project_api, mdisc.
  destruct (project_mrun _ idx 0 s0 None s' Hrun I) as (hl' & Hm & Hrel).
  rewrite Hm. pose proof (run_mon_ends_return _ _ _ Hrun) as Hh.
  unfold rel in Hrel. rewrite Hh in Hrel. destruct hl'; [contradiction|reflexivity].
Qed.

(* ------------------------------------------------------------------------------------------------ *)
(* Disciplined programs                                                                              *)
(* ------------------------------------------------------------------------------------------------ *)

Lemma mrun_app h a b :
  mrun h (a ++ b) = match mrun h a with Some h' => mrun h' b | None => None end.
Proof.
  revert h; induction a as [|m a IH]; intro h; cbn [mrun app]; [reflexivity|].
  destruct (mstep h m); [apply IH|reflexivity].
Qed.

Lemma mdisc_app a b : mdisc None a = true -> mdisc None b = true -> mdisc None (a ++ b) = true.
Proof.
  unfold mdisc. rewrite mrun_app. destruct (mrun None a) as [[l|]|]; try discriminate. intros _ H; exact H.
Qed.

Lemma mdisc_concat ops : Forall (fun o => mdisc None o = true) ops -> mdisc None (List.concat ops) = true.
Proof.
  induction 1 as [|o ops Ho _ IH]; cbn [List.concat]; [reflexivity|]. apply mdisc_app; assumption.
Qed.

Lemma mdisc_cons h m r : mdisc h (m :: r) = true -> exists h', mstep h m = Some h' /\ mdisc h' r = true.
Proof.
  unfold mdisc; cbn [mrun]. destruct (mstep h m) as [h'|]; [|discriminate]. intro H. exists h'. split; [reflexivity|exact H].
Qed.

(* a holder's program reaches the unlock of its lock through steps that never block *)
Definition nonblocking (m : mop) : Prop := match m with MLock _ | MUnlock _ => False | _ => True end.

Lemma holder_program l p :
  mdisc (Some l) p = true ->
  exists pre r, p = pre ++ MUnlock l :: r /\ Forall nonblocking pre /\ mdisc None r = true
                /\ to_unlock p = S (List.length pre).
Proof.
  induction p as [|m p IH]; intro H; [discriminate|].
  destruct (mdisc_cons _ _ _ H) as (h' & Hs & Hr).
  destruct m as [l'|l'|l'|f| |]; cbn [mstep] in Hs; try discriminate.
  - destruct (lockid_eqb_spec l' l) as [->|]; [|discriminate]. injection Hs as <-.
    exists [], p. repeat split; [constructor|assumption].
  - destruct (lockid_eqb l' l); [|discriminate]. injection Hs as <-.
    destruct (IH Hr) as (pre & r & -> & Hpre & Hd & Hlen).
    exists (MBody l' :: pre), r. repeat split; [constructor; [exact I|assumption]|assumption|].
    cbn [to_unlock List.length]. rewrite Hlen. reflexivity.
  - injection Hs as <-.
    destruct (IH Hr) as (pre & r & -> & Hpre & Hd & Hlen).
    exists (MPrivate :: pre), r. repeat split; [constructor; [exact I|assumption]|assumption|].
    cbn [to_unlock List.length]. rewrite Hlen. reflexivity.
Qed.

(* ------------------------------------------------------------------------------------------------ *)
(* The invariant of the thread pool                                                                  *)
(* ------------------------------------------------------------------------------------------------ *)

Definition Inv (s : state) : Prop :=
  (forall t, mdisc (hold s t) (rest s t) = true) /\
  (forall l t, owner s l = Some t <-> hold s t = Some l).

Lemma Inv_init prog : (forall t, mdisc None (prog t) = true) -> Inv (init prog).
Proof.
  intro H. split; cbn [init hold rest owner]; [exact H|]. intros l t; split; discriminate.
Qed.

Lemma updt_same {A} (f : tid -> A) t v : updt f t v t = v.
Proof. unfold updt. rewrite Nat.eqb_refl. reflexivity. Qed.
Lemma updt_other {A} (f : tid -> A) t v t' : t' <> t -> updt f t v t' = f t'.
Proof. unfold updt. intro H. destruct (Nat.eqb_spec t' t); [contradiction|reflexivity]. Qed.
Lemma updl_same {A} (f : lockid -> A) l v : updl f l v l = v.
Proof. unfold updl. rewrite lockid_eqb_refl. reflexivity. Qed.
Lemma updl_other {A} (f : lockid -> A) l v l' : l' <> l -> updl f l v l' = f l'.
Proof. unfold updl. intro H. destruct (lockid_eqb_spec l' l); [contradiction|reflexivity]. Qed.

Lemma Inv_step s t : Inv s -> Inv (step s t).
Proof.
  intros [Hd Ho]. unfold step.
  destruct (rest s t) as [|m r] eqn:Hrest; [split; assumption|].
  pose proof (Hd t) as Hdt. rewrite Hrest in Hdt.
  destruct (mdisc_cons _ _ _ Hdt) as (h' & Hs & Hr).
  destruct m as [l|l|l|f| |].
  - (* MLock *)
    destruct (hold s t) as [l0|] eqn:Hht; cbn [mstep] in Hs; [discriminate|]. injection Hs as <-.
    destruct (owner s l) as [t0|] eqn:Hol; [split; assumption|].
    split; cbn [owner rest hold].
    + intro t'. destruct (Nat.eq_dec t' t) as [->|Hne].
      * rewrite !updt_same. assumption.
      * rewrite !updt_other by assumption. apply Hd.
    + intros l' t'. destruct (lockid_eqb_spec l' l) as [->|Hnl].
      * rewrite updl_same. destruct (Nat.eq_dec t' t) as [->|Hne].
        -- rewrite updt_same. tauto.
        -- rewrite updt_other by assumption. split; [intro H; injection H as ->; contradiction|].
           intro H. apply Ho in H. congruence.
      * rewrite updl_other by assumption. destruct (Nat.eq_dec t' t) as [->|Hne].
        -- rewrite updt_same. split; [|intro H; injection H as ->; contradiction].
           intro H. apply Ho in H. congruence.
        -- rewrite updt_other by assumption. apply Ho.
  - (* MUnlock *)
    destruct (hold s t) as [l0|] eqn:Hht; cbn [mstep] in Hs; [|discriminate].
    destruct (lockid_eqb_spec l l0) as [->|]; [|discriminate]. injection Hs as <-.
    split; cbn [owner rest hold].
    + intro t'. destruct (Nat.eq_dec t' t) as [->|Hne].
      * rewrite !updt_same. assumption.
      * rewrite !updt_other by assumption. apply Hd.
    + intros l' t'. destruct (lockid_eqb_spec l' l0) as [->|Hnl].
      * rewrite updl_same. split; [discriminate|]. destruct (Nat.eq_dec t' t) as [->|Hne].
        -- rewrite updt_same. discriminate.
        -- rewrite updt_other by assumption. intro H. apply Ho in H. apply Ho in Hht. congruence.
      * rewrite updl_other by assumption. destruct (Nat.eq_dec t' t) as [->|Hne].
        -- rewrite updt_same. split; [|discriminate]. intro H. apply Ho in H. congruence.
        -- rewrite updt_other by assumption. apply Ho.
  - (* MBody *)
    assert (h' = hold s t) as ->.
    { destruct (hold s t) as [l0|]; cbn [mstep] in Hs; [|discriminate].
      destruct (lockid_eqb l l0); [|discriminate]. injection Hs as <-. reflexivity. }
    split; cbn [owner rest hold]; [|assumption].
    intro t'. destruct (Nat.eq_dec t' t) as [->|Hne]; [rewrite updt_same; assumption|].
    rewrite updt_other by assumption. apply Hd.
  - (* MPolicy *)
    assert (h' = hold s t) as ->.
    { destruct (hold s t) as [l0|]; cbn [mstep] in Hs; [discriminate|]. injection Hs as <-. reflexivity. }
    split; cbn [owner rest hold]; [|assumption].
    intro t'. destruct (Nat.eq_dec t' t) as [->|Hne]; [rewrite updt_same; assumption|].
    rewrite updt_other by assumption. apply Hd.
  - (* MPrivate *)
    cbn [mstep] in Hs. injection Hs as <-.
    split; cbn [owner rest hold]; [|assumption].
    intro t'. destruct (Nat.eq_dec t' t) as [->|Hne]; [rewrite updt_same; assumption|].
    rewrite updt_other by assumption. apply Hd.
  - (* MRet *)
    assert (h' = hold s t) as ->.
    { destruct (hold s t) as [l0|]; cbn [mstep] in Hs; [discriminate|]. injection Hs as <-. reflexivity. }
    split; cbn [owner rest hold]; [|assumption].
    intro t'. destruct (Nat.eq_dec t' t) as [->|Hne]; [rewrite updt_same; assumption|].
    rewrite updt_other by assumption. apply Hd.
Qed.

Lemma Inv_run sched : forall s, Inv s -> Inv (run sched s).
Proof.
  induction sched as [|t sched IH]; intros s H; [exact H|]. cbn [run fold_left]. apply IH, Inv_step, H.
Qed.

Theorem Inv_reachable prog sched :
  (forall t, mdisc None (prog t) = true) -> Inv (run sched (init prog)).
Proof. intro H. apply Inv_run, Inv_init, H. Qed.

(* ------------------------------------------------------------------------------------------------ *)
(* Consequences of the invariant                                                                     *)
(* ------------------------------------------------------------------------------------------------ *)

Section Consequences.
Variable s : state.
Hypothesis HI : Inv s.

Lemma body_under_lock t l : at_body s t l -> owner s l = Some t.
Proof.
  destruct HI as [Hd Ho]. intros [r Hr]. apply Ho.
  pose proof (Hd t) as H. rewrite Hr in H. destruct (mdisc_cons _ _ _ H) as (h' & Hs & _).
  destruct (hold s t) as [l0|]; cbn [mstep] in Hs; [|discriminate].
  destruct (lockid_eqb_spec l l0) as [->|]; [reflexivity|discriminate].
Qed.

Lemma bodies_exclusive t1 t2 l : at_body s t1 l -> at_body s t2 l -> t1 = t2.
Proof. intros H1 H2. apply body_under_lock in H1, H2. congruence. Qed.

Lemma at_most_one_lock t l1 l2 : owner s l1 = Some t -> owner s l2 = Some t -> l1 = l2.
Proof. destruct HI as [_ Ho]. intros H1 H2. apply Ho in H1, H2. congruence. Qed.

Lemma policy_without_locks t f l : at_policy s t f -> owner s l <> Some t.
Proof.
  destruct HI as [Hd Ho]. intros [r Hr] Hown. apply Ho in Hown.
  pose proof (Hd t) as H. rewrite Hr, Hown in H. destruct (mdisc_cons _ _ _ H) as (h' & Hs & _). discriminate.
Qed.

Lemma return_without_locks t l : at_ret s t -> owner s l <> Some t.
Proof.
  destruct HI as [Hd Ho]. intros [r Hr] Hown. apply Ho in Hown.
  pose proof (Hd t) as H. rewrite Hr, Hown in H. destruct (mdisc_cons _ _ _ H) as (h' & Hs & _). discriminate.
Qed.

Lemma finished_without_locks t l : rest s t = [] -> owner s l <> Some t.
Proof.
  destruct HI as [Hd Ho]. intros Hr Hown. apply Ho in Hown.
  pose proof (Hd t) as H. rewrite Hr, Hown in H. discriminate.
Qed.

Lemma lock_attempt_without_locks t l r l' : rest s t = MLock l :: r -> owner s l' <> Some t.
Proof.
  destruct HI as [Hd Ho]. intros Hr Hown. apply Ho in Hown.
  pose proof (Hd t) as H. rewrite Hr, Hown in H. destruct (mdisc_cons _ _ _ H) as (h' & Hs & _). discriminate.
Qed.

(* whoever holds a lock can take a step, and goes on to release it without ever blocking *)
Lemma holder_enabled t l : owner s l = Some t -> enabled s t.
Proof.
  destruct HI as [Hd Ho]. intro Hown. apply Ho in Hown.
  pose proof (Hd t) as H. rewrite Hown in H.
  destruct (holder_program _ _ H) as (pre & r & Hp & Hpre & _).
  unfold enabled. rewrite Hp. destruct pre as [|m pre]; cbn [app]; [exact I|].
  inversion Hpre as [|? ? Hm _]; subst. destruct m; try exact I; contradiction.
Qed.

Lemma holder_releases t l : owner s l = Some t ->
  exists pre r, rest s t = pre ++ MUnlock l :: r /\ Forall nonblocking pre /\ to_unlock (rest s t) = S (List.length pre).
Proof.
  destruct HI as [Hd Ho]. intro Hown. apply Ho in Hown.
  pose proof (Hd t) as H. rewrite Hown in H.
  destruct (holder_program _ _ H) as (pre & r & Hp & Hpre & _ & Hlen).
  exists pre, r. repeat split; assumption.
Qed.

Lemma no_deadlock_state : (exists t, rest s t <> []) -> exists t, enabled s t.
Proof.
  intros [t Ht]. destruct (rest s t) as [|m r] eqn:Hr; [contradiction|].
  destruct m as [l|l|l|f| |]; try (exists t; unfold enabled; rewrite Hr; exact I).
  destruct (owner s l) as [t'|] eqn:Hol.
  - exists t'. eapply holder_enabled; eassumption.
  - exists t. unfold enabled. rewrite Hr. assumption.
Qed.

End Consequences.

(* progress: an enabled step consumes exactly one micro-op of the stepping thread and nothing of the others;
   a disabled step is a stutter *)
Lemma step_progress s t : enabled s t ->
  rest (step s t) t = tl (rest s t) /\ forall t', t' <> t -> rest (step s t) t' = rest s t'.
Proof.
  unfold enabled, step. destruct (rest s t) as [|m r] eqn:Hr; [contradiction|].
  destruct m as [l|l|l|f| |]; intro He; try rewrite He; cbn [rest tl];
    (split; [apply updt_same|intros t' Hne; apply updt_other; assumption]).
Qed.

Lemma step_disabled s t : ~ enabled s t -> step s t = s.
Proof.
  unfold enabled, step. destruct (rest s t) as [|m r]; [reflexivity|].
  destruct m as [l|l|l|f| |]; intro H; try (exfalso; apply H; exact I).
  destruct (owner s l); [reflexivity|]. exfalso; apply H; reflexivity.
Qed.

Lemma step_others_rest s t t' : t' <> t -> rest (step s t) t' = rest s t'.
Proof.
  intro Hne. unfold step. destruct (rest s t) as [|m r]; [reflexivity|].
  destruct m as [l|l|l|f| |]; try (cbn [rest]; apply updt_other; assumption).
  destruct (owner s l); [reflexivity|]. cbn [rest]. apply updt_other; assumption.
Qed.

(* a thread that is scheduled n times while enabled each time has consumed exactly n micro-ops: an operation
   whose micro-op list has length k is finished after k enabled steps of its thread, whatever the others do *)
Lemma rest_only_shrinks s t t' : exists k, rest s t' = firstn k (rest s t') ++ rest (step s t) t' /\ k <= 1.
Proof.
  destruct (Nat.eq_dec t' t) as [->|Hne].
  - unfold step. destruct (rest s t) as [|m r] eqn:Hr.
    + exists 0. rewrite Hr. split; [reflexivity|lia].
    + destruct m as [l|l|l|f| |];
        try (exists 1; cbn [rest firstn app]; rewrite updt_same; split; [reflexivity|lia]).
      destruct (owner s l).
      * exists 0. rewrite Hr. split; [reflexivity|lia].
      * exists 1. cbn [rest firstn app]. rewrite updt_same. split; [reflexivity|lia].
  - exists 0. rewrite step_others_rest by assumption. split; [reflexivity|lia].
Qed.
