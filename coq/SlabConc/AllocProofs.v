(* Proofs about the abstract allocator under concurrency (AllocModel.v): the invariant AInv holds in every
   state reachable under every scheduler; consequences: no block is handed out twice, the commit log is a legal
   history of the abstract allocator, the page counter never loses an update. *)
From Coq Require Import List String Bool Arith Lia Permutation.
From FV Require Import SlabConc.ConcModel SlabConc.ConcProofs SlabConc.AllocModel.
Import ListNotations.
Open Scope list_scope.

(* ---------------------------------------------------------------------------------------------- *)
(* list facts                                                                                      *)
(* ---------------------------------------------------------------------------------------------- *)

Lemma nodup_app {A} (a b : list A) :
  NoDup (a ++ b) <-> NoDup a /\ NoDup b /\ (forall x, In x a -> ~ In x b).
Proof.
  induction a as [|x a IH]; cbn [app].
  - split; [intro H; repeat split; [constructor|exact H|intros x []]|intros (_ & H & _); exact H].
  - split.
    + intro H. inversion H as [|? ? Hx Hn]; subst. apply IH in Hn as (Ha & Hb & Hd).
      repeat split.
      * constructor; [intro Hin; apply Hx, in_or_app; left; exact Hin|exact Ha].
      * exact Hb.
      * intros y [<-|Hy]; [intro Hin; apply Hx, in_or_app; right; exact Hin|apply Hd, Hy].
    + intros (Ha & Hb & Hd). inversion Ha as [|? ? Hx Hn]; subst. constructor.
      * intro Hin. apply in_app_or in Hin as [Hin|Hin]; [exact (Hx Hin)|exact (Hd x (or_introl eq_refl) Hin)].
      * apply IH. repeat split; [exact Hn|exact Hb|intros y Hy; apply Hd; right; exact Hy].
Qed.

Lemma nodup_remove (b : block) l : NoDup l -> NoDup (remove block_eq_dec b l).
Proof.
  induction 1 as [|x l Hx Hn IH]; cbn [remove]; [constructor|].
  destruct (block_eq_dec b x); [exact IH|]. constructor; [|exact IH].
  intro Hin. apply in_remove in Hin as [Hin _]. exact (Hx Hin).
Qed.

Lemma in_remove_iff (b x : block) l : In x (remove block_eq_dec b l) <-> In x l /\ x <> b.
Proof. split; [apply in_remove|intros [H1 H2]; apply in_in_remove; assumption]. Qed.

Lemma nodup_tl {A} (l : list A) : NoDup l -> NoDup (tl l).
Proof. destruct l; cbn [tl]; [auto|]. intro H; inversion H; assumption. Qed.

Lemma in_tl {A} (x : A) l : In x (tl l) -> In x l.
Proof. destruct l; cbn [tl]; [auto|]. intro; right; assumption. Qed.

Lemma hd_error_in {A} (l : list A) x : hd_error l = Some x -> In x l.
Proof. destruct l; cbn [hd_error]; [discriminate|]. intro H; injection H as <-. left; reflexivity. Qed.

Lemma hd_tl_nodup {A} (l : list A) x : NoDup l -> hd_error l = Some x -> ~ In x (tl l).
Proof. destruct l; cbn [hd_error tl]; [discriminate|]. intros H E; injection E as <-. inversion H; assumption. Qed.

Lemma in_opt_list {A} (o : option A) x : In x (opt_list o) <-> o = Some x.
Proof.
  destruct o; cbn [opt_list In]; split; try tauto; try discriminate.
  - intros [<-|[]]; reflexivity.
  - intro H; injection H as <-; left; reflexivity.
Qed.

Lemma fresh_slab_in i n k b : In b (fresh_slab i n k) -> fst b = i /\ n <= snd b < n + S k.
Proof.
  unfold fresh_slab. rewrite in_map_iff. intros (j & <- & Hj). apply in_seq in Hj. cbn [fst snd]. lia.
Qed.

Lemma fresh_slab_nodup i n k : NoDup (fresh_slab i n k).
Proof.
  unfold fresh_slab. apply FinFun.Injective_map_NoDup; [|apply seq_NoDup].
  intros x y H. injection H. lia.
Qed.

(* ---------------------------------------------------------------------------------------------- *)
(* the invariant                                                                                   *)
(* ---------------------------------------------------------------------------------------------- *)

Definition slab_tag (p : pcs) : option nat :=
  match p with
  | S2 i | S3 i | S4 i | S5 i | S6 i | S7 i | S8 i | S9 i => Some i
  | _ => None
  end.

Record AInv (s : astate) : Prop := {
  I_lock : forall t l, aowner s l = Some t <-> lock_of_pc (pc (thr s t)) = Some l;
  I_snap : forall t, match pc (thr s t) with
                     | A2 i => snap (thr s t) = avail s i /\ avail s i <> []
                     | S9 i | F3 i => snap (thr s t) = avail s i
                     | S5 _ => usnap (thr s t) = used s
                     | _ => True
                     end;
  I_cur : forall t, match pc (thr s t) with
                    | F1 i | F2 i | F3 i => exists b, cur (thr s t) = Some b /\ fst b = i
                    | _ => True
                    end;
  I_tag : forall t i, slab_tag (pc (thr s t)) = Some i -> forall b, In b (slab (thr s t)) -> fst b = i;
  I_avail : forall i, NoDup (avail s i) /\ forall b, In b (avail s i) -> fst b = i /\ snd b < next s;
  I_hb : forall t, NoDup (hb (thr s t)) /\
                   forall b, In b (hb (thr s t)) -> snd b < next s /\ forall i, ~ In b (avail s i);
  I_disj : forall t t' b, t <> t' -> In b (hb (thr s t)) -> ~ In b (hb (thr s t'));
  I_used : used s = acc s;
  I_hist : legal (hist s) /\ forall b, In b (live (hist s)) <-> exists t, In b (mine (thr s t))
}.

Lemma AInv_init scripts : AInv (ainit scripts).
Proof.
  constructor; cbn [ainit aowner avail used acc next hist thr pc snap usnap slab cur mine lock_of_pc slab_tag hb opt_list app live legal].
  - intros t l. split; discriminate.
  - intro t. exact I.
  - intro t. exact I.
  - intros t i H. discriminate.
  - intro i. split; [constructor|intros b []].
  - intro t. split; [constructor|intros b []].
  - intros t t' b _ [].
  - reflexivity.
  - split; [exact I|]. intro b. split; [intros []|intros [t []]].
Qed.

(* ---------------------------------------------------------------------------------------------- *)
(* generic preservation lemmas                                                                     *)
(* ---------------------------------------------------------------------------------------------- *)

Section Lock.
Variables (s : astate) (t : tid).
Hypothesis HI : AInv s.

(* a step that keeps the mutexes and does not change the lock the stepping thread holds *)
Lemma lock_same thr' (ts' : tstate) :
  thr' = updt (thr s) t ts' -> lock_of_pc (pc ts') = lock_of_pc (pc (thr s t)) ->
  forall t0 l, aowner s l = Some t0 <-> lock_of_pc (pc (thr' t0)) = Some l.
Proof.
  intros -> Hl t0 l. destruct (Nat.eq_dec t0 t) as [->|Hne].
  - rewrite updt_same, Hl. apply (I_lock _ HI).
  - rewrite updt_other by assumption. apply (I_lock _ HI).
Qed.

Lemma lock_acquire thr' (ts' : tstate) l0 :
  thr' = updt (thr s) t ts' -> aowner s l0 = None ->
  lock_of_pc (pc (thr s t)) = None -> lock_of_pc (pc ts') = Some l0 ->
  forall t0 l, updl (aowner s) l0 (Some t) l = Some t0 <-> lock_of_pc (pc (thr' t0)) = Some l.
Proof.
  intros -> Hfree Hold Hnew t0 l.
  destruct (lockid_eqb_spec l l0) as [->|Hnl]; [rewrite updl_same|rewrite updl_other by assumption];
    (destruct (Nat.eq_dec t0 t) as [->|Hne]; [rewrite updt_same|rewrite updt_other by assumption]).
  - rewrite Hnew. tauto.
  - split; [intro H; injection H as ->; contradiction|]. intro H. apply (I_lock _ HI) in H. congruence.
  - rewrite Hnew. split; [|intro H; injection H as ->; contradiction].
    intro H. apply (I_lock _ HI) in H. congruence.
  - apply (I_lock _ HI).
Qed.

Lemma lock_release thr' (ts' : tstate) l0 :
  thr' = updt (thr s) t ts' ->
  lock_of_pc (pc (thr s t)) = Some l0 -> lock_of_pc (pc ts') = None ->
  forall t0 l, updl (aowner s) l0 None l = Some t0 <-> lock_of_pc (pc (thr' t0)) = Some l.
Proof.
  intros -> Hold Hnew t0 l.
  destruct (lockid_eqb_spec l l0) as [->|Hnl]; [rewrite updl_same|rewrite updl_other by assumption];
    (destruct (Nat.eq_dec t0 t) as [->|Hne]; [rewrite updt_same|rewrite updt_other by assumption]).
  - rewrite Hnew. split; discriminate.
  - split; [discriminate|]. intro H. apply (I_lock _ HI) in H. apply (I_lock _ HI) in Hold. congruence.
  - rewrite Hnew. split; [|discriminate]. intro H. apply (I_lock _ HI) in H. congruence.
  - apply (I_lock _ HI).
Qed.

(* who holds a lock is unique *)
Lemma holder_unique t0 l : lock_of_pc (pc (thr s t)) = Some l -> lock_of_pc (pc (thr s t0)) = Some l -> t0 = t.
Proof. intros H1 H2. apply (I_lock _ HI) in H1, H2. congruence. Qed.
End Lock.

(* other threads' clauses that mention avail i / used survive a write by the holder of the lock *)
Lemma snap_other s t t0 i0 av' :
  AInv s -> t0 <> t -> lock_of_pc (pc (thr s t)) = Some (LB i0) ->
  (forall i, i <> i0 -> av' i = avail s i) ->
  match pc (thr s t0) with
  | A2 i => snap (thr s t0) = av' i /\ av' i <> []
  | S9 i | F3 i => snap (thr s t0) = av' i
  | S5 _ => usnap (thr s t0) = used s
  | _ => True
  end.
Proof.
  intros HI Hne Hl Hav. pose proof (I_snap _ HI t0) as H.
  destruct (pc (thr s t0)) eqn:Hpc; try exact H.
  - destruct (Nat.eq_dec i i0) as [->|Hni]; [|rewrite (Hav _ Hni); exact H].
    exfalso. apply Hne. eapply holder_unique; [exact HI|exact Hl|rewrite Hpc; reflexivity].
  - destruct (Nat.eq_dec i i0) as [->|Hni]; [|rewrite (Hav _ Hni); exact H].
    exfalso. apply Hne. eapply holder_unique; [exact HI|exact Hl|rewrite Hpc; reflexivity].
  - destruct (Nat.eq_dec i i0) as [->|Hni]; [|rewrite (Hav _ Hni); exact H].
    exfalso. apply Hne. eapply holder_unique; [exact HI|exact Hl|rewrite Hpc; reflexivity].
Qed.

Definition snap_clause (s : astate) (ts : tstate) : Prop :=
  match pc ts with
  | A2 i => snap ts = avail s i /\ avail s i <> []
  | S9 i | F3 i => snap ts = avail s i
  | S5 _ => usnap ts = used s
  | _ => True
  end.
Definition cur_clause (ts : tstate) : Prop :=
  match pc ts with
  | F1 i | F2 i | F3 i => exists b, cur ts = Some b /\ fst b = i
  | _ => True
  end.
Definition tag_clause (ts : tstate) : Prop :=
  forall i, slab_tag (pc ts) = Some i -> forall b, In b (slab ts) -> fst b = i.

(* A step of thread t that changes only t's thread state (no global field), keeps the lock t holds, and whose new
   private blocks are among the old ones. *)
Lemma local_step s t ts' :
  AInv s ->
  lock_of_pc (pc ts') = lock_of_pc (pc (thr s t)) ->
  snap_clause s ts' -> cur_clause ts' -> tag_clause ts' ->
  NoDup (hb ts') -> (forall b, In b (hb ts') -> In b (hb (thr s t))) ->
  mine ts' = mine (thr s t) ->
  AInv (with_thr s t ts').
Proof.
  intros HI Hl Hsn Hcu Htg Hnd Hsub Hmine.
  constructor; unfold with_thr; cbn [aowner avail used acc next hist thr].
  - eapply lock_same; [exact HI|reflexivity|exact Hl].
  - intro t0. destruct (Nat.eq_dec t0 t) as [->|Hne]; [rewrite updt_same; exact Hsn|].
    rewrite updt_other by assumption. apply (I_snap _ HI).
  - intro t0. destruct (Nat.eq_dec t0 t) as [->|Hne]; [rewrite updt_same; exact Hcu|].
    rewrite updt_other by assumption. apply (I_cur _ HI).
  - intro t0. destruct (Nat.eq_dec t0 t) as [->|Hne]; [rewrite updt_same; exact Htg|].
    rewrite updt_other by assumption. apply (I_tag _ HI).
  - apply (I_avail _ HI).
  - intro t0. destruct (Nat.eq_dec t0 t) as [->|Hne].
    + rewrite updt_same. split; [exact Hnd|]. intros b Hb. apply (I_hb _ HI t), Hsub, Hb.
    + rewrite updt_other by assumption. apply (I_hb _ HI).
  - intros t1 t2 b Hne Hb.
    destruct (Nat.eq_dec t1 t) as [->|H1]; destruct (Nat.eq_dec t2 t) as [->|H2]; try contradiction;
      rewrite ?updt_same, ?updt_other in * by assumption.
    + apply (I_disj _ HI t t2 b Hne), Hsub, Hb.
    + intro Hb2. apply (I_disj _ HI t1 t b Hne Hb), Hsub, Hb2.
    + apply (I_disj _ HI t1 t2 b Hne Hb).
  - apply (I_used _ HI).
  - destruct (I_hist _ HI) as [Hleg Hlive]. split; [exact Hleg|]. intro b. rewrite Hlive. split.
    + intros [t0 Hb]. exists t0. destruct (Nat.eq_dec t0 t) as [->|Hne];
        [rewrite updt_same, Hmine|rewrite updt_other by assumption]; exact Hb.
    + intros [t0 Hb]. exists t0. destruct (Nat.eq_dec t0 t) as [->|Hne];
        [rewrite updt_same, Hmine in Hb|rewrite updt_other in Hb by assumption]; exact Hb.
Qed.

(* lock / unlock steps change the owner map and the pc only *)
Lemma lock_step s t l p :
  AInv s -> aowner s l = None ->
  lock_of_pc (pc (thr s t)) = None -> lock_of_pc p = Some l ->
  snap_clause s (set_pc (thr s t) p) -> cur_clause (set_pc (thr s t) p) -> tag_clause (set_pc (thr s t) p) ->
  AInv (AS (updl (aowner s) l (Some t)) (avail s) (used s) (acc s) (next s) (hist s)
           (updt (thr s) t (set_pc (thr s t) p))).
Proof.
  intros HI Hfree Hold Hnew Hsn Hcu Htg.
  constructor; cbn [aowner avail used acc next hist thr].
  - eapply lock_acquire; [exact HI|reflexivity|exact Hfree|exact Hold|exact Hnew].
  - intro t0. destruct (Nat.eq_dec t0 t) as [->|Hne]; [rewrite updt_same; exact Hsn|].
    rewrite updt_other by assumption. apply (I_snap _ HI).
  - intro t0. destruct (Nat.eq_dec t0 t) as [->|Hne]; [rewrite updt_same; exact Hcu|].
    rewrite updt_other by assumption. apply (I_cur _ HI).
  - intro t0. destruct (Nat.eq_dec t0 t) as [->|Hne]; [rewrite updt_same; exact Htg|].
    rewrite updt_other by assumption. apply (I_tag _ HI).
  - apply (I_avail _ HI).
  - intro t0. destruct (Nat.eq_dec t0 t) as [->|Hne]; [rewrite updt_same|rewrite updt_other by assumption];
      apply (I_hb _ HI).
  - intros t1 t2 b Hne.
    destruct (Nat.eq_dec t1 t) as [->|H1]; destruct (Nat.eq_dec t2 t) as [->|H2]; try contradiction;
      rewrite ?updt_same, ?updt_other by assumption; apply (I_disj _ HI); assumption.
  - apply (I_used _ HI).
  - destruct (I_hist _ HI) as [Hleg Hlive]. split; [exact Hleg|]. intro b. rewrite Hlive. split.
    + intros [t0 Hb]. exists t0. destruct (Nat.eq_dec t0 t) as [->|Hne];
        [rewrite updt_same|rewrite updt_other by assumption]; exact Hb.
    + intros [t0 Hb]. exists t0. destruct (Nat.eq_dec t0 t) as [->|Hne];
        [rewrite updt_same in Hb|rewrite updt_other in Hb by assumption]; exact Hb.
Qed.

Lemma unlock_step s t l p :
  AInv s ->
  lock_of_pc (pc (thr s t)) = Some l -> lock_of_pc p = None ->
  snap_clause s (set_pc (thr s t) p) -> cur_clause (set_pc (thr s t) p) -> tag_clause (set_pc (thr s t) p) ->
  AInv (unlock s t l p).
Proof.
  intros HI Hold Hnew Hsn Hcu Htg.
  constructor; unfold unlock; cbn [aowner avail used acc next hist thr].
  - eapply lock_release; [exact HI|reflexivity|exact Hold|exact Hnew].
  - intro t0. destruct (Nat.eq_dec t0 t) as [->|Hne]; [rewrite updt_same; exact Hsn|].
    rewrite updt_other by assumption. apply (I_snap _ HI).
  - intro t0. destruct (Nat.eq_dec t0 t) as [->|Hne]; [rewrite updt_same; exact Hcu|].
    rewrite updt_other by assumption. apply (I_cur _ HI).
  - intro t0. destruct (Nat.eq_dec t0 t) as [->|Hne]; [rewrite updt_same; exact Htg|].
    rewrite updt_other by assumption. apply (I_tag _ HI).
  - apply (I_avail _ HI).
  - intro t0. destruct (Nat.eq_dec t0 t) as [->|Hne]; [rewrite updt_same|rewrite updt_other by assumption];
      apply (I_hb _ HI).
  - intros t1 t2 b Hne.
    destruct (Nat.eq_dec t1 t) as [->|H1]; destruct (Nat.eq_dec t2 t) as [->|H2]; try contradiction;
      rewrite ?updt_same, ?updt_other by assumption; apply (I_disj _ HI); assumption.
  - apply (I_used _ HI).
  - destruct (I_hist _ HI) as [Hleg Hlive]. split; [exact Hleg|]. intro b. rewrite Hlive. split.
    + intros [t0 Hb]. exists t0. destruct (Nat.eq_dec t0 t) as [->|Hne];
        [rewrite updt_same|rewrite updt_other by assumption]; exact Hb.
    + intros [t0 Hb]. exists t0. destruct (Nat.eq_dec t0 t) as [->|Hne];
        [rewrite updt_same in Hb|rewrite updt_other in Hb by assumption]; exact Hb.
Qed.

(* A write to avail i0 by the holder of LB i0: the new list is NoDup, tagged, below next; the thread's new
   private blocks are old private blocks not in the new list or (pop) the head of the old list. *)
Lemma write_step s t i0 newav ts' :
  AInv s ->
  lock_of_pc (pc (thr s t)) = Some (LB i0) -> lock_of_pc (pc ts') = Some (LB i0) ->
  snap_clause (AS (aowner s) (updt (avail s) i0 newav) (used s) (acc s) (next s) (hist s) (thr s)) ts' ->
  cur_clause ts' -> tag_clause ts' ->
  NoDup newav -> (forall b, In b newav -> fst b = i0 /\ snd b < next s) ->
  (forall b, In b newav -> In b (avail s i0) \/ In b (hb (thr s t))) ->
  NoDup (hb ts') ->
  (forall b, In b (hb ts') -> ~ In b newav /\ (In b (hb (thr s t)) \/ In b (avail s i0))) ->
  mine ts' = mine (thr s t) ->
  AInv (AS (aowner s) (updt (avail s) i0 newav) (used s) (acc s) (next s) (hist s) (updt (thr s) t ts')).
Proof.
  intros HI Hold Hnew Hsn Hcu Htg Hnd Hprop Hfrom Hndhb Hhb Hmine.
  assert (Havo : forall i, i <> i0 -> updt (avail s) i0 newav i = avail s i) by (intros; apply updt_other; assumption).
  constructor; cbn [aowner avail used acc next hist thr].
  - eapply lock_same; [exact HI|reflexivity|]. rewrite Hnew, Hold. reflexivity.
  - intro t0. destruct (Nat.eq_dec t0 t) as [->|Hne]; [rewrite updt_same; exact Hsn|].
    rewrite updt_other by assumption. eapply snap_other; eassumption.
  - intro t0. destruct (Nat.eq_dec t0 t) as [->|Hne]; [rewrite updt_same; exact Hcu|].
    rewrite updt_other by assumption. apply (I_cur _ HI).
  - intro t0. destruct (Nat.eq_dec t0 t) as [->|Hne]; [rewrite updt_same; exact Htg|].
    rewrite updt_other by assumption. apply (I_tag _ HI).
  - intro i. destruct (Nat.eq_dec i i0) as [->|Hni]; [rewrite updt_same; split; assumption|].
    rewrite updt_other by assumption. apply (I_avail _ HI).
  - intro t0. destruct (Nat.eq_dec t0 t) as [->|Hne].
    + rewrite updt_same. split; [exact Hndhb|]. intros b Hb. destruct (Hhb b Hb) as [Hnew' Hwhere].
      assert (Hlt : snd b < next s /\ fst b = i0 \/ (snd b < next s /\ forall i, ~ In b (avail s i))).
      { destruct Hwhere as [H|H]; [right; apply (proj2 (I_hb _ HI t) b H)|left]. destruct (I_avail _ HI i0) as [_ Hp].
        destruct (Hp b H). tauto. }
      split; [destruct Hlt as [[? _]|[? _]]; assumption|].
      intro i. destruct (Nat.eq_dec i i0) as [->|Hni]; [rewrite updt_same; exact Hnew'|].
      rewrite updt_other by assumption. destruct Hlt as [[_ Hf]|[_ Hn]]; [|apply Hn].
      intro Hin. destruct (I_avail _ HI i) as [_ Hp]. destruct (Hp b Hin) as [Hfi _]. congruence.
    + rewrite updt_other by assumption. destruct (I_hb _ HI t0) as [Hn0 Hp0]. split; [exact Hn0|].
      intros b Hb. destruct (Hp0 b Hb) as [Hlt Hnot]. split; [exact Hlt|].
      intro i. destruct (Nat.eq_dec i i0) as [->|Hni]; [rewrite updt_same|rewrite updt_other by assumption; apply Hnot].
      intro Hin. destruct (Hfrom b Hin) as [H|H]; [exact (Hnot i0 H)|]. exact (I_disj _ HI t0 t b Hne Hb H).
  - intros t1 t2 b Hne Hb.
    destruct (Nat.eq_dec t1 t) as [->|H1]; destruct (Nat.eq_dec t2 t) as [->|H2]; try contradiction;
      rewrite ?updt_same, ?updt_other in * by assumption.
    + destruct (Hhb b Hb) as [_ [H|H]]; [apply (I_disj _ HI t t2 b Hne H)|].
      intro Hb2. destruct (I_hb _ HI t2) as [_ Hp]. exact (proj2 (Hp b Hb2) i0 H).
    + intro Hb2. destruct (Hhb b Hb2) as [_ [H|H]]; [exact (I_disj _ HI t1 t b Hne Hb H)|].
      destruct (I_hb _ HI t1) as [_ Hp]. exact (proj2 (Hp b Hb) i0 H).
    + apply (I_disj _ HI t1 t2 b Hne Hb).
  - apply (I_used _ HI).
  - destruct (I_hist _ HI) as [Hleg Hlive]. split; [exact Hleg|]. intro b. rewrite Hlive. split.
    + intros [t0 Hb]. exists t0. destruct (Nat.eq_dec t0 t) as [->|Hne];
        [rewrite updt_same, Hmine|rewrite updt_other by assumption]; exact Hb.
    + intros [t0 Hb]. exists t0. destruct (Nat.eq_dec t0 t) as [->|Hne];
        [rewrite updt_same, Hmine in Hb|rewrite updt_other in Hb by assumption]; exact Hb.
Qed.

(* ---------------------------------------------------------------------------------------------- *)
(* facts about hb                                                                                  *)
(* ---------------------------------------------------------------------------------------------- *)

Lemma in_hb ts b : In b (hb ts) <-> cur ts = Some b \/ In b (slab ts) \/ In b (mine ts).
Proof. unfold hb. rewrite !in_app_iff, in_opt_list. tauto. Qed.

Lemma hb_parts ts : NoDup (hb ts) ->
  NoDup (slab ts) /\ NoDup (mine ts) /\ (forall b, In b (slab ts) -> ~ In b (mine ts)) /\
  (forall b, cur ts = Some b -> ~ In b (slab ts) /\ ~ In b (mine ts)).
Proof.
  unfold hb. intro H. apply nodup_app in H as (_ & H2 & H3). apply nodup_app in H2 as (Hs & Hm & Hd).
  repeat split; try assumption; intro Hin; apply (H3 b); try (apply in_opt_list; assumption);
    apply in_or_app; [left|right]; assumption.
Qed.

Lemma hb_build (c : option block) (sl mn : list block) :
  NoDup sl -> NoDup mn -> (forall b, In b sl -> ~ In b mn) ->
  (forall b, c = Some b -> ~ In b sl /\ ~ In b mn) ->
  NoDup (opt_list c ++ sl ++ mn).
Proof.
  intros Hs Hm Hd Hc. apply nodup_app. repeat split.
  - destruct c; cbn [opt_list]; repeat constructor. intros [].
  - apply nodup_app. repeat split; assumption.
  - intros b Hb. apply in_opt_list in Hb. destruct (Hc b Hb) as [H1 H2].
    intro Hin. apply in_app_or in Hin as [Hin|Hin]; auto.
Qed.

(* ---------------------------------------------------------------------------------------------- *)
(* special steps: Policy::map, the page counter, the two commit points                              *)
(* ---------------------------------------------------------------------------------------------- *)

Lemma map_step s t i k :
  AInv s -> lock_of_pc (pc (thr s t)) = None ->
  let ts := thr s t in
  AInv (AS (aowner s) (avail s) (used s) (acc s) (next s + S k) (hist s)
           (updt (thr s) t (TS (S2 i) (snap ts) (usnap ts) (fresh_slab i (next s) k) (cur ts) (mine ts) (todo ts)))).
Proof.
  intros HI Hold ts.
  destruct (I_hb _ HI t) as [Hnd Hp]. destruct (hb_parts _ Hnd) as (_ & Hm & _ & Hc).
  constructor; cbn [aowner avail used acc next hist thr].
  - eapply lock_same; [exact HI|reflexivity|]. rewrite Hold. reflexivity.
  - intro t0. destruct (Nat.eq_dec t0 t) as [->|Hne]; [rewrite updt_same; exact I|].
    rewrite updt_other by assumption. apply (I_snap _ HI).
  - intro t0. destruct (Nat.eq_dec t0 t) as [->|Hne]; [rewrite updt_same; exact I|].
    rewrite updt_other by assumption. apply (I_cur _ HI).
  - intro t0. destruct (Nat.eq_dec t0 t) as [->|Hne]; [rewrite updt_same|rewrite updt_other by assumption; apply (I_tag _ HI)].
    cbn [pc slab slab_tag]. intros i' E b Hb. injection E as <-. apply (fresh_slab_in _ _ _ _ Hb).
  - intro i'. destruct (I_avail _ HI i') as [Hn Hq]. split; [exact Hn|]. intros b Hb. destruct (Hq b Hb). split; [assumption|lia].
  - intro t0. destruct (Nat.eq_dec t0 t) as [->|Hne].
    + rewrite updt_same. unfold hb; cbn [cur slab mine]. split.
      * apply hb_build; [apply fresh_slab_nodup|exact Hm| |].
        -- intros b Hb Hin. apply fresh_slab_in in Hb. assert (snd b < next s) by (apply Hp, in_hb; auto). lia.
        -- intros b Hb. split; [|apply (Hc b Hb)]. intro Hin. apply fresh_slab_in in Hin.
           assert (snd b < next s) by (apply Hp, in_hb; auto). lia.
      * intros b Hb. rewrite !in_app_iff, in_opt_list in Hb. destruct Hb as [Hb|[Hb|Hb]].
        -- destruct (Hp b) as [Hlt Hn]; [apply in_hb; auto|]. split; [lia|exact Hn].
        -- apply fresh_slab_in in Hb. split; [lia|]. intros i' Hin. destruct (I_avail _ HI i') as [_ Hq].
           destruct (Hq b Hin). lia.
        -- destruct (Hp b) as [Hlt Hn]; [apply in_hb; auto|]. split; [lia|exact Hn].
    + rewrite updt_other by assumption. destruct (I_hb _ HI t0) as [Hn0 Hp0]. split; [exact Hn0|].
      intros b Hb. destruct (Hp0 b Hb). split; [lia|assumption].
  - assert (Hfresh : forall t2 b, In b (fresh_slab i (next s) k) -> ~ In b (hb (thr s t2))).
    { intros t2 b Hb Hin. apply fresh_slab_in in Hb. destruct (I_hb _ HI t2) as [_ Hp2]. destruct (Hp2 b Hin). lia. }
    intros t1 t2 b Hne Hb.
    destruct (Nat.eq_dec t1 t) as [->|H1]; destruct (Nat.eq_dec t2 t) as [->|H2]; try contradiction;
      rewrite ?updt_same, ?updt_other in * by assumption.
    + unfold hb in Hb; cbn [cur slab mine] in Hb. rewrite !in_app_iff, in_opt_list in Hb.
      destruct Hb as [Hb|[Hb|Hb]]; [apply (I_disj _ HI t t2 b Hne); apply in_hb; auto|apply Hfresh, Hb|
                                    apply (I_disj _ HI t t2 b Hne); apply in_hb; auto].
    + intro Hb2. unfold hb in Hb2; cbn [cur slab mine] in Hb2. rewrite !in_app_iff, in_opt_list in Hb2.
      destruct Hb2 as [Hb2|[Hb2|Hb2]]; [apply (I_disj _ HI t1 t b Hne Hb); apply in_hb; auto|exact (Hfresh t1 b Hb2 Hb)|
                                        apply (I_disj _ HI t1 t b Hne Hb); apply in_hb; auto].
    + apply (I_disj _ HI t1 t2 b Hne Hb).
  - apply (I_used _ HI).
  - destruct (I_hist _ HI) as [Hleg Hlive]. split; [exact Hleg|]. intro b. rewrite Hlive. split.
    + intros [t0 Hb]. exists t0. destruct (Nat.eq_dec t0 t) as [->|Hne];
        [rewrite updt_same|rewrite updt_other by assumption]; exact Hb.
    + intros [t0 Hb]. exists t0. destruct (Nat.eq_dec t0 t) as [->|Hne];
        [rewrite updt_same in Hb|rewrite updt_other in Hb by assumption]; exact Hb.
Qed.

Lemma account_step s t i :
  AInv s -> pc (thr s t) = S5 i ->
  AInv (AS (aowner s) (avail s) (S (usnap (thr s t))) (S (acc s)) (next s) (hist s)
           (updt (thr s) t (set_pc (thr s t) (S6 i)))).
Proof.
  intros HI Hpc.
  pose proof (I_snap _ HI t) as Hs. rewrite Hpc in Hs.
  assert (Hl : lock_of_pc (pc (thr s t)) = Some LT) by (rewrite Hpc; reflexivity).
  constructor; cbn [aowner avail used acc next hist thr].
  - eapply lock_same; [exact HI|reflexivity|]. rewrite Hl. reflexivity.
  - intro t0. destruct (Nat.eq_dec t0 t) as [->|Hne]; [rewrite updt_same; exact I|].
    rewrite updt_other by assumption. pose proof (I_snap _ HI t0) as H0.
    destruct (pc (thr s t0)) eqn:Hp0; try exact H0.
    exfalso. apply Hne. eapply holder_unique; [exact HI|exact Hl|rewrite Hp0; reflexivity].
  - intro t0. destruct (Nat.eq_dec t0 t) as [->|Hne]; [rewrite updt_same; exact I|].
    rewrite updt_other by assumption. apply (I_cur _ HI).
  - intro t0. destruct (Nat.eq_dec t0 t) as [->|Hne]; [rewrite updt_same|rewrite updt_other by assumption; apply (I_tag _ HI)].
    cbn [set_pc pc slab slab_tag]. intros i' E. apply (I_tag _ HI t i'). rewrite Hpc. exact E.
  - apply (I_avail _ HI).
  - intro t0. destruct (Nat.eq_dec t0 t) as [->|Hne]; [rewrite updt_same|rewrite updt_other by assumption];
      apply (I_hb _ HI).
  - intros t1 t2 b Hne.
    destruct (Nat.eq_dec t1 t) as [->|H1]; destruct (Nat.eq_dec t2 t) as [->|H2]; try contradiction;
      rewrite ?updt_same, ?updt_other by assumption; apply (I_disj _ HI); assumption.
  - rewrite Hs, (I_used _ HI). reflexivity.
  - destruct (I_hist _ HI) as [Hleg Hlive]. split; [exact Hleg|]. intro b. rewrite Hlive. split.
    + intros [t0 Hb]. exists t0. destruct (Nat.eq_dec t0 t) as [->|Hne];
        [rewrite updt_same|rewrite updt_other by assumption]; exact Hb.
    + intros [t0 Hb]. exists t0. destruct (Nat.eq_dec t0 t) as [->|Hne];
        [rewrite updt_same in Hb|rewrite updt_other in Hb by assumption]; exact Hb.
Qed.

(* a step that changes thread t's state and the commit log only; the private blocks stay the same set *)
Lemma commit_step s t ts' h' :
  AInv s ->
  lock_of_pc (pc ts') = lock_of_pc (pc (thr s t)) ->
  snap_clause s ts' -> cur_clause ts' -> tag_clause ts' ->
  NoDup (hb ts') -> (forall b, In b (hb ts') -> In b (hb (thr s t))) ->
  (legal h' /\ forall b, In b (live h') <-> exists t0, In b (mine (updt (thr s) t ts' t0))) ->
  AInv (AS (aowner s) (avail s) (used s) (acc s) (next s) h' (updt (thr s) t ts')).
Proof.
  intros HI Hl Hsn Hcu Htg Hnd Hsub Hh.
  constructor; cbn [aowner avail used acc next hist thr].
  - eapply lock_same; [exact HI|reflexivity|exact Hl].
  - intro t0. destruct (Nat.eq_dec t0 t) as [->|Hne]; [rewrite updt_same; exact Hsn|].
    rewrite updt_other by assumption. apply (I_snap _ HI).
  - intro t0. destruct (Nat.eq_dec t0 t) as [->|Hne]; [rewrite updt_same; exact Hcu|].
    rewrite updt_other by assumption. apply (I_cur _ HI).
  - intro t0. destruct (Nat.eq_dec t0 t) as [->|Hne]; [rewrite updt_same; exact Htg|].
    rewrite updt_other by assumption. apply (I_tag _ HI).
  - apply (I_avail _ HI).
  - intro t0. destruct (Nat.eq_dec t0 t) as [->|Hne].
    + rewrite updt_same. split; [exact Hnd|]. intros b Hb. apply (I_hb _ HI t), Hsub, Hb.
    + rewrite updt_other by assumption. apply (I_hb _ HI).
  - intros t1 t2 b Hne Hb.
    destruct (Nat.eq_dec t1 t) as [->|H1]; destruct (Nat.eq_dec t2 t) as [->|H2]; try contradiction;
      rewrite ?updt_same, ?updt_other in * by assumption.
    + apply (I_disj _ HI t t2 b Hne), Hsub, Hb.
    + intro Hb2. apply (I_disj _ HI t1 t b Hne Hb), Hsub, Hb2.
    + apply (I_disj _ HI t1 t2 b Hne Hb).
  - apply (I_used _ HI).
  - exact Hh.
Qed.

(* ---------------------------------------------------------------------------------------------- *)
(* the invariant is preserved by every step of every thread                                        *)
(* ---------------------------------------------------------------------------------------------- *)

Theorem AInv_step s t : AInv s -> AInv (astep s t).
Proof.
  intro HI. unfold astep.
  destruct (I_hb _ HI t) as [Hnd Hp].
  destruct (hb_parts _ Hnd) as (Hsl & Hmn & Hsm & Hcr).
  pose proof (I_snap _ HI t) as Hsnap. pose proof (I_cur _ HI t) as Hcur. pose proof (I_tag _ HI t) as Htag.
  pose (lk := fun p q => f_equal lock_of_pc (x := p) (y := q)).
  destruct (pc (thr s t)) eqn:Hpc.
  - (* Idle *)
    destruct (todo (thr s t)) as [|[i ok k|b] r]; [exact HI| |].
    + apply local_step; [exact HI|rewrite Hpc; reflexivity|exact I|exact I|intros i' E; discriminate E|exact Hnd|
                         intros b Hb; exact Hb|reflexivity].
    + destruct (in_dec block_eq_dec b (mine (thr s t))) as [Hin|Hnin].
      * apply commit_step; [exact HI|rewrite Hpc; reflexivity|exact I| |intros i' E; discriminate E| | |].
        -- exists b. split; reflexivity.
        -- unfold hb; cbn [cur slab mine]. apply hb_build; [exact Hsl|apply nodup_remove, Hmn| |].
           ++ intros x Hx Hx2. apply in_remove in Hx2 as [Hx2 _]. exact (Hsm x Hx Hx2).
           ++ intros x E. injection E as <-. split; [intro Hx; exact (Hsm b Hx Hin)|].
              intro Hx. apply in_remove in Hx as [_ Hx]. apply Hx; reflexivity.
        -- intros x Hx. unfold hb in Hx; cbn [cur slab mine] in Hx. rewrite !in_app_iff, in_opt_list in Hx.
           apply in_hb. destruct Hx as [Hx|[Hx|Hx]]; [injection Hx as <-; auto|auto|].
           apply in_remove in Hx as [Hx _]. auto.
        -- destruct (I_hist _ HI) as [Hleg Hlive]. cbn [legal live]. split.
           ++ split; [apply Hlive; exists t; exact Hin|exact Hleg].
           ++ intro x. rewrite in_remove_iff, Hlive. split.
              ** intros [[t0 Hx] Hne]. exists t0. destruct (Nat.eq_dec t0 t) as [->|Hnt];
                   [rewrite updt_same; cbn [mine]; apply in_in_remove; assumption|rewrite updt_other by assumption; exact Hx].
              ** intros [t0 Hx]. destruct (Nat.eq_dec t0 t) as [->|Hnt].
                 --- rewrite updt_same in Hx. cbn [mine] in Hx. apply in_remove in Hx as [Hx Hne]. split; [exists t; exact Hx|exact Hne].
                 --- rewrite updt_other in Hx by assumption. split; [exists t0; exact Hx|].
                     intros ->. apply (I_disj _ HI t0 t b Hnt); apply in_hb; auto.
      * apply local_step; [exact HI|rewrite Hpc; reflexivity|exact I|exact I|intros i' E; discriminate E|exact Hnd|
                           intros x Hx; exact Hx|reflexivity].
  - (* A0: LockB *)
    unfold try_lock. destruct (aowner s (LB i)) eqn:Hown; [exact HI|].
    apply lock_step; [exact HI|exact Hown|rewrite Hpc; reflexivity|reflexivity|exact I|exact I|intros i' E; discriminate E].
  - (* A1: read *)
    destruct (avail s i) as [|b0 av] eqn:Hav.
    + apply local_step; [exact HI|rewrite Hpc; reflexivity|exact I|exact I|intros i' E; discriminate E|exact Hnd|
                         intros x Hx; exact Hx|reflexivity].
    + apply local_step; [exact HI|rewrite Hpc; reflexivity| |exact I|intros i' E; discriminate E|exact Hnd|
                         intros x Hx; exact Hx|reflexivity].
      unfold snap_clause; cbn [pc snap]. rewrite Hav. split; [reflexivity|discriminate].
  - (* A2: write (pop) *)
    destruct Hsnap as [Hs Hne].
    assert (Hhd : forall b0, hd_error (snap (thr s t)) = Some b0 -> In b0 (avail s i)).
    { intros b0 E. rewrite <- Hs. apply hd_error_in, E. }
    apply write_step; [exact HI|rewrite Hpc; reflexivity|reflexivity|exact I|exact I|intros i' E; discriminate E| | | | | |reflexivity].
    + rewrite Hs. apply nodup_tl, (I_avail _ HI).
    + intros b Hb. rewrite Hs in Hb. apply in_tl in Hb. apply (I_avail _ HI), Hb.
    + intros b Hb. rewrite Hs in Hb. left. apply in_tl, Hb.
    + unfold hb; cbn [cur slab mine]. apply hb_build; try assumption.
      intros b0 E. pose proof (Hhd b0 E) as Hin.
      split; intro Hx; apply (proj2 (Hp b0 ltac:(apply in_hb; auto)) i Hin).
    + intros b Hb. unfold hb in Hb; cbn [cur slab mine] in Hb. rewrite !in_app_iff, in_opt_list in Hb.
      destruct Hb as [Hb|Hb].
      * split; [rewrite Hs in *; apply hd_tl_nodup; [apply (I_avail _ HI)|exact Hb]|right; apply Hhd, Hb].
      * assert (Hin : In b (hb (thr s t))) by (apply in_hb; tauto).
        split; [|left; exact Hin]. intro Hx. rewrite Hs in Hx. apply in_tl in Hx. exact (proj2 (Hp b Hin) i Hx).
  - (* A3: unlock *)
    apply unlock_step; [exact HI|rewrite Hpc; reflexivity|reflexivity|exact I|exact I|intros i' E; discriminate E].
  - (* ARet: commit of allocate *)
    apply commit_step; [exact HI|rewrite Hpc; reflexivity|exact I|exact I|intros i' E; discriminate E| | |].
    + unfold hb; cbn [cur slab mine opt_list app]. eapply Permutation_NoDup; [|exact Hnd].
      unfold hb. apply Permutation_app_swap_app.
    + intros b Hb. unfold hb in Hb; cbn [cur slab mine opt_list app] in Hb.
      eapply Permutation_in; [|exact Hb]. unfold hb. apply Permutation_sym, Permutation_app_swap_app.
    + destruct (I_hist _ HI) as [Hleg Hlive]. destruct (cur (thr s t)) as [b|] eqn:Hc; cbn [opt_list app legal live].
      * split.
        -- split; [|exact Hleg]. intro Hin. apply Hlive in Hin as [t0 Hin].
           destruct (Nat.eq_dec t0 t) as [->|Hnt]; [exact (proj2 (Hcr b eq_refl) Hin)|].
           apply (I_disj _ HI t0 t b Hnt); apply in_hb; auto.
        -- intro x. cbn [In]. rewrite Hlive. split.
           ++ intros [<-|[t0 Hx]]; [exists t; rewrite updt_same; cbn [mine]; left; reflexivity|].
              exists t0. destruct (Nat.eq_dec t0 t) as [->|Hnt];
                [rewrite updt_same; cbn [mine]; right; exact Hx|rewrite updt_other by assumption; exact Hx].
           ++ intros [t0 Hx]. destruct (Nat.eq_dec t0 t) as [->|Hnt].
              ** rewrite updt_same in Hx. cbn [mine] in Hx. destruct Hx as [Hx|Hx]; [left; exact Hx|right; exists t; exact Hx].
              ** rewrite updt_other in Hx by assumption. right. exists t0. exact Hx.
      * split; [exact Hleg|]. intro x. rewrite Hlive. split.
        -- intros [t0 Hx]. exists t0. destruct (Nat.eq_dec t0 t) as [->|Hnt];
             [rewrite updt_same; exact Hx|rewrite updt_other by assumption; exact Hx].
        -- intros [t0 Hx]. exists t0. destruct (Nat.eq_dec t0 t) as [->|Hnt];
             [rewrite updt_same in Hx; exact Hx|rewrite updt_other in Hx by assumption; exact Hx].
  - (* S0: unlock before the policy call *)
    apply unlock_step; [exact HI|rewrite Hpc; reflexivity|reflexivity|exact I|exact I|intros i' E; discriminate E].
  - (* S1: Policy::map *)
    destruct ok.
    + apply map_step; [exact HI|rewrite Hpc; reflexivity].
    + apply local_step; [exact HI|rewrite Hpc; reflexivity|exact I|exact I|intros i' E; discriminate E| | |reflexivity].
      * unfold hb; cbn [cur slab mine]. apply hb_build; try assumption. discriminate.
      * intros b Hb. unfold hb in Hb; cbn [cur slab mine opt_list app] in Hb. apply in_hb. apply in_app_or in Hb. tauto.
  - (* S2: private pop *)
    apply local_step; [exact HI|rewrite Hpc; reflexivity|exact I|exact I| | | |reflexivity].
    + intros i' E b Hb. cbn [pc slab] in *. apply (Htag i' E). apply in_tl, Hb.
    + unfold hb; cbn [cur slab mine]. destruct (slab (thr s t)) as [|x sl] eqn:Hslab; cbn [hd_error tl opt_list app].
      * exact Hmn.
      * change (NoDup ((x :: sl) ++ mine (thr s t))). apply nodup_app. repeat split; assumption.
    + intros b Hb. unfold hb in Hb; cbn [cur slab mine] in Hb. apply in_hb.
      rewrite !in_app_iff, in_opt_list in Hb. destruct Hb as [Hb|[Hb|Hb]];
        [right; left; apply hd_error_in, Hb|right; left; apply in_tl, Hb|auto].
  - (* S3: LockT *)
    unfold try_lock. destruct (aowner s LT) eqn:Hown; [exact HI|].
    apply lock_step; [exact HI|exact Hown|rewrite Hpc; reflexivity|reflexivity|exact I|exact I|].
    intros i' E. apply Htag. exact E.
  - (* S4: read the counter *)
    apply local_step; [exact HI|rewrite Hpc; reflexivity|reflexivity|exact I| |exact Hnd|intros x Hx; exact Hx|reflexivity].
    intros i' E. apply Htag. exact E.
  - (* S5: write the counter *)
    apply account_step; assumption.
  - (* S6: UnlockT *)
    apply unlock_step; [exact HI|rewrite Hpc; reflexivity|reflexivity|exact I|exact I|].
    intros i' E. apply Htag. exact E.
  - (* S7: LockB again *)
    unfold try_lock. destruct (aowner s (LB i)) eqn:Hown; [exact HI|].
    apply lock_step; [exact HI|exact Hown|rewrite Hpc; reflexivity|reflexivity|exact I|exact I|].
    intros i' E. apply Htag. exact E.
  - (* S8: read the bucket *)
    apply local_step; [exact HI|rewrite Hpc; reflexivity|reflexivity|exact I| |exact Hnd|intros x Hx; exact Hx|reflexivity].
    intros i' E. apply Htag. exact E.
  - (* S9: attach the slab *)
    assert (Hslin : forall b, In b (slab (thr s t)) -> In b (hb (thr s t))) by (intros; apply in_hb; auto).
    apply write_step; [exact HI|rewrite Hpc; reflexivity|reflexivity|exact I|exact I|intros i' E; discriminate E| | | | | |reflexivity].
    + rewrite Hsnap. apply nodup_app. repeat split; [exact Hsl|apply (I_avail _ HI)|].
      intros b Hb. apply (proj2 (Hp b (Hslin b Hb))).
    + intros b Hb. apply in_app_or in Hb as [Hb|Hb].
      * split; [apply (Htag i eq_refl), Hb|apply (Hp b (Hslin b Hb))].
      * rewrite Hsnap in Hb. apply (I_avail _ HI), Hb.
    + intros b Hb. apply in_app_or in Hb as [Hb|Hb]; [right; apply Hslin, Hb|left; rewrite <- Hsnap; exact Hb].
    + unfold hb; cbn [cur slab mine]. apply hb_build; try assumption; [constructor|intros b []|].
      intros b E. split; [intros []|apply (Hcr b E)].
    + intros b Hb. unfold hb in Hb; cbn [cur slab mine app] in Hb. rewrite in_app_iff, in_opt_list in Hb.
      assert (Hin : In b (hb (thr s t))) by (apply in_hb; tauto).
      split; [|left; exact Hin]. intro Hx. apply in_app_or in Hx as [Hx|Hx].
      * destruct Hb as [Hb|Hb]; [exact (proj1 (Hcr b Hb) Hx)|exact (Hsm b Hx Hb)].
      * rewrite Hsnap in Hx. exact (proj2 (Hp b Hin) i Hx).
  - (* F1: LockB *)
    unfold try_lock. destruct (aowner s (LB i)) eqn:Hown; [exact HI|].
    apply lock_step; [exact HI|exact Hown|rewrite Hpc; reflexivity|reflexivity|exact I|exact Hcur|intros i' E; discriminate E].
  - (* F2: read *)
    apply local_step; [exact HI|rewrite Hpc; reflexivity|reflexivity|exact Hcur|intros i' E; discriminate E|exact Hnd|
                       intros x Hx; exact Hx|reflexivity].
  - (* F3: write (push) *)
    destruct Hcur as (b0 & Hc & Hf).
    assert (Hb0 : In b0 (hb (thr s t))) by (apply in_hb; auto).
    apply write_step; [exact HI|rewrite Hpc; reflexivity|reflexivity|exact I|exact I|intros i' E; discriminate E| | | | | |reflexivity].
    + rewrite Hc, Hsnap. cbn [opt_list app]. constructor; [apply (proj2 (Hp b0 Hb0))|apply (I_avail _ HI)].
    + rewrite Hc, Hsnap. cbn [opt_list app]. intros b [<-|Hb]; [split; [exact Hf|apply (Hp b0 Hb0)]|apply (I_avail _ HI), Hb].
    + rewrite Hc, Hsnap. cbn [opt_list app]. intros b [<-|Hb]; [right; exact Hb0|left; exact Hb].
    + unfold hb; cbn [cur slab mine opt_list app]. apply nodup_app. repeat split; assumption.
    + intros b Hb. unfold hb in Hb; cbn [cur slab mine opt_list app] in Hb.
      assert (Hin : In b (hb (thr s t))) by (apply in_hb; apply in_app_or in Hb; tauto).
      split; [|left; exact Hin]. rewrite Hc, Hsnap. cbn [opt_list app]. intros [<-|Hx].
      * apply in_app_or in Hb as [Hb|Hb]; [exact (proj1 (Hcr b0 Hc) Hb)|exact (proj2 (Hcr b0 Hc) Hb)].
      * exact (proj2 (Hp b Hin) i Hx).
  - (* F4: unlock *)
    apply unlock_step; [exact HI|rewrite Hpc; reflexivity|reflexivity|exact I|exact I|intros i' E; discriminate E].
Qed.

Lemma AInv_run sched : forall s, AInv s -> AInv (arun sched s).
Proof.
  induction sched as [|t sched IH]; intros s H; [exact H|]. cbn [arun fold_left]. apply IH, AInv_step, H.
Qed.

Theorem AInv_reachable scripts sched : AInv (arun sched (ainit scripts)).
Proof. apply AInv_run, AInv_init. Qed.

(* ---------------------------------------------------------------------------------------------- *)
(* consequences                                                                                    *)
(* ---------------------------------------------------------------------------------------------- *)

Section AllocConsequences.
Variable s : astate.
Hypothesis HI : AInv s.

(* a block owned by a thread is owned by no other thread, is not owned twice, is not free in any bucket, is
   not the object another operation is about to return or push, and is not part of a slab under construction *)
Lemma no_double_handout t b : In b (mine (thr s t)) ->
  NoDup (mine (thr s t)) /\
  (forall t', t' <> t -> ~ In b (mine (thr s t')) /\ cur (thr s t') <> Some b /\ ~ In b (slab (thr s t'))) /\
  (forall i, ~ In b (avail s i)).
Proof.
  intro Hb. destruct (I_hb _ HI t) as [Hnd Hp]. destruct (hb_parts _ Hnd) as (_ & Hm & _ & _).
  assert (Hin : In b (hb (thr s t))) by (apply in_hb; auto).
  split; [exact Hm|]. split; [|apply (Hp b Hin)].
  intros t' Hne. pose proof (I_disj _ HI t t' b (not_eq_sym Hne) Hin) as Hd.
  repeat split; intro H; apply Hd, in_hb; auto.
Qed.

(* free objects: no duplicates inside a bucket, buckets are disjoint, never simultaneously private *)
Lemma free_objects_consistent i :
  NoDup (avail s i) /\ (forall b, In b (avail s i) -> fst b = i) /\
  (forall b j, In b (avail s i) -> In b (avail s j) -> i = j) /\
  (forall b t, In b (avail s i) -> ~ In b (hb (thr s t))).
Proof.
  destruct (I_avail _ HI i) as [Hn Hq]. split; [exact Hn|]. split; [intros b Hb; apply (Hq b Hb)|]. split.
  - intros b j Hi Hj. destruct (I_avail _ HI j) as [_ Hqj]. destruct (Hq b Hi), (Hqj b Hj). congruence.
  - intros b t Hb Hin. exact (proj2 (proj2 (I_hb _ HI t) b Hin) i Hb).
Qed.

(* the object popped under the lock is the current head of the bucket's free list: the snapshot a thread works
   with while it holds the bucket lock is never stale *)
Lemma snapshot_current t i : pc (thr s t) = A2 i \/ pc (thr s t) = S9 i \/ pc (thr s t) = F3 i ->
  snap (thr s t) = avail s i.
Proof.
  pose proof (I_snap _ HI t) as H. intros [E|[E|E]]; rewrite E in H; [exact (proj1 H)|exact H|exact H].
Qed.

Lemma history_legal : legal (hist s) /\ forall b, In b (live (hist s)) <-> exists t, In b (mine (thr s t)).
Proof. exact (I_hist _ HI). Qed.

Lemma no_lost_update : used s = acc s.
Proof. exact (I_used _ HI). Qed.

Lemma lock_state_matches_pc t l : aowner s l = Some t <-> lock_of_pc (pc (thr s t)) = Some l.
Proof. exact (I_lock _ HI t l). Qed.

End AllocConsequences.

(* every step of the data model is a micro-op that the control discipline allows in the lock state of its pc *)
Lemma data_steps_disciplined p m : mop_of_pc p = Some m -> mstep (lock_of_pc p) m <> None.
Proof.
  destruct p; cbn [mop_of_pc lock_of_pc]; intro E; try discriminate; injection E as <-; cbn [mstep];
    rewrite ?lockid_eqb_refl; discriminate.
Qed.

(* the commit log changes only at the two commit points *)
Lemma commit_points s t :
  hist (astep s t) = hist s \/
  exists e, hist (astep s t) = e :: hist s /\ (pc (thr s t) = ARet \/ pc (thr s t) = Idle).
Proof.
  unfold astep. destruct (pc (thr s t)) eqn:Hpc; unfold try_lock, unlock, with_thr;
    try (left; reflexivity);
    try (destruct (aowner s _); left; reflexivity).
  - destruct (todo (thr s t)) as [|[i ok k|b] r]; [left; reflexivity|left; reflexivity|].
    destruct (in_dec block_eq_dec b (mine (thr s t))); [|left; reflexivity].
    right. eexists. split; [reflexivity|right; reflexivity].
  - destruct (avail s i); left; reflexivity.
  - destruct (cur (thr s t)); [|left; reflexivity]. right. eexists. split; [reflexivity|left; reflexivity].
  - destruct ok; left; reflexivity.
Qed.
