(* List-level specification of frg::tuple (include/frg/tuple.hpp): get, apply, tuple_cat, copy/move
   construction.  The substance of tuple.hpp is template metaprogramming, which this model does not
   capture; it is tied to the code by the harness only (static_asserts + run-time checks), see
   C17_tuple_partial.  Definitions only. *)
From Coq Require Import List NArith Arith Bool.
From FV Require Import Common.EventLog Holders.HoldersCommon.
Import ListNotations.
Local Open Scope N_scope.

Definition tup := list elem.
Definition tup_make (vs : list N) : tup := map fresh vs.
Definition tup_get (t : tup) (n : nat) : option elem := nth_error t n.
(* apply(f, t) calls f(get<0>(t), get<1>(t), ...): the harness uses the order-sensitive fold below *)
Definition apply_fold (t : tup) : N := fold_left (fun (acc : N) (e : elem) => (acc * 31 + val e) mod 18446744073709551616) t 7.

(* the specification: the result holds the elements of the arguments in order; an argument passed
   as an lvalue is left alone, an rvalue argument is moved from *)
Definition tup_cat_spec (k : ekind) (args : list (bool * tup)) : tup * list tup :=
  (map (fun e => fresh (val e)) (concat (map snd args)),
   map (fun a : bool * tup => if fst a then snd a else map (mark_moved k) (snd a)) args).
(* the code as it is (tuple.hpp:223-229, D17): do_concat std::move's every element out of every argument *)
Definition tup_cat_impl (k : ekind) (args : list (bool * tup)) : tup * list tup :=
  (map (fun e => fresh (val e)) (concat (map snd args)),
   map (fun a : bool * tup => map (mark_moved k) (snd a)) args).

(* tuple(const tuple<U...>&) / tuple(tuple<U...>&&) *)
Definition tup_copy (t : tup) : tup * tup := (map (fun e => fresh (val e)) t, t).
Definition tup_move (k : ekind) (t : tup) : tup * tup := (map (fun e => fresh (val e)) t, map (mark_moved k) t).

(* element lifetimes of a tuple with n elements living in the owner's storage: members are
   constructed first to last (storage<T, Types...>: item, then tail) and destroyed last to first *)
Definition tup_ctor_evs (n : nat) : list ev := map (fun i => EConstruct (sv i)) (seq 0 n).
Definition tup_dtor_evs (n : nat) : list ev := map (fun i => EDestroy (sv i)) (rev (seq 0 n)).

Inductive top :=
| TMake (vs : list N)                  (* construct, read every element through get<i>, destroy *)
| TApply (vs : list N)                 (* apply(f, t) on const& and on && *)
| TCat (lv1 lv2 : bool) (a b : list N) (* tuple_cat(t1, t2), each passed as lvalue (true) or rvalue *)
| TCopy (vs : list N) | TMove (vs : list N).

Inductive tout :=
| TVals (r : tup) (srcs : list tup) (e : list ev)
| TNum (n : N).

Definition tstep (k : ekind) (o : top) : tout :=
  match o with
  | TMake vs => TVals (tup_make vs) [] (tup_ctor_evs (length vs) ++ map (fun i => EUse (sv i)) (seq 0 (length vs)) ++ tup_dtor_evs (length vs))
  | TApply vs => TNum (apply_fold (tup_make vs))
  | TCat l1 l2 a b => let '(r, s) := tup_cat_impl k [(l1, tup_make a); (l2, tup_make b)] in TVals r s []
  | TCopy vs => let '(r, s) := tup_copy (tup_make vs) in TVals r [s] []
  (* the converting constructors are exercised with a source tuple of always-movable elements *)
  | TMove vs => let '(r, s) := tup_move KFull (tup_make vs) in TVals r [s] []
  end.
