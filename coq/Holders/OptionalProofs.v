(* frg::optional: refinement of std::optional's semantics (C17) and well-formed lifetime log (C16). *)
From Coq Require Import List NArith Arith Bool Lia.
From FV Require Import Common.EventLog Holders.HoldersCommon Holders.HoldersProofs Holders.OptionalModel.
Import ListNotations.

Lemma abs_opt_mark k s : abs_opt (mk_opt (eng s) (mark_moved k (ov s))) = abs_opt s.
Proof. unfold abs_opt. cbn [eng ov]. destruct k; reflexivity. Qed.

Ltac vars_simp :=
  repeat first [ rewrite live_at_map | rewrite dead_at_map | rewrite wr_map
               | rewrite upd_map_same by (intros; apply abs_opt_mark) ].

Lemma ostep_sim k vs o :
  rostep (map (abs_cell abs_opt) vs) o =
  (map (abs_cell abs_opt) (fst (fst (ostep k vs o))), snd (fst (ostep k vs o))).
Proof.
  destruct o; cbn [ostep rostep]; unfold opt_assign, opt_assign_from, opt_access, oskip, mark_src; vars_simp;
    repeat match goal with
    | |- context [live_at vs ?i] => destruct (live_at vs i) as [?d|] eqn:?; cbn [option_map]
    | |- context [dead_at vs ?i] => destruct (dead_at vs i) eqn:?
    | |- context [throws ?v] => destruct (throws v) eqn:?
    | |- context [eng ?d] => destruct d as [[|] ?elt]; cbn [eng ov abs_opt]
    | |- context [match ?s with Some _ => _ | None => _ end] => is_var s; destruct s
    end; cbn [fst snd abs_cell abs_opt eng ov val fresh app]; vars_simp; try reflexivity;
    try (match goal with H : live_at vs ?i = Some ?h |- context [wr (map _ vs) ?i _] =>
           f_equal; apply wr_same; rewrite nth_error_map, (live_at_Some _ _ _ H); reflexivity end).
Qed.

Theorem optional_refines_std (k : ekind) (n : nat) (ops : list oop) :
  map (abs_cell abs_opt) (fst (fst (orun k (ovars0 n) ops))) = fst (fst (rorun (repeat Dead n) ops)) /\
  snd (fst (orun k (ovars0 n) ops)) = snd (fst (rorun (repeat Dead n) ops)).
Proof.
  pose proof (run_sim (ostep k) rostep (map (abs_cell abs_opt)) (ostep_sim k) ops (ovars0 n)) as H.
  cbn zeta in H. unfold ovars0 in *. rewrite map_repeat_dead in H. exact H.
Qed.

(* ------------------------------------------------------------------ C16: the lifetime log *)
Lemma opt_dtor_spec i h : opt_dtor i h = if eng h then [EDestroy (sv i)] else [].
Proof. reflexivity. Qed.

Ltac sym_go :=
  cbn [sym_run sym_step snd fst app];
  repeat (objs_simp;
          repeat match goal with H : live_at _ _ = _ |- _ => rewrite H end;
          cbn [eng sym_run sym_step]; cbn beta).

Ltac pt_close engf :=
  let x := fresh "x" in
  intros x; cbn [fst snd];
  repeat first [ rewrite (hlive_upd engf) by (intros; reflexivity) | rewrite (hlive_wr engf) by lt_vars ];
  cbn beta;
  repeat match goal with
         | |- context [obj_eqb ?o x] => rewrite (obj_eqb_sym o x)
         end;
  repeat match goal with
         | |- context [obj_eqb x ?o] =>
           let E := fresh "E" in destruct (obj_eqb x o) eqn:E; [apply obj_eqb_eq in E; subst x|]
         end;
  objs_simp;
  repeat match goal with H : live_at _ _ = _ |- _ => rewrite H end;
  cbn [eng andb orb negb]; try reflexivity.

Lemma ostep_log_ok k vs o : exists L',
  sym_run (hlive eng vs) (snd (ostep k vs o)) = Some L' /\
  forall x, L' x = hlive eng (fst (fst (ostep k vs o))) x.
Proof.
  destruct o; cbn [ostep]; unfold opt_assign, opt_assign_from, opt_access, oskip, mark_src;
    repeat match goal with
    | |- context [live_at vs ?i] => destruct (live_at vs i) as [?d|] eqn:?
    | |- context [dead_at vs ?i] => let E := fresh "Hd" in destruct (dead_at vs i) eqn:E; [pose proof (dead_live _ _ E)|]
    | |- context [throws ?v] => destruct (throws v) eqn:?
    | |- context [eng ?d] => is_var d; destruct d as [[|] ?elt]; cbn [eng ov]
    | |- context [match ?s with Some _ => _ | None => _ end] => is_var s; destruct s
    end;
    (eexists; split; [sym_go; reflexivity | pt_close (@eng)]).
Qed.

Theorem optional_log_wf (k : ekind) (n : nat) (ops : list oop) :
  wf_closed (snd (orun k (ovars0 n) ops) ++ ofinish (fst (fst (orun k (ovars0 n) ops)))) = true.
Proof. exact (closed_log (@eng) (ostep k) opt_dtor opt_dtor_spec (ostep_log_ok k) n ops). Qed.
