(* frg::optional: refinement of std::optional's semantics (C17) and well-formed lifetime log (C16). *)
From Coq Require Import List NArith Arith Bool Lia.
From FV Require Import Common.EventLog Holders.HoldersCommon Holders.HoldersProofs Holders.OptionalModel.
Import ListNotations.

Lemma abs_opt_mark k s : abs_opt (mk_opt (eng s) (mark_moved k (ov s))) = abs_opt s.
Proof. unfold abs_opt. cbn [eng ov]. destruct k; reflexivity. Qed.

Ltac vars_simp :=
  repeat first [ rewrite live_at_map | rewrite dead_at_map | rewrite wr_map
               | rewrite upd_map_same by (intros; apply abs_opt_mark) ].

Lemma ostep_sim k vs o :
  rostep (map (abs_cell abs_opt) vs) o =
  (map (abs_cell abs_opt) (fst (fst (ostep k vs o))), snd (fst (ostep k vs o))).
Proof.
  destruct o; cbn [ostep rostep]; unfold opt_assign, opt_assign_from, opt_access, oskip, mark_src; vars_simp;
    repeat match goal with
    | |- context [live_at vs ?i] => destruct (live_at vs i) as [?d|] eqn:?; cbn [option_map]
    | |- context [dead_at vs ?i] => destruct (dead_at vs i) eqn:?
    | |- context [eng ?d] => destruct d as [[|] ?elt]; cbn [eng ov abs_opt]
    | |- context [match ?s with Some _ => _ | None => _ end] => destruct s
    end; cbn [fst snd abs_cell abs_opt eng ov val fresh]; vars_simp; try reflexivity.
Show. all: fail.
Qed.

Theorem optional_refines_std (k : ekind) (n : nat) (ops : list oop) :
  map (abs_cell abs_opt) (fst (fst (orun k (ovars0 n) ops))) = fst (fst (rorun (repeat Dead n) ops)) /\
  snd (fst (orun k (ovars0 n) ops)) = snd (fst (rorun (repeat Dead n) ops)).
Proof.
  pose proof (run_sim (ostep k) rostep (map (abs_cell abs_opt)) (ostep_sim k) ops (ovars0 n)) as H.
  cbn zeta in H. unfold ovars0 in *. rewrite map_repeat_dead in H. exact H.
Qed.
