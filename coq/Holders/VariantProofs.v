(* frg::variant: refinement of the tagged-value semantics (C17) and well-formed lifetime log (C16). *)
From Coq Require Import List NArith Arith Bool Lia.
From FV Require Import Common.EventLog Holders.HoldersCommon Holders.HoldersProofs Holders.VariantModel.
Import ListNotations.

Lemma abs_var_mark k s : abs_var (mk_vrt (tag s) (mark_moved k (vv s))) = abs_var s.
Proof. unfold abs_var. cbn [tag vv]. destruct k; reflexivity. Qed.

Ltac vars_simp :=
  repeat first [ rewrite live_at_map | rewrite dead_at_map | rewrite wr_map
               | rewrite upd_map_same by (intros; apply abs_var_mark) ].

Lemma vstep_sim nalt k vs o :
  rvstep nalt (map (abs_cell abs_var) vs) o =
  (map (abs_cell abs_var) (fst (fst (vstep nalt k vs o))), snd (fst (vstep nalt k vs o))).
Proof.
  destruct o; cbn [vstep rvstep]; unfold var_assign, var_assign_body, var_get, vskip, vmark, has_tag; vars_simp;
    repeat match goal with
    | |- context [live_at vs ?i] => destruct (live_at vs i) as [?d|] eqn:?; cbn [option_map]
    | |- context [dead_at vs ?i] => destruct (dead_at vs i) eqn:?
    | |- context [throws ?v] => destruct (throws v) eqn:?
    | |- context [Nat.ltb ?a nalt] => destruct (Nat.ltb a nalt) eqn:?
    | |- context [tag ?d] => is_var d; destruct d as [[?tg|] ?elt]; cbn [tag vv abs_var]
    | |- context [tag_eqb (Some ?a) (Some ?b)] => cbn [tag_eqb]; destruct (Nat.eqb a b) eqn:?
    end; cbn [fst snd abs_cell abs_var tag vv val fresh app andb tag_eqb]; vars_simp; try reflexivity;
    try (match goal with H : live_at vs ?i = Some ?h |- context [wr (map _ vs) ?i _] =>
           f_equal; apply wr_same; rewrite nth_error_map, (live_at_Some _ _ _ H); reflexivity end).
Qed.

Theorem variant_refines_std (nalt : nat) (k : ekind) (n : nat) (ops : list vop) :
  map (abs_cell abs_var) (fst (fst (vrun nalt k (vvars0 n) ops))) = fst (fst (rvrun nalt (repeat Dead n) ops)) /\
  snd (fst (vrun nalt k (vvars0 n) ops)) = snd (fst (rvrun nalt (repeat Dead n) ops)).
Proof.
  pose proof (run_sim (vstep nalt k) (rvstep nalt) (map (abs_cell abs_var)) (vstep_sim nalt k) ops (vvars0 n)) as H.
  cbn zeta in H. unfold vvars0 in *. rewrite map_repeat_dead in H. exact H.
Qed.

(* ------------------------------------------------------------------ C16 *)
Lemma var_dtor_spec i h : var_dtor i h = if has_tag h then [EDestroy (sv i)] else [].
Proof. reflexivity. Qed.

(* the chain of by-value parameters, as nested scopes *)
Fixpoint nest (i : nat) (sl : nat -> nat) (k0 n : nat) : list ev :=
  match n with
  | 0 => [EUse (sv i); EUse (st (sl k0))]
  | S m => [EUse (st (sl k0)); EConstruct (st (sl (S k0)))] ++ nest i sl (S k0) m ++ [EDestroy (st (sl (S k0)))]
  end.

Lemma nest_shape i sl n : forall k0,
  nest i sl k0 n =
  concat (map (fun k => [EUse (st (sl k)); EConstruct (st (sl (S k)))]) (seq k0 n))
  ++ [EUse (sv i); EUse (st (sl (k0 + n)))]
  ++ map (fun k => EDestroy (st (sl (S k)))) (rev (seq k0 n)).
Proof.
  induction n as [|m IH]; intros k0; cbn [nest seq map concat rev app].
  - now rewrite Nat.add_0_r.
  - rewrite IH, map_app. cbn [map]. rewrite <- !app_assoc. cbn [app].
    replace (S k0 + m) with (k0 + S m) by lia. reflexivity.
Qed.

Lemma assign_chain_nest i sl a : assign_chain i sl a = nest i sl 0 (S a).
Proof. unfold assign_chain. now rewrite nest_shape. Qed.

Lemma nest_ok i sl n : forall k0 (L : lfun),
  L (sv i) = true -> L (st (sl k0)) = true ->
  (forall k, k0 < k <= k0 + n -> L (st (sl k)) = false) ->
  (forall k k', k0 <= k <= k0 + n -> k0 <= k' <= k0 + n -> sl k = sl k' -> k = k') ->
  exists L', sym_run L (nest i sl k0 n) = Some L' /\ forall x, L' x = L x.
Proof.
  induction n as [|m IH]; intros k0 L Hi H0 Hfree Hinj; cbn [nest].
  - cbn [sym_run sym_step]. rewrite Hi, H0. eexists; split; [reflexivity|reflexivity].
  - cbn [app sym_run sym_step]. rewrite H0, fst_st, Nat.eqb_refl. rewrite (Hfree (S k0)) by lia. cbn [andb negb].
    set (t := st (sl (S k0))). set (L1 := fun x : obj => obj_eqb x t || L x).
    destruct (IH (S k0) L1) as [L2 [Hr Hx]].
    + unfold L1. now rewrite Hi, orb_true_r.
    + unfold L1, t. now rewrite obj_eqb_refl.
    + intros k Hk. unfold L1, t. rewrite eqb_st_st. rewrite (Hfree k) by lia. rewrite orb_false_r.
      apply Nat.eqb_neq. intros E. apply Hinj in E; lia.
    + intros k k' Hk Hk'. apply Hinj; lia.
    + rewrite sym_run_app, Hr. cbn [sym_run sym_step]. rewrite Hx. unfold L1 at 1. rewrite obj_eqb_refl. cbn [orb].
      eexists; split; [reflexivity|]. intros x. cbn beta. rewrite Hx. unfold L1.
      rewrite (obj_eqb_sym t x). destruct (obj_eqb x t) eqn:E; cbn [negb andb orb]; [|reflexivity].
      apply obj_eqb_eq in E. subst x. unfold t. symmetry. apply Hfree. lia.
Qed.

Lemma ok_chain L i sl a :
  L (sv i) = true -> L (st (sl 0)) = true ->
  (forall k, 0 < k <= S a -> L (st (sl k)) = false) ->
  (forall k k', k <= S a -> k' <= S a -> sl k = sl k' -> k = k') ->
  ok L (assign_chain i sl a) L.
Proof.
  intros Hi H0 Hf Hinj. rewrite assign_chain_nest. apply nest_ok; auto.
  intros k k' Hk Hk'. apply Hinj; lia.
Qed.

Ltac sym_go :=
  cbn [sym_run sym_step snd fst app];
  repeat (objs_simp;
          repeat match goal with H : live_at _ _ = _ |- _ => rewrite H end;
          unfold has_tag; cbn [tag vv sym_run sym_step sl_val sl_id]; cbn beta).

Ltac pt_close :=
  let x := fresh "x" in
  intros x; cbn [fst snd];
  repeat first [ rewrite (hlive_upd has_tag) by (intros; reflexivity) | rewrite (hlive_wr has_tag) by lt_vars ];
  cbn beta;
  repeat match goal with
         | |- context [obj_eqb ?o x] => rewrite (obj_eqb_sym o x)
         end;
  repeat match goal with
         | |- context [obj_eqb x ?o] =>
           let E := fresh "E" in destruct (obj_eqb x o) eqn:E; [apply obj_eqb_eq in E; subst x|]
         end;
  objs_simp;
  repeat match goal with H : live_at _ _ = _ |- _ => rewrite H end;
  unfold has_tag; cbn [tag vv andb orb negb]; try reflexivity.

Ltac explicit := unfold ok; eexists; split; [sym_go; reflexivity | pt_close].

Ltac split_cases vs nalt :=
    repeat match goal with
    | |- context [live_at vs ?i] => destruct (live_at vs i) as [?d|] eqn:?
    | |- context [dead_at vs ?i] => let E := fresh "Hd" in destruct (dead_at vs i) eqn:E; [pose proof (dead_live _ _ E)|]
    | |- context [throws ?v] => destruct (throws v) eqn:?
    | |- context [Nat.ltb ?a nalt] => destruct (Nat.ltb a nalt) eqn:?
    | |- context [tag ?d] => is_var d; destruct d as [[?tg|] ?elt]; cbn [tag vv has_tag andb]
    | |- context [has_tag ?d] => is_var d; destruct d as [[?tg|] ?elt]; cbn [tag vv has_tag andb]
    | |- context [tag_eqb (Some ?a) (Some ?b)] => cbn [tag_eqb]; destruct (Nat.eqb a b) eqn:?
    | |- context [if ?mv then _ else _] => is_var mv; destruct mv
    end; cbn [tag_eqb andb].

Lemma sl_val_inj k k' : sl_val k = sl_val k' -> k = k'.
Proof. destruct k as [|[|k]], k' as [|[|k']]; cbn [sl_val]; lia. Qed.

Lemma var_assign_log_ok k mv vs i j :
  ok (hlive has_tag vs) (snd (var_assign k mv vs i j)) (hlive has_tag (fst (fst (var_assign k mv vs i j)))).
Proof.
  unfold var_assign, var_assign_body, vskip, vmark. destruct mv; cbn [andb]; split_cases vs 0; try explicit.
  (* same alternative on both sides: the parameter chain *)
  all: apply Nat.eqb_eq in Heqb; subst; cbn [fst snd];
    apply (ok_app _ (fun x => obj_eqb x (st 0) || hlive has_tag vs x)); [explicit|];
    apply (ok_app _ (fun x => obj_eqb x (st 0) || hlive has_tag vs x));
    [ apply ok_chain;
      [ objs_simp; rewrite Heqo; reflexivity
      | unfold sl_id; objs_simp; reflexivity
      | intros q Hq; unfold sl_id; objs_simp; destruct q; [lia|reflexivity]
      | unfold sl_id; auto ]
    | explicit ].
Qed.

Lemma var_assignval_log_ok (me : vrt) vs i a v : live_at vs i = Some me ->
  ok (hlive has_tag vs)
     (from_value_evs 0 (st 2) ++ [EDestroy (st 1)] ++ snd (var_assign_body me vs i sl_val (Some a) v)
        ++ [EDestroy (st 2); EDestroy (st 0); EDestroy sa])
     (hlive has_tag (fst (var_assign_body me vs i sl_val (Some a) v))).
Proof.
  intros Hme. unfold var_assign_body, from_value_evs. destruct me as [[tg|] elt]; cbn [tag vv has_tag tag_eqb].
  2: explicit.
  destruct (Nat.eqb tg a) eqn:E; [|explicit].
  apply Nat.eqb_eq in E. subst tg. cbn [fst snd].
  set (M := fun x : obj => obj_eqb x (st 2) || (obj_eqb x (st 0) || (obj_eqb x sa || hlive has_tag vs x))).
  rewrite app_assoc.
  apply (ok_app _ M).
  { unfold M, ok. eexists; split; [sym_go; reflexivity|].
    intros x. cbn beta. rewrite (obj_eqb_sym (st 1) x).
    destruct (obj_eqb x (st 1)) eqn:E1; cbn [negb andb orb]; [|reflexivity].
    apply obj_eqb_eq in E1. subst x. objs_simp. reflexivity. }
  apply (ok_app _ M).
  { apply ok_chain.
    - unfold M. objs_simp. rewrite Hme. reflexivity.
    - unfold M. cbn [sl_val]. objs_simp. reflexivity.
    - intros q Hq. unfold M. destruct q as [|[|q]]; cbn [sl_val]; [lia| |]; objs_simp; reflexivity.
    - intros q q' _ _. apply sl_val_inj. }
  unfold M. explicit.
Qed.

Lemma vstep_log_ok nalt k vs o :
  ok (hlive has_tag vs) (snd (vstep nalt k vs o)) (hlive has_tag (fst (fst (vstep nalt k vs o)))).
Proof.
  destruct o; cbn [vstep]; try apply var_assign_log_ok.
  all: unfold var_get, vskip, vmark, from_value_evs.
  all: try (split_cases vs nalt; explicit).
  (* VAssignVal *)
  destruct (live_at vs i) as [me|] eqn:Hme; [|explicit].
  destruct (Nat.ltb a nalt); [|explicit].
  pose proof (var_assignval_log_ok me vs i a v Hme) as H.
  destruct (var_assign_body me vs i sl_val (Some a) v) as [vs1 e]. cbn [fst snd] in *. exact H.
Qed.

Theorem variant_log_wf (nalt : nat) (k : ekind) (n : nat) (ops : list vop) :
  wf_closed (snd (vrun nalt k (vvars0 n) ops) ++ vfinish (fst (fst (vrun nalt k (vvars0 n) ops)))) = true.
Proof. exact (closed_log has_tag (vstep nalt k) var_dtor var_dtor_spec (vstep_log_ok nalt k) n ops). Qed.
