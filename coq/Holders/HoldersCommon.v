(* Shared definitions of the value-holder models (C17, C16): tracked element, holder variables,
   slot naming for the lifetime event log, outputs.  Definitions only. *)
From Coq Require Import List NArith Arith Bool.
From FV Require Import Common.EventLog.
Import ListNotations.

(* The element type of the harness: vh::TV-based, carries a number and the instrumentation flag
   "has been moved from".  A move leaves the number in place (TV does), so the reference
   semantics never needs the flag; it is compared by the correspondence leg only. *)
Record elem := mk_elem { val : N; moved : bool }.
Inductive ekind := KFull | KMoveOnly | KCopyOnly.
Definition fresh (v : N) : elem := mk_elem v false.
(* the element's converting constructor throws on this designated argument (harness: El::throw_magic) *)
Definition throw_magic : N := 3735928559.
Definition throws (v : N) : bool := N.eqb v throw_magic.
(* what a C++ "move" does to its source: nothing when the element type has no move operations *)
Definition mark_moved (k : ekind) (e : elem) : elem :=
  match k with KCopyOnly => e | _ => mk_elem (val e) true end.

(* slots of the owner's inline storage (block 0): holder variable i, harness argument, temporaries *)
Definition sv (i : nat) : obj := (0, S (2 * i)).
Definition sa : obj := (0, 0).
Definition st (d : nat) : obj := (0, 2 * S d).

Inductive out :=
| RUnit | RSkip | RAssert | RUB
| RBool (b : bool) | RVal (v : N) | RNone
| RErr (e : N)             (* expected-valued result in the error state *)
| RThrow.                  (* the element's constructor threw (caught by the caller); the run goes on *)

(* holder variables: raw storage (Dead) or a constructed holder *)
Inductive cell (H : Type) := Dead | Live (h : H).
Arguments Dead {H}.
Arguments Live {H} h.
Definition abs_cell {A B} (f : A -> B) (c : cell A) : cell B :=
  match c with Dead => Dead | Live h => Live (f h) end.

Section Vars.
Context {H : Type}.
Definition vars := list (cell H).
Definition live_at (vs : vars) (i : nat) : option H :=
  match nth_error vs i with Some (Live h) => Some h | _ => None end.
Definition dead_at (vs : vars) (i : nat) : bool :=
  match nth_error vs i with Some Dead => true | _ => false end.
Fixpoint wr (vs : vars) (i : nat) (c : cell H) : vars :=
  match vs, i with
  | [], _ => []
  | _ :: r, O => c :: r
  | x :: r, S j => x :: wr r j c
  end.
Definition upd (vs : vars) (i : nat) (f : H -> H) : vars :=
  match live_at vs i with Some h => wr vs i (Live (f h)) | None => vs end.
End Vars.
Arguments vars H : clear implicits.

Definition stops (o : out) : bool := match o with RAssert | RUB => true | _ => false end.

(* generic runner: a step function, a list of ops; stops after the first assertion stop / UB.
   Returns final variables, outputs (one per executed op), the event log. *)
Section Run.
Context {S Op : Type}.
Variable step : S -> Op -> S * out * list ev.
Fixpoint run (s : S) (ops : list Op) : S * list out * list ev :=
  match ops with
  | [] => (s, [], [])
  | o :: r =>
    let '(s1, x, e) := step s o in
    if stops x then (s1, [x], e)
    else let '(s2, xs, e2) := run s1 r in (s2, x :: xs, e ++ e2)
  end.
(* a per-op precondition holds at every executed op *)
Variable okb : S -> Op -> bool.
Fixpoint api_ok (s : S) (ops : list Op) : bool :=
  match ops with
  | [] => true
  | o :: r => okb s o && (let '(s1, x, _) := step s o in if stops x then true else api_ok s1 r)
  end.
End Run.

(* destruction of every live holder variable, in index order (end of the owner's scope) *)
Section Finish.
Context {H : Type}.
Variable dtor : nat -> H -> list ev.
Fixpoint finish_from (i : nat) (vs : vars H) : list ev :=
  match vs with
  | [] => []
  | Dead :: r => finish_from (S i) r
  | Live h :: r => dtor i h ++ finish_from (S i) r
  end.
Definition finish := finish_from 0.
End Finish.
