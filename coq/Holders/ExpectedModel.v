(* Model of frg::expected<E, T> (include/frg/expected.hpp): {e_; stor_}; indicates_error(e) = (e != E{}).
   Definitions only. *)
From Coq Require Import List NArith Arith Bool.
From FV Require Import Common.EventLog Holders.HoldersCommon.
Import ListNotations.
Local Open Scope N_scope.

Record expd := mk_exp { err : N; xv : elem }.    (* xv meaningful iff err = 0 *)
Definition is_err (e : N) : bool := negb (N.eqb e 0).

Inductive xop :=
| XNew (i : nat)                (* expected()              :52 *)
| XNewSucc (i : nat)            (* expected(success_tag)   :71 *)
| XNewErr (i : nat) (e : N)     (* expected(E)             :77  (asserts indicates_error(e)) *)
| XNewVal (i : nat) (v : N)     (* expected(T val)         :82 *)
| XNewCopy (i j : nat)          (*                         :58 *)
| XNewMove (i j : nat)          (*                         :64 *)
| XDel (i : nat)                (* ~destructor_crtp        :171 *)
| XAssign (i j : nat)           (* operator=(const expected &)  :88 *)
| XMAssign (i j : nat)          (* operator=(expected &&)       :102 *)
| XBool (i : nat) | XMaybeError (i : nat) | XError (i : nat)
| XValue (i : nat) | XCValue (i : nat) | XUnwrap (i : nat)
| XMap (i : nat)                (* map(f), f takes T by value, f v = 2v+1 *)
| XMapError (i : nat).          (* map_error(g), g e = e + 10 *)

Definition xvars := vars expd.
Definition xskip (vs : xvars) : xvars * out * list ev := (vs, RSkip, []).
Definition map_f (v : N) : N := 2 * v + 1.
Definition map_g (e : N) : N := e + 10.

Definition xmark (k : ekind) (vs : xvars) (j : nat) : xvars :=
  upd vs j (fun s => mk_exp (err s) (mark_moved k (xv s))).

(* both assignment operators: T temp{[move](other value)}; destroy own; e_ = other.e_; new T{move(temp)} *)
Definition exp_assign (k : ekind) (mv : bool) (vs : xvars) (i j : nat) : xvars * out * list ev :=
  match live_at vs i, live_at vs j with
  | Some d, Some s =>
    if is_err (err s) then
      (wr vs i (Live (mk_exp (err s) (xv d))), RUnit, if is_err (err d) then [] else [EDestroy (sv i)])
    else
      let vs1 := if mv then xmark k vs j else vs in
      (wr vs1 i (Live (mk_exp (err s) (fresh (val (xv s))))), RUnit,
       [EUse (sv j); EConstruct (st 0)] ++ (if is_err (err d) then [] else [EDestroy (sv i)])
       ++ [EUse (st 0); EConstruct (sv i); EDestroy (st 0)])
  | _, _ => xskip vs
  end.

Definition exp_value (vs : xvars) (i : nat) : xvars * out * list ev :=
  match live_at vs i with
  | Some d => if is_err (err d) then (vs, RAssert, []) else (vs, RVal (val (xv d)), [EUse (sv i)])
  | None => xskip vs
  end.

Definition xstep (k : ekind) (vs : xvars) (o : xop) : xvars * out * list ev :=
  match o with
  | XNew i | XNewSucc i =>
    if dead_at vs i then (wr vs i (Live (mk_exp 0 (fresh 0))), RUnit, [EConstruct (sv i)]) else xskip vs
  | XNewErr i e =>
    if dead_at vs i then
      if is_err e then (wr vs i (Live (mk_exp e (fresh 0))), RUnit, []) else (vs, RAssert, [])
    else xskip vs
  | XNewVal i v =>
    if dead_at vs i then
      (wr vs i (Live (mk_exp 0 (fresh v))), RUnit,
       [EConstruct sa; EUse sa; EConstruct (st 0); EUse (st 0); EConstruct (sv i); EDestroy (st 0); EDestroy sa])
    else xskip vs
  | XNewCopy i j =>
    match dead_at vs i, live_at vs j with
    | true, Some s =>
      if is_err (err s) then (wr vs i (Live (mk_exp (err s) (fresh 0))), RUnit, [])
      else (wr vs i (Live (mk_exp (err s) (fresh (val (xv s))))), RUnit, [EUse (sv j); EConstruct (sv i)])
    | _, _ => xskip vs
    end
  | XNewMove i j =>
    match dead_at vs i, live_at vs j with
    | true, Some s =>
      if is_err (err s) then (wr vs i (Live (mk_exp (err s) (fresh 0))), RUnit, [])
      else (xmark k (wr vs i (Live (mk_exp (err s) (fresh (val (xv s)))))) j, RUnit,
            [EUse (sv j); EConstruct (sv i)])
    | _, _ => xskip vs
    end
  | XDel i =>
    match live_at vs i with
    | Some d => (wr vs i Dead, RUnit, if is_err (err d) then [] else [EDestroy (sv i)])
    | None => xskip vs
    end
  | XAssign i j => exp_assign k false vs i j
  | XMAssign i j => exp_assign k true vs i j
  | XBool i => match live_at vs i with Some d => (vs, RBool (negb (is_err (err d))), []) | None => xskip vs end
  | XMaybeError i => match live_at vs i with Some d => (vs, RVal (err d), []) | None => xskip vs end
  | XError i =>
    match live_at vs i with
    | Some d => if is_err (err d) then (vs, RVal (err d), []) else (vs, RAssert, [])
    | None => xskip vs
    end
  | XValue i | XCValue i => exp_value vs i
  | XUnwrap i =>     (* returns T by move; the harness reads and drops the returned object *)
    match live_at vs i with
    | Some d =>
      if is_err (err d) then (vs, RAssert, [])
      else (xmark k vs i, RVal (val (xv d)),
            [EUse (sv i); EConstruct (st 0); EUse (st 0); EDestroy (st 0)])
    | None => xskip vs
    end
  | XMap i =>        (* if( *this ) return fun(std::move(value())); return error(); *)
    match live_at vs i with
    | Some d =>
      if is_err (err d) then (vs, RErr (err d), [])
      else (xmark k vs i, RVal (map_f (val (xv d))),
            [EUse (sv i); EConstruct (st 0); EUse (st 0); EDestroy (st 0)])
    | None => xskip vs
    end
  | XMapError i =>   (* if(!*this) return fun(error()); return std::move(value()); *)
    match live_at vs i with
    | Some d =>
      if is_err (err d) then (vs, RErr (map_g (err d)), [])
      else (xmark k vs i, RVal (val (xv d)),
            [EUse (sv i); EConstruct (st 0); EUse (st 0); EConstruct (st 1); EDestroy (st 0);
             EUse (st 1); EDestroy (st 1)])
    | None => xskip vs
    end
  end.

Definition exp_dtor (i : nat) (d : expd) : list ev := if is_err (err d) then [] else [EDestroy (sv i)].
Definition xrun (k : ekind) := run (xstep k).
Definition xfinish := finish exp_dtor.
Definition xvars0 (n : nat) : xvars := repeat Dead n.

(* ---- reference: error + value as a sum (std::expected), inl = error code, inr = value ---- *)
Definition rxvars := list (cell (N + N)).
Definition rxstep (vs : rxvars) (o : xop) : rxvars * out :=
  match o with
  | XNew i | XNewSucc i => if dead_at vs i then (wr vs i (Live (inr 0)), RUnit) else (vs, RSkip)
  | XNewErr i e =>
    if dead_at vs i then
      if N.eqb e 0 then (vs, RAssert)    (* E{} is not an error value: documented precondition *)
      else (wr vs i (Live (inl e)), RUnit)
    else (vs, RSkip)
  | XNewVal i v => if dead_at vs i then (wr vs i (Live (inr v)), RUnit) else (vs, RSkip)
  | XNewCopy i j | XNewMove i j =>
    match dead_at vs i, live_at vs j with
    | true, Some s => (wr vs i (Live s), RUnit)
    | _, _ => (vs, RSkip)
    end
  | XDel i => match live_at vs i with Some _ => (wr vs i Dead, RUnit) | None => (vs, RSkip) end
  | XAssign i j | XMAssign i j =>
    match live_at vs i, live_at vs j with
    | Some _, Some s => (wr vs i (Live s), RUnit)
    | _, _ => (vs, RSkip)
    end
  | XBool i =>
    match live_at vs i with
    | Some s => (vs, RBool (match s with inr _ => true | inl _ => false end))
    | None => (vs, RSkip) end
  | XMaybeError i =>
    match live_at vs i with
    | Some s => (vs, RVal (match s with inl e => e | inr _ => 0 end))
    | None => (vs, RSkip) end
  | XError i =>
    match live_at vs i with
    | Some (inl e) => (vs, RVal e) | Some (inr _) => (vs, RAssert) | None => (vs, RSkip) end
  | XValue i | XCValue i | XUnwrap i =>
    match live_at vs i with
    | Some (inr v) => (vs, RVal v) | Some (inl _) => (vs, RAssert) | None => (vs, RSkip) end
  | XMap i =>
    match live_at vs i with
    | Some (inr v) => (vs, RVal (map_f v)) | Some (inl e) => (vs, RErr e) | None => (vs, RSkip) end
  | XMapError i =>
    match live_at vs i with
    | Some (inr v) => (vs, RVal v) | Some (inl e) => (vs, RErr (map_g e)) | None => (vs, RSkip) end
  end.
Definition rxrun := run (fun vs o => let '(a, b) := rxstep vs o in (a, b, @nil ev)).
Definition abs_exp (d : expd) : N + N := if is_err (err d) then inl (err d) else inr (val (xv d)).
