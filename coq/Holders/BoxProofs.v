(* frg::manual_box: refinement of option semantics (C17) and well-formed lifetime log (C16). *)
From Coq Require Import List NArith Arith Bool Lia.
From FV Require Import Common.EventLog Holders.HoldersCommon Holders.HoldersProofs Holders.BoxModel.
Import ListNotations.

Ltac vars_simp := repeat first [ rewrite live_at_map | rewrite dead_at_map | rewrite wr_map ].

Lemma bstep_sim vs o :
  rbstep (map (abs_cell abs_box) vs) o =
  (map (abs_cell abs_box) (fst (fst (bstep vs o))), snd (fst (bstep vs o))).
Proof.
  destruct o; cbn [bstep rbstep]; unfold bskip; vars_simp;
    repeat match goal with
    | |- context [live_at vs ?i] => destruct (live_at vs i) as [?d|] eqn:?; cbn [option_map]
    | |- context [dead_at vs ?i] => destruct (dead_at vs i) eqn:?
    | |- context [throws ?v] => destruct (throws v) eqn:?
    | |- context [init ?d] => is_var d; destruct d as [[|] ?elt]; cbn [init bv abs_box]
    end; cbn [fst snd abs_cell abs_box init bv val fresh]; vars_simp; try reflexivity.
Qed.

Theorem box_refines_std (n : nat) (ops : list bop) :
  map (abs_cell abs_box) (fst (fst (brun (bvars0 n) ops))) = fst (fst (rbrun (repeat Dead n) ops)) /\
  snd (fst (brun (bvars0 n) ops)) = snd (fst (rbrun (repeat Dead n) ops)).
Proof.
  pose proof (run_sim bstep rbstep (map (abs_cell abs_box)) bstep_sim ops (bvars0 n)) as H.
  cbn zeta in H. unfold bvars0 in *. rewrite map_repeat_dead in H. exact H.
Qed.

(* ------------------------------------------------------------------ C16 *)
Lemma box_dtor_spec i h : box_dtor i h = if init h then [EDestroy (sv i)] else [].
Proof. reflexivity. Qed.

Ltac sym_go :=
  cbn [sym_run sym_step snd fst app];
  repeat (objs_simp;
          repeat match goal with H : live_at _ _ = _ |- _ => rewrite H end;
          cbn [init sym_run sym_step]; cbn beta).

Ltac pt_close :=
  let x := fresh "x" in
  intros x; cbn [fst snd];
  repeat first [ rewrite (hlive_upd (@init)) by (intros; reflexivity) | rewrite (hlive_wr (@init)) by lt_vars ];
  cbn beta;
  repeat match goal with
         | |- context [obj_eqb ?o x] => rewrite (obj_eqb_sym o x)
         end;
  repeat match goal with
         | |- context [obj_eqb x ?o] =>
           let E := fresh "E" in destruct (obj_eqb x o) eqn:E; [apply obj_eqb_eq in E; subst x|]
         end;
  objs_simp;
  repeat match goal with H : live_at _ _ = _ |- _ => rewrite H end;
  cbn [init andb orb negb]; try reflexivity.

Lemma bstep_log_ok vs o : box_api_ok_step vs o = true -> exists L',
  sym_run (hlive (@init) vs) (snd (bstep vs o)) = Some L' /\
  forall x, L' x = hlive (@init) (fst (fst (bstep vs o))) x.
Proof.
  destruct o; cbn [bstep box_api_ok_step]; unfold bskip;
    repeat match goal with
    | |- context [live_at vs ?i] => destruct (live_at vs i) as [?d|] eqn:?
    | |- context [dead_at vs ?i] => let E := fresh "Hd" in destruct (dead_at vs i) eqn:E; [pose proof (dead_live _ _ E)|]
    | |- context [throws ?v] => destruct (throws v) eqn:?
    | |- context [init ?d] => is_var d; destruct d as [[|] ?elt]; cbn [init bv]
    end; intros Hok; try discriminate Hok;
    (eexists; split; [sym_go; reflexivity | pt_close]).
Qed.

Theorem box_log_wf (n : nat) (ops : list bop) : box_api_ok (bvars0 n) ops = true ->
  wf_closed (snd (brun (bvars0 n) ops) ++ bfinish (fst (fst (brun (bvars0 n) ops)))) = true.
Proof. exact (closed_log_cond (@init) bstep box_dtor box_api_ok_step box_dtor_spec bstep_log_ok n ops). Qed.
