From FV Require Import Common.ExtractTypes Common.EventLog Holders.HoldersCommon Holders.OptionalModel
  Holders.ExpectedModel Holders.VariantModel Holders.BoxModel Holders.UniqueModel Holders.TupleModel.
From Coq Require Extraction.
From Coq Require Import ExtrOcamlBasic.
Extraction "../build/extract/holders_model.ml" types_witness
  ostep ofinish ovars0 xstep xfinish xvars0 vstep vfinish vvars0 bstep bfinish bvars0
  pstep pfinish pstate0 mstep mfinish mstate0 tstep stops.
