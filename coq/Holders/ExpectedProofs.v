(* frg::expected: refinement of the sum-type semantics (C17) and well-formed lifetime log (C16). *)
From Coq Require Import List NArith Arith Bool Lia.
From FV Require Import Common.EventLog Holders.HoldersCommon Holders.HoldersProofs Holders.ExpectedModel.
Import ListNotations.
Local Open Scope N_scope.

Lemma abs_exp_mark k s : abs_exp (mk_exp (err s) (mark_moved k (xv s))) = abs_exp s.
Proof. unfold abs_exp. cbn [err xv]. destruct k; reflexivity. Qed.

Ltac vars_simp :=
  repeat first [ rewrite live_at_map | rewrite dead_at_map | rewrite wr_map
               | rewrite upd_map_same by (intros; apply abs_exp_mark) ].

Lemma is_err_eqb e : is_err e = negb (N.eqb e 0).
Proof. reflexivity. Qed.

Lemma xstep_sim k vs o :
  rxstep (map (abs_cell abs_exp) vs) o =
  (map (abs_cell abs_exp) (fst (fst (xstep k vs o))), snd (fst (xstep k vs o))).
Proof.
  destruct o; cbn [xstep rxstep]; unfold exp_assign, exp_value, xskip, xmark; vars_simp;
    repeat match goal with
    | |- context [live_at vs ?i] => destruct (live_at vs i) as [?d|] eqn:?; cbn [option_map]
    | |- context [dead_at vs ?i] => destruct (dead_at vs i) eqn:?
    | |- context [is_err (err ?d)] => is_var d; destruct d as [?ec ?elt]; cbn [err xv abs_exp]; destruct (is_err ec) eqn:?
    | |- context [is_err ?e] => is_var e; unfold is_err; destruct (N.eqb e 0) eqn:?; cbn [negb]
    end; cbn [fst snd abs_cell abs_exp err xv val fresh app]; vars_simp;
    repeat match goal with H : is_err _ = _ |- _ => rewrite H end; try reflexivity;
    try (match goal with H : live_at vs ?i = Some ?h |- context [wr (map _ vs) ?i _] =>
           f_equal; apply wr_same; rewrite nth_error_map, (live_at_Some _ _ _ H); cbn [abs_cell abs_exp err xv];
           repeat match goal with H : is_err _ = _ |- _ => rewrite H end; reflexivity end).
  all: cbn [abs_cell]; unfold abs_exp; cbn [err xv val fresh];
    repeat match goal with H : is_err _ = _ |- _ => rewrite H end; unfold is_err;
    repeat match goal with H : N.eqb _ _ = _ |- _ => rewrite H end; cbn [negb]; try reflexivity; try congruence.
  match goal with |- context [N.eqb (err ?d) 0] => let E := fresh in destruct (N.eqb (err d) 0) eqn:E; cbn [negb];
    [apply N.eqb_eq in E; rewrite E|]; reflexivity end.
Qed.

Theorem expected_refines_std (k : ekind) (n : nat) (ops : list xop) :
  map (abs_cell abs_exp) (fst (fst (xrun k (xvars0 n) ops))) = fst (fst (rxrun (repeat Dead n) ops)) /\
  snd (fst (xrun k (xvars0 n) ops)) = snd (fst (rxrun (repeat Dead n) ops)).
Proof.
  pose proof (run_sim (xstep k) rxstep (map (abs_cell abs_exp)) (xstep_sim k) ops (xvars0 n)) as H.
  cbn zeta in H. unfold xvars0 in *. rewrite map_repeat_dead in H. exact H.
Qed.

(* ------------------------------------------------------------------ C16: the lifetime log *)
Definition exp_holds (d : expd) : bool := negb (is_err (err d)).
Lemma exp_dtor_spec i h : exp_dtor i h = if exp_holds h then [EDestroy (sv i)] else [].
Proof. unfold exp_dtor, exp_holds. now destruct (is_err (err h)). Qed.

Ltac sym_go :=
  cbn [sym_run sym_step snd fst app];
  repeat (objs_simp;
          repeat match goal with H : live_at _ _ = _ |- _ => rewrite H end;
          unfold exp_holds; cbn [err xv];
          repeat match goal with H : is_err _ = _ |- _ => rewrite H end;
          cbn [negb sym_run sym_step]; cbn beta).

Ltac pt_close :=
  let x := fresh "x" in
  intros x; cbn [fst snd];
  repeat first [ rewrite (hlive_upd exp_holds) by (intros; reflexivity) | rewrite (hlive_wr exp_holds) by lt_vars ];
  cbn beta;
  repeat match goal with
         | |- context [obj_eqb ?o x] => rewrite (obj_eqb_sym o x)
         end;
  repeat match goal with
         | |- context [obj_eqb x ?o] =>
           let E := fresh "E" in destruct (obj_eqb x o) eqn:E; [apply obj_eqb_eq in E; subst x|]
         end;
  objs_simp;
  repeat match goal with H : live_at _ _ = _ |- _ => rewrite H end;
  unfold exp_holds; cbn [err xv];
  repeat match goal with H : is_err _ = _ |- _ => rewrite H end;
  cbn [andb orb negb]; try reflexivity.

Lemma xstep_log_ok k vs o : exists L',
  sym_run (hlive exp_holds vs) (snd (xstep k vs o)) = Some L' /\
  forall x, L' x = hlive exp_holds (fst (fst (xstep k vs o))) x.
Proof.
  destruct o; cbn [xstep]; unfold exp_assign, exp_value, xskip, xmark;
    repeat match goal with
    | |- context [live_at vs ?i] => destruct (live_at vs i) as [?d|] eqn:?
    | |- context [dead_at vs ?i] => let E := fresh "Hd" in destruct (dead_at vs i) eqn:E; [pose proof (dead_live _ _ E)|]
    | |- context [is_err (err ?d)] => is_var d; destruct d as [?ec ?elt]; cbn [err xv]
    | |- context [is_err ?e] => is_var e; destruct (is_err e) eqn:?
    end;
    (eexists; split; [sym_go; reflexivity | pt_close]).
Qed.

Theorem expected_log_wf (k : ekind) (n : nat) (ops : list xop) :
  wf_closed (snd (xrun k (xvars0 n) ops) ++ xfinish (fst (fst (xrun k (xvars0 n) ops)))) = true.
Proof. exact (closed_log exp_holds (xstep k) exp_dtor exp_dtor_spec (xstep_log_ok k) n ops). Qed.
