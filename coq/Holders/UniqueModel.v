(* Models of frg::unique_ptr<T, Allocator> (include/frg/unique.hpp) and frg::unique_memory<Allocator>
   (include/frg/allocation.hpp).  Heap blocks are numbered 1, 2, ... in allocation order; the object
   owned through a unique_ptr lives in slot 0 of its block.  Definitions only. *)
From Coq Require Import List NArith Arith Bool.
From FV Require Import Common.EventLog Holders.HoldersCommon.
Import ListNotations.

(* ------------------------------------------------------------------ unique_ptr *)
Record uptr := mk_uptr { ptr : option nat }.
Record pstate := mk_ps { pvars : vars uptr; heap : list (nat * N); pnext : nat }.

Inductive pop :=
| PNew (i : nat)                 (* unique_ptr(Allocator)             :16 *)
| PMake (i : nat) (v : N)        (* make_unique<T>(allocator, v)      :77 *)
| PNewMove (i j : nat)           (* unique_ptr(unique_ptr &&)         :30 *)
| PMAssign (i j : nat)           (* operator=(unique_ptr &&): swap    :35 *)
| PReset (i : nat)               (* reset(nullptr)                    :63 *)
| PResetNew (i : nat) (v : N)    (* reset(p), p a fresh object allocated by the caller *)
| PResetNewRe (i : nat) (v : N)  (* reset(p) while the old pointee is RE-ENTRANT: its destructor calls reset(nullptr) on
                                   this same unique_ptr.  reset stores the new pointer first and destroys the old object
                                   afterwards (unique.hpp:63-71), so the nested reset sees the NEW pointer: it destroys and
                                   frees the new object, then the old object's destruction completes *)
| PRelease (i : nat)             (* release(); the caller then reads, destroys and frees the object *)
| PGet (i : nat) | PBoolOp (i : nat) | PDeref (i : nat)
| PDel (i : nat).                (* ~unique_ptr()                     :22 *)

Definition heap_get (h : list (nat * N)) (b : nat) : N :=
  match find (fun x => Nat.eqb (fst x) b) h with Some x => snd x | None => 0%N end.
Definition heap_del (h : list (nat * N)) (b : nat) := filter (fun x => negb (Nat.eqb (fst x) b)) h.

Definition pskip (s : pstate) : pstate * out * list ev := (s, RSkip, []).
Definition setv (s : pstate) (vs : vars uptr) := mk_ps vs (heap s) (pnext s).
(* what happens to the old pointee in ~unique_ptr / reset:  _ptr->~T(); _allocator.free(_ptr)  (after the D13 fix) *)
Definition drop_evs (b : nat) : list ev := [EDestroy (b, 0); EFree b].

Definition pstep (esize : N) (s : pstate) (o : pop) : pstate * out * list ev :=
  let vs := pvars s in
  match o with
  | PNew i => if dead_at vs i then (setv s (wr vs i (Live (mk_uptr None))), RUnit, []) else pskip s
  | PMake i v =>
    if dead_at vs i then
      let b := pnext s in
      (mk_ps (wr vs i (Live (mk_uptr (Some b)))) ((b, v) :: heap s) (S b), RUnit,
       [EAlloc b esize; EConstruct (b, 0)])
    else pskip s
  | PNewMove i j =>
    match dead_at vs i, live_at vs j with
    | true, Some p => (setv s (wr (wr vs i (Live p)) j (Live (mk_uptr None))), RUnit, [])
    | _, _ => pskip s end
  | PMAssign i j =>
    match live_at vs i, live_at vs j with
    | Some a, Some b => (setv s (wr (wr vs i (Live b)) j (Live a)), RUnit, [])
    | _, _ => pskip s end
  | PReset i =>
    match live_at vs i with
    | Some a =>
      match ptr a with
      | Some b => (mk_ps (wr vs i (Live (mk_uptr None))) (heap_del (heap s) b) (pnext s), RUnit, drop_evs b)
      | None => (s, RUnit, [])
      end
    | None => pskip s end
  | PResetNew i v =>
    match live_at vs i with
    | Some a =>
      let nb := pnext s in
      let h1 := (nb, v) :: heap s in
      match ptr a with
      | Some b => (mk_ps (wr vs i (Live (mk_uptr (Some nb)))) (heap_del h1 b) (S nb), RUnit,
                   [EAlloc nb esize; EConstruct (nb, 0)] ++ drop_evs b)
      | None => (mk_ps (wr vs i (Live (mk_uptr (Some nb)))) h1 (S nb), RUnit,
                 [EAlloc nb esize; EConstruct (nb, 0)])
      end
    | None => pskip s end
  | PResetNewRe i v =>
    match live_at vs i with
    | Some a =>
      let nb := pnext s in
      match ptr a with
      | Some b => (mk_ps (wr vs i (Live (mk_uptr None))) (heap_del (heap s) b) (S nb), RUnit,
                   [EAlloc nb esize; EConstruct (nb, 0)] ++ drop_evs nb ++ drop_evs b)
      | None => (mk_ps (wr vs i (Live (mk_uptr (Some nb)))) ((nb, v) :: heap s) (S nb), RUnit,
                 [EAlloc nb esize; EConstruct (nb, 0)])
      end
    | None => pskip s end
  | PRelease i =>
    match live_at vs i with
    | Some a =>
      match ptr a with
      | Some b => (mk_ps (wr vs i (Live (mk_uptr None))) (heap_del (heap s) b) (pnext s),
                   RVal (heap_get (heap s) b), [EUse (b, 0); EDestroy (b, 0); EFree b])
      | None => (s, RNone, [])
      end
    | None => pskip s end
  | PGet i =>
    match live_at vs i with
    | Some a => (s, match ptr a with Some b => RVal (N.of_nat b) | None => RNone end, [])
    | None => pskip s end
  | PBoolOp i =>
    match live_at vs i with
    | Some a => (s, RBool (match ptr a with Some _ => true | None => false end), [])
    | None => pskip s end
  | PDeref i =>
    match live_at vs i with
    | Some a =>
      match ptr a with
      | Some b => (s, RVal (heap_get (heap s) b), [EUse (b, 0)])
      | None => (s, RUB, [])          (* operator* on a null unique_ptr: no assertion in the source *)
      end
    | None => pskip s end
  | PDel i =>
    match live_at vs i with
    | Some a =>
      match ptr a with
      | Some b => (mk_ps (wr vs i Dead) (heap_del (heap s) b) (pnext s), RUnit, drop_evs b)
      | None => (setv s (wr vs i Dead), RUnit, [])
      end
    | None => pskip s end
  end.

Definition uptr_dtor (_ : nat) (a : uptr) : list ev := match ptr a with Some b => drop_evs b | None => [] end.
Definition prun (esize : N) := run (pstep esize).
Definition pfinish (s : pstate) := finish uptr_dtor (pvars s).
Definition pstate0 (n : nat) : pstate := mk_ps (repeat Dead n) [] 1.

(* ------------------------------------------------------------------ unique_memory *)
Record umem := mk_umem { mp : option (nat * N) }.       (* block id, size_ *)
Record mstate := mk_ms { mvars : vars umem; mnext : nat }.

Inductive mop :=
| MNew (i : nat)                 (* unique_memory()                          :52 *)
| MAlloc (i : nat) (n : N)       (* unique_memory(allocator, size)           :55 *)
| MNewMove (i j : nat)           (* unique_memory(unique_memory &&)          :60 *)
| MAssign (i j : nat)            (* operator=(unique_memory other), other move-constructed from j  :76 *)
| MBoolOp (i : nat) | MSize (i : nat) | MData (i : nat)
| MDel (i : nat).                (* ~unique_memory()                         :67 *)

Definition mskip (s : mstate) : mstate * out * list ev := (s, RSkip, []).
Definition free_evs (a : umem) : list ev := match mp a with Some (b, _) => [EFree b] | None => [] end.

Definition mstep (s : mstate) (o : mop) : mstate * out * list ev :=
  let vs := mvars s in
  match o with
  | MNew i => if dead_at vs i then (mk_ms (wr vs i (Live (mk_umem None))) (mnext s), RUnit, []) else mskip s
  | MAlloc i n =>
    if dead_at vs i then
      let b := mnext s in
      (mk_ms (wr vs i (Live (mk_umem (Some (b, n))))) (S b), RUnit, [EAlloc b n])
    else mskip s
  | MNewMove i j =>
    match dead_at vs i, live_at vs j with
    | true, Some p => (mk_ms (wr (wr vs i (Live p)) j (Live (mk_umem None))) (mnext s), RUnit, [])
    | _, _ => mskip s end
  | MAssign i j =>
    (* other <- move(j) (j becomes null); swap( *this, other ); ~other frees what *this held *)
    match live_at vs i, live_at vs j with
    | Some a, Some p =>
      if Nat.eqb i j then (s, RUnit, [])
      else (mk_ms (wr (wr vs j (Live (mk_umem None))) i (Live p)) (mnext s), RUnit, free_evs a)
    | _, _ => mskip s end
  | MBoolOp i =>
    match live_at vs i with
    | Some a => (s, RBool (match mp a with Some _ => true | None => false end), [])
    | None => mskip s end
  | MSize i =>
    match live_at vs i with
    | Some a => (s, RVal (match mp a with Some (_, n) => n | None => 0%N end), [])
    | None => mskip s end
  | MData i =>
    match live_at vs i with
    | Some a => (s, match mp a with Some (b, _) => RVal (N.of_nat b) | None => RNone end, [])
    | None => mskip s end
  | MDel i =>
    match live_at vs i with
    | Some a => (mk_ms (wr vs i Dead) (mnext s), RUnit, free_evs a)
    | None => mskip s end
  end.

Definition umem_dtor (_ : nat) (a : umem) : list ev := free_evs a.
Definition mrun := run mstep.
Definition mfinish (s : mstate) := finish umem_dtor (mvars s).
Definition mstate0 (n : nat) : mstate := mk_ms (repeat Dead n) 1.
