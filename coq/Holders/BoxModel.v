(* Model of frg::manual_box<T> (include/frg/manual_box.hpp): {_initialized; _storage}.  Definitions only. *)
From Coq Require Import List NArith Arith Bool.
From FV Require Import Common.EventLog Holders.HoldersCommon.
Import ListNotations.

Record box := mk_box { init : bool; bv : elem }.

Inductive bop :=
| BNew (i : nat)                 (* manual_box()                :15 *)
| BInit (i : nat) (v : N)        (* initialize(args...)         :19 *)
| BConstructWith (i : nat) (v : N) (* construct_with(f)         :26 *)
| BDestruct (i : nat)            (* destruct()                  :32 *)
| BGet (i : nat) | BArrow (i : nat) | BDeref (i : nat)   (* get / -> / *   :38-56 *)
| BValid (i : nat) | BBoolOp (i : nat)
| BDel (i : nat).                (* the (trivial) destructor of the box: the storage goes away *)

Definition bvars := vars box.
Definition bskip (vs : bvars) : bvars * out * list ev := (vs, RSkip, []).

Definition bstep (vs : bvars) (o : bop) : bvars * out * list ev :=
  match o with
  | BNew i => if dead_at vs i then (wr vs i (Live (mk_box false (fresh 0))), RUnit, []) else bskip vs
  | BInit i v | BConstructWith i v =>
    match live_at vs i with
    | Some d => if init d then (vs, RAssert, [])
                else if throws v then (vs, RThrow, [])    (* the constructor throws: _initialized stays false *)
                else (wr vs i (Live (mk_box true (fresh v))), RUnit, [EConstruct (sv i)])
    | None => bskip vs end
  | BDestruct i =>
    match live_at vs i with
    | Some d => if init d then (wr vs i (Live (mk_box false (bv d))), RUnit, [EDestroy (sv i)])
                else (vs, RAssert, [])
    | None => bskip vs end
  | BGet i | BArrow i | BDeref i =>
    match live_at vs i with
    | Some d => if init d then (vs, RVal (val (bv d)), [EUse (sv i)]) else (vs, RAssert, [])
    | None => bskip vs end
  | BValid i | BBoolOp i =>
    match live_at vs i with Some d => (vs, RBool (init d), []) | None => bskip vs end
  | BDel i =>
    match live_at vs i with Some d => (wr vs i Dead, RUnit, []) | None => bskip vs end
  end.

(* End of scope.  manual_box never destroys its content by itself; the contract is that the
   user calls destruct() first.  The harness (the user) does so for every initialized box. *)
Definition box_dtor (i : nat) (d : box) : list ev := if init d then [EDestroy (sv i)] else [].
Definition brun := run bstep.
Definition bfinish := finish box_dtor.
Definition bvars0 (n : nat) : bvars := repeat Dead n.

(* the documented use: a box is destructed before its storage goes away *)
Definition box_api_ok_step (vs : bvars) (o : bop) : bool :=
  match o with
  | BDel i => match live_at vs i with Some d => negb (init d) | None => true end
  | _ => true
  end.
Definition box_api_ok := api_ok bstep box_api_ok_step.

(* ---- reference: option ---- *)
Definition rbvars := list (cell (option N)).
Definition rbstep (vs : rbvars) (o : bop) : rbvars * out :=
  match o with
  | BNew i => if dead_at vs i then (wr vs i (Live None), RUnit) else (vs, RSkip)
  | BInit i v | BConstructWith i v =>
    match live_at vs i with
    | Some None => if throws v then (vs, RThrow) else (wr vs i (Live (Some v)), RUnit)
    | Some (Some _) => (vs, RAssert)
    | None => (vs, RSkip) end
  | BDestruct i =>
    match live_at vs i with
    | Some (Some _) => (wr vs i (Live None), RUnit)
    | Some None => (vs, RAssert)
    | None => (vs, RSkip) end
  | BGet i | BArrow i | BDeref i =>
    match live_at vs i with
    | Some (Some v) => (vs, RVal v) | Some None => (vs, RAssert) | None => (vs, RSkip) end
  | BValid i | BBoolOp i =>
    match live_at vs i with
    | Some s => (vs, RBool (match s with Some _ => true | None => false end)) | None => (vs, RSkip) end
  | BDel i => match live_at vs i with Some _ => (wr vs i Dead, RUnit) | None => (vs, RSkip) end
  end.
Definition rbrun := run (fun vs o => let '(a, b) := rbstep vs o in (a, b, @nil ev)).
Definition abs_box (d : box) : option N := if init d then Some (val (bv d)) else None.
