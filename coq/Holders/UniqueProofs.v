(* frg::unique_ptr / frg::unique_memory: the lifetime/allocation log is well-formed and closed (C16).
   Ownership is counted: [count vs b] = number of live variables that own block b; the invariant is
   count <= 1 (unique ownership) and every owned id is below the next fresh id. *)
From Coq Require Import List NArith Arith Bool Lia.
From FV Require Import Common.EventLog Holders.HoldersCommon Holders.HoldersProofs Holders.UniqueModel.
Import ListNotations.

(* ------------------------------------------------------------------ lstate lemmas with heap blocks *)
Definition has_b (b : nat) (s : lstate) : bool := match has_block b s with Some _ => true | None => false end.

Lemma has_block_cons b b' n s :
  has_block b' (mk_ls ((b, n) :: blocks s) (live s)) = if Nat.eqb b b' then Some n else has_block b' s.
Proof. unfold has_block. cbn [blocks find fst snd]. destruct (Nat.eqb b b'); reflexivity. Qed.

Lemma has_block_drop b b' s :
  has_block b' (drop_block b s) = if Nat.eqb b' b then None else has_block b' s.
Proof.
  unfold has_block, drop_block. cbn [blocks]. induction (blocks s) as [|[c n] r IH]; cbn [filter find fst snd].
  - now destruct (Nat.eqb b' b).
  - destruct (Nat.eqb c b) eqn:E; cbn [negb find fst snd].
    + apply Nat.eqb_eq in E. subst c. rewrite IH. rewrite (Nat.eqb_sym b b').
      destruct (Nat.eqb b' b); reflexivity.
    + destruct (Nat.eqb c b') eqn:E2.
      * apply Nat.eqb_eq in E2. subst c. rewrite E. reflexivity.
      * exact IH.
Qed.

Lemma no_live_in_spec b s : (forall o, is_live o s = true -> fst o <> b) -> no_live_in b s = true.
Proof.
  intros H. unfold no_live_in. apply forallb_forall. intros o Ho. apply negb_true_iff, Nat.eqb_neq.
  apply H. now apply is_live_In.
Qed.

Lemma is_live_destroy o x s :
  is_live x (mk_ls (blocks s) (filter (fun y => negb (obj_eqb o y)) (live s))) = negb (obj_eqb o x) && is_live x s.
Proof.
  unfold is_live. cbn [live]. induction (live s) as [|y r IH]; cbn [filter existsb]; [now rewrite andb_false_r|].
  destruct (obj_eqb o y) eqn:Ey; cbn [negb existsb].
  - apply obj_eqb_eq in Ey. subst y. rewrite IH. destruct (obj_eqb x o) eqn:Ex; [|reflexivity].
    apply obj_eqb_eq in Ex. subst x. now rewrite obj_eqb_refl.
  - rewrite IH. destruct (obj_eqb x y) eqn:Ex; cbn [orb]; [|reflexivity].
    apply obj_eqb_eq in Ex. subst y. now rewrite Ey.
Qed.

(* ------------------------------------------------------------------ counted ownership *)
Section Own.
Context {H : Type}.
Variable blk : H -> option nat.       (* the block a holder owns *)
Variable hasobj : bool.               (* does an owned block host an object in slot 0 (unique_ptr) or not (unique_memory) *)

Definition holdsn (c : cell H) (b : nat) : nat :=
  match c with
  | Live h => match blk h with Some b' => if Nat.eqb b' b then 1 else 0 | None => 0 end
  | Dead => 0
  end.
Fixpoint count (vs : vars H) (b : nat) : nat :=
  match vs with [] => 0 | c :: r => holdsn c b + count r b end.

Lemma count_wr vs : forall i c c0 b, nth_error vs i = Some c0 ->
  count (wr vs i c) b + holdsn c0 b = count vs b + holdsn c b.
Proof.
  induction vs as [|x r IH]; intros [|i] c c0 b E; cbn [nth_error wr count] in *; try discriminate.
  - inversion E; subst. lia.
  - specialize (IH i c c0 b E). lia.
Qed.
Lemma count_nth vs : forall i c b, nth_error vs i = Some c -> holdsn c b <= count vs b.
Proof.
  induction vs as [|x r IH]; intros [|i] c b E; cbn [nth_error count] in *; try discriminate.
  - inversion E; subst. lia.
  - specialize (IH i c b E). lia.
Qed.
Lemma count_repeat_dead n b : count (repeat Dead n) b = 0.
Proof. induction n; cbn [repeat count holdsn]; lia. Qed.
Lemma holdsn_live_some h b b' : blk h = Some b -> holdsn (Live h) b' = if Nat.eqb b b' then 1 else 0.
Proof. intros E. cbn [holdsn]. now rewrite E. Qed.
Lemma holdsn_live_none h b' : blk h = None -> holdsn (Live h) b' = 0.
Proof. intros E. cbn [holdsn]. now rewrite E. Qed.

Definition inv (cnt : nat -> nat) (next : nat) : Prop :=
  (forall b, cnt b <= 1) /\ (forall b, 0 < cnt b -> 0 < b < next).
Definition rel (cnt : nat -> nat) (s : lstate) : Prop :=
  (forall b, has_b b s = Nat.ltb 0 (cnt b)) /\
  (forall o, is_live o s = hasobj && Nat.eqb (snd o) 0 && Nat.ltb 0 (cnt (fst o))).

Definition make_evs (b : nat) (n : N) : list ev := [EAlloc b n] ++ (if hasobj then [EConstruct (b, 0)] else []).
Definition drop_evs' (b : nat) : list ev := (if hasobj then [EDestroy (b, 0)] else []) ++ [EFree b].

Lemma rel_same vs vs' s : (forall b, vs' b = vs b) -> rel vs s -> rel vs' s.
Proof. intros E [R1 R2]. split; intros; now rewrite E. Qed.

Lemma rel_make vs vs' s b n : rel vs s -> b <> 0 -> vs b = 0 ->
  (forall b', vs' b' = vs b' + if Nat.eqb b b' then 1 else 0) ->
  exists s', ev_run s (make_evs b n) = Some s' /\ rel vs' s'.
Proof.
  intros [R1 R2] Hb H0 Hc. unfold make_evs. cbn [app ev_run ev_step].
  apply Nat.eqb_neq in Hb. rewrite Hb.
  assert (Hnb : has_block b s = None).
  { specialize (R1 b). unfold has_b in R1. rewrite H0 in R1. cbn in R1. destruct (has_block b s); [discriminate|reflexivity]. }
  rewrite Hnb.
  set (s1 := mk_ls ((b, n) :: blocks s) (live s)).
  assert (R1' : forall b', has_b b' s1 = Nat.ltb 0 (vs' b')).
  { intros b'. unfold has_b, s1. rewrite has_block_cons, Hc. destruct (Nat.eqb b b') eqn:E.
    - symmetry. apply Nat.ltb_lt. lia.
    - rewrite Nat.add_0_r. apply R1. }
  destruct hasobj eqn:Ho.
  - cbn [ev_run ev_step fst]. unfold block_ok. rewrite Hb. cbn [orb].
    unfold s1 at 1. rewrite has_block_cons, Nat.eqb_refl.
    assert (Hnl : is_live (b, 0) s1 = false).
    { change (is_live (b, 0) s1) with (is_live (b, 0) s). rewrite R2. cbn [fst snd]. rewrite H0. apply andb_false_r. }
    rewrite Hnl. cbn [negb andb].
    eexists; split; [reflexivity|]. split.
    + intros b'. rewrite <- R1'. reflexivity.
    + intros o. unfold is_live, s1. cbn [live existsb]. change (existsb (obj_eqb o) (live s)) with (is_live o s).
      rewrite R2, Hc, ?Ho. cbn [andb]. destruct o as [ob os]. cbn [fst snd]. unfold obj_eqb. cbn [fst snd].
      rewrite (Nat.eqb_sym ob b). destruct (Nat.eqb b ob) eqn:E; cbn [andb].
      * apply Nat.eqb_eq in E. subst ob. rewrite H0. cbn. destruct (Nat.eqb os 0); reflexivity.
      * rewrite Nat.add_0_r. reflexivity.
  - cbn [ev_run]. eexists; split; [reflexivity|]. split; [exact R1'|].
    intros o. change (is_live o s1) with (is_live o s). rewrite R2, Ho. reflexivity.
Qed.

Lemma rel_drop vs vs' s next b : rel vs s -> inv vs next -> vs b = 1 ->
  (forall b', vs' b' + (if Nat.eqb b b' then 1 else 0) = vs b') ->
  exists s', ev_run s (drop_evs' b) = Some s' /\ rel vs' s'.
Proof.
  intros [R1 R2] [I1 I2] H1 Hc. unfold drop_evs'.
  assert (Hhb : exists n, has_block b s = Some n).
  { specialize (R1 b). unfold has_b in R1. rewrite H1 in R1. cbn in R1. destruct (has_block b s) as [n|]; [eauto|discriminate]. }
  destruct Hhb as [n Hhb].
  assert (Hc0 : vs' b = 0) by (specialize (Hc b); rewrite Nat.eqb_refl in Hc; lia).
  assert (Hco : forall b', b' <> b -> vs' b' = vs b').
  { intros b' Hn. specialize (Hc b'). apply not_eq_sym, Nat.eqb_neq in Hn. rewrite Hn in Hc. lia. }
  destruct hasobj eqn:Ho.
  - cbn [app ev_run ev_step].
    assert (Hl : is_live (b, 0) s = true) by (rewrite R2; cbn [fst snd]; rewrite H1; reflexivity).
    rewrite Hl.
    set (s1 := mk_ls (blocks s) (filter (fun y => negb (obj_eqb (b, 0) y)) (live s))).
    change (has_block b s1) with (has_block b s). rewrite Hhb.
    assert (Hnl : no_live_in b s1 = true).
    { apply no_live_in_spec. intros o Hlo. unfold s1 in Hlo. rewrite is_live_destroy, R2 in Hlo.
      destruct o as [ob os]. cbn [fst snd] in *. intros ->.
      apply andb_true_iff in Hlo. destruct Hlo as [A B]. apply andb_true_iff in B. destruct B as [B _].
      cbn [andb] in B. apply Nat.eqb_eq in B. subst os. now rewrite obj_eqb_refl in A. }
    rewrite Hnl. eexists; split; [reflexivity|]. split.
    + intros b'. unfold has_b. rewrite has_block_drop. destruct (Nat.eqb b' b) eqn:E.
      * apply Nat.eqb_eq in E. subst b'. now rewrite Hc0.
      * apply Nat.eqb_neq in E. rewrite Hco by assumption. apply R1.
    + intros o. change (is_live o (drop_block b s1)) with (is_live o s1). unfold s1. rewrite is_live_destroy, R2, ?Ho.
      destruct o as [ob os]. cbn [fst snd andb]. unfold obj_eqb. cbn [fst snd].
      destruct (Nat.eqb b ob) eqn:E.
      * apply Nat.eqb_eq in E. subst ob. rewrite Hc0, H1. cbn. destruct os; reflexivity.
      * apply Nat.eqb_neq in E. rewrite Hco by auto. reflexivity.
  - cbn [app ev_run ev_step]. rewrite Hhb.
    assert (Hnl : no_live_in b s = true).
    { apply no_live_in_spec. intros o Hlo. rewrite R2 in Hlo. discriminate. }
    rewrite Hnl. eexists; split; [reflexivity|]. split.
    + intros b'. unfold has_b. rewrite has_block_drop. destruct (Nat.eqb b' b) eqn:E.
      * apply Nat.eqb_eq in E. subst b'. now rewrite Hc0.
      * apply Nat.eqb_neq in E. rewrite Hco by assumption. apply R1.
    + intros o. change (is_live o (drop_block b s)) with (is_live o s). rewrite R2, Ho. reflexivity.
Qed.

Lemma rel_use vs s b : rel vs s -> hasobj = true -> vs b = 1 -> ev_run s [EUse (b, 0)] = Some s.
Proof. intros [R1 R2] Ho H1. cbn [ev_run ev_step]. rewrite R2. cbn [fst snd]. now rewrite Ho, H1. Qed.

Lemma inv_same vs vs' next : (forall b, vs' b = vs b) -> inv vs next -> inv vs' next.
Proof. intros E [I1 I2]. split; intros b; rewrite E; auto. Qed.
Lemma inv_drop vs vs' next b : inv vs next ->
  (forall b', vs' b' + (if Nat.eqb b b' then 1 else 0) = vs b') -> inv vs' next.
Proof.
  intros [I1 I2] Hc. split; intros b'; specialize (Hc b'); specialize (I1 b'); specialize (I2 b');
    destruct (Nat.eqb b b'); try lia; intros Hp; apply I2; lia.
Qed.
Lemma inv_make vs vs' next : inv vs next -> 0 < next ->
  (forall b', vs' b' = vs b' + if Nat.eqb next b' then 1 else 0) -> inv vs' (S next).
Proof.
  intros [I1 I2] Hn Hc. split; intros b'; specialize (Hc b'); specialize (I1 b'); specialize (I2 b');
    destruct (Nat.eqb next b') eqn:E.
  - apply Nat.eqb_eq in E. subst b'. destruct (vs next) eqn:E2; [lia|]. assert (0 < next < next) by (apply I2; lia). lia.
  - lia.
  - apply Nat.eqb_eq in E. subst b'. lia.
  - intros Hp. assert (0 < b' < next) by (apply I2; lia). lia.
Qed.
Lemma inv_fresh vs next : inv vs next -> vs next = 0.
Proof. intros [I1 I2]. destruct (vs next) eqn:E; [reflexivity|]. assert (0 < next < next) by (apply I2; lia). lia. Qed.

(* what a live variable owns is counted exactly once *)
Lemma count_owned vs next i h b : inv (count vs) next -> live_at vs i = Some h -> blk h = Some b -> count vs b = 1.
Proof.
  intros [I1 _] E Eb. pose proof (count_nth vs i (Live h) b (live_at_Some _ _ _ E)) as Hn.
  rewrite (holdsn_live_some h b b Eb), Nat.eqb_refl in Hn. specialize (I1 b). lia.
Qed.

(* end of scope: every variable drops what it owns *)
Variable dtor : nat -> H -> list ev.
Hypothesis dtor_spec : forall i h, dtor i h = match blk h with Some b => drop_evs' b | None => [] end.

Lemma finish_from_rel : forall (vs : vars H) k s next, rel (count vs) s -> inv (count vs) next ->
  exists s', ev_run s (finish_from dtor k vs) = Some s' /\ rel (count []) s'.
Proof.
  induction vs as [|c r IH]; intros k s next R I; cbn [finish_from].
  - exists s. split; [reflexivity|exact R].
  - destruct c as [|h].
    + apply (IH (S k) s next).
      * apply (rel_same (count (Dead :: r))); [intros b; reflexivity|exact R].
      * apply (inv_same (count (Dead :: r))); [intros b; reflexivity|exact I].
    + rewrite dtor_spec. destruct (blk h) as [b|] eqn:Eb.
      * assert (H1 : count (Live h :: r) b = 1) by (apply (count_owned _ next 0 h b I); [reflexivity|exact Eb]).
        assert (Hc : forall b', count r b' + (if Nat.eqb b b' then 1 else 0) = count (Live h :: r) b').
        { intros b'. cbn [count]. rewrite (holdsn_live_some h b b' Eb). lia. }
        destruct (rel_drop _ (count r) s next b R I H1 Hc) as [s1 [E1 R1]].
        destruct (IH (S k) s1 next R1 (inv_drop _ _ _ _ I Hc)) as [s2 [E2 R2]].
        exists s2. split; [|exact R2]. rewrite ev_run_app, E1. exact E2.
      * cbn [app]. apply (IH (S k) s next).
        -- apply (rel_same (count (Live h :: r))); [|exact R]. intros b. cbn [count]. now rewrite (holdsn_live_none h b Eb).
        -- apply (inv_same (count (Live h :: r))); [|exact I]. intros b. cbn [count]. now rewrite (holdsn_live_none h b Eb).
Qed.

Lemma rel_nil_closed s : rel (count []) s -> blocks s = [] /\ live s = [].
Proof.
  intros [R1 R2]. split.
  - destruct (blocks s) as [|[b n] r] eqn:E; [reflexivity|]. specialize (R1 b). unfold has_b, has_block in R1.
    rewrite E in R1. cbn [find fst] in R1. rewrite Nat.eqb_refl in R1. discriminate.
  - destruct (live s) as [|x r] eqn:E; [reflexivity|]. specialize (R2 x). unfold is_live in R2. rewrite E in R2.
    cbn [existsb count] in R2. rewrite obj_eqb_refl in R2. cbn in R2. now rewrite andb_false_r in R2.
Qed.
End Own.

(* ------------------------------------------------------------------ unique_ptr *)
Definition prel (s : pstate) (ls : lstate) : Prop :=
  rel true (count ptr (pvars s)) ls /\ inv (count ptr (pvars s)) (pnext s) /\ 0 < pnext s.

Lemma uptr_dtor_spec i h : uptr_dtor i h = match ptr h with Some b => drop_evs' true b | None => [] end.
Proof. reflexivity. Qed.

Ltac cw H := pose proof (count_wr ptr _ _ _ _ H) as ?.

Lemma pstep_ok esize s o ls : prel s ls ->
  exists ls', ev_run ls (snd (pstep esize s o)) = Some ls' /\ prel (fst (fst (pstep esize s o))) ls'.
Proof.
  intros (R & I & Hn). unfold prel.
  destruct o; cbn [pstep]; unfold pskip, setv;
    repeat match goal with
    | |- context [live_at (pvars s) ?i] => destruct (live_at (pvars s) i) as [?a|] eqn:?
    | |- context [dead_at (pvars s) ?i] => destruct (dead_at (pvars s) i) eqn:?
    | |- context [ptr ?a] => is_var a; destruct a as [[?b|]]; cbn [ptr]
    end; cbn [fst snd pvars pnext];
    try (exists ls; split; [reflexivity|]; split; [exact R|split; [exact I|exact Hn]]).
  - (* PNew *)
    exists ls. split; [reflexivity|].
    assert (E : forall b, count ptr (wr (pvars s) i (Live (mk_uptr None))) b = count ptr (pvars s) b).
    { intros b. pose proof (count_wr ptr _ _ (Live (mk_uptr None)) _ b (dead_at_true _ _ Heqb)) as Hc. cbn [holdsn ptr] in Hc. lia. }
    split; [exact (rel_same _ _ _ _ E R)|split; [exact (inv_same _ _ _ E I)|exact Hn]].
  - (* PMake *)
    assert (E : forall b', count ptr (wr (pvars s) i (Live (mk_uptr (Some (pnext s))))) b' =
                           count ptr (pvars s) b' + if Nat.eqb (pnext s) b' then 1 else 0).
    { intros b'. pose proof (count_wr ptr _ _ (Live (mk_uptr (Some (pnext s)))) _ b' (dead_at_true _ _ Heqb)) as Hc.
      cbn [holdsn ptr] in Hc. lia. }
    destruct (rel_make true _ _ ls (pnext s) esize R ltac:(lia) (inv_fresh _ _ I) E) as [ls' [E1 R1]].
    exists ls'. split; [exact E1|]. split; [exact R1|split; [exact (inv_make _ _ _ I Hn E)|lia]].
  - (* PNewMove *)
    exists ls. split; [reflexivity|].
    assert (E : forall b, count ptr (wr (wr (pvars s) i (Live a)) j (Live (mk_uptr None))) b = count ptr (pvars s) b).
    { intros b.
      assert (Hij : i <> j) by (intros ->; rewrite (dead_live _ _ Heqb) in Heqo; discriminate).
      pose proof (count_wr ptr _ _ (Live a) _ b (dead_at_true _ _ Heqb)) as H1.
      assert (Hj : nth_error (wr (pvars s) i (Live a)) j = Some (Live a))
        by (rewrite nth_wr_other by assumption; exact (live_at_Some _ _ _ Heqo)).
      pose proof (count_wr ptr _ _ (Live (mk_uptr None)) _ b Hj) as H2. cbn [holdsn ptr] in *. lia. }
    split; [exact (rel_same _ _ _ _ E R)|split; [exact (inv_same _ _ _ E I)|exact Hn]].
  - (* PMAssign *)
    exists ls. split; [reflexivity|].
    assert (E : forall b, count ptr (wr (wr (pvars s) i (Live a0)) j (Live a)) b = count ptr (pvars s) b).
    { intros b.
      pose proof (count_wr ptr _ _ (Live a0) _ b (live_at_Some _ _ _ Heqo)) as H1.
      assert (Hj : nth_error (wr (pvars s) i (Live a0)) j = Some (Live a0)).
      { destruct (Nat.eq_dec i j) as [->|Hij].
        - apply nth_wr_same. exact (nth_lt _ _ _ (live_at_Some _ _ _ Heqo)).
        - rewrite nth_wr_other by assumption. exact (live_at_Some _ _ _ Heqo0). }
      pose proof (count_wr ptr _ _ (Live a) _ b Hj) as H2. lia. }
    split; [exact (rel_same _ _ _ _ E R)|split; [exact (inv_same _ _ _ E I)|exact Hn]].
  - (* PReset, owning *)
    assert (H1 : count ptr (pvars s) b = 1) by (apply (count_owned ptr _ (pnext s) i _ b I Heqo); reflexivity).
    assert (E : forall b', count ptr (wr (pvars s) i (Live (mk_uptr None))) b' + (if Nat.eqb b b' then 1 else 0) = count ptr (pvars s) b').
    { intros b'. pose proof (count_wr ptr _ _ (Live (mk_uptr None)) _ b' (live_at_Some _ _ _ Heqo)) as Hc. cbn [holdsn ptr] in Hc. lia. }
    destruct (rel_drop true _ _ ls (pnext s) b R I H1 E) as [ls' [E1 R1]].
    exists ls'. split; [exact E1|]. split; [exact R1|split; [exact (inv_drop _ _ _ _ I E)|exact Hn]].
  - (* PResetNew, owning: allocate + construct the new object, then drop the old one *)
    assert (H1 : count ptr (pvars s) b = 1) by (apply (count_owned ptr _ (pnext s) i _ b I Heqo); reflexivity).
    set (mid := fun b' => count ptr (pvars s) b' + if Nat.eqb (pnext s) b' then 1 else 0).
    destruct (rel_make true _ mid ls (pnext s) esize R ltac:(lia) (inv_fresh _ _ I) ltac:(intros; reflexivity)) as [ls1 [E1 R1]].
    assert (Im : inv mid (S (pnext s))) by (apply (inv_make _ _ _ I Hn); intros; reflexivity).
    assert (Hb : b <> pnext s).
    { intros ->. pose proof (inv_fresh _ _ I). lia. }
    assert (Hm1 : mid b = 1) by (unfold mid; apply not_eq_sym, Nat.eqb_neq in Hb; rewrite Hb; lia).
    assert (E : forall b', count ptr (wr (pvars s) i (Live (mk_uptr (Some (pnext s))))) b' + (if Nat.eqb b b' then 1 else 0) = mid b').
    { intros b'. unfold mid. pose proof (count_wr ptr _ _ (Live (mk_uptr (Some (pnext s)))) _ b' (live_at_Some _ _ _ Heqo)) as Hc.
      cbn [holdsn ptr] in Hc. lia. }
    destruct (rel_drop true _ _ ls1 (S (pnext s)) b R1 Im Hm1 E) as [ls2 [E2 R2]].
    exists ls2. split.
    + change ([EAlloc (pnext s) esize; EConstruct (pnext s, 0)] ++ drop_evs b) with (make_evs true (pnext s) esize ++ drop_evs' true b).
      rewrite ev_run_app, E1. exact E2.
    + split; [exact R2|split; [exact (inv_drop _ _ _ _ Im E)|lia]].
  - (* PResetNew, null *)
    assert (E : forall b', count ptr (wr (pvars s) i (Live (mk_uptr (Some (pnext s))))) b' =
                           count ptr (pvars s) b' + if Nat.eqb (pnext s) b' then 1 else 0).
    { intros b'. pose proof (count_wr ptr _ _ (Live (mk_uptr (Some (pnext s)))) _ b' (live_at_Some _ _ _ Heqo)) as Hc.
      cbn [holdsn ptr] in Hc. lia. }
    destruct (rel_make true _ _ ls (pnext s) esize R ltac:(lia) (inv_fresh _ _ I) E) as [ls' [E1 R1]].
    exists ls'. split; [exact E1|]. split; [exact R1|split; [exact (inv_make _ _ _ I Hn E)|lia]].
  - (* PResetNewRe, owning: new object made, destroyed by the nested reset, then the old one dropped *)
    assert (H1 : count ptr (pvars s) b = 1) by (apply (count_owned ptr _ (pnext s) i _ b I Heqo); reflexivity).
    set (mid := fun b' => count ptr (pvars s) b' + if Nat.eqb (pnext s) b' then 1 else 0).
    destruct (rel_make true _ mid ls (pnext s) esize R ltac:(lia) (inv_fresh _ _ I) ltac:(intros; reflexivity)) as [ls1 [E1 R1]].
    assert (Im : inv mid (S (pnext s))) by (apply (inv_make _ _ _ I Hn); intros; reflexivity).
    assert (Hm1 : mid (pnext s) = 1) by (unfold mid; rewrite Nat.eqb_refl, (inv_fresh _ _ I); lia).
    assert (Eb : forall b', count ptr (pvars s) b' + (if Nat.eqb (pnext s) b' then 1 else 0) = mid b') by (intros; reflexivity).
    destruct (rel_drop true _ _ ls1 (S (pnext s)) (pnext s) R1 Im Hm1 Eb) as [ls2 [E2 R2]].
    assert (I2 : inv (count ptr (pvars s)) (S (pnext s))) by exact (inv_drop _ _ _ _ Im Eb).
    assert (E : forall b', count ptr (wr (pvars s) i (Live (mk_uptr None))) b' + (if Nat.eqb b b' then 1 else 0) = count ptr (pvars s) b').
    { intros b'. pose proof (count_wr ptr _ _ (Live (mk_uptr None)) _ b' (live_at_Some _ _ _ Heqo)) as Hc. cbn [holdsn ptr] in Hc. lia. }
    destruct (rel_drop true _ _ ls2 (S (pnext s)) b R2 I2 H1 E) as [ls3 [E3 R3]].
    exists ls3. split.
    + change ([EAlloc (pnext s) esize; EConstruct (pnext s, 0)] ++ drop_evs (pnext s) ++ drop_evs b)
        with (make_evs true (pnext s) esize ++ drop_evs' true (pnext s) ++ drop_evs' true b).
      rewrite ev_run_app, E1, ev_run_app, E2. exact E3.
    + split; [exact R3|split; [exact (inv_drop _ _ _ _ I2 E)|lia]].
  - (* PResetNewRe, null *)
    assert (E : forall b', count ptr (wr (pvars s) i (Live (mk_uptr (Some (pnext s))))) b' =
                           count ptr (pvars s) b' + if Nat.eqb (pnext s) b' then 1 else 0).
    { intros b'. pose proof (count_wr ptr _ _ (Live (mk_uptr (Some (pnext s)))) _ b' (live_at_Some _ _ _ Heqo)) as Hc.
      cbn [holdsn ptr] in Hc. lia. }
    destruct (rel_make true _ _ ls (pnext s) esize R ltac:(lia) (inv_fresh _ _ I) E) as [ls' [E1 R1]].
    exists ls'. split; [exact E1|]. split; [exact R1|split; [exact (inv_make _ _ _ I Hn E)|lia]].
  - (* PRelease, owning: the caller reads, destroys and frees *)
    assert (H1 : count ptr (pvars s) b = 1) by (apply (count_owned ptr _ (pnext s) i _ b I Heqo); reflexivity).
    assert (E : forall b', count ptr (wr (pvars s) i (Live (mk_uptr None))) b' + (if Nat.eqb b b' then 1 else 0) = count ptr (pvars s) b').
    { intros b'. pose proof (count_wr ptr _ _ (Live (mk_uptr None)) _ b' (live_at_Some _ _ _ Heqo)) as Hc. cbn [holdsn ptr] in Hc. lia. }
    destruct (rel_drop true _ _ ls (pnext s) b R I H1 E) as [ls' [E1 R1]].
    exists ls'. split.
    + change [EUse (b, 0); EDestroy (b, 0); EFree b] with ([EUse (b, 0)] ++ drop_evs' true b).
      rewrite ev_run_app, (rel_use true _ ls b R eq_refl H1). exact E1.
    + split; [exact R1|split; [exact (inv_drop _ _ _ _ I E)|exact Hn]].
  - (* PDeref, owning *)
    assert (H1 : count ptr (pvars s) b = 1) by (apply (count_owned ptr _ (pnext s) i _ b I Heqo); reflexivity).
    exists ls. split; [exact (rel_use true _ ls b R eq_refl H1)|]. split; [exact R|split; [exact I|exact Hn]].
  - (* PDel, owning *)
    assert (H1 : count ptr (pvars s) b = 1) by (apply (count_owned ptr _ (pnext s) i _ b I Heqo); reflexivity).
    assert (E : forall b', count ptr (wr (pvars s) i Dead) b' + (if Nat.eqb b b' then 1 else 0) = count ptr (pvars s) b').
    { intros b'. pose proof (count_wr ptr _ _ Dead _ b' (live_at_Some _ _ _ Heqo)) as Hc. cbn [holdsn ptr] in Hc. lia. }
    destruct (rel_drop true _ _ ls (pnext s) b R I H1 E) as [ls' [E1 R1]].
    exists ls'. split; [exact E1|]. split; [exact R1|split; [exact (inv_drop _ _ _ _ I E)|exact Hn]].
  - (* PDel, null *)
    exists ls. split; [reflexivity|].
    assert (E : forall b, count ptr (wr (pvars s) i Dead) b = count ptr (pvars s) b).
    { intros b. pose proof (count_wr ptr _ _ Dead _ b (live_at_Some _ _ _ Heqo)) as Hc. cbn [holdsn ptr] in Hc. lia. }
    split; [exact (rel_same _ _ _ _ E R)|split; [exact (inv_same _ _ _ E I)|exact Hn]].
Qed.

(* run-level closing argument shared by both owners *)
Section RunOwn.
Context {S Op : Type}.
Variable step : S -> Op -> S * out * list ev.
Variable P : S -> lstate -> Prop.
Hypothesis step_ok : forall s o ls, P s ls -> exists ls', ev_run ls (snd (step s o)) = Some ls' /\ P (fst (fst (step s o))) ls'.
Lemma run_own ops : forall s ls, P s ls ->
  exists ls', ev_run ls (snd (run step s ops)) = Some ls' /\ P (fst (fst (run step s ops))) ls'.
Proof.
  induction ops as [|o r IH]; intros s ls HP; cbn [run].
  - exists ls. split; [reflexivity|exact HP].
  - destruct (step_ok s o ls HP) as [ls1 [E1 P1]]. destruct (step s o) as [[s1 x] e]. cbn [fst snd] in *.
    destruct (stops x); cbn [fst snd]; [eauto|].
    destruct (IH s1 ls1 P1) as [ls2 [E2 P2]]. destruct (run step s1 r) as [[s2 xs] e2]. cbn [fst snd] in *.
    exists ls2. split; [|exact P2]. now rewrite ev_run_app, E1.
Qed.
End RunOwn.

Lemma prel0 n : prel (pstate0 n) ls0.
Proof.
  unfold prel, pstate0. cbn [pvars pnext]. split; [|split; [|lia]].
  - split; [intros b|intros o]; rewrite count_repeat_dead; cbn; [reflexivity|now rewrite andb_false_r].
  - split; intros b; rewrite count_repeat_dead; lia.
Qed.

Theorem unique_ptr_log_wf (esize : N) (n : nat) (ops : list pop) :
  wf_closed (snd (prun esize (pstate0 n) ops) ++ pfinish (fst (fst (prun esize (pstate0 n) ops)))) = true.
Proof.
  destruct (run_own (pstep esize) prel (pstep_ok esize) ops (pstate0 n) ls0 (prel0 n)) as [ls1 [E1 (R & I & _)]].
  unfold prun, pfinish, finish.
  destruct (finish_from_rel ptr true uptr_dtor uptr_dtor_spec _ 0 ls1 _ R I) as [ls2 [E2 R2]].
  unfold wf_closed. rewrite ev_run_app, E1, E2.
  destruct (rel_nil_closed ptr true ls2 R2) as [Hb Hl]. now rewrite Hb, Hl.
Qed.

(* ------------------------------------------------------------------ unique_memory *)
Definition mblk (a : umem) : option nat := match mp a with Some (b, _) => Some b | None => None end.
Definition mrel (s : mstate) (ls : lstate) : Prop :=
  rel false (count mblk (mvars s)) ls /\ inv (count mblk (mvars s)) (mnext s) /\ 0 < mnext s.

Lemma umem_dtor_spec i h : umem_dtor i h = match mblk h with Some b => drop_evs' false b | None => [] end.
Proof. unfold umem_dtor, free_evs, mblk. destruct (mp h) as [[b n]|]; reflexivity. Qed.

Lemma mstep_ok s o ls : mrel s ls ->
  exists ls', ev_run ls (snd (mstep s o)) = Some ls' /\ mrel (fst (fst (mstep s o))) ls'.
Proof.
  intros (R & I & Hn). unfold mrel.
  destruct o; cbn [mstep]; unfold mskip, free_evs;
    repeat match goal with
    | |- context [live_at (mvars s) ?i] => destruct (live_at (mvars s) i) as [?a|] eqn:?
    | |- context [dead_at (mvars s) ?i] => destruct (dead_at (mvars s) i) eqn:?
    | |- context [Nat.eqb ?i ?j] => destruct (Nat.eqb i j) eqn:?
    | |- context [mp ?a] => is_var a; destruct a as [[[?b ?sz]|]]; cbn [mp]
    end; cbn [fst snd mvars mnext];
    try (exists ls; split; [reflexivity|]; split; [exact R|split; [exact I|exact Hn]]).
  - (* MNew *)
    exists ls. split; [reflexivity|].
    assert (E : forall b, count mblk (wr (mvars s) i (Live (mk_umem None))) b = count mblk (mvars s) b).
    { intros b. pose proof (count_wr mblk _ _ (Live (mk_umem None)) _ b (dead_at_true _ _ Heqb)) as Hc. cbn [holdsn mblk mp] in Hc. lia. }
    split; [exact (rel_same _ _ _ _ E R)|split; [exact (inv_same _ _ _ E I)|exact Hn]].
  - (* MAlloc *)
    assert (E : forall b', count mblk (wr (mvars s) i (Live (mk_umem (Some (mnext s, n))))) b' =
                           count mblk (mvars s) b' + if Nat.eqb (mnext s) b' then 1 else 0).
    { intros b'. pose proof (count_wr mblk _ _ (Live (mk_umem (Some (mnext s, n)))) _ b' (dead_at_true _ _ Heqb)) as Hc.
      cbn [holdsn mblk mp] in Hc. lia. }
    destruct (rel_make false _ _ ls (mnext s) n R ltac:(lia) (inv_fresh _ _ I) E) as [ls' [E1 R1]].
    exists ls'. split; [exact E1|]. split; [exact R1|split; [exact (inv_make _ _ _ I Hn E)|lia]].
  - (* MNewMove *)
    exists ls. split; [reflexivity|].
    assert (E : forall b, count mblk (wr (wr (mvars s) i (Live a)) j (Live (mk_umem None))) b = count mblk (mvars s) b).
    { intros b.
      assert (Hij : i <> j) by (intros ->; rewrite (dead_live _ _ Heqb) in Heqo; discriminate).
      pose proof (count_wr mblk _ _ (Live a) _ b (dead_at_true _ _ Heqb)) as H1.
      assert (Hj : nth_error (wr (mvars s) i (Live a)) j = Some (Live a))
        by (rewrite nth_wr_other by assumption; exact (live_at_Some _ _ _ Heqo)).
      pose proof (count_wr mblk _ _ (Live (mk_umem None)) _ b Hj) as H2. cbn [holdsn mblk mp] in *. lia. }
    split; [exact (rel_same _ _ _ _ E R)|split; [exact (inv_same _ _ _ E I)|exact Hn]].
  - (* MAssign i <> j, destination owning block b *)
    apply Nat.eqb_neq in Heqb.
    assert (H1 : count mblk (mvars s) b = 1) by (apply (count_owned mblk _ (mnext s) i _ b I Heqo); reflexivity).
    assert (E : forall b', count mblk (wr (wr (mvars s) j (Live (mk_umem None))) i (Live a0)) b' + (if Nat.eqb b b' then 1 else 0)
                           = count mblk (mvars s) b').
    { intros b'.
      pose proof (count_wr mblk _ _ (Live (mk_umem None)) _ b' (live_at_Some _ _ _ Heqo0)) as H2.
      assert (Hi : nth_error (wr (mvars s) j (Live (mk_umem None))) i = Some (Live (mk_umem (Some (b, sz)))))
        by (rewrite nth_wr_other by auto; exact (live_at_Some _ _ _ Heqo)).
      pose proof (count_wr mblk _ _ (Live a0) _ b' Hi) as H3. cbn [holdsn mblk mp] in *. lia. }
    destruct (rel_drop false _ _ ls (mnext s) b R I H1 E) as [ls' [E1 R1]].
    exists ls'. split; [exact E1|]. split; [exact R1|split; [exact (inv_drop _ _ _ _ I E)|exact Hn]].
  - (* MAssign i <> j, destination null *)
    apply Nat.eqb_neq in Heqb.
    exists ls. split; [reflexivity|].
    assert (E : forall b', count mblk (wr (wr (mvars s) j (Live (mk_umem None))) i (Live a0)) b' = count mblk (mvars s) b').
    { intros b'.
      pose proof (count_wr mblk _ _ (Live (mk_umem None)) _ b' (live_at_Some _ _ _ Heqo0)) as H2.
      assert (Hi : nth_error (wr (mvars s) j (Live (mk_umem None))) i = Some (Live (mk_umem None)))
        by (rewrite nth_wr_other by auto; exact (live_at_Some _ _ _ Heqo)).
      pose proof (count_wr mblk _ _ (Live a0) _ b' Hi) as H3. cbn [holdsn mblk mp] in *. lia. }
    split; [exact (rel_same _ _ _ _ E R)|split; [exact (inv_same _ _ _ E I)|exact Hn]].
  - (* MDel owning *)
    assert (H1 : count mblk (mvars s) b = 1) by (apply (count_owned mblk _ (mnext s) i _ b I Heqo); reflexivity).
    assert (E : forall b', count mblk (wr (mvars s) i Dead) b' + (if Nat.eqb b b' then 1 else 0) = count mblk (mvars s) b').
    { intros b'. pose proof (count_wr mblk _ _ Dead _ b' (live_at_Some _ _ _ Heqo)) as Hc. cbn [holdsn mblk mp] in Hc. lia. }
    destruct (rel_drop false _ _ ls (mnext s) b R I H1 E) as [ls' [E1 R1]].
    exists ls'. split; [exact E1|]. split; [exact R1|split; [exact (inv_drop _ _ _ _ I E)|exact Hn]].
  - (* MDel null *)
    exists ls. split; [reflexivity|].
    assert (E : forall b, count mblk (wr (mvars s) i Dead) b = count mblk (mvars s) b).
    { intros b. pose proof (count_wr mblk _ _ Dead _ b (live_at_Some _ _ _ Heqo)) as Hc. cbn [holdsn mblk mp] in Hc. lia. }
    split; [exact (rel_same _ _ _ _ E R)|split; [exact (inv_same _ _ _ E I)|exact Hn]].
Qed.

Lemma mrel0 n : mrel (mstate0 n) ls0.
Proof.
  unfold mrel, mstate0. cbn [mvars mnext]. split; [|split; [|lia]].
  - split; [intros b|intros o]; rewrite ?count_repeat_dead; cbn; reflexivity.
  - split; intros b; rewrite count_repeat_dead; lia.
Qed.

Theorem unique_memory_log_wf (n : nat) (ops : list mop) :
  wf_closed (snd (mrun (mstate0 n) ops) ++ mfinish (fst (fst (mrun (mstate0 n) ops)))) = true.
Proof.
  destruct (run_own mstep mrel mstep_ok ops (mstate0 n) ls0 (mrel0 n)) as [ls1 [E1 (R & I & _)]].
  unfold mrun, mfinish, finish.
  destruct (finish_from_rel mblk false umem_dtor umem_dtor_spec _ 0 ls1 _ R I) as [ls2 [E2 R2]].
  unfold wf_closed. rewrite ev_run_app, E1, E2.
  destruct (rel_nil_closed mblk false ls2 R2) as [Hb Hl]. now rewrite Hb, Hl.
Qed.
