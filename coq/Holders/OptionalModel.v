(* Model of frg::optional<T> (include/frg/optional.hpp): {_non_null; _stor}.  The case splits of the
   constructors, the four assignment operators, emplace and the accessors are transliterated;
   every op yields result + lifetime events.  Definitions only. *)
From Coq Require Import List NArith Arith Bool.
From FV Require Import Common.EventLog Holders.HoldersCommon.
Import ListNotations.

(* ov is the content of _stor; meaningless (stale) while eng = false *)
Record opt := mk_opt { eng : bool; ov : elem }.

Inductive oop :=
| ONew (i : nat)                      (* optional()                          :20 *)
| ONewNull (i : nat)                  (* optional(null_opt_type)             :23 *)
| ONewCVal (i : nat) (v : N)          (* optional(const T &)                 :26 *)
| ONewVal (i : nat) (v : N)           (* optional(T &&)                      :31 *)
| ONewConv (i : nat) (v : N)          (* template optional(U &&), U = number :38 *)
| ONewCopy (i j : nat)                (* optional(const optional &)          :43 *)
| ONewMove (i j : nat)                (* optional(optional &&)               :49 *)
| ODel (i : nat)                      (* ~optional()                         :55 *)
| OAssign (i j : nat)                 (* operator=(const optional &)         :60 *)
| OMAssign (i j : nat)                (* operator=(optional &&)              :75 *)
| OCAssign (i : nat) (s : option N)   (* operator=(const optional<U> &)      :92 *)
| OCMAssign (i : nat) (s : option N)  (* operator=(optional<U> &&)           :109 *)
| OAssignVal (i : nat) (v : N)        (* o = T(v): optional(T&&) temporary, then operator=(optional&&) *)
| OReset (i : nat)                    (* o = null_opt: optional(null_opt) temporary, then operator=(optional&&) *)
| OEmplace (i : nat) (v : N)          (* emplace                             :166 *)
| OGet (i : nat) | OCGet (i : nat) | OArrow (i : nat) | OValue (i : nat)   (* :133-163 *)
| OHas (i : nat) | OBoolOp (i : nat). (* has_value / operator bool *)

Definition ovars := vars opt.
Definition oskip (vs : ovars) : ovars * out * list ev := (vs, RSkip, []).

Definition mark_src (k : ekind) (mv : bool) (vs : ovars) (j : nat) : ovars :=
  if mv then upd vs j (fun s => mk_opt (eng s) (mark_moved k (ov s))) else vs.

(* the common body of the four assignment operators, source being variable j.
   mv = the source is moved from (operator=(optional &&)). *)
Definition opt_assign (k : ekind) (mv : bool) (vs : ovars) (i j : nat) : ovars * out * list ev :=
  match live_at vs i, live_at vs j with
  | Some d, Some s =>
    if eng s then
      if eng d then      (* *_object() = *other._object() *)
        (mark_src k mv (wr vs i (Live (mk_opt true (fresh (val (ov s)))))) j, RUnit,
         [EUse (sv i); EUse (sv j)])
      else               (* new (_stor.buffer) T( *other._object() ); _non_null = true *)
        (mark_src k mv (wr vs i (Live (mk_opt true (fresh (val (ov s)))))) j, RUnit,
         [EUse (sv j); EConstruct (sv i)])
    else
      if eng d then      (* _reset() *)
        (wr vs i (Live (mk_opt false (ov d))), RUnit, [EDestroy (sv i)])
      else (vs, RUnit, [])
  | _, _ => oskip vs
  end.

(* the same body with a source that is not a holder variable: object [so] (None = disengaged source) *)
Definition opt_assign_from (vs : ovars) (i : nat) (src : option (obj * N)) : ovars * list ev :=
  match live_at vs i with
  | Some d =>
    match src with
    | Some (so, v) =>
      if eng d then (wr vs i (Live (mk_opt true (fresh v))), [EUse (sv i); EUse so])
      else (wr vs i (Live (mk_opt true (fresh v))), [EUse so; EConstruct (sv i)])
    | None =>
      if eng d then (wr vs i (Live (mk_opt false (ov d))), [EDestroy (sv i)])
      else (vs, [])
    end
  | None => (vs, [])
  end.

Definition opt_access (vs : ovars) (i : nat) : ovars * out * list ev :=
  match live_at vs i with
  | Some d => if eng d then (vs, RVal (val (ov d)), [EUse (sv i)]) else (vs, RAssert, [])
  | None => oskip vs
  end.

Definition ostep (k : ekind) (vs : ovars) (o : oop) : ovars * out * list ev :=
  match o with
  | ONew i | ONewNull i =>
    if dead_at vs i then (wr vs i (Live (mk_opt false (fresh 0))), RUnit, []) else oskip vs
  | ONewCVal i v | ONewVal i v =>
    if dead_at vs i then
      (wr vs i (Live (mk_opt true (fresh v))), RUnit,
       [EConstruct sa; EUse sa; EConstruct (sv i); EDestroy sa])
    else oskip vs
  | ONewConv i v =>
    if dead_at vs i then
      if throws v then (vs, RThrow, [])          (* T's constructor throws: no optional comes into being *)
      else (wr vs i (Live (mk_opt true (fresh v))), RUnit, [EConstruct (sv i)])
    else oskip vs
  | ONewCopy i j =>
    match dead_at vs i, live_at vs j with
    | true, Some s =>
      if eng s then (wr vs i (Live (mk_opt true (fresh (val (ov s))))), RUnit, [EUse (sv j); EConstruct (sv i)])
      else (wr vs i (Live (mk_opt false (fresh 0))), RUnit, [])
    | _, _ => oskip vs
    end
  | ONewMove i j =>
    match dead_at vs i, live_at vs j with
    | true, Some s =>
      if eng s then (mark_src k true (wr vs i (Live (mk_opt true (fresh (val (ov s)))))) j, RUnit,
                     [EUse (sv j); EConstruct (sv i)])
      else (wr vs i (Live (mk_opt false (fresh 0))), RUnit, [])
    | _, _ => oskip vs
    end
  | ODel i =>
    match live_at vs i with
    | Some d => (wr vs i Dead, RUnit, if eng d then [EDestroy (sv i)] else [])
    | None => oskip vs
    end
  | OAssign i j => opt_assign k false vs i j
  | OMAssign i j => opt_assign k true vs i j
  | OCAssign i s | OCMAssign i s =>
    match live_at vs i with
    | Some _ =>
      let '(vs1, e) := opt_assign_from vs i (match s with Some v => Some (sa, v) | None => None end) in
      (vs1, RUnit, match s with Some _ => [EConstruct sa] ++ e ++ [EDestroy sa] | None => e end)
    | None => oskip vs
    end
  | OAssignVal i v =>
    match live_at vs i with
    | Some _ =>
      let '(vs1, e) := opt_assign_from vs i (Some (st 0, v)) in
      (vs1, RUnit, [EConstruct sa; EUse sa; EConstruct (st 0)] ++ e ++ [EDestroy (st 0); EDestroy sa])
    | None => oskip vs
    end
  | OReset i =>
    match live_at vs i with
    | Some _ => let '(vs1, e) := opt_assign_from vs i None in (vs1, RUnit, e)
    | None => oskip vs
    end
  | OEmplace i v =>
    match live_at vs i with
    | Some d =>
      if throws v then   (* _reset() has cleared _non_null before the placement new throws *)
        (wr vs i (Live (mk_opt false (ov d))), RThrow, if eng d then [EDestroy (sv i)] else [])
      else (wr vs i (Live (mk_opt true (fresh v))), RUnit,
            (if eng d then [EDestroy (sv i)] else []) ++ [EConstruct (sv i)])
    | None => oskip vs
    end
  | OGet i | OCGet i | OArrow i | OValue i => opt_access vs i
  | OHas i | OBoolOp i =>
    match live_at vs i with Some d => (vs, RBool (eng d), []) | None => oskip vs end
  end.

Definition opt_dtor (i : nat) (d : opt) : list ev := if eng d then [EDestroy (sv i)] else [].
Definition orun (k : ekind) := run (ostep k).
Definition ofinish := finish opt_dtor.
Definition ovars0 (n : nat) : ovars := repeat Dead n.

(* ---- reference semantics: what std::optional specifies, on Coq's option ---- *)
Definition rvars := list (cell (option N)).
Definition rostep (vs : rvars) (o : oop) : rvars * out :=
  match o with
  | ONew i | ONewNull i => if dead_at vs i then (wr vs i (Live None), RUnit) else (vs, RSkip)
  | ONewCVal i v | ONewVal i v =>
    if dead_at vs i then (wr vs i (Live (Some v)), RUnit) else (vs, RSkip)
  | ONewConv i v =>
    if dead_at vs i then if throws v then (vs, RThrow) else (wr vs i (Live (Some v)), RUnit) else (vs, RSkip)
  | ONewCopy i j | ONewMove i j =>
    match dead_at vs i, live_at vs j with
    | true, Some s => (wr vs i (Live s), RUnit)
    | _, _ => (vs, RSkip)
    end
  | ODel i => match live_at vs i with Some _ => (wr vs i Dead, RUnit) | None => (vs, RSkip) end
  | OAssign i j | OMAssign i j =>
    match live_at vs i, live_at vs j with
    | Some _, Some s => (wr vs i (Live s), RUnit)
    | _, _ => (vs, RSkip)
    end
  | OCAssign i s | OCMAssign i s =>
    match live_at vs i with Some _ => (wr vs i (Live s), RUnit) | None => (vs, RSkip) end
  | OAssignVal i v =>
    match live_at vs i with Some _ => (wr vs i (Live (Some v)), RUnit) | None => (vs, RSkip) end
  | OEmplace i v =>      (* std::optional::emplace: "if the constructor throws, *this does not contain a value" *)
    match live_at vs i with
    | Some _ => if throws v then (wr vs i (Live None), RThrow) else (wr vs i (Live (Some v)), RUnit)
    | None => (vs, RSkip) end
  | OReset i => match live_at vs i with Some _ => (wr vs i (Live None), RUnit) | None => (vs, RSkip) end
  | OGet i | OCGet i | OArrow i | OValue i =>
    match live_at vs i with
    | Some (Some v) => (vs, RVal v)
    | Some None => (vs, RAssert)          (* precondition of the accessor violated *)
    | None => (vs, RSkip)
    end
  | OHas i | OBoolOp i =>
    match live_at vs i with
    | Some s => (vs, RBool (match s with Some _ => true | None => false end))
    | None => (vs, RSkip)
    end
  end.
Definition rorun := run (fun vs o => let '(a, b) := rostep vs o in (a, b, @nil ev)).

Definition abs_opt (d : opt) : option N := if eng d then Some (val (ov d)) else None.
