(* frg::tuple: facts about the list-level specification (C17, partial) and the element
   construction/destruction order (C16). *)
From Coq Require Import List NArith Arith Bool Lia.
From FV Require Import Common.EventLog Holders.HoldersCommon Holders.HoldersProofs Holders.TupleModel.
Import ListNotations.

Lemma tup_get_make vs n : tup_get (tup_make vs) n = option_map fresh (nth_error vs n).
Proof. unfold tup_get, tup_make. apply nth_error_map. Qed.

Lemma tup_cat_values k args :
  map val (fst (tup_cat_impl k args)) = concat (map (fun a => map val (snd a)) args).
Proof.
  unfold tup_cat_impl. cbn [fst]. rewrite map_map. cbn [val fresh].
  induction args as [|a r IH]; cbn [map concat]; [reflexivity|]. now rewrite map_app, IH.
Qed.

Lemma tup_cat_result_spec k args : fst (tup_cat_impl k args) = fst (tup_cat_spec k args).
Proof. reflexivity. Qed.

(* the recorded class (D17): some argument is passed as an lvalue and the element type can be moved *)
Definition d17_class (k : ekind) (args : list (bool * tup)) : bool :=
  existsb fst args && match k with KCopyOnly => false | _ => true end.

Lemma mark_moved_copyonly e : mark_moved KCopyOnly e = e.
Proof. reflexivity. Qed.

Lemma tup_cat_outside_known k args : d17_class k args = false -> tup_cat_impl k args = tup_cat_spec k args.
Proof.
  unfold d17_class, tup_cat_impl, tup_cat_spec. intros H. f_equal.
  apply andb_false_iff in H. destruct H as [H|H].
  - induction args as [|[l t] r IH]; cbn [map existsb fst snd] in *; [reflexivity|].
    apply orb_false_iff in H. destruct H as [-> H]. now rewrite IH.
  - destruct k; try discriminate. induction args as [|[l t] r IH]; cbn [map fst snd]; [reflexivity|].
    rewrite IH. f_equal. destruct l; [|reflexivity].
    induction t as [|e t IHt]; cbn [map]; [reflexivity|]. now rewrite IHt.
Qed.

Lemma tup_cat_refuted :
  exists args, snd (tup_cat_impl KFull args) <> snd (tup_cat_spec KFull args).
Proof. exists [(true, tup_make [1%N])]. cbn. discriminate. Qed.

Lemma tup_copy_spec t : map val (fst (tup_copy t)) = map val t /\ snd (tup_copy t) = t.
Proof. unfold tup_copy. cbn [fst snd]. rewrite map_map. split; reflexivity. Qed.
Lemma tup_move_spec k t : map val (fst (tup_move k t)) = map val t /\ map val (snd (tup_move k t)) = map val t.
Proof.
  unfold tup_move. cbn [fst snd]. rewrite !map_map. split; [reflexivity|].
  apply map_ext. intros e. destruct k; reflexivity.
Qed.

(* ------------------------------------------------------------------ C16: element order *)
Definition Lk (k : nat) : lfun := fun x => existsb (obj_eqb x) (map sv (seq 0 k)).

Lemma Lk_sv k i : Lk k (sv i) = Nat.ltb i k.
Proof.
  unfold Lk. induction k as [|k IH]; [reflexivity|].
  rewrite seq_S, map_app, existsb_app, IH. cbn [map existsb Nat.add]. rewrite eqb_sv_sv, orb_false_r.
  destruct (Nat.ltb i k) eqn:E1, (Nat.eqb i k) eqn:E2, (Nat.ltb i (S k)) eqn:E3; try reflexivity;
    rewrite ?Nat.ltb_lt, ?Nat.ltb_ge, ?Nat.eqb_eq, ?Nat.eqb_neq in *; lia.
Qed.
Lemma Lk_S k x : Lk (S k) x = obj_eqb x (sv k) || Lk k x.
Proof. unfold Lk. rewrite seq_S, map_app, existsb_app. cbn [map existsb Nat.add]. rewrite orb_false_r. apply orb_comm. Qed.

Lemma ctor_ok n : ok (Lk 0) (tup_ctor_evs n) (Lk n).
Proof.
  unfold tup_ctor_evs. induction n as [|n IH].
  - exists (Lk 0). split; reflexivity.
  - rewrite seq_S, map_app. apply (ok_app _ (Lk n)); [exact IH|]. cbn [map Nat.add].
    unfold ok. cbn [sym_run sym_step]. rewrite fst_sv, Lk_sv, Nat.ltb_irrefl. cbn.
    eexists; split; [reflexivity|]. intros x. symmetry. apply Lk_S.
Qed.
Lemma uses_ok n : forall l, (forall i, In i l -> i < n) -> ok (Lk n) (map (fun i => EUse (sv i)) l) (Lk n).
Proof.
  induction l as [|i l IH]; intros Hl; cbn [map].
  - exists (Lk n). split; reflexivity.
  - unfold ok. cbn [sym_run sym_step]. rewrite Lk_sv. replace (Nat.ltb i n) with true.
    + apply IH. intros j Hj. apply Hl. now right.
    + symmetry. apply Nat.ltb_lt. apply Hl. now left.
Qed.
Lemma dtor_ok n : ok (Lk n) (tup_dtor_evs n) (Lk 0).
Proof.
  unfold tup_dtor_evs. induction n as [|n IH].
  - exists (Lk 0). split; reflexivity.
  - rewrite seq_S, rev_app_distr. cbn [rev app map Nat.add].
    change (EDestroy (sv n) :: map (fun i => EDestroy (sv i)) (rev (seq 0 n)))
      with ([EDestroy (sv n)] ++ map (fun i => EDestroy (sv i)) (rev (seq 0 n))).
    apply (ok_app _ (Lk n)); [|exact IH].
    unfold ok. cbn [sym_run sym_step]. rewrite Lk_sv. replace (Nat.ltb n (S n)) with true by (symmetry; apply Nat.ltb_lt; lia).
    eexists; split; [reflexivity|]. intros x. cbn beta. rewrite Lk_S, (obj_eqb_sym (sv n) x).
    destruct (obj_eqb x (sv n)) eqn:E; cbn [negb andb orb]; [|reflexivity].
    apply obj_eqb_eq in E. subst x. now rewrite Lk_sv, Nat.ltb_irrefl.
Qed.

Theorem tuple_elements_log_wf n :
  wf_closed (tup_ctor_evs n ++ map (fun i => EUse (sv i)) (seq 0 n) ++ tup_dtor_evs n) = true.
Proof.
  assert (Hok : ok (Lk 0) (tup_ctor_evs n ++ map (fun i => EUse (sv i)) (seq 0 n) ++ tup_dtor_evs n) (Lk 0)).
  { apply (ok_app _ (Lk n)); [apply ctor_ok|]. apply (ok_app _ (Lk n)); [|apply dtor_ok].
    apply uses_ok. intros i Hi. apply in_seq in Hi. lia. }
  destruct Hok as [L' [H1 H2]].
  assert (D0 : desc ls0 (Lk 0)) by (split; [reflexivity|intros o; reflexivity]).
  destruct (sym_run_sound _ _ _ _ D0 H1) as [s' [Hs D]].
  unfold wf_closed. rewrite Hs.
  destruct (desc_empty_closed s' (desc_ext _ _ _ D H2)) as [Hb Hl]. now rewrite Hb, Hl.
Qed.
