(* Model of frg::variant<T...> (include/frg/variant.hpp): {tag_; storage_}; tag None = invalid_tag.
   The alternatives are numbered 0..nalt-1.  Definitions only. *)
From Coq Require Import List NArith Arith Bool.
From FV Require Import Common.EventLog Holders.HoldersCommon.
Import ListNotations.

Record vrt := mk_vrt { tag : option nat; vv : elem }.   (* vv meaningful iff tag <> None *)

Inductive vop :=
| VNew (i : nat)                      (* variant()                  :62 *)
| VNewVal (i a : nat) (v : N)         (* variant(X object)          :65 *)
| VNewCopy (i j : nat)                (*                            :69 *)
| VNewMove (i j : nat)                (*                            :74 *)
| VDel (i : nat)                      (*                            :79 *)
| VAssign (i j : nat)                 (* operator=(variant other), other copy-constructed  :88 *)
| VMAssign (i j : nat)                (* ... other move-constructed *)
| VAssignVal (i a : nat) (v : N)      (* v = X(..): other built by variant(X object) *)
| VEmplace (i a : nat) (v : N)        (*                            :125 *)
| VGet (i a : nat) | VCGet (i a : nat)(*                            :113/:118 *)
| VIs (i a : nat) | VTag (i : nat) | VBoolOp (i : nat)
| VApply (i : nat).                   (* apply(f), f(alternative a holding v) = 1000000 * a + v *)

Definition vvars := vars vrt.
Definition vskip (vs : vvars) : vvars * out * list ev := (vs, RSkip, []).
Definition tag_eqb (a b : option nat) : bool :=
  match a, b with
  | Some x, Some y => Nat.eqb x y
  | None, None => true
  | _, _ => false
  end.
Definition has_tag (d : vrt) : bool := match tag d with Some _ => true | None => false end.
Definition apply_f (a : nat) (v : N) : N := (1000000 * N.of_nat a + v)%N.

Definition vmark (k : ekind) (vs : vvars) (j : nat) : vvars :=
  upd vs j (fun s => mk_vrt (tag s) (mark_moved k (vv s))).

(* assign_<0>(std::move(other)) .. assign_<a>(..): every level takes the variant BY VALUE, i.e.
   move-constructs a new temporary from the previous one; the level whose index equals the tag
   assigns; the temporaries die innermost first.  [sl k] = index of the temporary slot used by level
   k of the chain (level 0 = `other` itself); the harness numbers temporaries by the smallest free
   index, which is the identity unless a slot below was freed before the chain starts. *)
Definition assign_chain (i : nat) (sl : nat -> nat) (a : nat) : list ev :=
  concat (map (fun k => [EUse (st (sl k)); EConstruct (st (sl (S k)))]) (seq 0 (S a)))
  ++ [EUse (sv i); EUse (st (sl (S a)))]
  ++ map (fun k => EDestroy (st (sl (S k)))) (rev (seq 0 (S a))).
Definition sl_id (k : nat) : nat := k.
(* v = X(..): `other` lives in temporary 2, temporary 1 has been destroyed already, 0 is still alive *)
Definition sl_val (k : nat) : nat := match k with 0 => 2 | 1 => 1 | _ => S k end.

(* body of operator= once `other` (tag ot, value ov) has been materialised in temporary slot [sl 0] *)
Definition var_assign_body (me : vrt) (vs : vvars) (i : nat) (sl : nat -> nat) (ot : option nat) (ovl : N) : vvars * list ev :=
  if tag_eqb (tag me) ot then
    match ot with
    | Some a => (wr vs i (Live (mk_vrt ot (fresh ovl))), assign_chain i sl a)
    | None => (vs, [])                              (* both empty: nothing to do (after the D18 fix) *)
    end
  else
    (wr vs i (Live (mk_vrt ot (match ot with Some _ => fresh ovl | None => vv me end))),
     (if has_tag me then [EDestroy (sv i)] else [])
     ++ (match ot with Some _ => [EUse (st (sl 0)); EConstruct (sv i)] | None => [] end)).

Definition var_assign (k : ekind) (mv : bool) (vs : vvars) (i j : nat) : vvars * out * list ev :=
  match live_at vs i, live_at vs j with
  | Some me, Some s =>
    (* [me] is this variant as operator= sees it: only its tag matters (the parameter was built before) *)
    let vs1 := if mv && has_tag s then vmark k vs j else vs in
    let '(vs2, e) := var_assign_body me vs1 i sl_id (tag s) (val (vv s)) in
    (vs2, RUnit,
     (if has_tag s then [EUse (sv j); EConstruct (st 0)] else []) ++ e
     ++ (if has_tag s then [EDestroy (st 0)] else []))
  | _, _ => vskip vs
  end.

(* variant(X object): parameter (slot d), construct_<Index>(std::move(object)) takes X by value again
   (slot d+1), then placement new into the storage [dst]. Events up to and including the construction. *)
Definition from_value_evs (d : nat) (dst : obj) : list ev :=
  [EConstruct sa; EUse sa; EConstruct (st d); EUse (st d); EConstruct (st (S d)); EUse (st (S d)); EConstruct dst].

Definition var_get (vs : vvars) (i a : nat) : vvars * out * list ev :=
  match live_at vs i with
  | Some d => if tag_eqb (tag d) (Some a) then (vs, RVal (val (vv d)), [EUse (sv i)]) else (vs, RAssert, [])
  | None => vskip vs
  end.

Definition vstep (nalt : nat) (k : ekind) (vs : vvars) (o : vop) : vvars * out * list ev :=
  match o with
  | VNew i => if dead_at vs i then (wr vs i (Live (mk_vrt None (fresh 0))), RUnit, []) else vskip vs
  | VNewVal i a v =>
    if dead_at vs i && Nat.ltb a nalt then
      (wr vs i (Live (mk_vrt (Some a) (fresh v))), RUnit,
       from_value_evs 0 (sv i) ++ [EDestroy (st 1); EDestroy (st 0); EDestroy sa])
    else vskip vs
  | VNewCopy i j =>
    match dead_at vs i, live_at vs j with
    | true, Some s =>
      (wr vs i (Live (mk_vrt (tag s) (fresh (val (vv s))))), RUnit,
       if has_tag s then [EUse (sv j); EConstruct (sv i)] else [])
    | _, _ => vskip vs
    end
  | VNewMove i j =>
    match dead_at vs i, live_at vs j with
    | true, Some s =>
      ((if has_tag s then vmark k else fun x _ => x) (wr vs i (Live (mk_vrt (tag s) (fresh (val (vv s)))))) j, RUnit,
       if has_tag s then [EUse (sv j); EConstruct (sv i)] else [])
    | _, _ => vskip vs
    end
  | VDel i =>
    match live_at vs i with
    | Some d => (wr vs i Dead, RUnit, if has_tag d then [EDestroy (sv i)] else [])
    | None => vskip vs
    end
  | VAssign i j => var_assign k false vs i j
  | VMAssign i j => var_assign k true vs i j
  | VAssignVal i a v =>
    match live_at vs i with
    | Some me =>
      if Nat.ltb a nalt then
        (* parameter object = slot t0, construct_ parameter = t1, storage of `other` = t2 *)
        let '(vs1, e) := var_assign_body me vs i sl_val (Some a) v in
        (vs1, RUnit, from_value_evs 0 (st 2) ++ [EDestroy (st 1)] ++ e ++ [EDestroy (st 2); EDestroy (st 0); EDestroy sa])
      else vskip vs
    | None => vskip vs
    end
  | VEmplace i a v =>
    match live_at vs i with
    | Some d =>
      if Nat.ltb a nalt then
        if throws v then   (* destruct_ has set tag_ = invalid_tag before the placement new throws *)
          (wr vs i (Live (mk_vrt None (vv d))), RThrow, if has_tag d then [EDestroy (sv i)] else [])
        else
        (wr vs i (Live (mk_vrt (Some a) (fresh v))), RUnit,
         (if has_tag d then [EDestroy (sv i)] else []) ++ [EConstruct (sv i)])
      else vskip vs
    | None => vskip vs
    end
  | VGet i a | VCGet i a => if Nat.ltb a nalt then var_get vs i a else vskip vs
  | VIs i a =>
    match live_at vs i with
    | Some d => if Nat.ltb a nalt then (vs, RBool (tag_eqb (tag d) (Some a)), []) else vskip vs
    | None => vskip vs end
  | VTag i =>
    match live_at vs i with
    | Some d => (vs, match tag d with Some a => RVal (N.of_nat a) | None => RNone end, [])
    | None => vskip vs end
  | VBoolOp i => match live_at vs i with Some d => (vs, RBool (has_tag d), []) | None => vskip vs end
  | VApply i =>
    match live_at vs i with
    | Some d =>
      match tag d with
      | Some a => (vs, RVal (apply_f a (val (vv d))), [EUse (sv i)])
      | None => (vs, RAssert, [])
      end
    | None => vskip vs end
  end.

Definition var_dtor (i : nat) (d : vrt) : list ev := if has_tag d then [EDestroy (sv i)] else [].
Definition vrun (nalt : nat) (k : ekind) := run (vstep nalt k).
Definition vfinish := finish var_dtor.
Definition vvars0 (n : nat) : vvars := repeat Dead n.

(* ---- reference: a tagged value or nothing (std::variant with monostate as the empty state) ---- *)
Definition rvvars := list (cell (option (nat * N))).
Definition rvstep (nalt : nat) (vs : rvvars) (o : vop) : rvvars * out :=
  match o with
  | VNew i => if dead_at vs i then (wr vs i (Live None), RUnit) else (vs, RSkip)
  | VNewVal i a v =>
    if dead_at vs i && Nat.ltb a nalt then (wr vs i (Live (Some (a, v))), RUnit) else (vs, RSkip)
  | VNewCopy i j | VNewMove i j =>
    match dead_at vs i, live_at vs j with
    | true, Some s => (wr vs i (Live s), RUnit)
    | _, _ => (vs, RSkip)
    end
  | VDel i => match live_at vs i with Some _ => (wr vs i Dead, RUnit) | None => (vs, RSkip) end
  | VAssign i j | VMAssign i j =>
    match live_at vs i, live_at vs j with
    | Some _, Some s => (wr vs i (Live s), RUnit)
    | _, _ => (vs, RSkip)
    end
  | VAssignVal i a v =>
    match live_at vs i with
    | Some _ => if Nat.ltb a nalt then (wr vs i (Live (Some (a, v))), RUnit) else (vs, RSkip)
    | None => (vs, RSkip) end
  | VEmplace i a v =>    (* std::variant::emplace: on an exception the variant is valueless (here: empty) *)
    match live_at vs i with
    | Some _ => if Nat.ltb a nalt then
                  if throws v then (wr vs i (Live None), RThrow) else (wr vs i (Live (Some (a, v))), RUnit)
                else (vs, RSkip)
    | None => (vs, RSkip) end
  | VGet i a | VCGet i a =>
    if Nat.ltb a nalt then
      match live_at vs i with
      | Some (Some (b, v)) => if Nat.eqb b a then (vs, RVal v) else (vs, RAssert)
      | Some None => (vs, RAssert)
      | None => (vs, RSkip)
      end
    else (vs, RSkip)
  | VIs i a =>
    match live_at vs i with
    | Some s => if Nat.ltb a nalt then
                  (vs, RBool (match s with Some (b, _) => Nat.eqb b a | None => false end))
                else (vs, RSkip)
    | None => (vs, RSkip) end
  | VTag i =>
    match live_at vs i with
    | Some (Some (b, _)) => (vs, RVal (N.of_nat b)) | Some None => (vs, RNone) | None => (vs, RSkip) end
  | VBoolOp i =>
    match live_at vs i with
    | Some s => (vs, RBool (match s with Some _ => true | None => false end)) | None => (vs, RSkip) end
  | VApply i =>
    match live_at vs i with
    | Some (Some (b, v)) => (vs, RVal (apply_f b v)) | Some None => (vs, RAssert) | None => (vs, RSkip) end
  end.
Definition rvrun (nalt : nat) := run (fun vs o => let '(a, b) := rvstep nalt vs o in (a, b, @nil ev)).
Definition abs_var (d : vrt) : option (nat * N) :=
  match tag d with Some a => Some (a, val (vv d)) | None => None end.
